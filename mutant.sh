#!/bin/bash
# mutant.sh <patch.diff> <ID> [tier]  — run a check against a scratch copy of /repo with a patch applied.
# /repo is never touched. Prints the check's output; exit code is the check's exit code.
# With TESTS=1 also runs golib's own test suite on the patched copy first (must pass).
set -u
PATCH=$(readlink -f "$1"); ID=$2; TIER=${3:-quick}
S=$(mktemp -d /dev/shm/verif-mut-XXXXXX)
trap 'rm -rf "$S"' EXIT
mkdir -p "$S/repo" "$S/out" "$S/work"
git -C /repo archive HEAD | tar -x -C "$S/repo"
# carry over uncommitted edits of /repo as well (checks follow the working tree)
git -C /repo diff HEAD | (cd "$S/repo" && patch -p1 -s) 2>/dev/null
(cd "$S/repo" && patch -p1 -s < "$PATCH") || { echo "patch does not apply"; exit 3; }
export GOFLAGS=-mod=mod GOPROXY=off GOSUMDB=off GOTOOLCHAIN=local GOCACHE=${VERIF_GOCACHE:-/verif/.cache/go-build}
if [ "${TESTS:-0}" = 1 ]; then
  (cd "$S/repo" && go build ./... && go test -vet=off -count=1 ./... 2>&1 | grep -v '^ok\|no test files' ; exit ${PIPESTATUS[0]}) || { echo "MUTANT-FAILS-OWN-TESTS"; exit 4; }
  echo "golib's own tests pass with the patch"
fi
VERIF_REPO="$S/repo" VERIF_OUT="$S/out" VERIF_WORKDIR="$S/work" /verif/check.sh "$ID" "$TIER"
rc=$?
echo "mutant exit=$rc"
exit $rc
