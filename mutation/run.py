#!/usr/bin/env python3
"""Mutation testing of the CHECKS. For every small syntactic mutant (go/cmd/mutgen) of every file a
property is anchored in: phase 1 keeps the mutants that build and that the tests of the mutated
package (and of the packages listed in DEPENDENTS) do not notice; phase 2 runs the quick tier of the
checks of that file's properties against them. Results: mutation/RESULTS.tsv (one line per surviving
mutant: file, id, line, description, then check=exit ...). Usage: run.py [file-substring] [workers]"""
import json, os, subprocess, sys, shutil, multiprocessing as mp

ENV = dict(os.environ, GOFLAGS='-mod=mod', GOPROXY='off', GOSUMDB='off', GOTOOLCHAIN='local', GOCACHE='/verif/.cache/go-build')
DEPENDENTS = {'listz': ['setz'], 'strz': ['hashz', 'cryptz'], 'hashz': ['randz'], 'typez': []}
MUTGEN = '/verif/.work/bin/mutgen'
COST = dict(C01=17, C02=2, C03=10, C04=3, C05=7, C06=19, C07=4, C08=6, C09=35, C10=1, C11=6, C12=10, C13=1, C14=2, C15=6, C16=10, C17=4, C18=6, C19=13, C20=4)
STRIDE = int(os.environ.get('MUT_STRIDE', '1'))
DEADLINE = float(os.environ.get('MUT_DEADLINE', '0'))
OFFSET = int(os.environ.get('MUT_OFFSET', '0'))  # with MUT_STRIDE=2: 0 = even mutant ids, 1 = odd ones
ONLY = [x for x in os.environ.get('MUT_FILES', '').split(',') if x]  # restrict to these files

def files():
    out = {}
    for l in open('/verif/properties.jsonl'):
        d = json.loads(l)
        for f in d['anchors']['files']:
            out.setdefault(f, []).append(d['id'])
    # the sequential SyncRing / skip-list behaviour is also judged by the neighbouring checks
    return out

def worker(args):
    wid, jobs = args
    root = f'/dev/shm/mutw-{wid}'
    shutil.rmtree(root, ignore_errors=True)
    os.makedirs(root + '/repo')
    subprocess.run(f'git -C /repo archive HEAD | tar -x -C {root}/repo', shell=True, check=True)
    res = []
    import time
    for f, ids, mid, line, desc in jobs:
        if DEADLINE and time.time() > DEADLINE:
            break
        path = f'{root}/repo/{f}'
        orig = open(path, 'rb').read()
        mutated = subprocess.run([MUTGEN, '-apply', str(mid), f'/repo/{f}'], capture_output=True)
        if mutated.returncode != 0:
            continue
        open(path, 'wb').write(mutated.stdout)
        try:
            pkg = os.path.dirname(f)
            pkgs = ['./' + pkg + '/'] + ['./' + p + '/' for p in DEPENDENTS.get(pkg, [])]
            b = subprocess.run(['go', 'build', './...'], cwd=root + '/repo', env=ENV, capture_output=True)
            if b.returncode != 0:
                continue  # does not compile
            try:
                t = subprocess.run(['go', 'test', '-vet=off', '-count=1', '-timeout', '90s'] + pkgs, cwd=root + '/repo', env=ENV, capture_output=True, timeout=200)
            except subprocess.TimeoutExpired:
                continue
            if t.returncode != 0:
                continue  # killed by golib's own tests
            verdict = []
            for cid in sorted(ids, key=lambda c: COST.get(c, 10)):
                if verdict and verdict[-1].split('=')[1] == '1':
                    break  # already reported by a cheaper check
                env = dict(ENV, VERIF_REPO=root + '/repo', VERIF_OUT=root + '/out', VERIF_WORKDIR=root + '/work')
                try:
                    c = subprocess.run(['/verif/check.sh', cid, 'quick'], env=env, capture_output=True, text=True, timeout=900)
                    rc = c.returncode
                    if rc == 0 and 'exhaustive=false' in c.stdout:
                        rc = '0(capped)'
                except subprocess.TimeoutExpired:
                    rc = 'timeout'
                verdict.append(f'{cid}={rc}')
            res.append((f, mid, line, desc, ' '.join(verdict)))
            print(f, mid, line, desc, ' '.join(verdict), flush=True)
        finally:
            open(path, 'wb').write(orig)
    shutil.rmtree(root, ignore_errors=True)
    return res

def main():
    sub = sys.argv[1] if len(sys.argv) > 1 else ''
    nw = int(sys.argv[2]) if len(sys.argv) > 2 else 6
    jobs = []
    for f, ids in sorted(files().items()):
        if sub not in f or (ONLY and f not in ONLY):
            continue
        for l in subprocess.run([MUTGEN, '-list', '/repo/' + f], capture_output=True, text=True).stdout.splitlines():
            mid, line, desc = l.split('\t')
            if int(mid) % STRIDE == OFFSET % STRIDE:
                jobs.append((f, ids, int(mid), int(line), desc))
    if os.environ.get('MUT_SHUFFLE'):
        import random
        random.Random(int(os.environ['MUT_SHUFFLE'])).shuffle(jobs)  # a deadline then cuts every file alike
    print(len(jobs), 'mutants', flush=True)
    chunks = [(i, jobs[i::nw]) for i in range(nw)]
    with mp.Pool(nw) as pool:
        allres = [r for rs in pool.map(worker, chunks) for r in rs]
    allres.sort()
    tag = (sub.replace('/', '_') or 'all') + os.environ.get('MUT_TAG', '')
    with open(f'/verif/mutation/RESULTS_{tag}.tsv', 'w') as o:
        for r in allres:
            o.write('\t'.join(map(str, r)) + '\n')
    surv = len(allres)
    missed = [r for r in allres if all(v.split('=')[1] in ('0', '0(capped)') for v in r[4].split())]
    print(f'survivors of golib tests: {surv}; not reported by any check: {len(missed)}')

if __name__ == '__main__':
    main()
