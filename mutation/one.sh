#!/bin/bash
# one.sh <file> <mutant-id> <CID> [tier]: apply ONE mutgen mutant to a scratch copy of /repo and run one check against it.
set -u
export GOFLAGS=-mod=mod GOPROXY=off GOSUMDB=off GOTOOLCHAIN=local GOCACHE=/verif/.cache/go-build
f=$1; id=$2; cid=$3; tier=${4:-quick}
root=/dev/shm/mutone-$$
rm -rf $root; mkdir -p $root/repo
git -C /repo archive HEAD | tar -x -C $root/repo
/verif/.work/bin/mutgen -apply $id /repo/$f > $root/repo/$f || { echo "mutgen failed"; rm -rf $root; exit 3; }
diff <(git -C /repo show HEAD:$f) $root/repo/$f
VERIF_REPO=$root/repo VERIF_OUT=$root/out VERIF_WORKDIR=$root/work /verif/check.sh $cid $tier 2>&1 | tail -${TAIL:-6}
rc=${PIPESTATUS[0]}
rm -rf $root
echo "exit=$rc"
