#!/bin/bash
# seed_verify.sh <ID> <name> [tier]  — take an independently produced seeded change from
# /tmp/seed-<ID>-out/<name>/, confirm it (suite passes with it, demo fails with it and passes
# without it) on scratch copies of /repo, run the property's check against it, and keep it as
# /verif/seeded/<ID>-<name>/ with a meta.json recording what was run.
set -u
ID=$1; NAME=$2; TIER=${3:-quick}
SRC=/tmp/seed-$ID-out/$NAME
DST=/verif/seeded/$ID-$NAME
[ -f $SRC/patch.diff ] || [ -f $DST/patch.diff ] || { echo "no patch for $ID $NAME"; exit 2; }
mkdir -p $DST
if [ -d $SRC ]; then cp -f $SRC/patch.diff $DST/; cp -f $SRC/demo_test.go $DST/ 2>/dev/null; cp -f $SRC/notes.md $DST/ 2>/dev/null; fi
export GOFLAGS=-mod=mod GOPROXY=off GOSUMDB=off GOTOOLCHAIN=local GOCACHE=/verif/.cache/go-build
S=$(mktemp -d /dev/shm/verif-seed-XXXXXX); trap 'rm -rf "$S"' EXIT
mkdir -p $S/clean $S/mut
git -C /repo archive HEAD | tar -x -C $S/clean; git -C /repo archive HEAD | tar -x -C $S/mut
(cd $S/mut && patch -p1 -s < $DST/patch.diff) || { echo "patch does not apply"; exit 3; }
pkg=$(grep -m1 -o 'place in: *[a-z/]*' $DST/demo_test.go 2>/dev/null | sed 's/place in: *//; s#/$##')
[ -z "$pkg" ] && pkg=$(grep -m1 '^+++ b/' $DST/patch.diff | sed 's#+++ b/##; s#/[^/]*$##')
(cd $S/mut && go build ./... && go test -vet=off -count=1 ./... > $S/suite.log 2>&1); suite=$?
cp $DST/demo_test.go $S/clean/$pkg/zz_demo_test.go; cp $DST/demo_test.go $S/mut/$pkg/zz_demo_test.go
RACEFLAG=""; if [ "${RACE:-0}" = 1 ] || grep -q '^//go:build race' $DST/demo_test.go; then RACEFLAG="-race"; fi
(cd $S/clean && timeout 900 go test $RACEFLAG -vet=off -count=1 ./$pkg/ > $S/demo_clean.log 2>&1); dclean=$?
(cd $S/mut && timeout 900 go test $RACEFLAG -vet=off -count=1 ./$pkg/ > $S/demo_mut.log 2>&1); dmut=$?
out=$(/verif/mutant.sh $DST/patch.diff $ID $TIER 2>&1); code=$?
viol=$(echo "$out" | grep -m1 '^  violation' | cut -c1-400)
echo "$out" | tail -40 > $DST/check_output.txt
RACEFLAG_USED=$RACEFLAG python3 - "$ID" "$NAME" "$suite" "$dclean" "$dmut" "$code" "$viol" "$pkg" "$TIER" <<'PY'
import json,sys,os
ID,NAME,suite,dclean,dmut,code,viol,pkg,tier=sys.argv[1:10]
dst=f"/verif/seeded/{ID}-{NAME}"
notes=open(dst+"/notes.md").read() if os.path.exists(dst+"/notes.md") else ""
meta={"property":ID,"name":NAME,"package":pkg,
 "needs_to_manifest": "see notes.md",
 "confirmed":{"golib_suite_passes_with_patch": suite=="0","demo_passes_without_patch": dclean=="0","demo_fails_with_patch": dmut!="0"},
 "ran":[f"go build ./... && go test -vet=off -count=1 ./...  (patched scratch copy) -> exit {suite}",
        f"go test {os.environ.get('RACEFLAG_USED','')} ./{pkg}/ with demo_test.go on the clean copy -> exit {dclean}",
        f"go test {os.environ.get('RACEFLAG_USED','')} ./{pkg}/ with demo_test.go on the patched copy -> exit {dmut}",
        f"/verif/mutant.sh patch.diff {ID} {tier} -> exit {code}"],
 "check_exit":int(code),"first_violation":viol,
 "caught_by":[ID] if code=="1" and viol else []}
json.dump(meta,open(dst+"/meta.json","w"),indent=1)
print(ID,NAME,"suite",suite,"demo clean",dclean,"demo mut",dmut,"check",code,"|",viol[:200])
PY
