#!/bin/bash
# /verif/check.sh <ID> <quick|thorough> [--replay <file>] [extra harness flags]
# Rebuilds the property's harness against /repo's current working tree (through the
# instrumentation overlay where the property needs one) and runs it.
# exit 0 = held on everything explored, 1 = VIOLATION, 2 = the check itself could not run.
set -u
ID=${1:?usage: check.sh <ID> <quick|thorough>}
TIER=${2:-quick}
shift; [ $# -gt 0 ] && shift
VERIF=${VERIF_ROOT:-/verif}
REPO=${VERIF_REPO:-/repo}
export VERIF_ROOT=$VERIF
export GOFLAGS=-mod=mod GOPROXY=off GOSUMDB=off GOTOOLCHAIN=local
export GOCACHE=${VERIF_GOCACHE:-/verif/.cache/go-build}
export VERIF_REPO_HEAD=$(git -C $REPO rev-parse --short HEAD 2>/dev/null)
export VERIF_REPO_DIRTY=$(git -C $REPO status --porcelain 2>/dev/null | grep -v '^??' | wc -l)
lc=$(echo "$ID" | tr 'A-Z' 'a-z')
WORK=${VERIF_WORKDIR:-$VERIF/.work}/$ID
mkdir -p "$WORK" "$VERIF/.work/bin" "$VERIF/evidence" "$VERIF/replays"
cd "$VERIF/go" || exit 2
if [ ! -d "cmd/$lc" ]; then echo "CHECK-ERROR: no harness for $ID" >&2; exit 2; fi

OVERLAY=()
if [ -f "specs/$ID.json" ]; then
  if [ ! -x "$VERIF/.work/bin/vrewrite" ] || [ -n "$(find cmd/vrewrite -newer "$VERIF/.work/bin/vrewrite" -name '*.go' 2>/dev/null)" ]; then
    go build -o "$VERIF/.work/bin/vrewrite" ./cmd/vrewrite || { echo "CHECK-ERROR: cannot build vrewrite" >&2; exit 2; }
  fi
  "$VERIF/.work/bin/vrewrite" -repo "$REPO" -shim "$VERIF/go/shim" -spec "specs/$ID.json" -out "$WORK" > "$WORK/vrewrite.log" 2>&1 \
    || { cat "$WORK/vrewrite.log" >&2; echo "CHECK-ERROR: instrumenter refused the current sources" >&2; exit 2; }
  OVERLAY=(-overlay "$WORK/overlay.json")
  export VERIF_OVERLAY="$WORK/overlay.json"
fi
BIN="$VERIF/.work/bin/$lc"
MODFILE=()
if [ "$REPO" != "/repo" ]; then
  # scratch copy of golib (seeded-fault runs): same module, other replace target
  sed "s#=> /repo#=> $REPO#" go.mod > "$WORK/alt.mod"; cp go.sum "$WORK/alt.sum"
  MODFILE=(-modfile "$WORK/alt.mod")
  BIN="$WORK/$lc.alt"
fi
if ! go build "${MODFILE[@]}" "${OVERLAY[@]}" -o "$BIN" "./cmd/$lc" 2> "$WORK/build.log"; then
  cat "$WORK/build.log" >&2
  echo "CHECK-ERROR: harness for $ID does not build against the current /repo tree" >&2
  exit 2
fi
export VERIF_WORK="$WORK"
"$BIN" -tier "$TIER" "$@"
rc=$?
# Supplementary, non-deciding: on the thorough tier the concurrency properties also get a
# free-running pass of real goroutines on the UNINSTRUMENTED code under Go's race detector
# (DESIGN.md §3.5 / §11). A report of the detector is a violation too (it has no false positives).
if [ $rc -eq 0 ] && [ "$TIER" = thorough ] && [ $# -eq 0 ] && [ -f "freerun/${lc}_test.go" ]; then
  OUT=${VERIF_OUT:-$VERIF}
  go test "${MODFILE[@]}" -race -vet=off -count=1 -run "Test${ID}\$" ./freerun/ > "$WORK/freerun.log" 2>&1
  frc=$?
  races=$(grep -c "WARNING: DATA RACE" "$WORK/freerun.log")
  python3 - "$OUT/evidence/$ID.json" "$frc" "$races" <<'PY'
import json,sys
p,frc,races=sys.argv[1],int(sys.argv[2]),int(sys.argv[3])
try:
    e=json.load(open(p)); e["coverage"]["free_running_race_pass"]={"command":"go test -race ./freerun/ (uninstrumented golib, real goroutines)","exit":frc,"data_race_reports":races,"role":"supplementary, not deciding"}
    json.dump(e,open(p,"w"),indent=1)
except Exception as ex:
    print("could not annotate evidence:",ex)
PY
  if [ "$races" -gt 0 ] || [ $frc -ne 0 ]; then
    mkdir -p "$OUT/replays"; cp "$WORK/freerun.log" "$OUT/replays/$ID-freerun.log"
    grep -m3 -A12 "WARNING: DATA RACE\|^--- FAIL\|^    .*_test.go" "$WORK/freerun.log" | head -40
    echo "VIOLATION property=$ID replay=$OUT/replays/$ID-freerun.log"
    rc=1
  else
    echo "$ID free-running -race pass: clean"
  fi
fi
exit $rc
