// Package sched is the explorer of engine E1: stateless depth-first enumeration of the schedules
// of a scenario with iterative preemption bounding and happens-before state matching. Every
// execution runs the real (instrumented) golib code under the cooperative scheduler of
// vshim/core.
package sched

import (
	"fmt"
	"os"
	"runtime"
	"runtime/debug"
	"sort"
	"strconv"
	"strings"
	"time"

	"github.com/welllog/golib/vshim/core"
)

// Scenario describes one closed system: Build creates a fresh object and registers the virtual
// threads on x; Final is the sequential epilogue; Check judges a complete execution.
type Scenario struct {
	Name  string
	Build func(x *core.Exec) any
	Final func(x *core.Exec, ctx any)
	Check func(x *core.Exec, ctx any) *core.Failure
	// Probe is evaluated (read-only!) at every newly discovered state with all threads frozen.
	Probe func(x *core.Exec, ctx any) *core.Failure
	// MutProbe may modify the object; it runs on a re-execution of the prefix that is then discarded.
	MutProbe func(x *core.Exec, ctx any) *core.Failure
	NoRace   bool // disable plain-access race detection for this scenario
	// AfterAll is evaluated once after the exploration completed without violation (reachability
	// facts accumulated by the harness over all executions).
	AfterAll func() *core.Failure
	// AfterAllMinBound: AfterAll is only meaningful (and only evaluated) when the exploration
	// completed at least this preemption bound — a reachability claim over a smaller set of
	// schedules would be a false alarm.
	AfterAllMinBound int
}

const Unbounded = 1 << 20

type succKey struct {
	k core.H
	t int8
}

type point struct {
	key        core.H
	enabled    []int
	chosen     int
	curEnabled bool
	pre        int // preemptions before this point
}

type Violation struct {
	Scenario string         `json:"scenario"`
	Sig      string         `json:"signature"`
	What     string         `json:"what"`
	Bound    int            `json:"preemption_bound"`
	Preempt  int            `json:"preemptions"`
	Schedule []int          `json:"schedule"` // thread id chosen at every scheduling point
	History  []*core.OpRec  `json:"history"`
	Threads  map[int]string `json:"threads"`
	Probe    string         `json:"probe,omitempty"` // "probe" / "mutprobe": the violation was observed by a state probe after the schedule
}

type BoundStat struct {
	Bound      int   `json:"bound"`
	Executions int64 `json:"executions"`
	Pruned     int64 `json:"pruned"`
	States     int   `json:"states"`
	Steps      int64 `json:"steps"`
	Histories  int   `json:"distinct_histories"`
	Complete   bool  `json:"complete"`
}

type Result struct {
	Scenario   string       `json:"scenario"`
	PerBound   []BoundStat  `json:"per_bound"`
	Executions int64        `json:"executions"`
	States     int          `json:"states"`      // at the largest bound completed
	Steps      int64        `json:"transitions"` // scheduler steps executed (all bounds)
	Histories  int          `json:"distinct_histories"`
	Outcomes   int          `json:"distinct_outcomes"`
	MaxBound   int          `json:"max_bound_completed"` // Unbounded if the space closed without a bound
	Probes     int64        `json:"state_probes"`
	Violation  *Violation   `json:"violation,omitempty"`
	Known      []*Violation `json:"known,omitempty"` // first execution per recorded known finding; exploration continued past them
	CapHit     string       `json:"cap_hit,omitempty"`
	SampleHist string       `json:"sample_history,omitempty"`
}

type Explorer struct {
	sc       Scenario
	bound    int
	visited  map[core.H]int32
	hist     map[string]struct{}
	outcomes map[string]struct{}
	deadline time.Time
	stat     BoundStat
	probes   int64
	viol     *Violation
	expired  bool
	memCap   bool
	known    map[string]*Violation // signature -> first failing execution of a recorded known finding
	sample   string
	maxExec  int64
	probed   map[core.H]struct{} // states already probed at a smaller bound
	succ     map[succKey]core.H  // (state, thread chosen) -> next state, learnt from executions (deterministic)
	skipped  int64
}

type runResult struct {
	x      *core.Exec
	ctx    any
	points []point
	pruned bool
	newAt  []int // indices of points whose state was new (for MutProbe)
	probe  string
}

// run executes one schedule: follows choices (indices into the enabled list) as far as they go,
// then takes choice 0. probeAt >= 0: stop at that point, run MutProbe there and abandon.
func (e *Explorer) run(choices []int, probeAt int, follow bool) *runResult {
	x := core.NewExec()
	x.RaceCheck = !e.sc.NoRace
	rr := &runResult{x: x}
	pre := 0
	var prevKey core.H
	prevT := -1
	x.Strategy = func(p *core.PointInfo) int {
		i := len(rr.points)
		if prevT >= 0 && e.succ != nil {
			e.succ[succKey{prevKey, int8(prevT)}] = p.Key
		}
		prevT = -1
		if probeAt >= 0 && i == probeAt {
			x.Sequentially(func() {
				if f := e.sc.MutProbe(x, rr.ctx); f != nil {
					x.FailNow(f.Sig, f.What)
				}
			})
			return -1
		}
		idx := 0
		if i < len(choices) {
			idx = choices[i]
			if idx >= len(p.Enabled) {
				x.FailNow("replay-divergence", fmt.Sprintf("recorded choice %d at point %d but only %d threads enabled", idx, i, len(p.Enabled)))
				return -1
			}
		} else if !follow {
			rem := int32(e.bound - pre)
			if old, ok := e.visited[p.Key]; ok && old >= rem {
				rr.pruned = true
				return -1
			}
			_, seen := e.visited[p.Key]
			e.visited[p.Key] = rem
			if !seen && e.probed != nil {
				if _, done := e.probed[p.Key]; done {
					seen = true
				} else {
					e.probed[p.Key] = struct{}{}
				}
			}
			if !seen {
				if e.sc.Probe != nil {
					e.probes++
					var f *core.Failure
					x.Sequentially(func() { f = e.sc.Probe(x, rr.ctx) })
					if f != nil {
						x.FailNow(f.Sig, f.What)
						rr.probe = "probe"
						return -1
					}
				}
				if e.sc.MutProbe != nil {
					rr.newAt = append(rr.newAt, i)
				}
			}
		}
		rr.points = append(rr.points, point{key: p.Key, enabled: append([]int(nil), p.Enabled...), chosen: idx, curEnabled: p.CurEnabled, pre: pre})
		if p.CurEnabled && idx != 0 {
			pre++
		}
		prevKey, prevT = p.Key, p.Enabled[idx]
		return idx
	}
	core.X = x
	if f := safeBuild(e.sc, x, &rr.ctx); f != nil {
		x.Fail = f
	} else {
		x.Run()
	}
	e.stat.Steps += int64(x.Steps())
	if x.Fail == nil && !x.Pruned && probeAt < 0 {
		if e.sc.Final != nil {
			x.Fail = safeFinal(e.sc, x, rr.ctx)
		}
		if x.Fail == nil && e.sc.Check != nil {
			if f := e.sc.Check(x, rr.ctx); f != nil {
				x.Fail = f
			}
		}
	}
	core.X = nil
	return rr
}

// safeBuild runs the scenario's sequential set-up; a panic of golib code in it (constructor,
// pre-fill) is a violation of the execution, not a failure of the explorer.
func safeBuild(sc Scenario, x *core.Exec, ctx *any) (f *core.Failure) {
	defer func() {
		if p := recover(); p != nil {
			st := string(debug.Stack())
			site := "harness"
			for _, ln := range strings.Split(st, "\n") {
				if strings.HasPrefix(ln, "github.com/welllog/golib/") && !strings.Contains(ln, "/vshim/") {
					site = strings.TrimPrefix(ln, "github.com/welllog/golib/")
					if i := strings.LastIndex(site, "("); i > 0 {
						site = site[:i]
					}
					break
				}
			}
			lines := strings.Split(st, "\n")
			if len(lines) > 24 {
				lines = lines[:24]
			}
			f = &core.Failure{Sig: "panic|setup|" + strings.ReplaceAll(site, "[...]", ""), What: fmt.Sprintf("panic while building the scenario (constructor / sequential pre-fill): %v\n%s", p, strings.Join(lines, "\n"))}
		}
	}()
	*ctx = sc.Build(x)
	return nil
}

func (rr *runResult) schedule() []int {
	s := make([]int, len(rr.points))
	for i, p := range rr.points {
		s[i] = p.enabled[p.chosen]
	}
	return s
}

func (rr *runResult) choices(n int) []int {
	c := make([]int, n)
	for i := 0; i < n; i++ {
		c[i] = rr.points[i].chosen
	}
	return c
}

// HistoryKey is a canonical text of (operations, results, real-time precedence).
func HistoryKey(h []*core.OpRec) string {
	ops := append([]*core.OpRec(nil), h...)
	sort.SliceStable(ops, func(i, j int) bool {
		if ops[i].Thread != ops[j].Thread {
			return ops[i].Thread < ops[j].Thread
		}
		return ops[i].Call < ops[j].Call
	})
	var sb strings.Builder
	for _, o := range ops {
		fmt.Fprintf(&sb, "T%d.%s(%v)=%v;", o.Thread, o.Name, o.Arg, o.Res)
	}
	sb.WriteByte('|')
	for i, a := range ops {
		for j, b := range ops {
			if i != j && a.Ret < b.Call {
				fmt.Fprintf(&sb, "%d<%d,", i, j)
			}
		}
	}
	return sb.String()
}

func outcomeKey(h []*core.OpRec) string {
	ops := append([]*core.OpRec(nil), h...)
	sort.SliceStable(ops, func(i, j int) bool {
		if ops[i].Thread != ops[j].Thread {
			return ops[i].Thread < ops[j].Thread
		}
		return ops[i].Call < ops[j].Call
	})
	var sb strings.Builder
	for _, o := range ops {
		fmt.Fprintf(&sb, "T%d.%s(%v)=%v;", o.Thread, o.Name, o.Arg, o.Res)
	}
	return sb.String()
}

func (e *Explorer) explore(prefix []int) {
	if e.viol != nil || e.expired {
		return
	}
	if time.Now().After(e.deadline) || (e.maxExec > 0 && e.stat.Executions >= e.maxExec) {
		e.expired = true
		return
	}
	if e.stat.Executions&0x3ff == 0x3ff && overMemory() {
		// the sandbox has no memory limit: a worker whose tables outgrow its share stops like one
		// that met its deadline (exhaustive:false for this bound, exit 0)
		e.expired = true
		e.memCap = true
		return
	}
	rr := e.run(prefix, -1, false)
	e.stat.Executions++
	x := rr.x
	if rr.pruned && x.Fail == nil {
		e.stat.Pruned++
	} else if x.Fail != nil {
		if !e.noteKnown(rr, x.Fail) {
			e.fail(rr, x.Fail)
			return
		}
		// a recorded known finding: this execution ends here; the search goes on so that a
		// different violation of the same scenario is still found
	} else {
		hk := HistoryKey(x.Hist)
		if _, ok := e.hist[hk]; !ok {
			e.hist[hk] = struct{}{}
			if e.sample == "" || len(e.hist) == 7 {
				e.sample = outcomeKey(x.Hist)
			}
		}
		e.outcomes[outcomeKey(x.Hist)] = struct{}{}
	}
	// destructive probes of the states first seen in this execution
	for _, i := range rr.newAt {
		if i >= len(rr.points) {
			continue
		}
		pr := e.run(rr.choices(i), i, true)
		e.probes++
		if pr.x.Fail != nil {
			pr.points = rr.points[:i]
			pr.probe = "mutprobe"
			if e.noteKnown(pr, pr.x.Fail) {
				continue
			}
			e.fail(pr, pr.x.Fail)
			return
		}
	}
	for i := len(prefix); i < len(rr.points); i++ {
		p := rr.points[i]
		for alt := 1; alt < len(p.enabled); alt++ {
			cost := p.pre
			if p.curEnabled {
				cost++
			}
			if cost > e.bound {
				break
			}
			if k2, ok := e.succ[succKey{p.key, int8(p.enabled[alt])}]; ok {
				// the successor state is known from an earlier execution: if it was already explored
				// with at least this much budget, running the schedule again would be pruned at once
				if old, seen := e.visited[k2]; seen && old >= int32(e.bound-cost) {
					e.skipped++
					continue
				}
			}
			np := make([]int, i+1)
			copy(np, rr.choices(i))
			np[i] = alt
			e.explore(np)
			if e.viol != nil || e.expired {
				return
			}
		}
	}
}

// safeFinal runs the sequential epilogue of a scenario; a panic raised by golib there (a misuse
// panic of a lock, an index out of range, a shim's "would block forever") is a violation of the
// execution, not a failure of the explorer.
func safeFinal(sc Scenario, x *core.Exec, ctx any) (f *core.Failure) {
	defer func() {
		if p := recover(); p != nil {
			st := string(debug.Stack())
			site := "harness"
			for _, ln := range strings.Split(st, "\n") {
				if strings.HasPrefix(ln, "github.com/welllog/golib/") && !strings.Contains(ln, "/vshim/") {
					site = strings.TrimPrefix(ln, "github.com/welllog/golib/")
					if i := strings.LastIndex(site, "("); i > 0 {
						site = site[:i]
					}
					break
				}
			}
			f = &core.Failure{Sig: "panic|epilogue|" + strings.ReplaceAll(site, "[...]", ""), What: fmt.Sprintf("panic in the sequential epilogue after all threads had finished (drain / final reads on the object the threads left behind): %v", p)}
		}
	}()
	sc.Final(x, ctx)
	return nil
}

// KnownSigs holds the signatures (with the scenario class appended, as they are reported) of the
// findings recorded as known for this property; set by Main in the parent and in every worker.
var KnownSigs = map[string]bool{}

func (e *Explorer) noteKnown(rr *runResult, f *core.Failure) bool {
	full := f.Sig + "|" + scenarioClass(e.sc.Name)
	if !KnownSigs[full] {
		return false
	}
	if e.known != nil {
		if _, ok := e.known[full]; !ok {
			saved := e.viol
			e.fail(rr, f)
			e.known[full] = e.viol
			e.viol = saved
		}
	}
	return true
}

func (e *Explorer) fail(rr *runResult, f *core.Failure) {
	x := rr.x
	pre := 0
	for _, p := range rr.points {
		if p.curEnabled && p.chosen != 0 {
			pre++
		}
	}
	names := map[int]string{}
	for _, t := range x.Threads {
		names[t.ID] = t.Name
	}
	e.viol = &Violation{Scenario: e.sc.Name, Sig: f.Sig, What: f.What, Bound: e.bound, Preempt: pre, Schedule: rr.schedule(), History: x.Hist, Threads: names, Probe: rr.probe}
}

// Replay runs one recorded schedule (thread ids) in follow mode and returns the failure it
// produces (nil if none) together with the history.
func Replay(sc Scenario, schedule []int, probe string) (*core.Failure, []*core.OpRec, error) {
	e := &Explorer{sc: sc, bound: Unbounded, visited: map[core.H]int32{}}
	x := core.NewExec()
	x.RaceCheck = !sc.NoRace
	i := 0
	var diverged error
	var ctx any
	x.Strategy = func(p *core.PointInfo) int {
		if i >= len(schedule) {
			if i == len(schedule) && probe != "" {
				i++
				x.Sequentially(func() {
					var f *core.Failure
					if probe == "probe" {
						f = sc.Probe(x, ctx)
					} else {
						f = sc.MutProbe(x, ctx)
					}
					if f != nil {
						x.FailNow(f.Sig, f.What)
					}
				})
				return -1
			}
			i++
			return 0
		}
		want := schedule[i]
		i++
		for k, id := range p.Enabled {
			if id == want {
				return k
			}
		}
		diverged = fmt.Errorf("replay diverged at point %d: thread %d is not enabled (enabled %v)", i-1, want, p.Enabled)
		return -1
	}
	core.X = x
	if bf := safeBuild(sc, x, &ctx); bf != nil {
		core.X = nil
		return bf, nil, nil
	}
	x.Run()
	var f *core.Failure
	if diverged == nil {
		f = x.Fail
		if f == nil && !x.Pruned {
			if sc.Final != nil {
				f = safeFinal(sc, x, ctx)
			}
			if f == nil && sc.Check != nil {
				f = sc.Check(x, ctx)
			}
		}
	}
	core.X = nil
	_ = e
	return f, x.Hist, diverged
}

// Explore enumerates all schedules of sc with at most `bound` preemptions, iterating the bound
// 0,1,2,… (bound == Unbounded: then without a bound). It stops at the first violation.
func Explore(sc Scenario, bound int, deadline time.Time) (res Result) {
	res = Result{Scenario: sc.Name, MaxBound: -1}
	// iterative bounding: 0,1,2,… so that the first counterexample has the fewest preemptions and a
	// run stopped by its deadline still reports the largest bound it completed
	var bounds []int
	for b := 0; b <= 8 && b <= bound; b++ {
		bounds = append(bounds, b)
	}
	if bound > 8 {
		bounds = append(bounds, bound)
	}
	probed := map[core.H]struct{}{}
	succ := map[succKey]core.H{}
	hist := map[string]struct{}{}
	outcomes := map[string]struct{}{}
	known := map[string]*Violation{}
	defer func() {
		for _, v := range known {
			res.Known = append(res.Known, v)
		}
	}()
	for _, b := range bounds {
		e := &Explorer{sc: sc, bound: b, visited: map[core.H]int32{}, hist: hist, outcomes: outcomes, deadline: deadline, probed: probed, succ: succ, known: known}
		e.stat.Bound = b
		e.explore(nil)
		e.stat.States = len(e.visited)
		e.stat.Histories = len(hist)
		e.stat.Complete = !e.expired && e.viol == nil
		res.PerBound = append(res.PerBound, e.stat)
		res.Executions += e.stat.Executions
		res.Steps += e.stat.Steps
		res.Probes += e.probes
		res.States = e.stat.States
		if e.sample != "" {
			res.SampleHist = e.sample
		}
		if e.viol != nil {
			res.Violation = e.viol
			break
		}
		if e.expired {
			why := "deadline"
			if e.memCap {
				why = fmt.Sprintf("memory cap of %d MiB per worker", memCapMiB())
			}
			res.CapHit = fmt.Sprintf("%s during bound %d after %d executions", why, b, e.stat.Executions)
			break
		}
		res.MaxBound = b
	}
	if res.Violation == nil && res.CapHit == "" && sc.AfterAll != nil && res.MaxBound >= sc.AfterAllMinBound {
		if f := sc.AfterAll(); f != nil {
			res.Violation = &Violation{Scenario: sc.Name, Sig: f.Sig, What: f.What, Bound: res.MaxBound, Probe: "afterall"}
		}
	}
	res.Histories = len(hist)
	res.Outcomes = len(outcomes)
	return res
}

// memCapMiB is the heap a worker process may use for its visited / successor / history tables
// (VERIF_WORKER_MEM_MIB, default 3072: 16 workers stay below the machine's memory).
func memCapMiB() uint64 {
	if v, err := strconv.Atoi(os.Getenv("VERIF_WORKER_MEM_MIB")); err == nil && v > 0 {
		return uint64(v)
	}
	return 3072
}

func overMemory() bool {
	var m runtime.MemStats
	runtime.ReadMemStats(&m)
	return m.HeapAlloc>>20 > memCapMiB()
}
