package sched

import (
	"bytes"
	"encoding/json"
	"flag"
	"fmt"
	"os"
	"os/exec"
	"reflect"
	"sort"
	"sync"
	"time"

	"verif/common"

	"github.com/welllog/golib/vshim/core"
)

var (
	workerFlag = flag.Int("worker", -1, "internal: explore scenario #n and print the result as JSON")
	boundFlag  = flag.Int("bound", -2, "internal: preemption bound for -worker")
	secsFlag   = flag.Int("secs", 60, "internal: deadline in seconds for -worker")
	onlyFlag   = flag.String("only", "", "explore only scenarios whose name contains this text")
)

// Spec is a scenario with its bounds per tier (Unbounded = explore without a preemption bound).
type Spec struct {
	Sc           Scenario
	Quick        int
	Thorough     int
	Heavy        bool // gets a larger share of the deadline
	ThoroughOnly bool // not explored on the quick tier
}

type workerOut struct {
	Result  Result `json:"result"`
	Replays int    `json:"replays"`
	Error   string `json:"error,omitempty"`
}

// Main is the entry point of every E1 harness: parent mode shards scenarios over worker
// processes (one exploration per process, GOMAXPROCS=1), worker mode explores one scenario.
func Main(id string, specs []Spec, assumptions []string, rule string) {
	core.Controlled = true
	r := common.Start(id, "model_checking")
	for _, k := range r.KnownSignatures() {
		KnownSigs[k] = true
	}
	if *workerFlag >= 0 {
		worker(specs[*workerFlag], *boundFlag, time.Now().Add(time.Duration(*secsFlag)*time.Second))
		return
	}
	if r.ReplayFile != "" {
		replayFile(r, specs)
		return
	}
	type job struct {
		idx   int
		bound int
		secs  int
	}
	var jobs []job
	budget := int(time.Until(r.Deadline).Seconds())
	for i, s := range specs {
		if *onlyFlag != "" && !bytes.Contains([]byte(s.Sc.Name), []byte(*onlyFlag)) {
			continue
		}
		b := s.Quick
		if r.Thorough() {
			b = s.Thorough
		} else if s.ThoroughOnly {
			continue
		}
		jobs = append(jobs, job{i, b, budget})
	}
	// heavy scenarios first so that they overlap with the many small ones
	sort.SliceStable(jobs, func(a, b int) bool { return specs[jobs[a].idx].Heavy && !specs[jobs[b].idx].Heavy })
	results := make([]*workerOut, len(jobs))
	var wg sync.WaitGroup
	sem := make(chan struct{}, r.Workers)
	for k, j := range jobs {
		wg.Add(1)
		sem <- struct{}{}
		go func(k int, j job) {
			defer wg.Done()
			defer func() { <-sem }()
			left := int(time.Until(r.Deadline).Seconds())
			if left < 5 {
				left = 5
			}
			results[k] = runWorker(r, j.idx, j.bound, left)
		}(k, j)
	}
	wg.Wait()
	var states int
	var steps, execs, probes int64
	hist := 0
	families := map[string]*famAgg{}
	var famOrder []string
	for k, out := range results {
		sc := specs[jobs[k].idx].Sc
		if out.Error != "" {
			common.Infra("scenario %s: %s", sc.Name, out.Error)
		}
		res := out.Result
		states += res.States
		steps += res.Steps
		execs += res.Executions
		probes += res.Probes
		hist += res.Histories
		if res.CapHit != "" {
			r.Incomplete(res.Scenario + ": " + res.CapHit)
		}
		mb := any(res.MaxBound)
		if res.MaxBound == Unbounded {
			mb = "unbounded"
		}
		if len(jobs) <= 120 {
			sec := map[string]any{"scenario": res.Scenario, "executions": res.Executions, "states": res.States, "transitions": res.Steps,
				"distinct_histories": res.Histories, "distinct_outcomes": res.Outcomes, "state_probes": res.Probes, "per_bound": res.PerBound, "max_bound_completed": mb}
			if res.CapHit != "" {
				sec["cap_hit"] = res.CapHit
			}
			r.Section(sec)
		} else {
			// many scenarios: one evidence section per scenario family
			fam := scenarioClass(res.Scenario)
			f := families[fam]
			if f == nil {
				f = &famAgg{minBound: Unbounded}
				families[fam] = f
				famOrder = append(famOrder, fam)
			}
			f.n++
			f.execs += res.Executions
			f.states += res.States
			f.steps += res.Steps
			f.hist += res.Histories
			f.probes += res.Probes
			if res.MaxBound < f.minBound {
				f.minBound = res.MaxBound
			}
			if res.CapHit != "" {
				f.capped = append(f.capped, res.Scenario+": "+res.CapHit)
			}
			if res.Histories <= 1 && len(sc.Name) > 0 {
				f.single++
			}
		}
		if res.SampleHist != "" && k%5 == 0 {
			r.SampleL(res.Scenario, res.SampleHist)
		}
		for _, v := range res.Known {
			r.Violation(v.Sig+"|"+scenarioClass(v.Scenario), v.What+fmt.Sprintf("\n  scenario %s, %d preemption(s), schedule %v", v.Scenario, v.Preempt, v.Schedule), v, "")
		}
		if v := res.Violation; v != nil {
			r.Violation(v.Sig+"|"+scenarioClass(v.Scenario), v.What+fmt.Sprintf("\n  scenario %s, %d preemption(s), schedule %v, history:\n%s", v.Scenario, v.Preempt, v.Schedule, FormatHistory(v.History)), v, "")
		}
	}
	for _, fam := range famOrder {
		f := families[fam]
		mb := any(f.minBound)
		if f.minBound == Unbounded {
			mb = "unbounded"
		}
		sec := map[string]any{"scenario_family": fam, "scenarios": f.n, "executions": f.execs, "states": f.states, "transitions": f.steps,
			"distinct_histories": f.hist, "state_probes": f.probes, "smallest_max_bound_completed": mb, "scenarios_with_a_single_history": f.single}
		if len(f.capped) > 0 {
			sec["cap_hit"] = f.capped
		}
		r.Section(sec)
	}
	r.Eval(execs)
	r.Nontrivial(int64(hist))
	r.Cov("states", states)
	r.Cov("transitions", steps)
	r.Cov("traces_validated_against_impl", execs)
	r.Cov("executions", execs)
	r.Cov("state_probes", probes)
	r.Cov("scenarios", len(jobs))
	r.Cov("distinct_histories_total", hist)
	if inst, err := os.ReadFile(os.Getenv("VERIF_WORK") + "/instrumented.json"); err == nil {
		var v any
		if json.Unmarshal(inst, &v) == nil {
			r.Cov("instrumented_files", v)
		}
	}
	r.Assume(assumptions...)
	r.Finish(rule)
}

type famAgg struct {
	n, states, hist, single int
	execs, steps, probes    int64
	minBound                int
	capped                  []string
}

// scenarioClass is the part of a scenario name before the first '/' (the scenario family); it
// is part of the violation signature so that a known finding in one family does not hide a
// violation with the same kind in another.
func scenarioClass(name string) string {
	for i := 0; i < len(name); i++ {
		if name[i] == '/' {
			return name[:i]
		}
	}
	return name
}

func runWorker(r *common.Run, idx, bound, secs int) *workerOut {
	args := []string{"-tier", r.Tier, "-worker", fmt.Sprint(idx), "-bound", fmt.Sprint(bound), "-secs", fmt.Sprint(secs)}
	cmd := exec.Command(os.Args[0], args...)
	cmd.Env = append(os.Environ(), "GOMAXPROCS=1", "GOGC=200")
	var stdout, stderr bytes.Buffer
	cmd.Stdout, cmd.Stderr = &stdout, &stderr
	done := make(chan error, 1)
	if err := cmd.Start(); err != nil {
		return &workerOut{Error: err.Error()}
	}
	go func() { done <- cmd.Wait() }()
	select {
	case err := <-done:
		if err != nil {
			return &workerOut{Error: fmt.Sprintf("worker failed: %v\n%s", err, tail(stderr.String(), 3000))}
		}
	case <-time.After(time.Duration(secs+60) * time.Second):
		cmd.Process.Kill()
		return &workerOut{Error: "worker did not stop after its deadline"}
	}
	var out workerOut
	if err := json.Unmarshal(stdout.Bytes(), &out); err != nil {
		return &workerOut{Error: fmt.Sprintf("bad worker output: %v\n%s\n%s", err, tail(stdout.String(), 1000), tail(stderr.String(), 2000))}
	}
	return &out
}

func tail(s string, n int) string {
	if len(s) > n {
		return s[len(s)-n:]
	}
	return s
}

func worker(s Spec, bound int, deadline time.Time) {
	var out workerOut
	// golib code may print (default panic handler): keep the result channel clean
	resultOut := os.Stdout
	if devnull, err := os.OpenFile(os.DevNull, os.O_WRONLY, 0); err == nil {
		os.Stdout = devnull
	}
	func() {
		defer func() {
			if p := recover(); p != nil {
				out.Error = fmt.Sprintf("explorer panic: %v", p)
			}
		}()
		out.Result = Explore(s.Sc, bound, deadline)
		if v := out.Result.Violation; v != nil && v.Probe != "afterall" {
			// determinism discipline: the recorded schedule must fail the same way 5 times
			for i := 0; i < 5; i++ {
				f, h, err := Replay(s.Sc, v.Schedule, v.Probe)
				if err != nil {
					out.Error = "nondeterminism not owned: " + err.Error()
					return
				}
				if f == nil || f.Sig != v.Sig || (v.Sig != "horizon" && !sameHist(h, v.History)) {
					out.Error = fmt.Sprintf("nondeterminism not owned: replay %d of the violating schedule gave %v instead of %s", i, f, v.Sig)
					return
				}
				out.Replays++
			}
		}
	}()
	if out.Result.MaxBound == Unbounded {
		// keep JSON small and stable
	}
	data, _ := json.Marshal(out)
	resultOut.Write(data)
}

func sameHist(a, b []*core.OpRec) bool {
	if len(a) != len(b) {
		return false
	}
	for i := range a {
		if a[i].Thread != b[i].Thread || a[i].Name != b[i].Name || !reflect.DeepEqual(fmt.Sprint(a[i].Res), fmt.Sprint(b[i].Res)) || a[i].Call != b[i].Call || a[i].Ret != b[i].Ret {
			return false
		}
	}
	return true
}

func replayFile(r *common.Run, specs []Spec) {
	data, err := os.ReadFile(r.ReplayFile)
	if err != nil {
		common.Infra("%v", err)
	}
	var v struct {
		Case Violation `json:"case"`
	}
	if err := json.Unmarshal(data, &v); err != nil {
		common.Infra("bad replay file: %v", err)
	}
	for _, s := range specs {
		if s.Sc.Name != v.Case.Scenario {
			continue
		}
		f, h, err := Replay(s.Sc, v.Case.Schedule, v.Case.Probe)
		if err != nil {
			fmt.Printf("NOT-REPRODUCED property=%s: %v\n", r.ID, err)
			os.Exit(0)
		}
		if f == nil {
			fmt.Printf("NOT-REPRODUCED property=%s: schedule %v of %s runs clean\n%s", r.ID, v.Case.Schedule, s.Sc.Name, FormatHistory(h))
			os.Exit(0)
		}
		fmt.Printf("REPRODUCED property=%s signature=%q\n  %s\n  schedule %v\n%s", r.ID, f.Sig, f.What, v.Case.Schedule, FormatHistory(h))
		fmt.Printf("VIOLATION property=%s replay=%s\n", r.ID, r.ReplayFile)
		os.Exit(1)
	}
	common.Infra("scenario %q of the replay file does not exist", v.Case.Scenario)
}
