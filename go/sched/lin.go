package sched

import (
	"fmt"
	"sort"
	"strings"

	"github.com/anishathalye/porcupine"
	"github.com/welllog/golib/vshim/core"
)

// Model is a sequential reference: states must be immutable values with a canonical key.
type Model struct {
	Init func() any
	Step func(state any, op *core.OpRec) (ok bool, next any)
	Key  func(state any) string
}

// Overlaps reports whether the intervals of a and b intersect.
func Overlaps(a, b *core.OpRec) bool { return !(a.Ret < b.Call || b.Ret < a.Call) }

// Relax drops the operations the property does not require to linearize: those for which
// droppable(op) holds and whose interval overlaps some other operation.
func Relax(h []*core.OpRec, droppable func(op *core.OpRec) bool) []*core.OpRec {
	var out []*core.OpRec
	for i, o := range h {
		drop := false
		if droppable(o) {
			for j, p := range h {
				if i != j && Overlaps(o, p) {
					drop = true
					break
				}
			}
		}
		if !drop {
			out = append(out, o)
		}
	}
	return out
}

// Linearizable decides by exhaustive search (Wing & Gong with memoisation) whether the history
// has a linearization that the model accepts and that respects real-time precedence.
func Linearizable(m Model, h []*core.OpRec) bool {
	n := len(h)
	if n > 30 {
		panic("history too long for the brute-force checker")
	}
	ops := append([]*core.OpRec(nil), h...)
	sort.SliceStable(ops, func(i, j int) bool { return ops[i].Call < ops[j].Call })
	memo := map[string]bool{}
	var rec func(done uint32, st any) bool
	rec = func(done uint32, st any) bool {
		if done == uint32(1)<<n-1 {
			return true
		}
		k := fmt.Sprintf("%x|%s", done, m.Key(st))
		if v, ok := memo[k]; ok {
			return v
		}
		// minimal return time among pending ops: an op can go next only if it was called before that
		minRet := int64(1) << 62
		for i := 0; i < n; i++ {
			if done&(1<<i) == 0 && ops[i].Ret < minRet {
				minRet = ops[i].Ret
			}
		}
		res := false
		for i := 0; i < n && !res; i++ {
			if done&(1<<i) != 0 || ops[i].Call > minRet {
				continue
			}
			if ok, next := m.Step(st, ops[i]); ok {
				res = rec(done|1<<i, next)
			}
		}
		memo[k] = res
		return res
	}
	return rec(0, m.Init())
}

// PorcupineCheck decides the same question with porcupine v1.3.0 (cross-check).
func PorcupineCheck(m Model, h []*core.OpRec) bool {
	pm := porcupine.Model{
		Init: func() interface{} { return m.Init() },
		Step: func(state, input, output interface{}) (bool, interface{}) {
			return m.Step(state, input.(*core.OpRec))
		},
		Equal: func(a, b interface{}) bool { return m.Key(a) == m.Key(b) },
	}
	var ops []porcupine.Operation
	for _, o := range h {
		ops = append(ops, porcupine.Operation{ClientId: o.Thread, Input: o, Output: o.Res, Call: o.Call, Return: o.Ret})
	}
	return porcupine.CheckOperations(pm, ops)
}

// FormatHistory renders a history for messages.
func FormatHistory(h []*core.OpRec) string {
	ops := append([]*core.OpRec(nil), h...)
	sort.SliceStable(ops, func(i, j int) bool { return ops[i].Call < ops[j].Call })
	var sb strings.Builder
	for _, o := range ops {
		fmt.Fprintf(&sb, "    [%3d,%3d] T%d %s(%v) = %v\n", o.Call, o.Ret, o.Thread, o.Name, argStr(o.Arg), o.Res)
	}
	return sb.String()
}

func argStr(a any) string {
	if a == nil {
		return ""
	}
	return fmt.Sprint(a)
}

// LinChecker caches verdicts per (operations, results, precedence) class and cross-checks the
// brute-force checker against porcupine on every class.
type LinChecker struct {
	M         Model
	Droppable func(op *core.OpRec) bool
	cache     map[string]bool
	Classes   int
	Disagree  int
}

func (c *LinChecker) Check(h []*core.OpRec) (ok bool, relaxed []*core.OpRec) {
	if c.cache == nil {
		c.cache = map[string]bool{}
	}
	relaxed = h
	if c.Droppable != nil {
		relaxed = Relax(h, c.Droppable)
	}
	k := HistoryKey(relaxed)
	if v, hit := c.cache[k]; hit {
		return v, relaxed
	}
	v := Linearizable(c.M, relaxed)
	if p := PorcupineCheck(c.M, relaxed); p != v {
		c.Disagree++
		panic(fmt.Sprintf("linearizability checkers disagree (brute force %v, porcupine %v) on\n%s", v, p, FormatHistory(relaxed)))
	}
	c.cache[k] = v
	c.Classes++
	return v, relaxed
}
