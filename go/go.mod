module verif

go 1.23

require (
	github.com/anishathalye/porcupine v1.3.0
	github.com/welllog/golib v0.0.0
	golang.org/x/tools v0.29.0
)

replace github.com/welllog/golib => /repo
