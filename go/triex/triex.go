// Package triex is the input space shared by the C05 and C06 checks of algz.Trie:
// the pattern-set × history × text/key families of DESIGN.md §6 C05/C06, a brute-force
// occurrence oracle written with package strings only, and a per-shard violation collector
// that makes the reported counterexample the smallest one of the whole run (deterministic,
// independent of goroutine scheduling).
package triex

import (
	"fmt"
	"os"
	"runtime"
	"sort"
	"strings"
	"sync"
	"sync/atomic"
	"time"
	"unicode/utf8"

	"verif/common"

	"github.com/welllog/golib/algz"
)

// ---------------------------------------------------------------- histories

// History says how the pattern set reaches the trie.
type History int

const (
	HAll          History = iota // insert p1..pk, BuildFailureLinks
	HRebuildLast                 // insert p1..pk-1, Build, insert pk, Build
	HRebuildFirst                // insert p2..pk, Build, insert p1, Build   (k >= 2)
	HDup                         // insert p1..pk, insert p1 again, Build
	HQueryBetween                // insert p1..pk-1, Build, run every query on probe texts, insert pk, Build
	HQueryBetweenFirst           // insert p2..pk, Build, run every query on probe texts, insert p1, Build   (k >= 2)
)

func (h History) String() string {
	switch h {
	case HAll:
		return "insert-all,build"
	case HRebuildLast:
		return "insert-all-but-last,build,insert-last,build"
	case HRebuildFirst:
		return "insert-all-but-first,build,insert-first,build"
	case HDup:
		return "insert-all,insert-first-again,build"
	case HQueryBetween:
		return "insert-all-but-last,build,query-probe-texts,insert-last,build"
	case HQueryBetweenFirst:
		return "insert-all-but-first,build,query-probe-texts,insert-first,build"
	}
	return "?"
}

// steps returns the sequence of operations: a pattern, or "\x00build".
const opBuild = "\x00build"
const opProbe = "\x00probe"

// ProbeTexts are queried between the two builds of history HQueryBetween (results ignored): a
// trie that memoises anything while answering queries must forget it when patterns are added.
var ProbeTexts = func() []string {
	var out []string
	common.Strings([]string{"a", "b", "c", "é"}, 4, func(s string) { out = append(out, s) })
	return out
}()

func (h History) steps(p []string) []string {
	var s []string
	switch h {
	case HAll:
		s = append(s, p...)
	case HRebuildLast:
		s = append(s, p[:len(p)-1]...)
		s = append(s, opBuild, p[len(p)-1])
	case HRebuildFirst:
		s = append(s, p[1:]...)
		s = append(s, opBuild, p[0])
	case HDup:
		s = append(s, p...)
		s = append(s, p[0])
	case HQueryBetween:
		s = append(s, p[:len(p)-1]...)
		s = append(s, opBuild, opProbe, p[len(p)-1])
	case HQueryBetweenFirst:
		s = append(s, p[1:]...)
		s = append(s, opBuild, opProbe, p[0])
	}
	return append(s, opBuild)
}

// Build runs the history on a fresh zero-value Trie.
func Build(p []string, h History) *algz.Trie {
	t := &algz.Trie{}
	for _, op := range h.steps(p) {
		switch op {
		case opBuild:
			t.BuildFailureLinks()
		case opProbe:
			for _, q := range ProbeTexts {
				Try(func() {
					t.Match(q)
					t.FindAll(q)
					t.Replace(q, "#")
					t.ReplaceWithMask(q, '*')
					if len(q) <= 2 {
						t.PrefixSearch(q)
						t.FuzzySearch(q)
					}
				})
			}
		default:
			t.Insert(op)
		}
	}
	return t
}

// GoSetup is the Go source that rebuilds the trie of a case (for ready-to-paste tests).
func GoSetup(p []string, h History) string {
	var b strings.Builder
	b.WriteString("\tvar tr algz.Trie\n")
	for _, op := range h.steps(p) {
		if op == opBuild {
			b.WriteString("\ttr.BuildFailureLinks()\n")
		} else if op == opProbe {
			b.WriteString("\tfor _, q := range probeTexts { tr.Match(q); tr.FindAll(q); tr.Replace(q, \"#\"); tr.ReplaceWithMask(q, '*') } // every string over {a,b,c,é} of length <= 4\n")
		} else {
			fmt.Fprintf(&b, "\ttr.Insert(%q)\n", op)
		}
	}
	return b.String()
}

// ---------------------------------------------------------------- families

type Text struct {
	S     string
	Valid bool // valid UTF-8
	ASCII bool
}

func mkText(s string) Text {
	a := true
	for i := 0; i < len(s); i++ {
		if s[i] >= 0x80 {
			a = false
		}
	}
	return Text{S: s, Valid: utf8.ValidString(s), ASCII: a}
}

// Family is one finite sub-space: every set in Sets (indices into Pats) × every history ×
// every text (and × every key).
type Family struct {
	Name  string
	Desc  string
	Pats  []string
	Sets  [][]int
	Hists []History
	Texts []Text
	Keys  []string
}

var (
	AlphaAB     = []string{"a", "b"}
	AlphaABC    = []string{"a", "b", "c"}
	AlphaWidths = []string{"a", "é", "世", "😀", "�"}
	AlphaBytes  = []string{"a", "\xc3", "\xa9", "\xef", "\xbf", "\xbd", "\xff"}
)

func subsets(n, lo, hi int) [][]int {
	var out [][]int
	for k := lo; k <= hi; k++ {
		common.Subsets(n, k, k, func(idx []int) { out = append(out, append([]int(nil), idx...)) })
	}
	return out
}

func texts(alpha []string, maxLen int, keep func(Text) bool) []Text {
	var out []Text
	common.Strings(alpha, maxLen, func(s string) {
		t := mkText(s)
		if keep == nil || keep(t) {
			out = append(out, t)
		}
	})
	return out
}

// invalidKeys: every byte string of length <= n over AlphaBytes that is not valid UTF-8 (a key
// may be any byte string; no pattern made of runes starts with such a key).
func invalidKeys(n int) []string {
	var out []string
	for _, t := range texts(AlphaBytes, n, func(t Text) bool { return !t.Valid }) {
		out = append(out, t.S)
	}
	return out
}

func dedupTexts(in []Text) []Text {
	seen := map[string]bool{}
	var out []Text
	for _, t := range in {
		if !seen[t.S] {
			seen[t.S] = true
			out = append(out, t)
		}
	}
	return out
}

var allHist = []History{HAll, HRebuildLast, HRebuildFirst, HDup, HQueryBetween, HQueryBetweenFirst}

// Bounds of one tier.
type Bounds struct {
	ABPatLen, ABSet, ABText, ABKey     int // structure {a,b}
	AB4Set, AB4PatLen, AB4Text         int // structure {a,b}, larger sets of shorter patterns
	ABCPatLen, ABCSet, ABCText, ABCKey int // structure {a,b,c}
	CoverN, CoverShort                 int // cover shape
	WideK, WideRemoved                 int // wide tries (ring-queue growth in BuildFailureLinks)
	WPatLen, WSet, WText, WKey         int // widths
	W3PatLen, W3Text, W3Key            int // widths, sets of exactly 3
	BText                              int // raw bytes (texts not valid UTF-8)
}

func TierBounds(thorough bool) Bounds {
	if thorough {
		return Bounds{ABPatLen: 4, ABSet: 3, ABText: 12, ABKey: 4,
			AB4Set: 4, AB4PatLen: 3, AB4Text: 10,
			ABCPatLen: 3, ABCSet: 3, ABCText: 8, ABCKey: 3,
			CoverN: 8, CoverShort: 4,
			WideK: 6, WideRemoved: 2,
			WPatLen: 3, WSet: 2, WText: 5, WKey: 3,
			W3PatLen: 2, W3Text: 5, W3Key: 3,
			BText: 5}
	}
	return Bounds{ABPatLen: 3, ABSet: 3, ABText: 10, ABKey: 3,
		AB4Set: 4, AB4PatLen: 3, AB4Text: 8,
		ABCPatLen: 3, ABCSet: 3, ABCText: 6, ABCKey: 3,
		CoverN: 7, CoverShort: 3,
		WideK: 5, WideRemoved: 1,
		WPatLen: 3, WSet: 2, WText: 4, WKey: 3,
		W3PatLen: 2, W3Text: 4, W3Key: 2,
		BText: 4}
}

// Families returns the whole space of a tier, simplest family first.
// The empty string is a member of every pattern alphabet (Insert("") must be a no-op).
func Families(b Bounds) []*Family {
	var fs []*Family
	valid := func(t Text) bool { return t.Valid }

	// nothing inserted at all (and nothing but the empty pattern): no text matches, no key has results
	fs = append(fs, &Family{
		Name:  "no-patterns",
		Desc:  "the empty pattern set and the set {\"\"}: built tries without any pattern; all texts of length <= 3 over {a,b}, keys \"\", a, ab",
		Pats:  []string{""},
		Sets:  [][]int{{}, {0}},
		Hists: []History{HAll},
		Texts: texts(AlphaAB, 3, nil), Keys: []string{"", "a", "ab"}})

	ab := common.AllStrings(AlphaAB, b.ABPatLen)
	fs = append(fs, &Family{
		Name: "structure-ab",
		Desc: fmt.Sprintf("alphabet {a,b}: all sets of 1..%d distinct patterns of length 0..%d, 4 histories, all texts of length <= %d, all keys of length <= %d", b.ABSet, b.ABPatLen, b.ABText, b.ABKey),
		Pats: ab, Sets: subsets(len(ab), 1, b.ABSet), Hists: allHist,
		Texts: texts(AlphaAB, b.ABText, nil), Keys: common.AllStrings(AlphaAB, b.ABKey)})

	ab4 := common.AllStrings(AlphaAB, b.AB4PatLen)
	fs = append(fs, &Family{
		Name: "structure-ab-sets-of-4",
		Desc: fmt.Sprintf("alphabet {a,b}: all sets of exactly %d distinct patterns of length 0..%d, 4 histories, all texts of length <= %d, all keys of length <= %d", b.AB4Set, b.AB4PatLen, b.AB4Text, b.AB4PatLen+1),
		Pats: ab4, Sets: subsets(len(ab4), b.AB4Set, b.AB4Set), Hists: allHist,
		Texts: texts(AlphaAB, b.AB4Text, nil), Keys: common.AllStrings(AlphaAB, b.AB4PatLen+1)})

	abc := common.AllStrings(AlphaABC, b.ABCPatLen)
	fs = append(fs, &Family{
		Name: "structure-abc",
		Desc: fmt.Sprintf("alphabet {a,b,c}: all sets of 1..%d distinct patterns of length 0..%d, 4 histories, all texts of length <= %d, all keys of length <= %d", b.ABCSet, b.ABCPatLen, b.ABCText, b.ABCKey),
		Pats: abc, Sets: subsets(len(abc), 1, b.ABCSet), Hists: allHist,
		Texts: texts(AlphaABC, b.ABCText, nil), Keys: common.AllStrings(AlphaABC, b.ABCKey)})

	// cover shape: text T = first n distinct letters; one long substring (len >= 3) of T plus
	// 0..k short substrings (len 1..2) of T: "a long occurrence ending late starts before several
	// earlier, mutually disjoint occurrences" and every other arrangement of nested occurrences.
	for n := 3; n <= b.CoverN; n++ {
		T := "abcdefghij"[:n]
		var short, long []string
		for l := 1; l <= n; l++ {
			for i := 0; i+l <= n; i++ {
				if l <= 2 {
					short = append(short, T[i:i+l])
				} else {
					long = append(long, T[i:i+l])
				}
			}
		}
		pats := append(append([]string(nil), short...), long...)
		var sets [][]int
		for _, ss := range subsets(len(short), 0, b.CoverShort) {
			for li := range long {
				sets = append(sets, append(append([]int(nil), ss...), len(short)+li))
			}
		}
		fs = append(fs, &Family{
			Name: fmt.Sprintf("cover-%d", n),
			Desc: fmt.Sprintf("text %q (also z+T, T+z, T+T): one substring of length >= 3 plus every set of 0..%d substrings of length 1..2 as patterns, histories all/rebuild-last", T, b.CoverShort),
			Pats: pats, Sets: sets, Hists: []History{HAll, HRebuildLast},
			Texts: []Text{mkText(T), mkText("z" + T), mkText(T + "z"), mkText(T + T)},
			Keys:  []string{"", T[:1], T[:2], T[1:2]}})
	}

	// wide tries: BuildFailureLinks keeps its breadth-first frontier in a ring queue of capacity
	// 10 that doubles when full; the families above never have more than 8 nodes in it. Here the
	// pattern set is a^j·Σ² (all k² two-letter strings behind a chain of j a's, j = 0..10 moves the
	// ring's head to every residue) minus every choice of <= r of them: frontier up to k² nodes,
	// i.e. one growth for k = 4, two for k = 5, 6.
	for k := 4; k <= b.WideK; k++ {
		sigma := strings.Split("abcdef"[:k], "")
		var pairs []string
		common.StringsOfLen(sigma, 2, func(s string) { pairs = append(pairs, s) })
		var pats []string
		var sets [][]int
		var txt []Text
		for j := 0; j <= 10; j++ {
			pre := strings.Repeat("a", j)
			base := len(pats)
			for _, s := range pairs {
				pats = append(pats, pre+s)
			}
			for _, rm := range subsets(len(pairs), 0, b.WideRemoved) {
				var set []int
				for i := range pairs {
					drop := false
					for _, x := range rm {
						drop = drop || x == i
					}
					if !drop {
						set = append(set, base+i)
					}
				}
				sets = append(sets, set)
			}
			common.Strings(sigma, 3, func(s string) { txt = append(txt, mkText(pre+s)) })
		}
		fs = append(fs, &Family{
			Name: fmt.Sprintf("wide-%d", k),
			Desc: fmt.Sprintf("alphabet %q: pattern sets a^j·Σ² (j = 0..10, %d patterns) minus every choice of <= %d of them (reaches the ring-queue growth of BuildFailureLinks), histories all/rebuild-last; texts a^j·s for every j = 0..10 and every s of length <= 3 (each distinct text once); 8 fixed keys", strings.Join(sigma, ""), k*k, b.WideRemoved),
			Pats: pats, Sets: sets, Hists: []History{HAll, HRebuildLast},
			Texts: dedupTexts(txt), Keys: []string{"", "a", "b", "aa", "ab", "aaa", "aab", "aaaa"}})
	}

	// wide and deep: the same a^j·Σ² sets plus ONE pattern that hangs a child under one of the
	// two-letter nodes (each of them in turn), so that a node lost or mis-linked while the ring
	// queue grows has a child the text reaches
	for k := 4; k <= b.WideK; k++ {
		sigma := strings.Split("abcdef"[:k], "")
		var pairs []string
		common.StringsOfLen(sigma, 2, func(s string) { pairs = append(pairs, s) })
		var pats []string
		var sets [][]int
		var txt []Text
		for j := 0; j <= 10; j++ {
			pre := strings.Repeat("a", j)
			base := len(pats)
			for _, s := range pairs {
				pats = append(pats, pre+s)
			}
			ext := len(pats)
			for _, s := range pairs {
				pats = append(pats, pre+s+"a")
			}
			for pi := range pairs {
				var set []int
				for i := range pairs {
					set = append(set, base+i)
				}
				set = append(set, ext+pi)
				sets = append(sets, set)
			}
			common.Strings(sigma, 3, func(s string) { txt = append(txt, mkText(pre+s)) })
		}
		fs = append(fs, &Family{
			Name: fmt.Sprintf("wide-deep-%d", k),
			Desc: fmt.Sprintf("alphabet %q: pattern sets a^j·Σ² (j = 0..10) plus one three-letter pattern a^j·xy·a under each two-letter node in turn (a node lost during ring-queue growth has a child the text reaches), histories all/rebuild-last; texts a^j·s for every s of length <= 3", strings.Join(sigma, ""), ),
			Pats: pats, Sets: sets, Hists: []History{HAll, HRebuildLast},
			Texts: dedupTexts(txt), Keys: []string{"", "a", "ab", "aab"}})
	}

	// long covered runs: one or two short patterns, texts in which a covered region is 1..N runes
	// long (output written in fixed-size pieces must be right at every length, in particular at
	// multiples of the piece size)
	{
		maxRun := 70
		if b.WideK > 5 {
			maxRun = 140
		}
		pats := []string{"a", "aa", "ab", "é", "世"}
		sets := [][]int{{0}, {1}, {0, 1}, {1, 2}, {3}, {4}, {0, 3}}
		var txt []Text
		for n := 1; n <= maxRun; n++ {
			for _, unit := range []string{"a", "é", "世", "ab"} {
				run := strings.Repeat(unit, n)
				txt = append(txt, mkText(run), mkText("x"+run+"x"), mkText(run+"x"+run))
			}
		}
		fs = append(fs, &Family{
			Name: "long-runs",
			Desc: fmt.Sprintf("patterns from {a, aa, ab, é, 世} in 7 sets; texts u^n, x·u^n·x, u^n·x·u^n for u in {a, é, 世, ab} and every n = 1..%d", maxRun),
			Pats: pats, Sets: sets, Hists: []History{HAll},
			Texts: dedupTexts(txt), Keys: []string{"", "a"}})
	}

	w := common.AllStrings(AlphaWidths, b.WPatLen)
	wsets := subsets(len(w), 1, b.WSet)
	fs = append(fs, &Family{
		Name: "widths",
		Desc: fmt.Sprintf("alphabet {a, é, 世, 😀, U+FFFD} (1,2,3,4,3 bytes): all sets of 1..%d distinct patterns of 0..%d runes, 4 histories, all texts of <= %d runes, all keys of <= %d runes", b.WSet, b.WPatLen, b.WText, b.WKey),
		Pats: w, Sets: wsets, Hists: allHist,
		Texts: texts(AlphaWidths, b.WText, nil), Keys: common.AllStrings(AlphaWidths, b.WKey)})

	w3 := common.AllStrings(AlphaWidths, b.W3PatLen)
	fs = append(fs, &Family{
		Name: "widths-sets-of-3",
		Desc: fmt.Sprintf("alphabet {a, é, 世, 😀, U+FFFD}: all sets of exactly 3 distinct patterns of 0..%d runes, histories all/rebuild-last, all texts of <= %d runes, all keys of <= %d runes", b.W3PatLen, b.W3Text, b.W3Key),
		Pats: w3, Sets: subsets(len(w3), 3, 3), Hists: []History{HAll, HRebuildLast},
		Texts: texts(AlphaWidths, b.W3Text, nil), Keys: common.AllStrings(AlphaWidths, b.W3Key)})

	fs = append(fs, &Family{
		Name: "bytes",
		Desc: fmt.Sprintf("the widths pattern sets (1..%d patterns of 0..%d runes, history insert-all) against every byte string of length <= %d over {a, C3, A9, EF, BF, BD, FF} that is NOT valid UTF-8 (the valid ones belong to the widths family); the same byte strings of length <= 3 as keys", b.WSet, b.WPatLen, b.BText),
		Pats: w, Sets: wsets, Hists: []History{HAll},
		Texts: texts(AlphaBytes, b.BText, func(t Text) bool { return !t.Valid }), Keys: invalidKeys(3)})
	// the ends of the UTF-8 encoding ranges: patterns made of the first / last rune of each width,
	// texts over the bytes that delimit lead and continuation ranges (valid and invalid alike)
	edgePats := []string{"\x7f", "\u0080", "\u07ff", "\u0800", "\uffff", "\U00010000", "\U0010ffff", "a\u0080", "\u0080a", "\u07ff\u0800"}
	edgeBytes := []string{"a", "\x7f", "\x80", "\xbf", "\xc2", "\xdf", "\xe0", "\xa0", "\xef", "\xf0", "\x90", "\xf4", "\x8f"}
	fs = append(fs, &Family{
		Name: "utf8-range-ends",
		Desc: fmt.Sprintf("patterns from {U+007F, U+0080, U+07FF, U+0800, U+FFFF, U+10000, U+10FFFF, aU+0080, U+0080a, U+07FFU+0800} (sets of 1..2), history insert-all, every byte string of length <= %d over {61,7F,80,BF,C2,DF,E0,A0,EF,F0,90,F4,8F} as text (valid or not), those of length <= 2 as keys", b.BText),
		Pats: edgePats, Sets: subsets(len(edgePats), 1, 2), Hists: []History{HAll},
		Texts: texts(edgeBytes, b.BText, nil), Keys: common.AllStrings(edgeBytes, 2)})
	_ = valid
	return fs
}

// ---------------------------------------------------------------- oracle

// Oracle is the brute-force reference for one inserted pattern list.
type Oracle struct {
	Inserted []string // as inserted (may contain "" and, for HDup, a repeat)
	Pats     []string // distinct non-empty patterns, sorted
	HasEmpty bool     // "" was inserted
	Multi    bool     // some pattern has a multi-byte rune
	HasFFFD  bool     // some pattern contains U+FFFD
	PatBytes int
}

func NewOracle(inserted []string) *Oracle {
	o := &Oracle{Inserted: inserted}
	seen := map[string]bool{}
	for _, p := range inserted {
		if p == "" {
			o.HasEmpty = true
			continue
		}
		if !seen[p] {
			seen[p] = true
			o.Pats = append(o.Pats, p)
			o.PatBytes += len(p)
		}
		if strings.ContainsRune(p, utf8.RuneError) {
			o.HasFFFD = true
		}
		for i := 0; i < len(p); i++ {
			if p[i] >= 0x80 {
				o.Multi = true
			}
		}
	}
	sort.Strings(o.Pats)
	return o
}

// Index returns the index of s in Pats or -1.
func (o *Oracle) Index(s string) int {
	for i, p := range o.Pats {
		if p == s {
			return i
		}
	}
	return -1
}

// Count fills counts[i] with the number of byte positions at which Pats[i] occurs in text and
// returns the total number of (pattern, position) occurrences.
func (o *Oracle) Count(text string, counts []int) int {
	total := 0
	for pi, p := range o.Pats {
		c := 0
		for i := 0; i+len(p) <= len(text); i++ {
			if strings.HasPrefix(text[i:], p) {
				c++
			}
		}
		counts[pi] = c
		total += c
	}
	return total
}

// Region is a maximal run of bytes covered by occurrences, with the number of occurrences in it.
type Region struct{ Lo, Hi, Occ int }

// Regions computes the maximal covered regions of text (cov is scratch of len >= len(text)).
func (o *Oracle) Regions(text string, cov []bool, regs []Region) []Region {
	regs = regs[:0]
	cov = cov[:len(text)]
	for i := range cov {
		cov[i] = false
	}
	any := false
	for _, p := range o.Pats {
		for i := 0; i+len(p) <= len(text); i++ {
			if strings.HasPrefix(text[i:], p) {
				any = true
				for j := i; j < i+len(p); j++ {
					cov[j] = true
				}
			}
		}
	}
	if !any {
		return regs
	}
	for i := 0; i < len(text); {
		if !cov[i] {
			i++
			continue
		}
		j := i
		for j < len(text) && cov[j] {
			j++
		}
		regs = append(regs, Region{Lo: i, Hi: j})
		i = j
	}
	for _, p := range o.Pats {
		for i := 0; i+len(p) <= len(text); i++ {
			if strings.HasPrefix(text[i:], p) {
				for k := range regs {
					if regs[k].Lo <= i && i < regs[k].Hi {
						regs[k].Occ++
						break
					}
				}
			}
		}
	}
	return regs
}

// WithPrefix returns the distinct non-empty inserted patterns that start with key, sorted.
func (o *Oracle) WithPrefix(key string) []string {
	var out []string
	for _, p := range o.Pats {
		if strings.HasPrefix(p, key) {
			out = append(out, p)
		}
	}
	return out
}

// TextClass is the input class used in signatures of text queries.
func (o *Oracle) TextClass(t *Text) string {
	switch {
	case !t.Valid && o.HasFFFD:
		return "text-not-valid-utf8/pattern-contains-U+FFFD"
	case !t.Valid:
		return "text-not-valid-utf8"
	case o.Multi || !t.ASCII:
		return "valid-utf8-multibyte"
	default:
		return "valid-utf8-ascii"
	}
}

// KeyClass is the input class used in signatures of key queries.
func (o *Oracle) KeyClass(key string) string {
	if o.Multi {
		return "multibyte-runes"
	}
	for i := 0; i < len(key); i++ {
		if key[i] >= 0x80 {
			return "multibyte-runes"
		}
	}
	return "ascii"
}

// Q quotes a list of strings for a JSON-able case description (texts may be invalid UTF-8).
func Q(ss []string) []string {
	out := make([]string, len(ss))
	for i, s := range ss {
		out[i] = fmt.Sprintf("%q", s)
	}
	return out
}

// Try runs f and says whether it panicked. It is the hot-loop form of common.Catch: it does not
// capture the stack (debug.Stack costs ~20 µs and some defects panic in millions of cases); the
// report of a panicking case re-runs it under common.Catch to obtain the stack and the site.
func Try(f func()) (panicked bool) {
	defer func() {
		if recover() != nil {
			panicked = true
		}
	}()
	f()
	return false
}

// PanicInfo re-runs a call that panicked under common.Catch and returns the golib site and the
// golib part of the stack.
func PanicInfo(f func()) (site, stack string) {
	val, st, p := common.Catch(f)
	if !p {
		return "? (panic not reproduced on re-run)", ""
	}
	keep := []string{fmt.Sprintf("panic: %v", val)}
	lines := strings.Split(st, "\n")
	for i := 0; i < len(lines); i++ {
		if strings.HasPrefix(lines[i], "github.com/welllog/golib/") || strings.HasPrefix(lines[i], "panic(") {
			keep = append(keep, lines[i])
			if i+1 < len(lines) {
				keep = append(keep, strings.TrimSpace(lines[i+1]))
			}
		}
	}
	return fmt.Sprintf("%s (%v)", common.PanicSite(st), val), strings.Join(keep, "\n")
}

// ---------------------------------------------------------------- collector

type hit struct {
	Sig          string
	Count        int64
	Size         int
	Fam, Chunk   int
	Seq          int64
	What, GoTest string
	Case         any
}

func (a *hit) less(b *hit) bool {
	if a.Size != b.Size {
		return a.Size < b.Size
	}
	if a.Fam != b.Fam {
		return a.Fam < b.Fam
	}
	if a.Chunk != b.Chunk {
		return a.Chunk < b.Chunk
	}
	return a.Seq < b.Seq
}

// Collector keeps, per signature, the number of failing cases and the smallest failing case.
type Collector struct {
	m          map[string]*hit
	fam, chunk int
	seq        int64
}

func NewCollector() *Collector { return &Collector{m: map[string]*hit{}} }

// Report registers a failing case of the given size; mk is only called when the case is the
// smallest seen so far for the signature in this collector.
func (c *Collector) Report(sig string, size int, mk func() (what string, cs any, goTest string)) {
	c.seq++
	h := c.m[sig]
	if h == nil {
		h = &hit{Sig: sig, Size: 1 << 30}
		c.m[sig] = h
	}
	h.Count++
	if size < h.Size {
		h.Size, h.Fam, h.Chunk, h.Seq = size, c.fam, c.chunk, c.seq
		h.What, h.Case, h.GoTest = mk()
	}
}

func (c *Collector) merge(o *Collector) {
	for sig, h := range o.m {
		g := c.m[sig]
		if g == nil {
			cp := *h
			c.m[sig] = &cp
			continue
		}
		n := g.Count + h.Count
		if h.less(g) {
			*g = *h
		}
		g.Count = n
	}
}

// Flush hands every signature to the run: the smallest case first (it becomes the replay),
// then once per further failing case so that the run's per-signature count is the real count.
func (c *Collector) Flush(r *common.Run) {
	var sigs []string
	for s := range c.m {
		sigs = append(sigs, s)
	}
	sort.Strings(sigs)
	for _, s := range sigs {
		h := c.m[s]
		r.Violation(h.Sig, h.What, h.Case, h.GoTest)
		for i := int64(1); i < h.Count; i++ {
			r.Violation(h.Sig, h.What, nil, "")
		}
	}
}

// ---------------------------------------------------------------- runner

// Shard is the worker-local state handed to the visit function.
type Shard struct {
	vis    atomic.Pointer[Visit]  // watchdog: the trie being queried
	cur    atomic.Pointer[string] // watchdog: the text / key being queried (nil while building)
	Col    *Collector
	Ev, Nt int64
	Extra  [4]int64 // check-specific counters
	Counts []int
	Cov    []bool
	Regs   []Region
}

// At publishes the input about to be queried (address of an element of Fam.Texts / Fam.Keys).
func (sh *Shard) At(in *string) { sh.cur.Store(in) }

// ---------------------------------------------------------------- watchdog
//
// A defect that makes a query loop forever (e.g. a cyclic failure chain) cannot be caught by
// recover. The watchdog turns "one (trie, input) has been in progress for StallLimit" or "the heap
// passed HeapLimit" (find() appending matches forever) into a reported violation and a clean exit
// instead of a hang or an OOM kill. A trie normally stays < 0.1 s in a shard and the whole harness
// needs < 0.3 GiB, so both limits are far away from any verdict on terminating code.

func init() {
	if s, err := time.ParseDuration(os.Getenv("VERIF_TRIE_STALL")); err == nil && s > 0 {
		StallLimit = s // only used to test the watchdog itself
	}
}

var (
	StallLimit        = 120 * time.Second
	HeapLimit  uint64 = 3 << 30
	watch      struct {
		mu     sync.Mutex
		active map[*Shard]*watchState
	}
)

type watchState struct {
	v     *Visit
	in    *string
	since time.Time
}

func register(sh *Shard) {
	watch.mu.Lock()
	if watch.active == nil {
		watch.active = map[*Shard]*watchState{}
	}
	watch.active[sh] = &watchState{since: time.Now()}
	watch.mu.Unlock()
}

func unregister(sh *Shard) {
	watch.mu.Lock()
	delete(watch.active, sh)
	watch.mu.Unlock()
}

// Watch starts the watchdog. abort receives the stuck case; it must report it and end the run
// (Flush + Finish) — it does not return.
func Watch(abort func(reason string, v *Visit, input *string)) {
	go func() {
		for {
			time.Sleep(250 * time.Millisecond)
			now := time.Now()
			var oldest *watchState
			watch.mu.Lock()
			for sh, st := range watch.active {
				v, in := sh.vis.Load(), sh.cur.Load()
				if v != st.v || in != st.in {
					st.v, st.in, st.since = v, in, now
				}
				if st.v != nil && (oldest == nil || st.since.Before(oldest.since)) {
					oldest = st
				}
			}
			watch.mu.Unlock()
			if oldest == nil {
				continue
			}
			if now.Sub(oldest.since) > StallLimit {
				abort(fmt.Sprintf("did not return within %v", StallLimit), oldest.v, oldest.in)
			}
			var ms runtime.MemStats
			runtime.ReadMemStats(&ms)
			if ms.HeapAlloc > HeapLimit {
				abort(fmt.Sprintf("heap grew beyond %d MiB while the call was in progress (runaway allocation)", HeapLimit>>20), oldest.v, oldest.in)
			}
		}
	}()
}

// Visit is one (pattern set, history) with its built trie.
type Visit struct {
	Fam    *Family
	FamIdx int
	Set    []string
	Hist   History
	Trie   *algz.Trie
	Oracle *Oracle
}

// Size is the size of the case (set, history, input) used to pick the smallest counterexample.
func (v *Visit) Size(input string) int {
	s := v.Oracle.PatBytes + 2*len(v.Set) + len(input)
	if v.Hist != HAll {
		s++
	}
	return s
}

// Case is the JSON-able description of a failing case.
func (v *Visit) Case(kind, input string, extra map[string]any) map[string]any {
	m := map[string]any{"family": v.Fam.Name, "patterns": Q(v.Set), "history": v.Hist.String(), kind: fmt.Sprintf("%q", input)}
	for k, x := range extra {
		m[k] = x
	}
	return m
}

type Totals struct {
	mu    sync.Mutex
	Extra [4]int64
}

// Run enumerates the family: every set × history is built once (panics of Insert /
// BuildFailureLinks are violations) and handed to visit, which enumerates texts and keys.
func (f *Family) Run(r *common.Run, famIdx int, global *Collector, tot *Totals, visit func(sh *Shard, v *Visit)) {
	const chunk = 8
	n := (len(f.Sets) + chunk - 1) / chunk
	cols := make([]*Collector, n)
	var cut int32
	var ev, nt, tries int64
	start := time.Now()
	r.Parallel(n, func(i int) {
		sh := &Shard{Col: NewCollector(), Counts: make([]int, 64), Cov: make([]bool, 4096), Regs: make([]Region, 0, 16)}
		sh.Col.fam, sh.Col.chunk = famIdx, i
		cols[i] = sh.Col
		register(sh)
		defer unregister(sh)
		var nb int64
		for si := i * chunk; si < len(f.Sets) && si < (i+1)*chunk; si++ {
			if r.Expired() {
				atomic.StoreInt32(&cut, 1)
				break
			}
			set := make([]string, len(f.Sets[si]))
			for k, pi := range f.Sets[si] {
				set[k] = f.Pats[pi]
			}
			for _, h := range f.Hists {
				if (h == HRebuildFirst || h == HQueryBetweenFirst) && len(set) < 2 {
					continue
				}
				ins := set
				if h == HDup {
					ins = append(append([]string(nil), set...), set[0])
				}
				v := &Visit{Fam: f, FamIdx: famIdx, Set: set, Hist: h, Oracle: NewOracle(ins)}
				sh.cur.Store(nil)
				sh.vis.Store(v)
				p := Try(func() { v.Trie = Build(set, h) })
				nb++
				if p {
					sh.Col.Report("Insert+BuildFailureLinks|panic|"+v.Oracle.KeyClass(""), v.Size(""), func() (string, any, string) {
						site, st := PanicInfo(func() { Build(set, h) })
						return "building the trie panicked at " + site, v.Case("text", "", map[string]any{"stack": st}),
							"func TestReplay(t *testing.T) {\n" + GoSetup(set, h) + "}"
					})
					continue
				}
				visit(sh, v)
			}
		}
		atomic.AddInt64(&ev, sh.Ev)
		atomic.AddInt64(&nt, sh.Nt)
		atomic.AddInt64(&tries, nb)
		r.Eval(sh.Ev)
		r.Nontrivial(sh.Nt)
		if tot != nil {
			tot.mu.Lock()
			for k := range sh.Extra {
				tot.Extra[k] += sh.Extra[k]
			}
			tot.mu.Unlock()
		}
	})
	for _, c := range cols {
		if c != nil {
			global.merge(c)
		}
	}
	if cut != 0 {
		r.Incomplete("family " + f.Name + " cut by the deadline")
	}
	r.Section(map[string]any{"family": f.Name, "space": f.Desc, "pattern_sets": len(f.Sets), "tries_built": tries,
		"texts": len(f.Texts), "keys": len(f.Keys), "evaluations": ev, "nontrivial": nt, "complete": cut == 0,
		"wall_s": time.Since(start).Seconds()})
	fmt.Printf("  %-24s sets=%d tries=%d texts=%d keys=%d evaluations=%d nontrivial=%d wall=%.1fs\n", f.Name, len(f.Sets), tries, len(f.Texts), len(f.Keys), ev, nt, time.Since(start).Seconds())
}
