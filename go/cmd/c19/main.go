// C19 — Limiter bounds concurrency, runs every task once and survives panics.
// Engine E1: all schedules of the submitting goroutine and the workers on the real
// (instrumented) goz/goz.go: WaitGroup, token channel and `go` statements are owned by the
// scheduler.
package main

import (
	"fmt"
	"strings"
	"time"

	"verif/sched"

	"github.com/welllog/golib/goz"
	"github.com/welllog/golib/vshim/core"
	"github.com/welllog/golib/vshim/vatomic"
)

// task kinds
const (
	ret = iota
	pauseRet
	pnc
	pausePnc
)

var kindName = []string{"ret", "pause", "panic", "pause-panic"}

type ctxT struct {
	inside   int64
	gate     int64 // gated second batch: opens, for good, when `limit` functions are inside together
	done     []int64
	handled  []any // values received by the handler installed first
	handled2 []any // values received by the handler installed after the first Wait (late scenarios)
	vals     []any // the value task i panics with: distinct pointers, compared by identity
}

type boom struct{ task int }

func (b *boom) String() string { return fmt.Sprintf("boom%d", b.task) }

type cfg struct {
	limit   int // argument to NewLimiter
	tasks   []int
	batch2  int // number of pausing tasks in the second batch (0 = none)
	handler bool
	timed   bool // the first wait is Wait(timeout): the timer is a virtual thread, it may fire at any moment
	gate2   bool // the functions of the second batch stay inside until `limit` of them are inside together: a slot that an earlier (timed-out) Wait did not give back keeps the gate shut — a deadlock in THIS execution, not a claim over all schedules
	late    bool // the handler is installed after the first Go, and replaced after the first Wait (the second batch then starts with a panicking task)
}

func (c cfg) eff() int {
	if c.limit < 1 {
		return 3
	}
	return c.limit
}

func (c cfg) name() string {
	var ks []string
	for _, k := range c.tasks {
		ks = append(ks, kindName[k])
	}
	h := "handler"
	if !c.handler {
		h = "nohandler"
	}
	if c.timed {
		h += "/timed-wait-first"
	}
	if c.late {
		h += "/handler-set-late-and-replaced"
	}
	if c.gate2 {
		h += "/gated-second-batch"
	}
	return fmt.Sprintf("limit%d/%s/batch2=%d/%s", c.limit, strings.Join(ks, ","), c.batch2, h)
}

func scenario(c cfg) sched.Spec {
	maxInside2 := int64(0)
	eff := int64(c.eff())
	sc := sched.Scenario{
		Name:   c.name(),
		NoRace: true, // goz.go has no plain shared state; harness counters are shim atomics
		Build: func(x *core.Exec) any {
			st := &ctxT{done: make([]int64, len(c.tasks)+c.batch2)}
			for i := range st.done {
				st.vals = append(st.vals, &boom{i})
			}
			l := goz.NewLimiter(c.limit)
			h1 := func(v any) { st.handled = append(st.handled, v) }
			if c.handler && !c.late {
				l.SetPanicHandler(h1)
			}
			body := func(i, kind int, second bool) func() {
				return func() {
					n := vatomic.AddInt64(&st.inside, 1)
					if n > eff {
						x.FailNow("limit-exceeded", fmt.Sprintf("%d submitted functions are inside their body at the same time, limit %d", n, eff))
					}
					if second && n > maxInside2 {
						maxInside2 = n
					}
					if second && c.gate2 {
						if n == eff {
							vatomic.StoreInt64(&st.gate, 1)
						}
						core.WaitFor(func() bool { return st.gate == 1 })
					}
					if kind == pauseRet || kind == pausePnc {
						core.Pause()
					}
					vatomic.AddInt64(&st.inside, -1)
					vatomic.AddInt64(&st.done[i], 1)
					if kind == pnc || kind == pausePnc {
						panic(st.vals[i])
					}
				}
			}
			x.Spawn("main", func(t *core.Thread) {
				for i, k := range c.tasks {
					i, k := i, k
					t.Op("Go", i, func() any { l.Go(body(i, k, false)); return nil })
					if x.Failed() {
						return
					}
					if c.late && i == 0 {
						l.SetPanicHandler(h1) // configured after the first submission: later submissions use it
					}
				}
				if c.timed {
					// may return before the tasks are done (timeout) or after: nothing is asserted here
					t.Op("WaitTimeout", 0, func() any { l.Wait(time.Millisecond); return nil })
					if x.Failed() {
						return
					}
				}
				t.Op("Wait", 1, func() any { l.Wait(); return nil })
				if x.Failed() {
					return
				}
				for i := range c.tasks {
					if d := vatomic.LoadInt64(&st.done[i]); d != 1 {
						x.FailNow("wait-returned-early-or-task-lost", fmt.Sprintf("Wait() returned but task %d has completed %d times (want exactly 1)", i, d))
						return
					}
				}
				if c.batch2 > 0 {
					if c.late {
						l.SetPanicHandler(func(v any) { st.handled2 = append(st.handled2, v) })
					}
					for j := 0; j < c.batch2; j++ {
						i := len(c.tasks) + j
						kind := pauseRet
						if c.late && j == 0 {
							kind = pausePnc
						}
						t.Op("Go", i, func() any { l.Go(body(i, kind, true)); return nil })
						if x.Failed() {
							return
						}
					}
					t.Op("Wait", 2, func() any { l.Wait(); return nil })
					if x.Failed() {
						return
					}
					for j := 0; j < c.batch2; j++ {
						i := len(c.tasks) + j
						if d := vatomic.LoadInt64(&st.done[i]); d != 1 {
							x.FailNow("wait-returned-early-or-task-lost", fmt.Sprintf("second Wait() returned but task %d has completed %d times (want exactly 1)", i, d))
							return
						}
					}
				}
			})
			return st
		},
		Check: func(x *core.Exec, ctx any) *core.Failure {
			st := ctx.(*ctxT)
			for i, d := range st.done {
				if d != 1 {
					return &core.Failure{Sig: "task-not-run-exactly-once", What: fmt.Sprintf("task %d ran %d times", i, d)}
				}
			}
			if st.inside != 0 {
				return &core.Failure{Sig: "inside-counter", What: fmt.Sprintf("inside = %d at the end", st.inside)}
			}
			if c.handler {
				var want, want2 []any
				for i, k := range c.tasks {
					if k == pnc || k == pausePnc {
						want = append(want, st.vals[i])
					}
				}
				if c.late && c.batch2 > 0 {
					want2 = append(want2, st.vals[len(c.tasks)])
				}
				if why := sameValues(st.handled, want); why != "" {
					return &core.Failure{Sig: "handler-values", What: "the panic handler configured when the functions were submitted " + why}
				}
				if why := sameValues(st.handled2, want2); why != "" {
					return &core.Failure{Sig: "handler-values|replaced-handler", What: "the panic handler installed after the first Wait " + why}
				}
			}
			return nil
		},
	}
	if c.batch2 > c.eff() {
		// `limit` functions are inside at once only in schedules with limit-1 switches away from a pausing function
		sc.AfterAllMinBound = c.eff() - 1
		sc.AfterAll = func() *core.Failure {
			if maxInside2 < eff {
				return &core.Failure{Sig: "slots-not-returned", What: fmt.Sprintf("over all schedules of the second batch at most %d functions ran concurrently although the limit is %d: slots were not given back", maxInside2, eff)}
			}
			return nil
		}
	}
	return sched.Spec{Sc: sc, Quick: 2, Thorough: 3}
}

// saturate: limit+1 functions that each stay inside until `limit` of them are inside together (a
// gate that opens, for good, when the count reaches the limit). With the right limit the gate opens
// and everything finishes; a limiter that admits more lets limit+1 in with a single preemption; one
// that admits fewer never opens the gate (deadlock). Reaches the bound in both directions at small
// preemption bounds, also for the default limit.
func saturate(limit int) sched.Spec {
	eff := limit
	if eff < 1 {
		eff = 3
	}
	type stS struct {
		inside, gate int64
		done         []int64
	}
	sc := sched.Scenario{
		Name:   fmt.Sprintf("limit%d/saturate", limit),
		NoRace: true,
		Build: func(x *core.Exec) any {
			st := &stS{done: make([]int64, eff+1)}
			l := goz.NewLimiter(limit)
			x.Spawn("main", func(t *core.Thread) {
				for i := 0; i <= eff; i++ {
					i := i
					t.Op("Go", i, func() any {
						l.Go(func() {
							n := vatomic.AddInt64(&st.inside, 1)
							if n > int64(eff) {
								x.FailNow("limit-exceeded", fmt.Sprintf("%d submitted functions are inside their body at the same time, limit %d", n, eff))
							}
							if n == int64(eff) {
								vatomic.StoreInt64(&st.gate, 1)
							}
							core.WaitFor(func() bool { return st.gate == 1 }) // evaluated by the scheduler: a plain read (the store is a shim event)
							vatomic.AddInt64(&st.inside, -1)
							vatomic.AddInt64(&st.done[i], 1)
						})
						return nil
					})
					if x.Failed() {
						return
					}
				}
				t.Op("Wait", 0, func() any { l.Wait(); return nil })
			})
			return st
		},
		Check: func(x *core.Exec, ctx any) *core.Failure {
			for i, d := range ctx.(*stS).done {
				if d != 1 {
					return &core.Failure{Sig: "task-not-run-exactly-once", What: fmt.Sprintf("function %d ran %d times", i, d)}
				}
			}
			return nil
		},
	}
	// one switch away from a function that could go on suffices to get limit+1 inside a too generous limiter
	sp := sched.Spec{Sc: sc, Quick: 1, Thorough: 2}
	if limit == 4 || limit == -1 {
		sp.ThoroughOnly = true
	}
	return sp
}

// concurrentWaiter: a second goroutine is parked in Wait() while the submitting goroutine is parked
// in Go on a full limiter. A slot that frees must go to the blocked Go (a wake-up that is consumed
// by the waiter instead starves the submission for good). The group counter never reaches zero while
// the waiter is registered (f2 stays inside until f3 is inside), so this is a legal use of the type.
func concurrentWaiter(limit int) sched.Spec {
	type stW struct {
		started, f3in int64
		done          []int64
		inside        int64
	}
	sc := sched.Scenario{
		Name:   fmt.Sprintf("limit%d/waiter-parked-while-go-blocks", limit),
		NoRace: true,
		Build: func(x *core.Exec) any {
			n := limit + 1
			st := &stW{done: make([]int64, n)}
			l := goz.NewLimiter(limit)
			body := func(i int) func() {
				return func() {
					if in := vatomic.AddInt64(&st.inside, 1); in > int64(limit) {
						x.FailNow("limit-exceeded", fmt.Sprintf("%d submitted functions are inside their body at the same time, limit %d", in, limit))
					}
					switch {
					case i == 0:
						core.Pause()
					case i < n-1:
						core.WaitFor(func() bool { return st.f3in == 1 }) // stays inside until the last function got its slot
					default:
						vatomic.StoreInt64(&st.f3in, 1)
					}
					vatomic.AddInt64(&st.inside, -1)
					vatomic.AddInt64(&st.done[i], 1)
				}
			}
			x.Spawn("main", func(t *core.Thread) {
				for i := 0; i < n; i++ {
					i := i
					t.Op("Go", i, func() any { l.Go(body(i)); return nil })
					if x.Failed() {
						return
					}
					if i == 1 {
						// from here on function 1 keeps the group counter above zero until the last function is
						// inside: the waiter registers on a counter that cannot touch zero before the end (an
						// Add from zero while a Wait is returning would be the CALLER's misuse of a WaitGroup)
						vatomic.StoreInt64(&st.started, 1)
					}
				}
				t.Op("Wait", 0, func() any { l.Wait(); return nil })
				for i := 0; i < n; i++ {
					if d := vatomic.LoadInt64(&st.done[i]); d != 1 {
						x.FailNow("wait-returned-early-or-task-lost", fmt.Sprintf("Wait() returned but function %d has completed %d times (want exactly 1)", i, d))
						return
					}
				}
			})
			x.Spawn("waiter", func(t *core.Thread) {
				core.WaitFor(func() bool { return st.started == 1 })
				t.Op("Wait", 1, func() any { l.Wait(); return nil })
			})
			return st
		},
		Check: func(x *core.Exec, ctx any) *core.Failure {
			for i, d := range ctx.(*stW).done {
				if d != 1 {
					return &core.Failure{Sig: "task-not-run-exactly-once", What: fmt.Sprintf("function %d ran %d times", i, d)}
				}
			}
			return nil
		},
	}
	return sched.Spec{Sc: sc, Quick: 2, Thorough: 3}
}

// twoLimiters: A and B are independent objects — functions submitted to one never occupy a slot
// of, are never waited for by, and never release the other (state shared between limiters).
func twoLimiters(limit int) sched.Spec {
	type st2 struct {
		inside [2]int64
		done   [2][]int64
	}
	n := limit + 1
	sc := sched.Scenario{
		Name:   fmt.Sprintf("two-limiters/limit%d", limit),
		NoRace: true,
		Build: func(x *core.Exec) any {
			st := &st2{}
			st.done[0], st.done[1] = make([]int64, n), make([]int64, n)
			ls := [2]*goz.Limiter{goz.NewLimiter(limit), goz.NewLimiter(limit)}
			body := func(w, i int) func() {
				return func() {
					if k := vatomic.AddInt64(&st.inside[w], 1); k > int64(limit) {
						x.FailNow("limit-exceeded", fmt.Sprintf("%d functions of one limiter are inside their body at the same time, limit %d", k, limit))
					}
					core.Pause()
					vatomic.AddInt64(&st.inside[w], -1)
					vatomic.AddInt64(&st.done[w][i], 1)
				}
			}
			for w := 0; w < 2; w++ {
				w := w
				x.Spawn(fmt.Sprintf("submitter%d", w), func(t *core.Thread) {
					for i := 0; i < n; i++ {
						i := i
						t.Op("Go", w*10+i, func() any { ls[w].Go(body(w, i)); return nil })
						if x.Failed() {
							return
						}
					}
					t.Op("Wait", w, func() any { ls[w].Wait(); return nil })
					if x.Failed() {
						return
					}
					for i := 0; i < n; i++ {
						if d := vatomic.LoadInt64(&st.done[w][i]); d != 1 {
							x.FailNow("wait-returned-early-or-task-lost", fmt.Sprintf("Wait() of limiter %d returned but its function %d has completed %d times (want exactly 1)", w, i, d))
							return
						}
					}
				})
			}
			return st
		},
		Check: func(x *core.Exec, ctx any) *core.Failure {
			st := ctx.(*st2)
			for w := 0; w < 2; w++ {
				for i, d := range st.done[w] {
					if d != 1 {
						return &core.Failure{Sig: "task-not-run-exactly-once", What: fmt.Sprintf("function %d of limiter %d ran %d times", i, w, d)}
					}
				}
			}
			return nil
		},
	}
	return sched.Spec{Sc: sc, Quick: 3 - limit, Thorough: 4 - limit}
}

// badErr: an error value whose Error method itself panics when called on the typed nil pointer
// (a panic value is any value: reporting it must not bring the process down either).
type badErr struct{ msg string }

func (e *badErr) Error() string { return e.msg }

type recLogger struct{ lines []string }

func (l *recLogger) Error(args ...any) { l.lines = append(l.lines, fmt.Sprint(args...)) }

// oddScenario: the corners of Go / the handler plumbing. variant:
//
//	"nil-task"      Go(nil): the call of the nil function panics inside the worker like any other panic
//	                (handler reached, slot and WaitGroup count given back)
//	"weird-panic"   no handler; a task panics with a typed-nil error whose Error method panics
//	"logpanic-0/2"  the handler is golib's own LogPanic(logger, depth)
//
// Each is followed by limit+1 pausing functions and a second Wait: a leaked slot or count blocks them.
func oddScenario(limit int, variant string) sched.Spec {
	type stT struct {
		done    []int64
		handled []any
		log     recLogger
	}
	n2 := limit + 1
	sc := sched.Scenario{
		Name:   fmt.Sprintf("limit%d/odd/%s", limit, variant),
		NoRace: true,
		Build: func(x *core.Exec) any {
			st := &stT{done: make([]int64, 1+n2)}
			l := goz.NewLimiter(limit)
			switch variant {
			case "nil-task":
				l.SetPanicHandler(func(v any) { st.handled = append(st.handled, v) })
			case "logpanic-0":
				l.SetPanicHandler(goz.LogPanic(&st.log, 0))
			case "logpanic-2":
				l.SetPanicHandler(goz.LogPanic(&st.log, 2))
			}
			x.Spawn("main", func(t *core.Thread) {
				t.Op("Go", 0, func() any {
					switch variant {
					case "nil-task":
						l.Go(nil)
					case "weird-panic":
						l.Go(func() { vatomic.AddInt64(&st.done[0], 1); var e *badErr; panic(error(e)) })
					default:
						l.Go(func() { vatomic.AddInt64(&st.done[0], 1); panic(&boom{0}) })
					}
					return nil
				})
				if x.Failed() {
					return
				}
				t.Op("Wait", 1, func() any { l.Wait(); return nil })
				if x.Failed() {
					return
				}
				for j := 0; j < n2; j++ {
					i := 1 + j
					t.Op("Go", i, func() any {
						l.Go(func() { core.Pause(); vatomic.AddInt64(&st.done[i], 1) })
						return nil
					})
					if x.Failed() {
						return
					}
				}
				t.Op("Wait", 2, func() any { l.Wait(); return nil })
			})
			return st
		},
		Check: func(x *core.Exec, ctx any) *core.Failure {
			st := ctx.(*stT)
			for i, d := range st.done {
				want := int64(1)
				if i == 0 && variant == "nil-task" {
					want = 0
				}
				if d != want {
					return &core.Failure{Sig: "task-not-run-exactly-once", What: fmt.Sprintf("function %d ran %d times, want %d", i, d, want)}
				}
			}
			switch variant {
			case "nil-task":
				if len(st.handled) != 1 {
					return &core.Failure{Sig: "handler-values|nil-task", What: fmt.Sprintf("Go(nil): the panic of the nil call reached the handler %d times (%v), want once", len(st.handled), st.handled)}
				}
			case "logpanic-0", "logpanic-2":
				if len(st.log.lines) != 1 || !strings.Contains(st.log.lines[0], "boom0") {
					return &core.Failure{Sig: "handler-values|LogPanic", What: fmt.Sprintf("handler LogPanic(logger, %s): the logger received %q, want one line that shows the panic value boom0", variant[len("logpanic-"):], st.log.lines)}
				}
			}
			return nil
		},
	}
	return sched.Spec{Sc: sc, Quick: 2, Thorough: 3}
}

// sameValues compares by identity (the handler must get the very value the function panicked with).
func sameValues(got, want []any) string {
	used := make([]bool, len(got))
	for _, w := range want {
		found := false
		for i, g := range got {
			if !used[i] && g == w {
				used[i], found = true, true
				break
			}
		}
		if !found {
			return fmt.Sprintf("received %v, want exactly the values %v (the value of %v is missing or was replaced by another value)", got, want, w)
		}
	}
	if len(got) != len(want) {
		return fmt.Sprintf("received %d values %v, want the %d values %v", len(got), got, len(want), want)
	}
	return ""
}

func main() {
	var specs []sched.Spec
	add := func(c cfg, quick, thorough int) {
		s := scenario(c)
		s.Quick, s.Thorough = quick, thorough
		specs = append(specs, s)
	}
	U := sched.Unbounded
	for _, limit := range []int{1, 2, 3, 0, -1} {
		eff := limit
		if eff < 1 {
			eff = 3
		}
		// all assignments for k <= 2, with the second batch
		for k := 1; k <= 2; k++ {
			n := 1
			for i := 0; i < k; i++ {
				n *= 4
			}
			for a := 0; a < n; a++ {
				tasks := make([]int, k)
				v := a
				for i := range tasks {
					tasks[i] = v % 4
					v /= 4
				}
				if limit < 1 && a%5 != 0 {
					continue // the fallback limits get a thinner set
				}
				b2 := eff + 1
				if eff == 3 {
					b2 = 0
					if k == 1 {
						b2 = eff + 1
					}
				}
				q, th := 2, U
				if eff >= 2 && k == 2 {
					th = 3
				}
				add(cfg{limit: limit, tasks: tasks, batch2: b2, handler: true}, q, th)
			}
		}
		if limit < 1 {
			continue
		}
		// covering set for k = eff+1, eff+2 (more tasks than slots)
		cover := [][]int{
			{pauseRet, pauseRet, pauseRet, pauseRet, pauseRet},
			{pausePnc, pauseRet, pnc, ret, pauseRet},
			{pnc, pnc, pnc, pnc, pnc},
			{ret, pausePnc, pauseRet, pausePnc, ret},
		}
		for k := eff + 1; k <= eff+2 && k <= 4; k++ {
			for _, cv := range cover {
				add(cfg{limit: limit, tasks: cv[:k], handler: true}, 2, 3)
			}
		}
		// Wait(timeout) first: timer and waiter goroutine are virtual threads. The search continues
		// past the recorded known finding (helper goroutine left in WaitGroup.Wait), which makes these
		// the largest scenarios: the quick bound shrinks with the limit.
		tq := []int{0, 2, 2, 1}[eff]
		add(cfg{limit: limit, tasks: []int{pauseRet}, batch2: eff + 1, handler: true, timed: true}, tq, 3)
		if eff >= 2 {
			// the same with a gated second batch: every execution must get `limit` functions inside
			// together after the timed wait, whichever way the timer went (limit 1 has nothing to lose:
			// a timed wait that takes no slot cannot keep one)
			add(cfg{limit: limit, tasks: []int{pauseRet}, batch2: eff + 1, handler: true, timed: true, gate2: true}, tq, 3)
		}
		if eff <= 2 {
			add(cfg{limit: limit, tasks: []int{pauseRet, pausePnc}, batch2: eff + 1, handler: true, timed: true}, 3-eff, 3)
		}
		// nil handler (default printing path), with and without panics
		add(cfg{limit: limit, tasks: []int{pnc, pauseRet}[:min(2, eff+1)], batch2: eff + 1}, 2, 3)
		add(cfg{limit: limit, tasks: []int{pausePnc}}, 2, U)
		// handler configured after the first Go, replaced after the first Wait
		add(cfg{limit: limit, tasks: []int{ret, pnc}, batch2: 2, handler: true, late: true}, 2, 3)
		add(cfg{limit: limit, tasks: []int{pauseRet, pausePnc, pnc}, batch2: 1, handler: true, late: true}, 2, 3)
	}
	for _, lim := range []int{1, 2, 3, 4, 0, -1} {
		specs = append(specs, saturate(lim))
	}
	for _, lim := range []int{2, 3} {
		specs = append(specs, concurrentWaiter(lim))
	}
	for _, lim := range []int{1, 2} {
		for _, v := range []string{"nil-task", "weird-panic", "logpanic-0", "logpanic-2"} {
			specs = append(specs, oddScenario(lim, v))
		}
	}
	// two limiters in use at the same time: each counts and waits for its own functions only
	for _, lim := range []int{1, 2} {
		specs = append(specs, twoLimiters(lim))
	}
	// a limit above the default
	add(cfg{limit: 4, tasks: []int{ret}, batch2: 5, handler: true}, 1, 3)
	add(cfg{limit: 4, tasks: []int{pauseRet, pausePnc, pauseRet, pnc, pauseRet}, handler: true}, 1, 2)
	sched.Main("C19", specs,
		[]string{
			"small scope: limits 1,2,3 (and 0,-1 -> 3), up to limit+2 (<= 4) submitted functions of four kinds (return, stay inside for a while, panic, stay then panic), a second batch of limit+1 functions after the first Wait",
			"Wait(timeout) is explored with the timer modelled as a virtual thread that may fire at any moment (no wall clock); panicking handlers are outside the check; Wait is called by the submitting goroutine after its Go calls",
			"preemption-bounded where the schedule space does not close: the evidence lists the bound completed per scenario",
		},
		"states = distinct happens-before signatures; every execution runs the real instrumented goz/goz.go; the number of functions inside their body (a shim atomic counter) must never exceed the limit; after Wait returns every function has completed exactly once; the handler receives exactly the panic values; a panic escaping a goroutine, a deadlock (leaked token blocks the second batch) and, over all schedules of the second batch, never reaching `limit` concurrent functions are violations; non-trivial = distinct histories")
}
