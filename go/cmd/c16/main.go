// C16 — setz.Bits, setz.Bitmap and the deprecated dsz.Bits behave as sets of unsigned integers,
// including the bulk operations Diff / Intersect / Merge on operands of different capacities.
// Engine E2: explicit-state BFS to the fix-point on the real objects (two sets A and B per
// instance), every transition compared with a map-set model, every state with the query battery.
package main

import (
	"fmt"
	"sort"
	"strings"
	"sync/atomic"
	"time"

	"verif/common"
	"verif/space"
)

// The space is finite by construction: elements come from `alphabet`, Grow arguments from
// `grows`, and no operation creates a word beyond the one of the largest of these numbers
// (Merge only copies words the other operand already has).
var (
	alphabet []uint // simplest first
	grows    []uint
	probes   []uint // Contains is asked for alphabet, neighbours and two far values
	maxWords int
)

func setup(thorough bool) {
	alphabet = []uint{0, 1, 63, 64, 65, 127, 128}
	grows = []uint{0, 63, 64, 127, 128}
	maxWords = 3
	if thorough {
		alphabet = append(alphabet, 129, 191, 192)
		grows = append(grows, 191, 192)
		maxWords = 4
	}
	seen := map[uint]bool{}
	for _, v := range alphabet {
		if v > 0 {
			seen[v-1] = true
		}
		seen[v] = true
		seen[v+1] = true
	}
	seen[uint(maxWords)*64] = true // first number of the word after the last possible one
	seen[uint(maxWords)*64+63] = true
	seen[1<<40] = true
	seen[^uint(0)] = true
	for v := range seen {
		probes = append(probes, v)
	}
	sort.Slice(probes, func(i, j int) bool { return probes[i] < probes[j] })
}

// canon dumps the private state (cached length + word slice). Slice capacities are left out:
// no code path of the three types re-slices into spare capacity (append always overwrites the
// slots it exposes), so spare capacity cannot influence a future.
var canon = &space.Canonizer{}

// wordPairs[a][b] is set when a state with Cap(A)/64 == a and Cap(B)/64 == b was checked
// (coverage information only: shows that operands of different capacities met).
var wordPairs [3][8][8]int32

type sysKind int

const (
	kBits sysKind = iota
	kBitmap
	kDsz
)

var sysNames = [...]string{"setz.Bits", "setz.Bitmap", "dsz.Bits"}

// start states: initial Grow argument per side (-1 = zero value), so that operands of
// different initial capacities meet at depth 1.
var starts2 = [][2]int{{-1, -1}, {-1, 128}, {128, -1}, {64, 0}}
var starts1 = []int{-1, 0, 128}

type inst struct {
	kind sysKind
	n    int // number of sets (2, or 1 for dsz.Bits which has no binary operation)
	s    [2]set
	m    [2]map[uint]bool
	last string // class of the last operation, only used in signatures
}

func newInst(kind sysKind, start int) *inst {
	x := &inst{kind: kind, n: 2, last: "start"}
	if kind == kDsz {
		x.n = 1
	}
	for i := 0; i < x.n; i++ {
		x.s[i] = newSet(kind)
		x.m[i] = map[uint]bool{}
		g := -1
		if x.n == 2 {
			g = starts2[start][i]
		} else {
			g = starts1[start]
		}
		if g >= 0 {
			x.s[i].grow(uint(g))
		}
	}
	return x
}

func (x *inst) Roots() []any {
	if x.n == 1 {
		return []any{x.s[0].root()}
	}
	return []any{x.s[0].root(), x.s[1].root()}
}

func (x *inst) Abstract() string {
	if x.n == 1 {
		return fmt.Sprint(sorted(x.m[0]))
	}
	return fmt.Sprint(sorted(x.m[0]), sorted(x.m[1]))
}

// ---------------------------------------------------------------- operations

var opTable [3][]space.Op

func buildOps(kind sysKind) []space.Op {
	sides := []string{"A", "B"}
	if kind == kDsz {
		sides = sides[:1]
	}
	var ops []space.Op
	each := func(name string, args []uint) {
		for _, s := range sides {
			for _, v := range args {
				ops = append(ops, space.Op{Name: s + "." + name, Args: []int{int(v)}})
			}
		}
	}
	each("Add", alphabet)
	each("Contains", alphabet)
	each("Remove", alphabet)
	each("Grow", grows)
	if kind != kDsz {
		for _, b := range []string{"Diff", "Intersect", "Merge"} {
			ops = append(ops, space.Op{Name: "A." + b + "(B)"}, space.Op{Name: "B." + b + "(A)"})
		}
		for _, b := range []string{"Diff", "Intersect", "Merge"} {
			ops = append(ops, space.Op{Name: "A." + b + "(A)"}, space.Op{Name: "B." + b + "(B)"})
		}
		each("Clone+toggleInClone", alphabet)
		each("Clone+toggleInSource", alphabet)
	}
	return ops
}

func (x *inst) Ops() []space.Op { return opTable[x.kind] }

func mm(sig, format string, a ...any) *space.Mismatch {
	return &space.Mismatch{Sig: sig, What: fmt.Sprintf(format, a...)}
}

func words(s set) int { return s.capv() >> 6 }

func (x *inst) Apply(op space.Op) *space.Mismatch {
	side := int(op.Name[0] - 'A')
	meth := op.Name[2:]
	s, m := x.s[side], x.m[side]
	ep := s.ep()
	var v uint
	if len(op.Args) > 0 {
		v = uint(op.Args[0])
	}
	switch meth {
	case "Add":
		was := m[v]
		class := "member"
		if !was {
			class = "new-within-capacity"
			if int(v>>6) >= words(s) {
				class = "new-beyond-capacity"
			}
		}
		x.last = "Add/" + class
		got, has := s.add(v)
		m[v] = true
		if has && got != !was {
			return mm(ep+".Add|wrong-result|"+class, "%s = %v, want %v (membership changed: %v); set before: %v", op, got, !was, !was, without(m, v, was))
		}
	case "Remove":
		was := m[v]
		class := "non-member-within-capacity"
		if was {
			class = "member"
		} else if int(v>>6) >= words(s) {
			class = "non-member-beyond-capacity"
		}
		x.last = "Remove/" + class
		got, has := s.remove(v)
		delete(m, v)
		if has && got != was {
			return mm(ep+".Remove|wrong-result|"+class, "%s = %v, want %v; set before: %v", op, got, was, without(m, v, was))
		}
	case "Contains":
		x.last = "Contains"
		if got := s.contains(v); got != m[v] {
			return mm(ep+".Contains|wrong-result|alphabet", "%s = %v, want %v; set %v", op, got, m[v], sorted(m))
		}
	case "Grow":
		x.last = "Grow"
		s.grow(v) // membership must not change: verified by the battery that follows
	case "Diff(B)", "Diff(A)", "Intersect(B)", "Intersect(A)", "Merge(B)", "Merge(A)":
		b := meth[:len(meth)-3]
		oside := int(meth[len(meth)-2] - 'A')
		o, om := x.s[oside], x.m[oside]
		class := "self-operand"
		if oside != side {
			switch rw, ow := words(s), words(o); {
			case rw < ow:
				class = "receiver-shorter"
			case rw > ow:
				class = "receiver-longer"
			default:
				class = "equal-words"
			}
		}
		x.last = b + "/" + class
		before := canon.Dump(o.root())
		wantOther := sorted(om)
		s.bulk(b, o)
		nm := map[uint]bool{}
		switch b {
		case "Diff":
			for k := range m {
				if !om[k] {
					nm[k] = true
				}
			}
		case "Intersect":
			for k := range m {
				if om[k] {
					nm[k] = true
				}
			}
		case "Merge":
			for k := range m {
				nm[k] = true
			}
			for k := range om {
				nm[k] = true
			}
		}
		x.m[side] = nm
		if oside != side {
			if after := canon.Dump(o.root()); after != before {
				return mm(ep+"."+b+"|other-operand-changed|"+class, "%s modified its argument: private state %s -> %s (argument should still be %v)", op, before, after, wantOther)
			}
		}
		// the receiver (result and Len) is compared by the battery that follows
	case "Clone+toggleInClone":
		x.last = "Clone"
		before := canon.Dump(s.root())
		c := s.clone()
		if f, msg := content(c, m); f != "" {
			return mm(ep+".Clone|clone-differs-from-source|"+f, "clone of %v: %s", sorted(m), msg)
		}
		cm := copyModel(m)
		if r := toggle(c, cm, v); r != nil {
			r.Sig = ep + ".Clone|" + r.Sig + "|on-clone"
			return r
		}
		if f, msg := content(c, cm); f != "" {
			return mm(ep+".Clone|clone-wrong-after-mutation|"+f, "clone of %v after toggling %d in the clone: %s", sorted(m), v, msg)
		}
		if after := canon.Dump(s.root()); after != before {
			return mm(ep+".Clone|source-changed-by-clone-mutation|toggle", "toggling %d in a clone of %v changed the source: private state %s -> %s", v, sorted(m), before, after)
		}
	case "Clone+toggleInSource":
		x.last = "Clone"
		c := s.clone()
		cm := copyModel(m)
		if f, msg := content(c, cm); f != "" {
			return mm(ep+".Clone|clone-differs-from-source|"+f, "clone of %v: %s", sorted(cm), msg)
		}
		before := canon.Dump(c.root())
		if r := toggle(s, m, v); r != nil {
			r.Sig = ep + "." + r.Sig + "|after-Clone"
			return r
		}
		if f, msg := content(c, cm); f != "" {
			return mm(ep+".Clone|clone-changed-by-source-mutation|"+f, "clone of %v after toggling %d in the source: %s", sorted(cm), v, msg)
		}
		if after := canon.Dump(c.root()); after != before {
			return mm(ep+".Clone|clone-changed-by-source-mutation|private-state", "toggling %d in the source %v changed its clone: private state %s -> %s", v, sorted(cm), before, after)
		}
	default:
		panic("harness: unknown operation " + op.Name)
	}
	return nil
}

// toggle removes v if it is a member, else adds it, and checks the reported result.
func toggle(s set, m map[uint]bool, v uint) *space.Mismatch {
	if m[v] {
		got, has := s.remove(v)
		delete(m, v)
		if has && !got {
			return mm("Remove|wrong-result", "Remove(%d) = false on a set holding it", v)
		}
		return nil
	}
	got, has := s.add(v)
	m[v] = true
	if has && !got {
		return mm("Add|wrong-result", "Add(%d) = false on a set not holding it", v)
	}
	return nil
}

// ---------------------------------------------------------------- state battery

// content compares every membership observation with the model: Len (all variants), Contains on
// the probe values, and the Iter sequence. It returns the failing entry point and a description.
func content(s set, m map[uint]bool) (string, string) {
	for _, l := range s.lens() {
		if l.got != len(m) {
			return l.name, fmt.Sprintf("%s() = %d, cardinality %d (members %v)", l.name, l.got, len(m), sorted(m))
		}
	}
	for _, p := range probes {
		if got := s.contains(p); got != m[p] {
			return "Contains", fmt.Sprintf("Contains(%d) = %v, want %v (members %v)", p, got, m[p], sorted(m))
		}
	}
	want := sorted(m)
	got, _ := s.iter(len(want), 0)
	if !eq(got, want) {
		return "Iter", fmt.Sprintf("Iter yields %d values %v, want %d values %v", len(got), got, len(want), want)
	}
	return "", ""
}

func (x *inst) Check() *space.Mismatch {
	var w [2]int
	for i := 0; i < x.n; i++ {
		if r := x.checkSet(x.s[i], x.m[i]); r != nil {
			return r
		}
		if w[i] = words(x.s[i]); w[i] > 7 {
			w[i] = 7
		}
	}
	if wordPairs[x.kind][w[0]][w[1]] == 0 {
		atomic.StoreInt32(&wordPairs[x.kind][w[0]][w[1]], 1)
	}
	return nil
}

func (x *inst) checkSet(s set, m map[uint]bool) *space.Mismatch {
	ep, after := s.ep(), "after-"+x.last
	if f, msg := content(s, m); f != "" {
		k := "not-cardinality" // f is Len or Bitmap.Len
		switch f {
		case "Contains":
			k = "wrong-result"
		case "Iter":
			k = "wrong-sequence"
		}
		return mm(ep+"."+f+"|"+k+"|"+after, "%s", msg)
	}
	// Cap() is only required not to change membership
	s.capv()
	if f, msg := content(s, m); f != "" {
		return mm(ep+".Cap|changed-membership|"+f, "after calling Cap(): %s", msg)
	}
	want := sorted(m)
	n := len(want)
	// iterator: Value may be read twice, or not at all, without disturbing the enumeration
	if got, unstable := s.iter(n, 1); unstable {
		return mm(ep+".Iter|value-unstable|"+after, "two Value() calls after one Next() differ; members %v", want)
	} else if !eq(got, want) {
		return mm(ep+".Iter|wrong-sequence|"+after, "Iter (Value read twice per step) yields %d values %v, want %d values %v", len(got), got, n, want)
	}
	if got, _ := s.iter(n, 2); len(got) != n {
		return mm(ep+".Iter|wrong-sequence|"+after, "Iter: Next() returned true %d times (Value never read), want %d; members %v", len(got), n, want)
	}
	type enum struct {
		name string
		run  func(func(uint) bool)
	}
	var enums []enum
	if s.hasRange() {
		enums = append(enums, enum{"Range", s.rangeFn})
	}
	if s.hasAll() {
		enums = append(enums, enum{"All", s.all})
	}
	for _, e := range enums {
		// full enumeration
		var got []uint
		e.run(func(v uint) bool {
			got = append(got, v)
			return len(got) <= n+64 // always true unless the enumeration runs away
		})
		if !eq(got, want) {
			return mm(ep+"."+e.name+"|wrong-sequence|"+after, "%s yields %d values %v, want %d values %v", e.name, len(got), got, n, want)
		}
		// early stop after the k-th member, for every k
		for k := 1; k <= n; k++ {
			got = got[:0]
			calls := 0
			e.run(func(v uint) bool {
				calls++
				if calls <= k {
					got = append(got, v)
				}
				return calls < k
			})
			if calls != k {
				return mm(ep+"."+e.name+"|early-stop-ignored|"+after, "%s: callback returned false at call %d but was called %d times; members %v", e.name, k, calls, want)
			}
			if !eq(got, want[:k]) {
				return mm(ep+"."+e.name+"|wrong-sequence|"+after, "%s stopped after %d: got %v, want %v", e.name, k, got, want[:k])
			}
		}
	}
	return nil
}

// ---------------------------------------------------------------- helpers

func sorted(m map[uint]bool) []uint {
	out := make([]uint, 0, len(m))
	for k, in := range m {
		if in {
			out = append(out, k)
		}
	}
	sort.Slice(out, func(i, j int) bool { return out[i] < out[j] })
	return out
}

// without reconstructs the set before an element operation on v (for messages only).
func without(m map[uint]bool, v uint, was bool) []uint {
	c := copyModel(m)
	delete(c, v)
	if was {
		c[v] = true
	}
	return sorted(c)
}

func copyModel(m map[uint]bool) map[uint]bool {
	c := make(map[uint]bool, len(m))
	for k, in := range m {
		if in {
			c[k] = true
		}
	}
	return c
}

func eq(a, b []uint) bool {
	if len(a) != len(b) {
		return false
	}
	for i := range a {
		if a[i] != b[i] {
			return false
		}
	}
	return true
}

// ---------------------------------------------------------------- main

func main() {
	r := common.Start("C16", "model_checking")
	setup(r.Thorough())
	var results []space.Result
	walls := map[string]float64{}
	for _, k := range []sysKind{kBits, kBitmap, kDsz} {
		opTable[k] = buildOps(k)
		kind := k
		sys := space.System{
			Name:   sysNames[k],
			Starts: len(starts2),
			New:    func(s int) space.Instance { return newInst(kind, s) },
			Canon:  canon,
		}
		if k == kDsz {
			sys.Starts = len(starts1)
		}
		t0 := time.Now()
		res := space.Search(r, sys)
		walls[sys.Name] = float64(time.Since(t0).Milliseconds()) / 1000
		r.Nontrivial(int64(res.States))
		results = append(results, res)
	}
	space.Summarize(r, results)
	pairs := map[string][]string{}
	for k := range sysNames {
		var ps []string
		for a := 0; a < 8; a++ {
			for b := 0; b < 8; b++ {
				if wordPairs[k][a][b] != 0 {
					ps = append(ps, fmt.Sprintf("%d/%d", a, b))
				}
			}
		}
		pairs[sysNames[k]] = ps
	}
	r.Cov("alphabet", alphabet)
	r.Cov("grow_arguments", grows)
	r.Cov("contains_probes", probes)
	r.Cov("max_words", maxWords)
	r.Cov("operations_per_state", map[string]int{sysNames[0]: len(opTable[0]), sysNames[1]: len(opTable[1]), sysNames[2]: len(opTable[2])})
	r.Cov("capacity_pairs_checked_words_A/B", pairs)
	r.Cov("wall_s_per_system", walls)
	r.SampleL("bulk", map[string]any{"start": "A zero value, B after Grow(128)", "path": "B.Add[128] A.Add[0] A.Merge(B) A.Diff(B) B.Intersect(A)"})
	r.SampleL("clone", map[string]any{"path": "A.Add[63] A.Clone+toggleInClone[64] A.Clone+toggleInSource[63]"})
	r.Assume(
		fmt.Sprintf("small scope: members from %v, Grow arguments %v, hence at most %d words per set; two sets per instance (one for dsz.Bits, which has no binary operation)", alphabet, grows, maxWords),
		"slice capacity is not part of the state key: no method re-slices into spare capacity, so it cannot influence a future",
		"Cap() is only called, its value is used for signature classes and coverage, never asserted; Add/Remove of dsz.Bits return nothing, their effect is judged by the battery",
		"no constructor exists: start states are zero values, differing initial capacities are produced with Grow ("+strings.TrimSpace(fmt.Sprint(starts2))+")",
	)
	r.Finish("states = distinct canonical dumps of the private state of both sets (cached length + word slice of A and of B); every transition is one real method call (or Clone + one mutation) compared with a map-set model — Add/Remove results, argument of a bulk operation untouched, clone and source independent — followed on both sets by the battery Len = cardinality (cached and counted), Contains on alphabet+neighbours+far values, membership unchanged by Cap, Iter (3 reading styles) = Range = All = sorted model with counts, early stop of Range/All after every k. Non-trivial = distinct states.")
}
