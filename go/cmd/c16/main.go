// C16 — setz.Bits, setz.Bitmap and the deprecated dsz.Bits behave as sets of unsigned integers,
// including the bulk operations Diff / Intersect / Merge on operands of different capacities.
// Engine E2: explicit-state BFS to the fix-point on the real objects (two sets A and B per
// instance), every transition compared with a map-set model, every state with the query battery.
package main

import (
	"fmt"
	"reflect"
	"slices"
	"strconv"
	"sync/atomic"
	"time"

	"verif/common"
	"verif/space"
)

// The space is finite by construction: elements come from the alphabet of the system, Grow
// arguments from `grows`, and no operation creates a word beyond the one of the largest of these
// numbers (Merge only copies words the other operand already has).
type config struct {
	idx    int
	name   string
	kind   sysKind
	alpha  []uint // members offered to Add / Remove / Contains / Clone+toggle, simplest first
	grows  []uint
	starts [][2]int // initial Grow argument per side (-1 = zero value)
	ops    []space.Op
	big    bool // searched with compactSearch (space.Search needs about 85 kB per state here)
}

var (
	quickAlpha = []uint{0, 1, 63, 64, 65, 127, 128}
	fullAlpha  = []uint{0, 1, 63, 64, 65, 127, 128, 129, 191, 192}
	wideAlpha  = []uint{0, 63, 64, 127, 128, 129, 191, 192} // the thorough 4-word systems
	grows3     = []uint{0, 63, 64, 127, 128}
	grows4     = []uint{0, 63, 64, 127, 128, 191, 192}
	// no constructor exists; differing initial capacities are produced with Grow so that
	// operands of different capacities meet at depth 1
	starts2 = [][2]int{{-1, -1}, {-1, 128}, {128, -1}, {64, 0}}
	starts1 = [][2]int{{-1, -1}, {0, -1}, {128, -1}}

	probes   []uint // Contains is asked for alphabet, neighbours and far values
	maxWords int
)

func configs(thorough bool) []*config {
	cs := []*config{
		{name: "setz.Bits", kind: kBits, alpha: quickAlpha, grows: grows3, starts: starts2},
		{name: "setz.Bitmap", kind: kBitmap, alpha: quickAlpha, grows: grows3, starts: starts2},
		{name: "dsz.Bits", kind: kDsz, alpha: quickAlpha, grows: grows3, starts: starts1},
	}
	maxWords = 3
	all := quickAlpha
	if thorough {
		// The two-set product over all ten values (measured once on setz.Bits: 2 501 701 states,
		// 252 671 801 transitions, depth 15, fix-point, no violation) costs about 100 CPU-minutes
		// per system, so the 4-word systems use eight values: the three values the thorough tier
		// adds (129, 191, 192) and both sides of every word boundary. 1 and 65 are covered by the
		// 3-word systems above, the single-set dsz.Bits runs over all ten. (Restricting only one
		// side does not help: B.Merge(A) carries every member of A over to B.)
		cs[2] = &config{name: "dsz.Bits", kind: kDsz, alpha: fullAlpha, grows: grows4, starts: starts1}
		cs = append(cs,
			&config{name: "setz.Bits/4words", kind: kBits, alpha: wideAlpha, grows: grows4, starts: starts2, big: true},
			&config{name: "setz.Bitmap/4words", kind: kBitmap, alpha: wideAlpha, grows: grows4, starts: starts2, big: true})
		maxWords = 4
		all = fullAlpha
	}
	seen := map[uint]bool{}
	for _, v := range all {
		if v > 0 {
			seen[v-1] = true
		}
		seen[v] = true
		seen[v+1] = true
	}
	seen[uint(maxWords)*64] = true // first and last number of the word after the last possible one
	seen[uint(maxWords)*64+63] = true
	seen[1<<40] = true
	seen[^uint(0)] = true
	for v := range seen {
		probes = append(probes, v)
	}
	slices.Sort(probes)
	for i, c := range cs {
		c.idx = i
		c.ops = buildOps(c)
	}
	return cs
}

// canon dumps the private state (cached length + word slice). Slice capacities are left out:
// no code path of the three types re-slices into spare capacity (append always overwrites the
// slots it exposes), so spare capacity cannot influence a future.
var canon = &space.Canonizer{}

// wordPairs[c][a][b] is set when a state with Cap(A)/64 == a and Cap(B)/64 == b was checked
// (coverage information only: shows that operands of different capacities met).
var wordPairs [8][8][8]int32

// witnessMissing is set when the word slice could not be located by reflection.
var witnessMissing int32

type sysKind int

const (
	kBits sysKind = iota
	kBitmap
	kDsz
)

type inst struct {
	c         *config
	n         int // number of sets (2, or 1 for dsz.Bits which has no binary operation)
	s         [2]set
	m         [2]map[uint]bool
	last      string // name and input class of the last operation, only used in signatures
	lastClass string
	lastOther int       // side that was the argument of the last operation if it was a bulk one, else -1
	lastSrc   int       // side that was cloned by the last operation if the clone was mutated, else -1
	buf       []uint    // scratch for enumerations
	want      [2][]uint // sorted model per side, nil = stale
}

func newInst(c *config, start int) *inst {
	x := &inst{c: c, n: 2, last: "start", lastOther: -1, lastSrc: -1, buf: make([]uint, 0, 80)}
	if c.kind == kDsz {
		x.n = 1
	}
	for i := 0; i < x.n; i++ {
		x.s[i] = newSet(c.kind)
		x.m[i] = map[uint]bool{}
		if g := c.starts[start][i]; g >= 0 {
			x.s[i].grow(uint(g))
		}
	}
	return x
}

// Roots: the two real objects plus one harness fact the reflective dump cannot see — whether
// the word arrays of A and B overlap in memory. Sharing is not a violation by itself, but a
// state with shared words has other futures than its unshared twin, so it must not be merged
// with it (otherwise "Merge adopts the argument's array" would never be expanded).
func (x *inst) Roots() []any {
	if x.n == 1 {
		return []any{x.s[0].root()}
	}
	return []any{x.s[0].root(), x.s[1].root(), x.shared()}
}

func (x *inst) shared() bool {
	alo, ahi, ok1 := backing(reflect.ValueOf(x.s[0].root()).Elem())
	blo, bhi, ok2 := backing(reflect.ValueOf(x.s[1].root()).Elem())
	if !ok1 || !ok2 {
		atomic.StoreInt32(&witnessMissing, 1)
		return false
	}
	return alo < bhi && blo < ahi
}

// backing returns the address range of the first slice found in the private state.
func backing(v reflect.Value) (lo, hi uintptr, ok bool) {
	switch v.Kind() {
	case reflect.Slice:
		if v.Cap() == 0 {
			return 0, 0, true
		}
		lo = v.Pointer()
		return lo, lo + uintptr(v.Cap())*v.Type().Elem().Size(), true
	case reflect.Struct:
		for i := 0; i < v.NumField(); i++ {
			if lo, hi, ok = backing(v.Field(i)); ok {
				return
			}
		}
	}
	return 0, 0, false
}

func (x *inst) sortedOf(side int) []uint {
	if x.want[side] == nil {
		x.want[side] = sorted(x.m[side])
	}
	return x.want[side]
}

func (x *inst) Abstract() string {
	b := make([]byte, 0, 64)
	for i := 0; i < x.n; i++ {
		for _, v := range x.sortedOf(i) {
			b = strconv.AppendUint(b, uint64(v), 10)
			b = append(b, ' ')
		}
		b = append(b, '|')
	}
	return string(b)
}

// ---------------------------------------------------------------- operations

func buildOps(c *config) []space.Op {
	sides := []string{"A", "B"}
	if c.kind == kDsz {
		sides = sides[:1]
	}
	var ops []space.Op
	each := func(name string, members bool) {
		for _, s := range sides {
			args := c.grows
			if members {
				args = c.alpha
			}
			for _, v := range args {
				ops = append(ops, space.Op{Name: s + "." + name, Args: []int{int(v)}})
			}
		}
	}
	each("Add", true)
	each("Contains", true)
	each("Remove", true)
	for _, sd := range sides { // far beyond any capacity: nothing to remove, nothing may be allocated or touched
		for _, v := range []uint{1 << 40, ^uint(0)} {
			ops = append(ops, space.Op{Name: sd + ".Remove", Args: []int{int(v)}})
		}
	}
	each("Grow", false)
	if c.kind != kDsz {
		for _, b := range []string{"Diff", "Intersect", "Merge"} {
			ops = append(ops, space.Op{Name: "A." + b + "(B)"}, space.Op{Name: "B." + b + "(A)"})
		}
		for _, b := range []string{"Diff", "Intersect", "Merge"} {
			ops = append(ops, space.Op{Name: "A." + b + "(A)"}, space.Op{Name: "B." + b + "(B)"})
		}
		each("Clone+toggleInClone", true)
		each("Clone+toggleInSource", true)
	}
	return ops
}

func (x *inst) Ops() []space.Op { return x.c.ops }

func mm(sig, format string, a ...any) *space.Mismatch {
	return &space.Mismatch{Sig: sig, What: fmt.Sprintf(format, a...)}
}

func words(s set) int { return s.capv() >> 6 }

func (x *inst) Apply(op space.Op) *space.Mismatch {
	side := int(op.Name[0] - 'A')
	meth := op.Name[2:]
	s, m := x.s[side], x.m[side]
	ep := s.ep()
	var v uint
	if len(op.Args) > 0 {
		v = uint(op.Args[0])
	}
	x.lastOther, x.lastSrc = -1, -1
	switch meth {
	case "Add":
		was := m[v]
		class := "member"
		if !was {
			class = "new-within-capacity"
			if int(v>>6) >= words(s) {
				class = "new-beyond-capacity"
			}
		}
		x.last, x.lastClass, x.want[side] = "Add", class, nil
		got, has := s.add(v)
		m[v] = true
		if has && got != !was {
			return mm(ep+".Add|wrong-result|"+class, "%s = %v, want %v; set before: %v", op, got, !was, without(m, v, was))
		}
	case "Remove":
		was := m[v]
		class := "non-member-within-capacity"
		if was {
			class = "member"
		} else if int(v>>6) >= words(s) {
			class = "non-member-beyond-capacity"
		}
		x.last, x.lastClass, x.want[side] = "Remove", class, nil
		got, has := s.remove(v)
		delete(m, v)
		if has && got != was {
			return mm(ep+".Remove|wrong-result|"+class, "%s = %v, want %v; set before: %v", op, got, was, without(m, v, was))
		}
	case "Contains":
		x.last, x.lastClass = "Contains", ""
		if got := s.contains(v); got != m[v] {
			return mm(ep+".Contains|wrong-result|alphabet", "%s = %v, want %v; set %v", op, got, m[v], sorted(m))
		}
	case "Grow":
		x.last, x.lastClass = "Grow", ""
		s.grow(v) // membership must not change: verified by the battery that follows
	case "Diff(B)", "Diff(A)", "Intersect(B)", "Intersect(A)", "Merge(B)", "Merge(A)":
		b := meth[:len(meth)-3]
		oside := int(meth[len(meth)-2] - 'A')
		o, om := x.s[oside], x.m[oside]
		class := "self-operand"
		if oside != side {
			x.lastOther = oside
			switch rw, ow := words(s), words(o); {
			case rw < ow:
				class = "receiver-shorter"
			case rw > ow:
				class = "receiver-longer"
			default:
				class = "equal-words"
			}
		}
		x.last, x.lastClass, x.want[side] = b, class, nil
		s.bulk(b, o)
		nm := make(map[uint]bool, len(m)+len(om))
		switch b {
		case "Diff":
			for k := range m {
				if !om[k] {
					nm[k] = true
				}
			}
		case "Intersect":
			for k := range m {
				if om[k] {
					nm[k] = true
				}
			}
		case "Merge":
			for k := range m {
				nm[k] = true
			}
			for k := range om {
				nm[k] = true
			}
		}
		x.m[side] = nm
		// The battery that follows compares the receiver (result, Len) with nm and the argument
		// with its unchanged model; a difference there is reported as other-operand-changed.
	case "Clone+toggleInClone":
		x.last, x.lastClass = "Clone", ""
		x.lastSrc = side
		c := s.clone()
		if f, msg := content(c, m, sorted(m)); f != "" {
			return mm(ep+".Clone|clone-differs-from-source|"+f, "clone of %v: %s", sorted(m), msg)
		}
		cm := copyModel(m)
		if r := toggle(c, cm, v); r != nil {
			r.Sig = ep + ".Clone|" + r.Sig + "|on-clone"
			return r
		}
		if f, msg := content(c, cm, sorted(cm)); f != "" {
			return mm(ep+".Clone|clone-wrong-after-mutation|"+f, "clone of %v after toggling %d in the clone: %s", sorted(m), v, msg)
		}
		// two further clones of the same source that both grow past the source's capacity: each
		// must end up with its own new member only (clones that share spare capacity of the
		// source's array would overwrite each other)
		if v == x.c.alpha[0] {
			c1, c2 := s.clone(), s.clone()
			m1, m2 := copyModel(m), copyModel(m)
			x1 := uint(s.capv()) + 1
			if r := toggle(c1, m1, x1); r != nil {
				r.Sig = ep + ".Clone|" + r.Sig + "|on-clone"
				return r
			}
			if r := toggle(c2, m2, x1+1); r != nil {
				r.Sig = ep + ".Clone|" + r.Sig + "|on-clone"
				return r
			}
			if f, msg := content(c1, m1, sorted(m1)); f != "" {
				return mm(ep+".Clone|clone-changed-by-another-clone|"+f, "two clones of %v; Add(%d) to the first, Add(%d) to the second; the first now: %s", sorted(m), x1, x1+1, msg)
			}
			if f, msg := content(c2, m2, sorted(m2)); f != "" {
				return mm(ep+".Clone|clone-changed-by-another-clone|"+f, "two clones of %v; Add(%d) to the first, Add(%d) to the second; the second now: %s", sorted(m), x1, x1+1, msg)
			}
		}
		// the source is compared with its unchanged model by the battery that follows
		// (reported as source-changed-by-clone-mutation)
	case "Clone+toggleInSource":
		x.last, x.lastClass, x.want[side] = "Add", "on a cloned source", nil
		if m[v] {
			x.last = "Remove"
		}
		c := s.clone()
		cm := copyModel(m)
		want := sorted(cm)
		if f, msg := content(c, cm, want); f != "" {
			return mm(ep+".Clone|clone-differs-from-source|"+f, "clone of %v: %s", want, msg)
		}
		if r := toggle(s, m, v); r != nil {
			r.Sig = ep + "." + r.Sig + "|after-Clone"
			return r
		}
		if f, msg := content(c, cm, want); f != "" {
			return mm(ep+".Clone|clone-changed-by-source-mutation|"+f, "clone of %v after toggling %d in the source: %s", want, v, msg)
		}
	default:
		panic("harness: unknown operation " + op.Name)
	}
	return nil
}

// toggle removes v if it is a member, else adds it, and checks the reported result.
func toggle(s set, m map[uint]bool, v uint) *space.Mismatch {
	if m[v] {
		got, has := s.remove(v)
		delete(m, v)
		if has && !got {
			return mm("Remove|wrong-result", "Remove(%d) = false on a set holding it", v)
		}
		return nil
	}
	got, has := s.add(v)
	m[v] = true
	if has && !got {
		return mm("Add|wrong-result", "Add(%d) = false on a set not holding it", v)
	}
	return nil
}

// ---------------------------------------------------------------- state battery

// membership compares Len (all variants) and Contains on the probe values with the model.
func membership(s set, m map[uint]bool) (string, string) {
	nl, ls := s.lens()
	for _, l := range ls[:nl] {
		if l.got != len(m) {
			return l.name, fmt.Sprintf("%s() = %d, cardinality %d (members %v)", l.name, l.got, len(m), sorted(m))
		}
	}
	for _, p := range probes {
		if got := s.contains(p); got != m[p] {
			return "Contains", fmt.Sprintf("Contains(%d) = %v, want %v (members %v)", p, got, m[p], sorted(m))
		}
	}
	return "", ""
}

// content = membership plus the Iter sequence (which sees every word, not only the probes).
// It returns the failing entry point and a description. want = sorted(m).
func content(s set, m map[uint]bool, want []uint) (string, string) {
	if f, msg := membership(s, m); f != "" {
		return f, msg
	}
	var buf [16]uint
	got, _ := s.iter(buf[:], len(want), 0)
	if !eq(got, want) {
		return "Iter", fmt.Sprintf("Iter yields %d values %v, want %d values %v", len(got), got, len(want), want)
	}
	return "", ""
}

func (x *inst) Check() *space.Mismatch {
	var w [2]int
	for i := 0; i < x.n; i++ {
		if r := x.checkSet(i); r != nil {
			return r
		}
		if w[i] = words(x.s[i]); w[i] > 7 {
			w[i] = 7
		}
	}
	if p := &wordPairs[x.c.idx][w[0]][w[1]]; atomic.LoadInt32(p) == 0 {
		atomic.StoreInt32(p, 1)
	}
	return nil
}

func (x *inst) checkSet(side int) *space.Mismatch {
	s, m := x.s[side], x.m[side]
	ep := s.ep()
	want := x.sortedOf(side)
	n := len(want)
	// Signatures: a wrong Len / Contains / first Iter pass may be the fault of the operation that
	// produced the state, so its name is the input class (its finer class — receiver-shorter,
	// new-beyond-capacity, ... — goes into the text only); the observers that run after the
	// content was found correct are at fault themselves, whatever produced the state.
	lastOp := func() string {
		if x.lastClass != "" {
			return x.last + " (" + x.lastClass + ")"
		}
		return x.last
	}
	fail := func(sig, format string, a ...any) *space.Mismatch {
		return mm(ep+"."+sig+"|any-state", format+"; last operation: "+lastOp(), a...)
	}
	if f, msg := content(s, m, want); f != "" {
		switch {
		case side == x.lastOther: // the argument of the bulk operation just executed
			return mm(ep+"."+x.last+"|other-operand-changed|"+x.lastClass, "the argument of the bulk operation no longer equals %v: %s", want, msg)
		case side == x.lastSrc:
			return mm(ep+".Clone|source-changed-by-clone-mutation|"+f, "source %v after toggling a value in its clone: %s", want, msg)
		}
		k := "not-cardinality" // f is Len or Bitmap.Len
		switch f {
		case "Contains":
			k = "wrong-result"
		case "Iter":
			k = "wrong-sequence"
		}
		return mm(ep+"."+f+"|"+k+"|after-"+x.last, "%s; last operation: %s", msg, lastOp())
	}
	// Cap() is only required not to change membership (the enumerations below also run after it)
	s.capv()
	if f, msg := membership(s, m); f != "" {
		return mm(ep+".Cap|changed-membership|"+f, "after calling Cap(): %s", msg)
	}
	// iterator: Value may be read twice, or not at all, without disturbing the enumeration
	if got, unstable := s.iter(x.buf, n, 1); unstable {
		return fail("Iter|value-unstable", "two Value() calls after one Next() differ; members %v", want)
	} else if !eq(got, want) {
		return fail("Iter|wrong-sequence", "Iter (Value read twice per step) yields %d values %v, want %d values %v", len(got), got, n, want)
	}
	if got, _ := s.iter(x.buf, n, 2); len(got) != n {
		return fail("Iter|wrong-sequence", "Iter: Next() returned true %d times (Value never read), want %d; members %v", len(got), n, want)
	}
	for e := 0; e < 2; e++ {
		name, run := "Range", s.rangeFn
		if e == 0 && !s.hasRange() {
			continue
		}
		if e == 1 {
			if !s.hasAll() {
				continue
			}
			name, run = "All", s.all
		}
		// full enumeration
		got := x.buf[:0]
		run(func(v uint) bool {
			got = append(got, v)
			return len(got) <= n+64 // always true unless the enumeration runs away
		})
		if !eq(got, want) {
			return fail(name+"|wrong-sequence", "%s yields %d values %v, want %d values %v", name, len(got), got, n, want)
		}
		// early stop after the k-th member, for every k
		for k := 1; k <= n; k++ {
			got = got[:0]
			calls := 0
			run(func(v uint) bool {
				calls++
				if calls <= k {
					got = append(got, v)
				}
				return calls < k
			})
			if calls != k {
				return fail(name+"|early-stop-ignored", "%s: callback returned false at call %d but was called %d times; members %v", name, k, calls, want)
			}
			if !eq(got, want[:k]) {
				return fail(name+"|wrong-sequence", "%s stopped after %d: got %v, want %v", name, k, got, want[:k])
			}
		}
	}
	return nil
}

// ---------------------------------------------------------------- helpers

func sorted(m map[uint]bool) []uint {
	out := make([]uint, 0, len(m))
	for k, in := range m {
		if in {
			out = append(out, k)
		}
	}
	slices.Sort(out)
	return out
}

// without reconstructs the set before an element operation on v (for messages only).
func without(m map[uint]bool, v uint, was bool) []uint {
	c := copyModel(m)
	delete(c, v)
	if was {
		c[v] = true
	}
	return sorted(c)
}

func copyModel(m map[uint]bool) map[uint]bool {
	c := make(map[uint]bool, len(m))
	for k, in := range m {
		if in {
			c[k] = true
		}
	}
	return c
}

func eq(a, b []uint) bool { return slices.Equal(a, b) }

// ---------------------------------------------------------------- main

func main() {
	r := common.Start("C16", "model_checking")
	cs := configs(r.Thorough())
	var results []space.Result
	walls := map[string]float64{}
	nops := map[string]int{}
	scope := map[string]any{}
	engine := map[string]string{}
	for _, c := range cs {
		c := c
		sys := space.System{
			Name:   c.name,
			Starts: len(c.starts),
			New:    func(s int) space.Instance { return newInst(c, s) },
			Canon:  canon,
		}
		t0 := time.Now()
		var res space.Result
		if c.big {
			res = compactSearch(r, sys, true)
			engine[c.name] = "compactSearch (cmd/c16/compact.go)"
		} else {
			res = space.Search(r, sys)
			engine[c.name] = "space.Search"
		}
		walls[c.name] = float64(time.Since(t0).Milliseconds()) / 1000
		nops[c.name] = len(c.ops)
		scope[c.name] = map[string]any{"members": c.alpha, "grow_arguments": c.grows, "start_grow_arguments_A/B": c.starts}
		r.Nontrivial(int64(res.States))
		results = append(results, res)
		if r.Thorough() && c.idx == 0 && res.CapHit == "" {
			// binding of the local search loop to the engine: same system, same numbers
			t0 = time.Now()
			alt := compactSearch(r, sys, false)
			walls["cross-check of compactSearch on "+c.name] = float64(time.Since(t0).Milliseconds()) / 1000
			if alt.CapHit == "" && alt != res {
				common.Infra("compactSearch disagrees with space.Search on %s: %+v vs %+v", c.name, alt, res)
			}
			r.Cov("compactSearch_equals_space.Search_on", c.name)
		}
	}
	r.Cov("search_loop_per_system", engine)
	space.Summarize(r, results)
	pairs := map[string][]string{}
	for _, c := range cs {
		var ps []string
		for a := 0; a < 8; a++ {
			for b := 0; b < 8; b++ {
				if wordPairs[c.idx][a][b] != 0 {
					ps = append(ps, fmt.Sprintf("%d/%d", a, b))
				}
			}
		}
		pairs[c.name] = ps
	}
	r.Cov("scope", scope)
	r.Cov("contains_probes", probes)
	r.Cov("max_words", maxWords)
	r.Cov("operations_per_state", nops)
	r.Cov("capacity_pairs_checked_words_A/B", pairs)
	r.Cov("wall_s_per_system", walls)
	r.Cov("array_sharing_witness_in_state_key", witnessMissing == 0)
	if witnessMissing != 0 {
		r.Incomplete("the word slice was not found by reflection: states whose two sets share memory are merged with their unshared twins")
	}
	r.SampleL("bulk", map[string]any{"start": "A zero value, B after Grow(128)", "path": "B.Add[128] A.Add[0] A.Merge(B) A.Diff(B) B.Intersect(A)"})
	r.SampleL("clone", map[string]any{"path": "A.Add[63] A.Clone+toggleInClone[64] A.Clone+toggleInSource[63]"})
	r.Assume(
		fmt.Sprintf("small scope: members and Grow arguments as listed under coverage.scope, hence at most %d words per set; two sets per instance (one for dsz.Bits, which has no binary operation)", maxWords),
		"slice capacity is not part of the state key: no method re-slices into spare capacity, so it cannot influence a future; whether the word arrays of A and B overlap in memory is part of the key",
		"Cap() is only called, its value is used for signature classes and coverage, never asserted; Add/Remove of dsz.Bits return nothing, their effect is judged by the battery",
		"no constructor exists: start states are zero values, differing initial capacities are produced with Grow",
	)
	r.Finish("states = distinct canonical dumps of the private state of both sets (cached length + word slice of A and of B, plus whether the two word arrays share memory); every transition is one real method call (or Clone + one mutation) compared with a map-set model — Add/Remove results, argument of a bulk operation untouched, clone and source independent — followed on both sets by the battery Len = cardinality (cached and counted), Contains on alphabet+neighbours+far values, membership unchanged by Cap, Iter (3 reading styles) = Range = All = sorted model with counts, early stop of Range/All after every k. Non-trivial = distinct states.")
}
