package main

import (
	"fmt"
	"sync/atomic"

	"verif/common"
	"verif/space"
)

// compactSearch is a memory-light re-statement of space.Search with the same semantics (same
// Instance contract, replay from the start state for every transition, same merge order and
// therefore the same representative paths, same violation format). space.Search materialises a
// full path for every transition of a level (about 85 kB per state here: 29 GB at 343 k states),
// this one keeps a parent link per state and 24 bytes per transition. It is used for the large
// thorough systems only and is compared with space.Search on a quick system on every thorough run.
type cnode struct {
	parent int32 // index into nodes, -1 = start state
	start  int32
	op     space.Op
}

type csucc struct {
	key [16]byte
	abs string // only filled for keys not seen before this level
	op  int32
	ok  bool
}

func compactSearch(r *common.Run, sys space.System, count bool) space.Result {
	res := space.Result{Name: sys.Name}
	seen := map[[16]byte]struct{}{}
	abstract := map[string]struct{}{}
	maxStates := sys.MaxStates
	if maxStates == 0 {
		maxStates = 5_000_000
	}
	var nodes []cnode
	pathOf := func(n int32) (int, []space.Op) {
		var rev []space.Op
		for nodes[n].parent >= 0 {
			rev = append(rev, nodes[n].op)
			n = nodes[n].parent
		}
		for i, j := 0, len(rev)-1; i < j; i, j = i+1, j-1 {
			rev[i], rev[j] = rev[j], rev[i]
		}
		return int(nodes[n].start), rev
	}
	var frontier []int32
	for s := 0; s < sys.Starts; s++ {
		var inst space.Instance
		var key [16]byte
		var mis *space.Mismatch
		_, st, p := common.Catch(func() {
			inst = sys.New(s)
			key = sys.Canon.Key(inst.Roots()...)
			abstract[inst.Abstract()] = struct{}{}
			mis = inst.Check()
		})
		res.Paths++
		if p {
			creport(r, sys, s, nil, nil, &space.Mismatch{Sig: common.PanicSite(st) + "|panic|start-state", What: "panic while building / checking the start state"}, st)
			continue
		}
		if mis != nil {
			creport(r, sys, s, nil, nil, mis, "")
		}
		if _, dup := seen[key]; !dup {
			seen[key] = struct{}{}
			nodes = append(nodes, cnode{parent: -1, start: int32(s)})
			frontier = append(frontier, int32(len(nodes)-1))
		}
	}
	depth := 0
	for len(frontier) > 0 {
		if sys.MaxDepth > 0 && depth >= sys.MaxDepth {
			res.CapHit = fmt.Sprintf("depth cap %d (frontier %d states unexpanded)", sys.MaxDepth, len(frontier))
			break
		}
		if r.Expired() {
			res.CapHit = fmt.Sprintf("deadline at depth %d (frontier %d states unexpanded)", depth, len(frontier))
			r.Incomplete(sys.Name + ": " + res.CapHit)
			break
		}
		if len(seen) > maxStates {
			res.CapHit = fmt.Sprintf("state cap %d", maxStates)
			r.Incomplete(sys.Name + ": " + res.CapHit)
			break
		}
		depth++
		out := make([][]csucc, len(frontier))
		opsOf := make([][]space.Op, len(frontier))
		var trans int64
		r.Parallel(len(frontier), func(i int) {
			start, path := pathOf(frontier[i])
			var ops []space.Op
			_, _, p := common.Catch(func() {
				inst := sys.New(start)
				for _, o := range path {
					inst.Apply(o)
				}
				ops = inst.Ops()
			})
			if p {
				return // already reported when the state was first reached
			}
			ss := make([]csucc, len(ops))
			for j, op := range ops {
				var inst space.Instance
				var mis *space.Mismatch
				var key [16]byte
				var abs string
				stage := "replay"
				_, st, p := common.Catch(func() {
					inst = sys.New(start)
					for _, o := range path {
						inst.Apply(o)
					}
					stage = "apply"
					mis = inst.Apply(op)
					stage = "canon"
					key = sys.Canon.Key(inst.Roots()...)
					if _, old := seen[key]; !old { // seen is not written during the parallel phase
						abs = inst.Abstract()
					}
					if mis == nil {
						stage = "check"
						mis = inst.Check()
					}
				})
				atomic.AddInt64(&trans, 1)
				if p {
					creport(r, sys, start, path, &op, &space.Mismatch{Sig: common.PanicSite(st) + "|panic|" + stage, What: "panic during " + stage + " of " + op.String()}, st)
					continue
				}
				if mis != nil {
					creport(r, sys, start, path, &op, mis, "")
					continue // do not explore beyond a state whose oracle already failed
				}
				ss[j] = csucc{key: key, abs: abs, op: int32(j), ok: true}
			}
			out[i], opsOf[i] = ss, ops
		})
		res.Transitions += trans
		res.Paths += trans
		if count {
			r.Eval(trans)
		}
		var next []int32
		for i, ss := range out {
			for _, s := range ss {
				if !s.ok {
					continue
				}
				if _, dup := seen[s.key]; dup {
					continue
				}
				seen[s.key] = struct{}{}
				abstract[s.abs] = struct{}{}
				nodes = append(nodes, cnode{parent: frontier[i], start: nodes[frontier[i]].start, op: opsOf[i][s.op]})
				next = append(next, int32(len(nodes)-1))
			}
		}
		frontier = next
		res.Depth = depth
	}
	res.States = len(seen)
	res.Abstract = len(abstract)
	res.FixPoint = len(frontier) == 0
	return res
}

func creport(r *common.Run, sys space.System, start int, path []space.Op, op *space.Op, mis *space.Mismatch, stack string) {
	c := map[string]any{"system": sys.Name, "start": start, "path": path}
	if op != nil {
		c["op"] = *op
	}
	if stack != "" {
		c["stack"] = stack
	}
	var steps []string
	for _, o := range path {
		steps = append(steps, o.String())
	}
	if op != nil {
		steps = append(steps, op.String())
	}
	c["sequence"] = steps
	r.Violation(sys.Name+"|"+mis.Sig, mis.What, c, "")
}
