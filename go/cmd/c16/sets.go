package main

import (
	"github.com/welllog/golib/dsz"
	"github.com/welllog/golib/setz"
)

// set is the common face of the three implementations. Everything here is a direct call of one
// golib method; no logic of its own apart from the iterator driving loop.
type set interface {
	ep() string                 // type name used in signatures
	root() any                  // pointer to the real object (for the canonical dump)
	add(v uint) (res, has bool) // has = the method reports a result
	remove(v uint) (res, has bool)
	contains(v uint) bool
	lens() (int, [2]lenObs) // every way of asking for the cardinality
	capv() int
	grow(n uint)
	// iter drives Iter(): mode 0 reads Value once per step, mode 1 twice (unstable = the two
	// reads differ), mode 2 never (the result holds one zero per successful Next). It gives up
	// after max+1 values. The result is appended to buf[:0].
	iter(buf []uint, max, mode int) (seq []uint, unstable bool)
	hasRange() bool
	rangeFn(fn func(uint) bool)
	hasAll() bool
	all(fn func(uint) bool)
	bulk(op string, other set)
	clone() set
}

type lenObs struct {
	name string
	got  int
}

func newSet(k sysKind) set {
	switch k {
	case kBits:
		return &bitsW{}
	case kBitmap:
		return &bitmapW{}
	}
	return &dszW{}
}

func drive(buf []uint, next func() bool, value func() uint, max, mode int) (seq []uint, unstable bool) {
	seq = buf[:0]
	for next() {
		switch mode {
		case 0:
			seq = append(seq, value())
		case 1:
			a, b := value(), value()
			if a != b {
				unstable = true
			}
			seq = append(seq, a)
		default:
			seq = append(seq, 0)
		}
		if len(seq) > max {
			break
		}
	}
	return
}

// ---------------------------------------------------------------- setz.Bits

type bitsW struct{ b setz.Bits }

func (w *bitsW) ep() string                 { return "Bits" }
func (w *bitsW) root() any                  { return &w.b }
func (w *bitsW) add(v uint) (bool, bool)    { return w.b.Add(v), true }
func (w *bitsW) remove(v uint) (bool, bool) { return w.b.Remove(v), true }
func (w *bitsW) contains(v uint) bool       { return w.b.Contains(v) }
func (w *bitsW) lens() (int, [2]lenObs) {
	return 2, [2]lenObs{{"Len", w.b.Len()}, {"Bitmap.Len", w.b.Bitmap.Len()}}
}
func (w *bitsW) capv() int   { return w.b.Cap() }
func (w *bitsW) grow(n uint) { w.b.Grow(n) }
func (w *bitsW) iter(buf []uint, max, mode int) ([]uint, bool) {
	it := w.b.Iter()
	return drive(buf, it.Next, it.Value, max, mode)
}
func (w *bitsW) hasRange() bool             { return true }
func (w *bitsW) rangeFn(fn func(uint) bool) { w.b.Range(fn) }
func (w *bitsW) hasAll() bool               { return true }
func (w *bitsW) all(fn func(uint) bool) {
	// the iterator value is walked once completely first: a second walk must start over
	// ("calling the iterator again walks the sequence again")
	seq := w.b.All()
	for range seq {
	}
	for v := range seq {
		if !fn(v) {
			break
		}
	}
}
func (w *bitsW) bulk(op string, other set) {
	o := other.(*bitsW).b // passed by value, as the signature demands
	switch op {
	case "Diff":
		w.b.Diff(o)
	case "Intersect":
		w.b.Intersect(o)
	case "Merge":
		w.b.Merge(o)
	}
}

// Bits has no Clone of its own: the promoted Bitmap.Clone returns a Bitmap.
func (w *bitsW) clone() set { return &bitmapW{b: w.b.Clone()} }

// ---------------------------------------------------------------- setz.Bitmap

type bitmapW struct{ b setz.Bitmap }

func (w *bitmapW) ep() string                 { return "Bitmap" }
func (w *bitmapW) root() any                  { return &w.b }
func (w *bitmapW) add(v uint) (bool, bool)    { return w.b.Add(v), true }
func (w *bitmapW) remove(v uint) (bool, bool) { return w.b.Remove(v), true }
func (w *bitmapW) contains(v uint) bool       { return w.b.Contains(v) }
func (w *bitmapW) lens() (int, [2]lenObs)     { return 1, [2]lenObs{{"Len", w.b.Len()}} }
func (w *bitmapW) capv() int                  { return w.b.Cap() }
func (w *bitmapW) grow(n uint)                { w.b.Grow(n) }
func (w *bitmapW) iter(buf []uint, max, mode int) ([]uint, bool) {
	it := w.b.Iter()
	return drive(buf, it.Next, it.Value, max, mode)
}
func (w *bitmapW) hasRange() bool             { return true }
func (w *bitmapW) rangeFn(fn func(uint) bool) { w.b.Range(fn) }
func (w *bitmapW) hasAll() bool               { return false }
func (w *bitmapW) all(fn func(uint) bool)     { panic("harness: Bitmap has no All") }
func (w *bitmapW) bulk(op string, other set) {
	o := other.(*bitmapW).b
	switch op {
	case "Diff":
		w.b.Diff(o)
	case "Intersect":
		w.b.Intersect(o)
	case "Merge":
		w.b.Merge(o)
	}
}
func (w *bitmapW) clone() set { return &bitmapW{b: w.b.Clone()} }

// ---------------------------------------------------------------- dsz.Bits (deprecated)

type dszW struct{ b dsz.Bits }

func (w *dszW) ep() string                 { return "dsz.Bits" }
func (w *dszW) root() any                  { return &w.b }
func (w *dszW) add(v uint) (bool, bool)    { w.b.Add(v); return false, false }
func (w *dszW) remove(v uint) (bool, bool) { w.b.Remove(v); return false, false }
func (w *dszW) contains(v uint) bool       { return w.b.Contains(v) }
func (w *dszW) lens() (int, [2]lenObs)     { return 1, [2]lenObs{{"Len", w.b.Len()}} }
func (w *dszW) capv() int                  { return w.b.Cap() }
func (w *dszW) grow(n uint)                { w.b.Grow(n) }
func (w *dszW) iter(buf []uint, max, mode int) ([]uint, bool) {
	it := w.b.Iter()
	return drive(buf, it.Next, it.Value, max, mode)
}
func (w *dszW) hasRange() bool             { return false }
func (w *dszW) rangeFn(fn func(uint) bool) { panic("harness: dsz.Bits has no Range") }
func (w *dszW) hasAll() bool               { return false }
func (w *dszW) all(fn func(uint) bool)     { panic("harness: dsz.Bits has no All") }
func (w *dszW) bulk(op string, other set)  { panic("harness: dsz.Bits has no bulk operations") }
func (w *dszW) clone() set                 { panic("harness: dsz.Bits has no Clone") }
