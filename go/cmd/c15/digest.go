package main

import (
	"bytes"
	"crypto/hmac"
	"crypto/md5"
	"crypto/sha1"
	"crypto/sha256"
	"crypto/sha512"
	"encoding/hex"
	"errors"
	"fmt"
	"hash"
	"io"
	"sync"

	"verif/common"

	"github.com/welllog/golib/hashz"
)

type digestFn struct {
	name   string
	b2b    func([]byte) []byte
	s2b    func(string) []byte
	b2s    func([]byte) string
	s2s    func(string) string
	newH   func() hash.Hash // oracle: crypto/*
	stream func(io.Reader) ([]byte, error)
}

var digestFns = []digestFn{
	{"Md5", hashz.Md5[[]byte], hashz.Md5[string], hashz.Md5ToString[[]byte], hashz.Md5ToString[string], md5.New, hashz.Md5Stream},
	{"Sha1", hashz.Sha1[[]byte], hashz.Sha1[string], hashz.Sha1ToString[[]byte], hashz.Sha1ToString[string], sha1.New, hashz.Sha1Stream},
	{"Sha224", hashz.Sha224[[]byte], hashz.Sha224[string], hashz.Sha224ToString[[]byte], hashz.Sha224ToString[string], sha256.New224, hashz.Sha224Stream},
	{"Sha256", hashz.Sha256[[]byte], hashz.Sha256[string], hashz.Sha256ToString[[]byte], hashz.Sha256ToString[string], sha256.New, hashz.Sha256Stream},
	{"Sha384", hashz.Sha384[[]byte], hashz.Sha384[string], hashz.Sha384ToString[[]byte], hashz.Sha384ToString[string], sha512.New384, hashz.Sha384Stream},
	{"Sha512", hashz.Sha512[[]byte], hashz.Sha512[string], hashz.Sha512ToString[[]byte], hashz.Sha512ToString[string], sha512.New, hashz.Sha512Stream},
	{"Sha512_224", hashz.Sha512_224[[]byte], hashz.Sha512_224[string], hashz.Sha512_224ToString[[]byte], hashz.Sha512_224ToString[string], sha512.New512_224, nil},
	{"Sha512_256", hashz.Sha512_256[[]byte], hashz.Sha512_256[string], hashz.Sha512_256ToString[[]byte], hashz.Sha512_256ToString[string], sha512.New512_256, nil},
}

// two position-sensitive byte patterns
func pattern(p, n int) []byte {
	b := make([]byte, n)
	for i := range b {
		if p == 0 {
			b[i] = byte(i)
		} else {
			b[i] = byte(0xff ^ (i * 37))
		}
	}
	return b
}

func oracleSum(newH func() hash.Hash, data []byte) string {
	h := newH()
	h.Write(data)
	return hex.EncodeToString(h.Sum(nil)) // lower-case hex
}

func digestChecks(r *common.Run) {
	maxLen := 130
	if r.Thorough() {
		maxLen = 520
	}
	section(r, "digests one-shot", fmt.Sprintf("8 digest helpers (X and XToString, string and []byte form) x data lengths 0..%d x 2 byte patterns", maxLen), func() (int64, int64) {
		var ev, nt int64
		if expired(r, "digests one-shot") {
			return 0, 0
		}
		for l := 0; l <= maxLen; l++ {
			for p := 0; p < 2; p++ {
				data := pattern(p, l)
				orig := string(data)
				for _, d := range digestFns {
					ev++
					if l > 0 {
						nt++
					}
					want := oracleSum(d.newH, []byte(orig))
					in := func() map[string]any {
						return map[string]any{"function": d.name, "length": l, "pattern": p, "want": want}
					}
					var g [4]string
					if !guarded(r, "hashz."+d.name, in, func() {
						g[0] = string(d.b2b(data))
						g[1] = string(d.s2b(orig))
						g[2] = d.b2s(data)
						g[3] = d.s2s(orig)
					}) {
						continue
					}
					if string(data) != orig {
						r.Violation(d.name+"[[]byte]|input-modified|data", fmt.Sprintf("hashz.%s changed its %d-byte input", d.name, l), in(), "")
						copy(data, orig)
					}
					if g[1] != g[0] || g[2] != g[0] || g[3] != g[0] {
						r.Violation(d.name+"|forms-disagree|data", fmt.Sprintf("hashz.%s of %d bytes (pattern %d): []byte form %q, string form %q, ToString([]byte) %q, ToString(string) %q", d.name, l, p, g[0], g[1], g[2], g[3]), in(), "")
					}
					if g[0] != want {
						r.Violation(d.name+"|wrong-digest|data", fmt.Sprintf("hashz.%s of %d bytes (pattern %d) = %q, want %q", d.name, l, p, g[0], want), in(),
							fmt.Sprintf("func TestReplay(t *testing.T) { in := make([]byte, %d); if g := hashz.%sToString(in); g != %q { t.Fatal(g) } } // fill in with pattern %d: see harness pattern()", l, d.name, want, p))
					}
				}
			}
		}
		return ev, nt
	})
	r.SampleL("digests", map[string]any{"function": "Sha512_224", "length": 112, "pattern": 1, "want": oracleSum(sha512.New512_224, pattern(1, 112))})
}

type hmacH struct {
	name string
	newH func() hash.Hash
}

var hmacHashes = []hmacH{
	{"md5", md5.New}, {"sha1", sha1.New}, {"sha224", sha256.New224}, {"sha256", sha256.New},
	{"sha384", sha512.New384}, {"sha512", sha512.New}, {"sha512_224", sha512.New512_224}, {"sha512_256", sha512.New512_256},
}

func hmacChecks(r *common.Run) {
	const maxLen = 130
	section(r, "HMAC", "Hmac / HmacToString with the 4 (key, data) string/[]byte type combinations x 8 hash constructors x key lengths 0..130 x data lengths 0..130 x 2 pattern assignments", func() (int64, int64) {
		var ev, nt int64
		var mu sync.Mutex
		r.Parallel(maxLen+1, func(kl int) {
			if expired(r, "HMAC") {
				return
			}
			var e, n int64
			for dl := 0; dl <= maxLen; dl++ {
				for p := 0; p < 2; p++ {
					key, data := pattern(p, kl), pattern(1-p, dl)
					ks, ds := string(key), string(data)
					for _, h := range hmacHashes {
						e++
						if kl > 0 || dl > 0 {
							n++
						}
						m := hmac.New(h.newH, []byte(ks))
						m.Write([]byte(ds))
						want := hex.EncodeToString(m.Sum(nil))
						in := func() map[string]any {
							return map[string]any{"hash": h.name, "keyLength": kl, "keyPattern": p, "dataLength": dl, "dataPattern": 1 - p, "want": want}
						}
						var g [8]string
						if !guarded(r, "hashz.Hmac", in, func() {
							g[0] = string(hashz.Hmac(key, data, h.newH))
							g[1] = string(hashz.Hmac(ks, data, h.newH))
							g[2] = string(hashz.Hmac(key, ds, h.newH))
							g[3] = string(hashz.Hmac(ks, ds, h.newH))
							g[4] = hashz.HmacToString(key, data, h.newH)
							g[5] = hashz.HmacToString(ks, data, h.newH)
							g[6] = hashz.HmacToString(key, ds, h.newH)
							g[7] = hashz.HmacToString(ks, ds, h.newH)
						}) {
							continue
						}
						if string(key) != ks || string(data) != ds {
							r.Violation("Hmac|input-modified|key-or-data", fmt.Sprintf("hashz.Hmac changed its key or data (key %d bytes, data %d bytes)", kl, dl), in(), "")
							copy(key, ks)
							copy(data, ds)
						}
						cls := "key-within-block"
						if kl > h.newH().BlockSize() {
							cls = "key-longer-than-block"
						}
						for i := 1; i < 8; i++ {
							if g[i] != g[0] {
								r.Violation("Hmac|forms-disagree|"+cls, fmt.Sprintf("hashz.Hmac / HmacToString with %s, key of %d bytes, data of %d bytes: the 8 string/[]byte forms give %q", h.name, kl, dl, g), in(), "")
								break
							}
						}
						if g[0] != want {
							r.Violation("Hmac|wrong-mac|"+cls, fmt.Sprintf("hashz.Hmac with %s, key of %d bytes, data of %d bytes = %q, want %q", h.name, kl, dl, g[0], want), in(), "")
						}
					}
				}
			}
			mu.Lock()
			ev += e
			nt += n
			mu.Unlock()
		})
		return ev, nt
	})
	r.SampleL("HMAC", map[string]any{"hash": "sha384", "keyLength": 129, "keyPattern": 0, "dataLength": 64, "dataPattern": 1})
}

// ---- streams: scripted readers ----

// step is one answer of the scripted reader: n bytes, together with io.EOF or not.
type step struct {
	n   int
	eof bool
}

type scriptReader struct {
	data  []byte
	pos   int
	steps []step
	i     int
	done  bool // io.EOF has been returned
	after int  // Read calls after io.EOF
	clamp bool // a scripted answer did not fit the caller's buffer (never with io.Copy's 32 KiB)
}

func (s *scriptReader) Read(p []byte) (int, error) {
	if s.done {
		s.after++
		return 0, io.EOF
	}
	if s.i >= len(s.steps) { // scripts are complete; only reached if golib reads differently
		if s.pos == len(s.data) {
			s.done = true
			return 0, io.EOF
		}
		n := copy(p, s.data[s.pos:])
		s.pos += n
		return n, nil
	}
	st := s.steps[s.i]
	s.i++
	n := st.n
	if n > len(p) {
		n, s.clamp = len(p), true
		s.i-- // the rest of this answer is delivered by the next call
		s.steps[s.i].n -= n
		copy(p, s.data[s.pos:s.pos+n])
		s.pos += n
		return n, nil
	}
	copy(p, s.data[s.pos:s.pos+n])
	s.pos += n
	if st.eof {
		s.done = true
		return n, io.EOF
	}
	return n, nil
}

const (
	devShort = 1 << iota
	devEOFWithData
	devZero
)

func scriptClass(kinds int) string {
	switch {
	case kinds&devZero != 0:
		return "zero-length-read"
	case kinds&devEOFWithData != 0:
		return "data-with-EOF"
	case kinds&devShort != 0:
		return "short-reads"
	}
	return "single-full-read"
}

// genScripts enumerates every complete answer script for a stream of L bytes with at most maxDev
// deviations from the default answers (all remaining bytes; then (0, io.EOF)). Deviations: a short
// read of every size 1..rem-1, the last bytes together with io.EOF, and a (0, nil) read.
func genScripts(L, maxDev int, emit func(steps []step, dev, kinds int)) {
	steps := make([]step, 0, 2*maxDev+4)
	var rec func(rem, dev, kinds int)
	rec = func(rem, dev, kinds int) {
		n := len(steps)
		// default answer
		if rem == 0 {
			steps = append(steps, step{0, true})
			emit(steps, dev, kinds)
			steps = steps[:n]
		} else {
			steps = append(steps, step{rem, false})
			rec(0, dev, kinds)
			steps = steps[:n]
		}
		if dev == maxDev {
			return
		}
		steps = append(steps, step{0, false})
		rec(rem, dev+1, kinds|devZero)
		steps = steps[:n]
		if rem > 0 {
			steps = append(steps, step{rem, true})
			emit(steps, dev+1, kinds|devEOFWithData)
			steps = steps[:n]
			for k := 1; k < rem; k++ {
				steps = append(steps, step{k, false})
				rec(rem-k, dev+1, kinds|devShort)
				steps = steps[:n]
			}
		}
	}
	rec(L, 0, 0)
}

// genCompositions enumerates every split of L >= 1 bytes into non-empty reads, with io.EOF
// separately or together with the last part, keeping only scripts with more than minDev
// deviations (the others are produced by genScripts).
func genCompositions(L, minDev int, emit func(steps []step, dev, kinds int)) {
	steps := make([]step, 0, L+1)
	for mask := 0; mask < 1<<(L-1); mask++ {
		for _, together := range []bool{false, true} {
			steps = steps[:0]
			run, kinds := 0, 0
			for i := 0; i < L; i++ {
				run++
				if i == L-1 || mask&(1<<i) != 0 {
					steps = append(steps, step{run, false})
					run = 0
				}
			}
			dev := len(steps) - 1
			if dev > 0 {
				kinds |= devShort
			}
			if together {
				steps[len(steps)-1].eof = true
				dev++
				kinds |= devEOFWithData
			} else {
				steps = append(steps, step{0, true})
			}
			if dev > minDev {
				emit(steps, dev, kinds)
			}
		}
	}
}

func streamChecks(r *common.Run) {
	maxDev, maxLen, compLen := 2, 130, 0
	if r.Thorough() {
		maxDev, compLen = 3, 16
	}
	var streams []digestFn
	for _, d := range digestFns {
		if d.stream != nil {
			streams = append(streams, d)
		}
	}
	runScript := func(d digestFn, data []byte, want string, p int, steps []step, dev, kinds int, plainBad *bool) {
		rd := &scriptReader{data: data, steps: append([]step(nil), steps...)}
		var got []byte
		var err error
		in := func() map[string]any {
			return map[string]any{"function": d.name + "Stream", "length": len(data), "pattern": p, "reads": fmt.Sprint(steps), "want": want, "inLimitedReader": dev >= 2}
		}
		// io.Copy allocates a fresh 32 KiB buffer per call unless the source is an *io.LimitedReader
		// (then the buffer has the size of the limit). Scripts with <= 1 deviation run on the bare
		// reader (32 KiB path); the far more numerous rest is handed over inside a LimitedReader
		// whose limit (stream length + 64) is never reached, so that it only forwards the answers.
		var src io.Reader = rd
		if dev >= 2 {
			src = &io.LimitedReader{R: rd, N: int64(len(data)) + 64}
		}
		if !guarded(r, "hashz."+d.name+"Stream", in, func() { got, err = d.stream(src) }) {
			return
		}
		// the all-default script comes first; if it already fails, the chunking is not the cause
		// and the later scripts of this (function, data) are counted under the same signature
		cls := scriptClass(kinds)
		if *plainBad {
			cls = scriptClass(0)
		}
		if dev == 0 && (err != nil || string(got) != want) {
			*plainBad = true
		}
		if err != nil {
			r.Violation(d.name+"Stream|unexpected-error|"+cls, fmt.Sprintf("hashz.%sStream returned error %v for an error-free reader delivering %d bytes as %v", d.name, err, len(data), steps), in(), "")
			return
		}
		if string(got) != want {
			r.Violation(d.name+"Stream|wrong-digest|"+cls, fmt.Sprintf("hashz.%sStream = %q, want %q (reader delivers %d bytes as {n eof} answers %v)", d.name, got, want, len(data), steps), in(), "")
		}
		if rd.clamp {
			info.add("stream: a scripted answer did not fit the buffer offered by golib", fmt.Sprint(steps))
		}
	}
	section(r, "digest streams", fmt.Sprintf("6 XStream helpers x data lengths 0..%d x 2 patterns x every reader script with <= %d deviations from one full read", maxLen, maxDev), func() (int64, int64) {
		var ev, nt int64
		var mu sync.Mutex
		r.Parallel(maxLen+1, func(l int) {
			if expired(r, "digest streams") {
				return
			}
			var e, n int64
			for p := 0; p < 2; p++ {
				data := pattern(p, l)
				wants := make([]string, len(streams))
				for i, d := range streams {
					wants[i] = oracleSum(d.newH, data)
				}
				plainBad := make([]bool, len(streams))
				genScripts(l, maxDev, func(steps []step, dev, kinds int) {
					for i, d := range streams {
						e++
						if dev > 0 {
							n++
						}
						runScript(d, data, wants[i], p, steps, dev, kinds, &plainBad[i])
					}
				})
				if string(data) != string(pattern(p, l)) {
					r.Violation("Stream|input-modified|reader-data", "the reader's backing data changed", map[string]any{"length": l, "pattern": p}, "")
				}
			}
			mu.Lock()
			ev += e
			nt += n
			mu.Unlock()
		})
		return ev, nt
	})
	r.SampleL("digest streams", map[string]any{"function": "Sha1Stream", "length": 65, "pattern": 0, "reads": "[{1 false} {64 true}]"})
	// histories: a stream that fails after delivering some bytes must not influence later calls
	// ("for every input" includes inputs hashed after an earlier call went wrong)
	section(r, "digest streams after a failed stream", "6 XStream helpers x (bytes delivered before a reader error: 0..70) x 1..3 failing calls, then 2 healthy calls of lengths {0, 1, 65}", func() (int64, int64) {
		var ev, nt int64
		for _, d := range streams {
			for pre := 0; pre <= 70; pre++ {
				for fails := 1; fails <= 3; fails++ {
					for k := 0; k < fails; k++ {
						fr := &failingReader{data: pattern(1, pre)}
						common.Catch(func() { d.stream(fr) })
					}
					for _, l := range []int{0, 1, 65} {
						for rep := 0; rep < 2; rep++ {
							data := pattern(0, l)
							want := oracleSum(d.newH, data)
							var got string
							var err error
							ev++
							nt++
							_, st, p := common.Catch(func() {
								var b []byte
								b, err = d.stream(bytes.NewReader(data))
								got = string(b)
							})
							c := map[string]any{"function": d.name + "Stream", "bytes_before_reader_error": pre, "failed_calls_before": fails, "length": l}
							if p {
								r.Violation(d.name+"Stream|panic|after-failed-stream", "panicked: "+common.PanicSite(st), c, "")
							} else if err != nil || got != want {
								r.Violation(d.name+"Stream|wrong-digest|after-failed-stream", fmt.Sprintf("hashz.%sStream = %q, %v for a healthy %d-byte reader, want %q: %d earlier call(s) whose reader failed after %d bytes left state behind", d.name, got, err, l, want, fails, pre), c, "")
							}
						}
					}
				}
			}
		}
		return ev, nt
	})
	if compLen > 0 {
		section(r, "digest streams (compositions)", fmt.Sprintf("6 XStream helpers x data lengths 1..%d x pattern 0 x every split into non-empty reads x EOF separate/together, scripts with > %d deviations (the rest is in the previous family)", compLen, maxDev), func() (int64, int64) {
			var ev, nt int64
			var mu sync.Mutex
			r.Parallel(compLen, func(i int) {
				l := i + 1
				if expired(r, "digest streams (compositions)") {
					return
				}
				var e int64
				data := pattern(0, l)
				wants := make([]string, len(streams))
				for i, d := range streams {
					wants[i] = oracleSum(d.newH, data)
				}
				genCompositions(l, maxDev, func(steps []step, dev, kinds int) {
					for i, d := range streams {
						e++
						runScript(d, data, wants[i], 0, steps, dev, kinds, new(bool))
					}
				})
				mu.Lock()
				ev += e
				nt += e
				mu.Unlock()
			})
			return ev, nt
		})
	}
}

// failingReader delivers its data in one read and then reports a non-EOF error.
type failingReader struct {
	data []byte
	done bool
}

func (f *failingReader) Read(p []byte) (int, error) {
	if !f.done {
		f.done = true
		n := copy(p, f.data)
		if n > 0 {
			return n, nil
		}
	}
	return 0, errors.New("scripted reader failure")
}
