package main

import (
	"bytes"
	"crypto/md5"
	"crypto/sha256"
	"encoding/base64"
	"fmt"

	"verif/common"

	"github.com/welllog/golib/hashz"
	"github.com/welllog/golib/strz"
)

// stabilityChecks: histories. "Returns what the standard library returns" must stay true after
// the call has returned: a result ([]byte or string) is kept with a private copy while the same
// helper is called again with other inputs and while the caller overwrites the input buffer it
// passed; at the end of the history every kept result must still equal its copy. (A result
// built in a recycled buffer, or sharing memory with the argument, changes under the caller.)
func stabilityChecks(r *common.Run) {
	type fn struct {
		name string
		call func(in []byte) (resB []byte, resS string, isStr bool)
	}
	encs := []*base64.Encoding{base64.StdEncoding, base64.URLEncoding, base64.RawStdEncoding, base64.RawURLEncoding}
	fns := []fn{
		{"HexEncode", func(in []byte) ([]byte, string, bool) { return strz.HexEncode(in), "", false }},
		{"HexEncodeToString", func(in []byte) ([]byte, string, bool) { return nil, strz.HexEncodeToString(in), true }},
		{"HexDecode", func(in []byte) ([]byte, string, bool) { b, _ := strz.HexDecode(strz.HexEncode(in)); return b, "", false }},
		{"HexDecodeToString", func(in []byte) ([]byte, string, bool) {
			s, _ := strz.HexDecodeToString(strz.HexEncode(in))
			return nil, s, true
		}},
		{"Md5", func(in []byte) ([]byte, string, bool) { return hashz.Md5(in), "", false }},
		{"Md5ToString", func(in []byte) ([]byte, string, bool) { return nil, hashz.Md5ToString(in), true }},
		{"Sha256", func(in []byte) ([]byte, string, bool) { return hashz.Sha256(in), "", false }},
		{"Sha256ToString", func(in []byte) ([]byte, string, bool) { return nil, hashz.Sha256ToString(in), true }},
		{"Sha1ToString", func(in []byte) ([]byte, string, bool) { return nil, hashz.Sha1ToString(in), true }},
		{"Sha512ToString", func(in []byte) ([]byte, string, bool) { return nil, hashz.Sha512ToString(in), true }},
		{"Hmac(sha256)", func(in []byte) ([]byte, string, bool) { return hashz.Hmac([]byte("key"), in, sha256.New), "", false }},
		{"HmacToString(md5)", func(in []byte) ([]byte, string, bool) { return nil, hashz.HmacToString(in, []byte("data"), md5.New), true }},
		{"Md5Stream", func(in []byte) ([]byte, string, bool) { b, _ := hashz.Md5Stream(bytes.NewReader(in)); return b, "", false }},
		{"Sha256Stream", func(in []byte) ([]byte, string, bool) { b, _ := hashz.Sha256Stream(bytes.NewReader(in)); return b, "", false }},
		{"LongToIPv4", func(in []byte) ([]byte, string, bool) {
			var x uint32
			for _, c := range in {
				x = x*251 + uint32(c)
			}
			return nil, strz.LongToIPv4(x), true
		}},
	}
	for _, e := range encs {
		e := e
		fns = append(fns,
			fn{"Base64Encode", func(in []byte) ([]byte, string, bool) { return strz.Base64Encode(in, e), "", false }},
			fn{"Base64EncodeToString", func(in []byte) ([]byte, string, bool) { return nil, strz.Base64EncodeToString(in, e), true }},
			fn{"Base64Decode", func(in []byte) ([]byte, string, bool) {
				b, _ := strz.Base64Decode(strz.Base64Encode(in, e), e)
				return b, "", false
			}},
			fn{"Base64DecodeToString", func(in []byte) ([]byte, string, bool) {
				s, _ := strz.Base64DecodeToString(strz.Base64Encode(in, e), e)
				return nil, s, true
			}})
	}
	section(r, "results stay valid after later calls", fmt.Sprintf("%d helpers x histories of 12 calls with inputs of lengths 0..11 in 2 patterns; the input buffers are overwritten and the helper is called again before the results are compared with their private copies", len(fns)), func() (int64, int64) {
		var ev int64
		for _, f := range fns {
			for p := 0; p < 2; p++ {
				type kept struct {
					b     []byte
					s     string
					isStr bool
					copyB []byte
					copyS string
					n     int
				}
				var hist []kept
				var bufs [][]byte
				for n := 0; n < 12; n++ {
					in := pattern(p, n)
					bufs = append(bufs, in)
					var k kept
					_, st, pan := common.Catch(func() { k.b, k.s, k.isStr = f.call(in) })
					ev++
					if pan {
						r.Violation(f.name+"|panic|"+common.PanicSite(st), f.name+" panicked", map[string]any{"length": n, "stack": st}, "")
						continue
					}
					k.copyB, k.copyS, k.n = append([]byte(nil), k.b...), string(append([]byte(nil), k.s...)), n
					hist = append(hist, k)
				}
				// the caller reuses its buffers
				for _, b := range bufs {
					for i := range b {
						b[i] ^= 0xFF
					}
				}
				for _, k := range hist {
					if (k.isStr && k.s != k.copyS) || (!k.isStr && !bytes.Equal(k.b, k.copyB)) {
						r.Violation(f.name+"|result-changed-after-later-calls", fmt.Sprintf("the result of %s for a %d-byte input changed after later calls / after the caller overwrote its input buffer", f.name, k.n),
							map[string]any{"function": f.name, "input_length": k.n, "pattern": p}, "")
						break
					}
				}
			}
		}
		return ev, ev
	})
}
