package main

import (
	"bytes"
	"crypto/hmac"
	"crypto/md5"
	"crypto/sha256"
	"encoding/base64"
	"fmt"
	"hash"
	"strconv"

	"verif/common"

	"github.com/welllog/golib/hashz"
	"github.com/welllog/golib/strz"
)

// stabilityChecks: histories. "Returns what the standard library returns" must stay true after
// the call has returned: a result ([]byte or string) is kept with a private copy while the same
// helper is called again with other inputs and while the caller overwrites the input buffer it
// passed; at the end of the history every kept result must still equal its copy. (A result
// built in a recycled buffer, or sharing memory with the argument, changes under the caller.)
// reusedKeyBuffer: the caller keeps one key buffer and overwrites it in place between calls;
// every MAC must be the one of the key the buffer holds at the time of the call.
func reusedKeyBuffer(r *common.Run) {
	section(r, "HMAC with a reused key buffer", "8 hash constructors x ordered pairs of 6 keys of equal length written into one buffer x data lengths {0,1,65}; also string key after []byte key of the same content", func() (int64, int64) {
		var ev int64
		keys := [][]byte{[]byte("k0k0"), []byte("k1k1"), []byte("\x00\x00\x00\x00"), []byte("\xff\xff\xff\xff"), []byte("abcd"), []byte("abce")}
		buf := make([]byte, 4)
		for _, h := range hmacHashes {
			for _, a := range keys {
				for _, b := range keys {
					if bytes.Equal(a, b) {
						continue
					}
					for _, dl := range []int{0, 1, 65} {
						data := pattern(1, dl)
						copy(buf, a)
						hashz.Hmac(buf, data, h.newH)
						copy(buf, b)
						want := stdHmac(b, data, h.newH)
						ev += 2
						// hashz.Hmac returns the lower-case hex text of the MAC (like the digest helpers)
						if got := hashz.Hmac(buf, data, h.newH); string(got) != fmt.Sprintf("%x", want) {
							r.Violation("Hmac|wrong-mac|key-buffer-overwritten-in-place-between-calls", fmt.Sprintf("Hmac(key=%q, %d data bytes, %s) = %s, want %x; the key buffer held %q during the previous call", b, dl, h.name, got, want, a),
								map[string]any{"hash": h.name, "key_before": fmt.Sprintf("%q", a), "key_now": fmt.Sprintf("%q", b), "data_len": dl}, "")
						}
						if got := hashz.HmacToString(string(b), data, h.newH); got != fmt.Sprintf("%x", want) {
							r.Violation("HmacToString|wrong-mac|after-calls-with-a-reused-key-buffer", fmt.Sprintf("HmacToString(string key %q, %s) = %s, want %x", b, h.name, got, want),
								map[string]any{"hash": h.name, "key": fmt.Sprintf("%q", b)}, "")
						}
					}
				}
			}
		}
		return ev, ev
	})
}

func stdHmac(key, data []byte, h func() hash.Hash) []byte {
	m := hmac.New(h, key)
	m.Write(data)
	return m.Sum(nil)
}

// everyByteInNumerals: ParseUint on numerals in which one position holds each of the 256 byte
// values in turn (the short-string family only covers a 19-symbol alphabet).
func everyByteInNumerals(r *common.Run) {
	section(r, "ParseUint: every byte value in every position", "7 numerals x every position x 256 byte values x bases {0,2,8,10,16,36} x bit sizes {8,64}, string and []byte", func() (int64, int64) {
		var ev, nt int64
		seeds := []string{"7", "10", "0x1f", "0b101", "1_000", "zz", "18446744073709551615"}
		for _, sd := range seeds {
			for pos := 0; pos <= len(sd); pos++ {
				for b := 0; b < 256; b++ {
					var in []byte
					if pos == len(sd) {
						in = append([]byte(sd), byte(b))
					} else {
						in = []byte(sd)
						in[pos] = byte(b)
					}
					for _, base := range []int{0, 2, 8, 10, 16, 36} {
						for _, bits := range []int{8, 64} {
							ev++
							want, werr := strconv.ParseUint(string(in), base, bits)
							if werr != nil {
								nt++
							}
							for form := 0; form < 2; form++ {
								var got uint64
								var gerr error
								_, st, p := common.Catch(func() {
									if form == 0 {
										got, gerr = strz.ParseUint(string(in), base, bits)
									} else {
										got, gerr = strz.ParseUint(append([]byte(nil), in...), base, bits)
									}
								})
								c := map[string]any{"input": fmt.Sprintf("%q", in), "base": base, "bitSize": bits}
								switch {
								case p:
									r.Violation("ParseUint|panic|"+common.PanicSite(st), "ParseUint panicked", c, "")
								case (gerr == nil) != (werr == nil):
									r.Violation("ParseUint|error-ness-differs|arbitrary-byte", fmt.Sprintf("strz.ParseUint(%q, %d, %d) = %d, %v; strconv.ParseUint = %d, %v", in, base, bits, got, gerr, want, werr), c, "")
								case got != want:
									r.Violation("ParseUint|wrong-value|arbitrary-byte", fmt.Sprintf("strz.ParseUint(%q, %d, %d) = %d, %v; strconv.ParseUint = %d, %v", in, base, bits, got, gerr, want, werr), c, "")
								}
							}
						}
					}
				}
			}
		}
		return ev, nt
	})
}

func stabilityChecks(r *common.Run) {
	type fn struct {
		name string
		call func(in []byte) (resB []byte, resS string, isStr bool)
	}
	encs := []*base64.Encoding{base64.StdEncoding, base64.URLEncoding, base64.RawStdEncoding, base64.RawURLEncoding}
	fns := []fn{
		{"HexEncode", func(in []byte) ([]byte, string, bool) { return strz.HexEncode(in), "", false }},
		{"HexEncodeToString", func(in []byte) ([]byte, string, bool) { return nil, strz.HexEncodeToString(in), true }},
		{"HexDecode", func(in []byte) ([]byte, string, bool) {
			b, _ := strz.HexDecode(strz.HexEncode(in))
			return b, "", false
		}},
		{"HexDecodeToString", func(in []byte) ([]byte, string, bool) {
			s, _ := strz.HexDecodeToString(strz.HexEncode(in))
			return nil, s, true
		}},
		{"Md5", func(in []byte) ([]byte, string, bool) { return hashz.Md5(in), "", false }},
		{"Md5ToString", func(in []byte) ([]byte, string, bool) { return nil, hashz.Md5ToString(in), true }},
		{"Sha256", func(in []byte) ([]byte, string, bool) { return hashz.Sha256(in), "", false }},
		{"Sha256ToString", func(in []byte) ([]byte, string, bool) { return nil, hashz.Sha256ToString(in), true }},
		{"Sha1ToString", func(in []byte) ([]byte, string, bool) { return nil, hashz.Sha1ToString(in), true }},
		{"Sha512ToString", func(in []byte) ([]byte, string, bool) { return nil, hashz.Sha512ToString(in), true }},
		{"Hmac(sha256)", func(in []byte) ([]byte, string, bool) { return hashz.Hmac([]byte("key"), in, sha256.New), "", false }},
		{"HmacToString(md5)", func(in []byte) ([]byte, string, bool) {
			return nil, hashz.HmacToString(in, []byte("data"), md5.New), true
		}},
		{"Md5Stream", func(in []byte) ([]byte, string, bool) {
			b, _ := hashz.Md5Stream(bytes.NewReader(in))
			return b, "", false
		}},
		{"Sha256Stream", func(in []byte) ([]byte, string, bool) {
			b, _ := hashz.Sha256Stream(bytes.NewReader(in))
			return b, "", false
		}},
		{"LongToIPv4", func(in []byte) ([]byte, string, bool) {
			var x uint32
			for _, c := range in {
				x = x*251 + uint32(c)
			}
			return nil, strz.LongToIPv4(x), true
		}},
	}
	for _, e := range encs {
		e := e
		fns = append(fns,
			fn{"Base64Encode", func(in []byte) ([]byte, string, bool) { return strz.Base64Encode(in, e), "", false }},
			fn{"Base64EncodeToString", func(in []byte) ([]byte, string, bool) { return nil, strz.Base64EncodeToString(in, e), true }},
			fn{"Base64Decode", func(in []byte) ([]byte, string, bool) {
				b, _ := strz.Base64Decode(strz.Base64Encode(in, e), e)
				return b, "", false
			}},
			fn{"Base64DecodeToString", func(in []byte) ([]byte, string, bool) {
				s, _ := strz.Base64DecodeToString(strz.Base64Encode(in, e), e)
				return nil, s, true
			}})
	}
	section(r, "results stay valid after later calls", fmt.Sprintf("%d helpers x histories of 12 calls with inputs of lengths 0..11 in 2 patterns; the input buffers are overwritten and the helper is called again before the results are compared with their private copies", len(fns)), func() (int64, int64) {
		var ev int64
		for _, f := range fns {
			for p := 0; p < 2; p++ {
				type kept struct {
					b     []byte
					s     string
					isStr bool
					copyB []byte
					copyS string
					n     int
				}
				var hist []kept
				var bufs [][]byte
				for n := 0; n < 12; n++ {
					in := pattern(p, n)
					bufs = append(bufs, in)
					var k kept
					_, st, pan := common.Catch(func() { k.b, k.s, k.isStr = f.call(in) })
					ev++
					if pan {
						r.Violation(f.name+"|panic|"+common.PanicSite(st), f.name+" panicked", map[string]any{"length": n, "stack": st}, "")
						continue
					}
					k.copyB, k.copyS, k.n = append([]byte(nil), k.b...), string(append([]byte(nil), k.s...)), n
					hist = append(hist, k)
				}
				// the caller reuses its buffers
				for _, b := range bufs {
					for i := range b {
						b[i] ^= 0xFF
					}
				}
				for _, k := range hist {
					if (k.isStr && k.s != k.copyS) || (!k.isStr && !bytes.Equal(k.b, k.copyB)) {
						r.Violation(f.name+"|result-changed-after-later-calls", fmt.Sprintf("the result of %s for a %d-byte input changed after later calls / after the caller overwrote its input buffer", f.name, k.n),
							map[string]any{"function": f.name, "input_length": k.n, "pattern": p}, "")
						break
					}
				}
			}
		}
		return ev, ev
	})
}
