package main

import (
	"fmt"
	"math/big"
	"strconv"
	"strings"
	"sync"
	"sync/atomic"

	"verif/common"

	"github.com/welllog/golib/strz"
)

// alphabet of the short-text family, simplest first (DESIGN C15).
var puAlpha = []byte{'0', '1', '7', '8', '9', 'a', 'f', 'z', 'Z', 'x', 'X', 'o', 'b', 'B', '_', '+', '-', ' ', 'g'}
var puBits = []int{-1, 0, 1, 7, 8, 9, 16, 31, 32, 33, 63, 64, 65}
var puLongBases = []int{0, 2, 8, 10, 16, 36}
var puAllBases []int
var puInAlpha [256]bool
var puIsBits = map[int]bool{}

func init() {
	for b := -1; b <= 37; b++ {
		puAllBases = append(puAllBases, b)
	}
	for _, c := range puAlpha {
		puInAlpha[c] = true
	}
	for _, b := range puBits {
		puIsBits[b] = true
	}
}

func strconvAccepts(base, bs int) bool {
	return (base == 0 || (2 <= base && base <= 36)) && 0 <= bs && bs <= 64
}

// puBaseClass / puClass are the coarse input classes used in signatures.
func puBaseClass(base, bs int) string {
	bc := "base2..36"
	switch {
	case base == 0:
		bc = "base0"
	case base < 2 || base > 36:
		bc = "invalid-base"
	}
	if bs < 0 || bs > 64 {
		bc += ",invalid-bitsize"
	}
	return bc
}

func puClass(s string, base, bs int) string {
	bc := puBaseClass(base, bs)
	tc := "digits"
	alnum := true
	for i := 0; i < len(s); i++ {
		c := s[i]
		if !('0' <= c && c <= '9' || 'a' <= c && c <= 'z' || 'A' <= c && c <= 'Z' || c == '_' || c == '+' || c == '-') {
			alnum = false
		}
	}
	switch {
	case s == "":
		tc = "empty"
	case !alnum:
		tc = "other-char"
	case strings.ContainsAny(s, "+-"):
		tc = "sign"
	case strings.Contains(s, "_"):
		tc = "underscore"
	}
	return bc + "," + tc
}

func puTest(s string, base, bs int) string {
	return fmt.Sprintf(`func TestReplay(t *testing.T) {
	g, ge := strz.ParseUint(%q, %d, %d)
	gb, gbe := strz.ParseUint([]byte(%q), %d, %d)
	w, we := strconv.ParseUint(%q, %d, %d)
	if (ge != nil) != (we != nil) || (gbe != nil) != (we != nil) || g != w || gb != w {
		t.Fatalf("strz %%d,%%v / %%d,%%v; strconv %%d,%%v", g, ge, gb, gbe, w, we)
	}
}`, s, base, bs, s, base, bs, s, base, bs)
}

// checkPU runs one (text, base, bit size) tuple through both forms; reports whether the oracle errs.
func checkPU(r *common.Run, s string, base, bs int) (oracleErr bool) {
	want, werr := strconv.ParseUint(s, base, bs)
	in := func() map[string]any { return map[string]any{"text": s, "base": base, "bitSize": bs} }
	var g1, g2 uint64
	var e1, e2 error
	if !guarded(r, "ParseUint[string]", in, func() { g1, e1 = strz.ParseUint(s, base, bs) }) {
		return werr != nil
	}
	b := []byte(s)
	if !guarded(r, "ParseUint[[]byte]", in, func() { g2, e2 = strz.ParseUint(b, base, bs) }) {
		return werr != nil
	}
	if string(b) != s {
		r.Violation("ParseUint[[]byte]|input-modified|"+puClass(s, base, bs), fmt.Sprintf("ParseUint([]byte(%q), %d, %d) changed its input to %q", s, base, bs, b), in(), puTest(s, base, bs))
	}
	if (e1 != nil) != (e2 != nil) || g1 != g2 {
		r.Violation("ParseUint|string-vs-bytes|"+puClass(s, base, bs),
			fmt.Sprintf("ParseUint(%q, %d, %d): string form = %d, %v; []byte form = %d, %v", s, base, bs, g1, e1, g2, e2), in(), puTest(s, base, bs))
	}
	// compare the string form with the oracle (the []byte form was compared with the string form)
	switch {
	case e1 == nil && werr != nil:
		r.Violation("ParseUint|missing-error|"+puClass(s, base, bs),
			fmt.Sprintf("strz.ParseUint(%q, %d, %d) = %d, nil; strconv.ParseUint = %d, %v", s, base, bs, g1, want, werr), in(), puTest(s, base, bs))
	case e1 != nil && werr == nil:
		r.Violation("ParseUint|unexpected-error|"+puClass(s, base, bs),
			fmt.Sprintf("strz.ParseUint(%q, %d, %d) = %d, %v; strconv.ParseUint = %d, nil", s, base, bs, g1, e1, want), in(), puTest(s, base, bs))
	case e1 == nil && g1 != want:
		r.Violation("ParseUint|wrong-value|"+puClass(s, base, bs),
			fmt.Sprintf("strz.ParseUint(%q, %d, %d) = %d, nil; strconv.ParseUint = %d, nil", s, base, bs, g1, want), in(), puTest(s, base, bs))
	case e1 != nil && g1 != want:
		// both fail. The value strconv returns with an error is documented (0 for syntax and for an
		// invalid base / bit size, the largest bitSize-bit value for range) and the property says
		// "agrees on the value ... for every string, base and bit size".
		cls := puBaseClass(base, bs)
		if !strconvAccepts(base, bs) {
			cls = "invalid-base-or-bit-size"
		}
		r.Violation("ParseUint|wrong-value-with-error|"+cls,
			fmt.Sprintf("strz.ParseUint(%q, %d, %d) = %d, %v; strconv.ParseUint = %d, %v (value returned together with the error differs)", s, base, bs, g1, e1, want, werr), in(), puTest(s, base, bs))
	}
	return werr != nil
}

// puSample records a case that the enumeration really contains, with the oracle's answer.
func puSample(r *common.Run, label, s string, base, bs int) {
	w, we := strconv.ParseUint(s, base, bs)
	r.SampleL(label, map[string]any{"text": s, "base": base, "bitSize": bs, "strconv": fmt.Sprintf("%d, %v", w, we)})
}

func puBasesFor(l int) []int {
	if l >= 5 {
		return puLongBases
	}
	return puAllBases
}

// puRunText runs one text against its bases and all bit sizes.
func puRunText(r *common.Run, s string, ev, nt *int64) {
	for _, base := range puBasesFor(len(s)) {
		for _, bs := range puBits {
			puCount(checkPU(r, s, base, bs), s, base, bs, ev, nt)
		}
	}
}

var puAccepted int64 // tuples the oracle parses without error

// puCount applies the non-triviality rule: base and bit size are legal for strconv and the oracle
// either fails (syntax / range) or accepts a text of >= 2 characters.
func puCount(oracleErr bool, s string, base, bs int, ev, nt *int64) {
	*ev++
	if strconvAccepts(base, bs) && (oracleErr || len(s) >= 2) {
		*nt++
	}
	if !oracleErr {
		atomic.AddInt64(&puAccepted, 1)
	}
}

// inShortFamily reports whether parseUintShort already ran the tuple.
func inShortFamily(thorough bool, s string, base, bs int) bool {
	if !puIsBits[bs] || base < -1 || base > 37 {
		return false
	}
	for i := 0; i < len(s); i++ {
		if !puInAlpha[s[i]] {
			return false
		}
	}
	if len(s) <= 4 {
		return true
	}
	if thorough && len(s) == 5 {
		for _, b := range puLongBases {
			if b == base {
				return true
			}
		}
	}
	return false
}

func parseUintShort(r *common.Run) {
	maxLen := 4
	if r.Thorough() {
		maxLen = 5
	}
	k := len(puAlpha)
	section(r, "ParseUint short texts", fmt.Sprintf("all texts of length <= %d over %q x bases -1..37 (length 5: %v) x bit sizes %v", maxLen, puAlpha, puLongBases, puBits), func() (int64, int64) {
		var ev, nt int64
		// lengths 0..2 sequentially (shortest counterexample first), then one parallel pass per length
		for l := 0; l <= 2; l++ {
			common.Seqs(k, l, func(idx []int) {
				buf := make([]byte, l)
				for i, x := range idx {
					buf[i] = puAlpha[x]
				}
				puRunText(r, string(buf), &ev, &nt)
			})
		}
		for l := 3; l <= maxLen; l++ {
			l := l
			var mu sync.Mutex
			r.Parallel(k*k, func(sh int) {
				if expired(r, "ParseUint short texts") {
					return
				}
				var e, n int64
				buf := make([]byte, l)
				buf[0], buf[1] = puAlpha[sh/k], puAlpha[sh%k]
				common.Seqs(k, l-2, func(idx []int) {
					for i, x := range idx {
						buf[2+i] = puAlpha[x]
					}
					puRunText(r, string(buf), &e, &n)
				})
				mu.Lock()
				ev += e
				nt += n
				mu.Unlock()
			})
		}
		return ev, nt
	})
	puSample(r, "ParseUint short", "0x_f", 0, 7)
	puSample(r, "ParseUint short", "0b1_", 0, 8)
}

// withUnderscores inserts '_' every three digits from the right ("" when nothing can be inserted).
func withUnderscores(n string) string {
	if len(n) < 2 {
		return ""
	}
	var sb strings.Builder
	for i := 0; i < len(n); i++ {
		if i > 0 && (len(n)-i)%3 == 0 {
			sb.WriteByte('_')
		}
		sb.WriteByte(n[i])
	}
	if !strings.Contains(sb.String(), "_") {
		return n[:1] + "_" + n[1:]
	}
	return sb.String()
}

type puInput struct {
	text string
	base int
}

// boundaryTexts lists the spellings of numeral n (lower case, in base b) that are tried.
func boundaryTexts(n string, b int) []puInput {
	out := []puInput{{n, b}, {"0" + n, b}, {"+" + n, b}}
	if u := strings.ToUpper(n); u != n {
		out = append(out, puInput{u, b})
	}
	us := withUnderscores(n)
	if us != "" {
		out = append(out, puInput{us, b}) // underscores are only legal with base 0
	}
	var prefixes []string
	switch b {
	case 2:
		prefixes = []string{"0b", "0B"}
	case 8:
		prefixes = []string{"0o", "0O", "0"}
	case 16:
		prefixes = []string{"0x", "0X"}
	case 10:
		prefixes = []string{""}
	}
	for _, p := range prefixes {
		out = append(out, puInput{p + n, 0}, puInput{p + n + "_", 0}, puInput{"_" + p + n, 0}, puInput{"+" + p + n, 0}, puInput{"-" + p + n, 0})
		if p != "" {
			out = append(out, puInput{p + "_" + n, 0}, puInput{p + "__" + n, 0}, puInput{p + n, b})
		}
		if us != "" {
			out = append(out, puInput{p + us, 0}, puInput{p + strings.Replace(us, "_", "__", 1), 0})
		}
		if u := strings.ToUpper(n); u != n {
			out = append(out, puInput{p + u, 0})
		}
	}
	return out
}

func parseUintBoundaries(r *common.Run) {
	section(r, "ParseUint boundary numerals", "bases 2..36 x bit sizes 1..64 x {maxVal-1, maxVal, maxVal+1, cutoff*base-1, cutoff*base, 2^64-1, 2^64} x spellings (plain, upper case, leading zero, sign, base-0 prefixes, legal and illegal underscores)", func() (int64, int64) {
		var ev, nt int64
		if expired(r, "ParseUint boundary numerals") {
			return 0, 0
		}
		one := big.NewInt(1)
		two64 := new(big.Int).Lsh(one, 64)
		max64 := new(big.Int).Sub(two64, one)
		seen := map[string]struct{}{}
		for b := 2; b <= 36; b++ {
			cutoff := new(big.Int).Div(max64, big.NewInt(int64(b)))
			cutoff.Add(cutoff, one)
			cb := new(big.Int).Mul(cutoff, big.NewInt(int64(b)))
			for bs := 1; bs <= 64; bs++ {
				maxVal := new(big.Int).Sub(new(big.Int).Lsh(one, uint(bs)), one)
				vals := []*big.Int{
					new(big.Int).Sub(maxVal, one), maxVal, new(big.Int).Add(maxVal, one),
					new(big.Int).Sub(cb, one), cb, max64, two64,
				}
				for _, v := range vals {
					for _, in := range boundaryTexts(v.Text(b), b) {
						if inShortFamily(r.Thorough(), in.text, in.base, bs) {
							continue
						}
						key := strconv.Itoa(in.base) + "|" + strconv.Itoa(bs) + "|" + in.text
						if _, dup := seen[key]; dup {
							continue
						}
						seen[key] = struct{}{}
						puCount(checkPU(r, in.text, in.base, bs), in.text, in.base, bs, &ev, &nt)
					}
				}
			}
			// bit sizes 0 (= the platform word), -1 and 65 with values around 2^32 and 2^64: the short
			// texts never reach 2^32
			two32 := new(big.Int).Lsh(one, 32)
			for _, bs := range []int{0, -1, 65} {
				for _, v := range []*big.Int{new(big.Int).Sub(two32, one), two32, new(big.Int).Add(two32, one), max64, two64} {
					for _, in := range boundaryTexts(v.Text(b), b) {
						puCount(checkPU(r, in.text, in.base, bs), in.text, in.base, bs, &ev, &nt)
					}
				}
			}
			// long numerals: 30 and 100 leading zeros before a boundary value, and a 100-digit overflow
			for _, bs := range []int{0, 8, 64} {
				for _, v := range []*big.Int{one, max64, two64} {
					for _, zeros := range []int{30, 100} {
						puCount(checkPU(r, strings.Repeat("0", zeros)+v.Text(b), b, bs), "", b, bs, &ev, &nt)
					}
				}
				puCount(checkPU(r, strings.Repeat("1", 100), b, bs), "", b, bs, &ev, &nt)
			}
		}
		for _, pre := range []string{"0x", "0o", "0b", "0"} { // base 0: the same after a prefix
			for _, zeros := range []int{30, 100} {
				for _, bs := range []int{0, 64} {
					puCount(checkPU(r, pre+strings.Repeat("0", zeros)+"1", 0, bs), "", 0, bs, &ev, &nt)
					puCount(checkPU(r, pre+strings.Repeat("0", zeros)+strings.Repeat("1", 70), 0, bs), "", 0, bs, &ev, &nt)
				}
			}
		}
		return ev, nt
	})
	r.Cov("parseuint_tuples_accepted_by_strconv", atomic.LoadInt64(&puAccepted))
	puSample(r, "ParseUint boundary", "0x10_000_000_000_000_000", 0, 64)
	puSample(r, "ParseUint boundary", "3w5e11264sgsf", 36, 64)
}
