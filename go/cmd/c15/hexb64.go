package main

import (
	"bytes"
	"encoding/base64"
	"encoding/hex"
	"fmt"

	"verif/common"

	"github.com/welllog/golib/strz"
)

var hexAlpha = []byte{'0', '9', 'a', 'f', 'A', 'F', 'g', 'G', ' '}
var b64Alpha = []byte{'A', '/', '+', '-', '_', '=', '!', '\n'}

func errText(e error) string {
	if e == nil {
		return "<nil>"
	}
	return e.Error()
}

func isHexDigit(c byte) bool {
	return '0' <= c && c <= '9' || 'a' <= c && c <= 'f' || 'A' <= c && c <= 'F'
}

func hexClass(s []byte) string {
	for _, c := range s {
		if !isHexDigit(c) {
			return "invalid-char"
		}
	}
	if len(s)%2 == 1 {
		return "hex-digits,odd-length"
	}
	return "hex-digits,even-length"
}

// ---- hex encode ----

func hexEncodeCase(r *common.Run, x []byte, c *counter) {
	c.ev++
	if len(x) > 0 {
		c.nt++
	}
	orig := string(x)
	want := hex.EncodeToString(x)
	in := func() map[string]any { return map[string]any{"input": fmt.Sprintf("%q", orig)} }
	test := fmt.Sprintf("func TestReplay(t *testing.T) { in := []byte(%q); if g, w := string(strz.HexEncode(in)), hex.EncodeToString(in); g != w { t.Fatalf(\"%%q want %%q\", g, w) } }", orig)
	var g1, g2 []byte
	var g3, g4 string
	if !guarded(r, "HexEncode", in, func() {
		g1 = strz.HexEncode(x)
		g2 = strz.HexEncode(orig)
		g3 = strz.HexEncodeToString(x)
		g4 = strz.HexEncodeToString(orig)
	}) {
		return
	}
	if string(x) != orig {
		r.Violation("HexEncode[[]byte]|input-modified|bytes", fmt.Sprintf("HexEncode changed its input %q to %q", orig, x), in(), test)
	}
	if string(g2) != string(g1) || g3 != string(g1) || g4 != string(g1) {
		r.Violation("HexEncode|forms-disagree|bytes", fmt.Sprintf("input %q: HexEncode([]byte) = %q, HexEncode(string) = %q, HexEncodeToString([]byte) = %q, HexEncodeToString(string) = %q", orig, g1, g2, g3, g4), in(), test)
	}
	if string(g1) != want {
		r.Violation("HexEncode|wrong-encoding|bytes", fmt.Sprintf("HexEncode([]byte(%q)) = %q, want %q", orig, g1, want), in(), test)
		return
	}
	// round trip (follows from agreement with encoding/hex in both directions)
	var back []byte
	var berr error
	if guarded(r, "HexDecode", in, func() { back, berr = strz.HexDecode(g1) }) {
		if berr != nil || string(back) != orig {
			r.Violation("HexDecode(HexEncode)|round-trip|bytes", fmt.Sprintf("HexDecode(HexEncode(%q)) = %q, %v", orig, back, berr), in(), "")
		}
	}
}

// ---- hex decode ----

func hexDecodeCase(r *common.Run, x []byte, c *counter) {
	c.ev++
	orig := string(x)
	want, werr := hex.DecodeString(orig)
	if werr != nil || len(want) > 0 {
		c.nt++
	}
	cls := hexClass(x)
	in := func() map[string]any {
		return map[string]any{"input": fmt.Sprintf("%q", orig), "encoding/hex": fmt.Sprintf("%q, %v", want, werr)}
	}
	test := fmt.Sprintf(`func TestReplay(t *testing.T) {
	g, ge := strz.HexDecode(%q)
	w, we := hex.DecodeString(%q)
	if string(g) != string(w) || fmt.Sprint(ge) != fmt.Sprint(we) { t.Fatalf("strz %%q,%%v; encoding/hex %%q,%%v", g, ge, w, we) }
}`, orig, orig)
	cmp := func(entry string, got []byte, gerr error) {
		switch {
		case (gerr != nil) != (werr != nil) || !bytes.Equal(got, want):
			r.Violation(entry+"|wrong-result|"+cls, fmt.Sprintf("%s(%q) = %q, %v; encoding/hex gives %q, %v", entry, orig, got, gerr, want, werr), in(), test)
		case errText(gerr) != errText(werr):
			r.Violation(entry+"|error-text|"+cls, fmt.Sprintf("%s(%q) error %q; encoding/hex says %q", entry, orig, errText(gerr), errText(werr)), in(), test)
		}
	}
	var g1, g2 []byte
	var g3, g4 string
	var e1, e2, e3, e4 error
	if guarded(r, "HexDecode", in, func() {
		g1, e1 = strz.HexDecode(x)
		g2, e2 = strz.HexDecode(orig)
		g3, e3 = strz.HexDecodeToString(x)
		g4, e4 = strz.HexDecodeToString(orig)
	}) {
		if string(x) != orig {
			r.Violation("HexDecode[[]byte]|input-modified|"+cls, fmt.Sprintf("HexDecode changed its input %q to %q", orig, x), in(), test)
			copy(x, orig)
		}
		if !bytes.Equal(g2, g1) || g3 != string(g1) || g4 != string(g1) || errText(e2) != errText(e1) || errText(e3) != errText(e1) || errText(e4) != errText(e1) {
			r.Violation("HexDecode|forms-disagree|"+cls, fmt.Sprintf("input %q: HexDecode([]byte) = %q, %v; HexDecode(string) = %q, %v; HexDecodeToString([]byte) = %q, %v; HexDecodeToString(string) = %q, %v", orig, g1, e1, g2, e2, g3, e3, g4, e4), in(), test)
		}
		cmp("HexDecode", g1, e1)
	}
	// in place: only the count, the decoded prefix b[:n] and the error are specified
	b := []byte(orig)
	var n int
	var e5 error
	if guarded(r, "HexDecodeInPlace", in, func() { n, e5 = strz.HexDecodeInPlace(b) }) {
		if n < 0 || n > len(b) {
			r.Violation("HexDecodeInPlace|count-out-of-range|"+cls, fmt.Sprintf("HexDecodeInPlace(%q) = %d, %v", orig, n, e5), in(), "")
		} else {
			cmp("HexDecodeInPlace", b[:n], e5)
		}
	}
}

func hexChecks(r *common.Run) {
	byteLen, textLen := 2, 5
	if r.Thorough() {
		byteLen, textLen = 3, 7
	}
	section(r, "Hex encode", fmt.Sprintf("all byte strings of length <= %d over all 256 byte values; HexEncode / HexEncodeToString, both forms, + decode round trip", byteLen), func() (int64, int64) {
		return enumTexts(r, "Hex encode", allByteValues, 0, byteLen, func(s []byte, c *counter) { hexEncodeCase(r, s, c) })
	})
	r.SampleL("Hex encode", map[string]any{"input": "\"\\x00\\xff\"", "encoding/hex": hex.EncodeToString([]byte{0, 0xff})})
	section(r, "Hex decode (all bytes)", fmt.Sprintf("all byte strings of length <= %d over all 256 byte values; HexDecode / HexDecodeToString (both forms) / HexDecodeInPlace", byteLen), func() (int64, int64) {
		return enumTexts(r, "Hex decode (all bytes)", allByteValues, 0, byteLen, func(s []byte, c *counter) { hexDecodeCase(r, s, c) })
	})
	section(r, "Hex decode (texts)", fmt.Sprintf("all texts of length %d..%d over %q; same entry points", byteLen+1, textLen, hexAlpha), func() (int64, int64) {
		return enumTexts(r, "Hex decode (texts)", hexAlpha, byteLen+1, textLen, func(s []byte, c *counter) { hexDecodeCase(r, s, c) })
	})
	for _, s := range []string{"fFg", "0 9a"} {
		w, we := hex.DecodeString(s)
		r.SampleL("Hex decode", map[string]any{"input": s, "encoding/hex": fmt.Sprintf("%q, %v", w, we)})
	}
}

// ---- base64 ----

type b64Enc struct {
	name string
	enc  *base64.Encoding
}

var b64Encs = []b64Enc{
	{"StdEncoding", base64.StdEncoding},
	{"URLEncoding", base64.URLEncoding},
	{"RawStdEncoding", base64.RawStdEncoding},
	{"RawURLEncoding", base64.RawURLEncoding},
}

func b64Class(s []byte) string {
	cls := "alphabet-chars"
	rank := 0
	for _, c := range s {
		switch {
		case c == '\n' || c == '\r':
			if rank < 2 {
				rank, cls = 2, "newline"
			}
		case c == '=':
			if rank < 1 {
				rank, cls = 1, "padding"
			}
		case !('A' <= c && c <= 'Z' || 'a' <= c && c <= 'z' || '0' <= c && c <= '9' || c == '+' || c == '/' || c == '-' || c == '_'):
			rank, cls = 3, "invalid-char"
		}
	}
	return cls
}

func b64EncodeCase(r *common.Run, x []byte, c *counter) {
	orig := string(x)
	for _, e := range b64Encs {
		c.ev++
		if len(x) > 0 {
			c.nt++
		}
		want := e.enc.EncodeToString([]byte(orig))
		in := func() map[string]any { return map[string]any{"input": fmt.Sprintf("%q", orig), "encoding": e.name} }
		test := fmt.Sprintf("func TestReplay(t *testing.T) { in := []byte(%q); if g, w := string(strz.Base64Encode(in, base64.%s)), base64.%s.EncodeToString(in); g != w { t.Fatalf(\"%%q want %%q\", g, w) } }", orig, e.name, e.name)
		var g1, g2 []byte
		var g3, g4 string
		if !guarded(r, "Base64Encode", in, func() {
			g1 = strz.Base64Encode(x, e.enc)
			g2 = strz.Base64Encode(orig, e.enc)
			g3 = strz.Base64EncodeToString(x, e.enc)
			g4 = strz.Base64EncodeToString(orig, e.enc)
		}) {
			continue
		}
		if string(x) != orig {
			r.Violation("Base64Encode[[]byte]|input-modified|"+e.name, fmt.Sprintf("Base64Encode changed its input %q to %q", orig, x), in(), test)
			copy(x, orig)
		}
		if string(g2) != string(g1) || g3 != string(g1) || g4 != string(g1) {
			r.Violation("Base64Encode|forms-disagree|"+e.name, fmt.Sprintf("input %q, %s: Base64Encode([]byte) = %q, Base64Encode(string) = %q, Base64EncodeToString([]byte) = %q, Base64EncodeToString(string) = %q", orig, e.name, g1, g2, g3, g4), in(), test)
		}
		if string(g1) != want {
			r.Violation("Base64Encode|wrong-encoding|"+e.name, fmt.Sprintf("Base64Encode([]byte(%q), %s) = %q, want %q", orig, e.name, g1, want), in(), test)
			continue
		}
		var back []byte
		var berr error
		if guarded(r, "Base64Decode", in, func() { back, berr = strz.Base64Decode(g1, e.enc) }) {
			if berr != nil || string(back) != orig {
				r.Violation("Base64Decode(Base64Encode)|round-trip|"+e.name, fmt.Sprintf("Base64Decode(Base64Encode(%q, %s)) = %q, %v", orig, e.name, back, berr), in(), "")
			}
		}
	}
}

func b64DecodeCase(r *common.Run, x []byte, c *counter) {
	orig := string(x)
	cls := b64Class(x)
	for _, e := range b64Encs {
		c.ev++
		want, werr := e.enc.DecodeString(orig)
		if werr != nil || len(want) > 0 {
			c.nt++
		}
		in := func() map[string]any {
			return map[string]any{"input": fmt.Sprintf("%q", orig), "encoding": e.name, "encoding/base64": fmt.Sprintf("%q, %v", want, werr)}
		}
		test := fmt.Sprintf(`func TestReplay(t *testing.T) {
	g, ge := strz.Base64Decode(%q, base64.%s)
	w, we := base64.%s.DecodeString(%q)
	if string(g) != string(w) || (ge != nil) != (we != nil) { t.Fatalf("strz %%q,%%v; encoding/base64 %%q,%%v", g, ge, w, we) }
}`, orig, e.name, e.name, orig)
		var g1, g2 []byte
		var g3, g4 string
		var e1, e2, e3, e4 error
		if !guarded(r, "Base64Decode", in, func() {
			g1, e1 = strz.Base64Decode(x, e.enc)
			g2, e2 = strz.Base64Decode(orig, e.enc)
			g3, e3 = strz.Base64DecodeToString(x, e.enc)
			g4, e4 = strz.Base64DecodeToString(orig, e.enc)
		}) {
			continue
		}
		if string(x) != orig {
			r.Violation("Base64Decode[[]byte]|input-modified|"+e.name+","+cls, fmt.Sprintf("Base64Decode changed its input %q to %q", orig, x), in(), test)
			copy(x, orig)
		}
		if !bytes.Equal(g2, g1) || g3 != string(g1) || g4 != string(g1) || (e2 != nil) != (e1 != nil) || (e3 != nil) != (e1 != nil) || (e4 != nil) != (e1 != nil) {
			r.Violation("Base64Decode|forms-disagree|"+e.name+","+cls, fmt.Sprintf("input %q, %s: Base64Decode([]byte) = %q, %v; Base64Decode(string) = %q, %v; Base64DecodeToString([]byte) = %q, %v; Base64DecodeToString(string) = %q, %v", orig, e.name, g1, e1, g2, e2, g3, e3, g4, e4), in(), test)
		}
		switch {
		case (e1 != nil) != (werr != nil) || !bytes.Equal(g1, want):
			r.Violation("Base64Decode|wrong-result|"+e.name+","+cls, fmt.Sprintf("Base64Decode(%q, %s) = %q, %v; encoding/base64 gives %q, %v", orig, e.name, g1, e1, want, werr), in(), test)
		case errText(e1) != errText(werr):
			info.add("Base64Decode: error text differs from encoding/base64", fmt.Sprintf("(%q,%s): %q vs %q", orig, e.name, errText(e1), errText(werr)))
		}
	}
}

func base64Checks(r *common.Run) {
	byteLen, textLen := 2, 4
	if r.Thorough() {
		byteLen, textLen = 3, 8
	}
	section(r, "Base64 encode", fmt.Sprintf("all byte strings of length <= %d over all 256 byte values x {Std, URL, RawStd, RawURL}; Base64Encode / Base64EncodeToString, both forms, + decode round trip", byteLen), func() (int64, int64) {
		return enumTexts(r, "Base64 encode", allByteValues, 0, byteLen, func(s []byte, c *counter) { b64EncodeCase(r, s, c) })
	})
	r.SampleL("Base64 encode", map[string]any{"input": "\"\\xfb\\xff\"", "encoding": "RawURLEncoding", "encoding/base64": base64.RawURLEncoding.EncodeToString([]byte{0xfb, 0xff})})
	section(r, "Base64 decode", fmt.Sprintf("all texts of length <= %d over %q x the same 4 encodings; Base64Decode / Base64DecodeToString, both forms", textLen, b64Alpha), func() (int64, int64) {
		return enumTexts(r, "Base64 decode", b64Alpha, 0, textLen, func(s []byte, c *counter) { b64DecodeCase(r, s, c) })
	})
	// the same texts behind one and two valid quanta: an error then comes with a non-empty decoded prefix
	for _, pre := range []string{"QUJD", "QUJDRA__"[:8-2] + "AA"} {
		pre := pre
		section(r, "Base64 decode after valid quanta ("+pre+")", fmt.Sprintf("%q followed by every text of length <= %d over %q x 4 encodings", pre, textLen-1, b64Alpha), func() (int64, int64) {
			return enumTexts(r, "Base64 decode after valid quanta", b64Alpha, 0, textLen-1, func(s []byte, c *counter) {
				b64DecodeCase(r, append([]byte(pre), s...), c)
			})
		})
	}
	for _, s := range []string{"AA=\n", "A_-="} {
		w, we := base64.URLEncoding.DecodeString(s)
		r.SampleL("Base64 decode", map[string]any{"input": s, "encoding": "URLEncoding", "encoding/base64": fmt.Sprintf("%q, %v", w, we)})
	}
}
