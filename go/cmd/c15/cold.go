package main

import (
	"crypto/sha256"
	"encoding/base64"
	"encoding/hex"
	"fmt"
	"strconv"

	"github.com/welllog/golib/hashz"
	"github.com/welllog/golib/strz"
)

// coldProbes: each runs as the first library call of a fresh process (lazily built tables).
func coldProbes() map[string]func() string {
	return map[string]func() string{
		"ParseUint": func() string {
			for _, in := range []string{"0", "9", "ff", "0x7F", "z", "\xff", "18446744073709551615", "18446744073709551616"} {
				for _, base := range []int{0, 10, 16, 36} {
					w, we := strconv.ParseUint(in, base, 64)
					g, ge := strz.ParseUint(in, base, 64)
					if g != w || (ge == nil) != (we == nil) {
						return fmt.Sprintf("ParseUint(%q, %d, 64) = %d, %v; strconv gives %d, %v", in, base, g, ge, w, we)
					}
				}
			}
			return ""
		},
		"HexDecode": func() string {
			for _, in := range []string{"00", "ff", "FF", "0g", "a", "\xff0"} {
				w, we := hex.DecodeString(in)
				g, ge := strz.HexDecode(in)
				if string(g) != string(w) || (ge == nil) != (we == nil) {
					return fmt.Sprintf("HexDecode(%q) = %q, %v; encoding/hex gives %q, %v", in, g, ge, w, we)
				}
			}
			return ""
		},
		"HexEncodeToString": func() string {
			in := []byte{0, 1, 0x7f, 0x80, 0xff}
			if g, w := strz.HexEncodeToString(in), hex.EncodeToString(in); g != w {
				return fmt.Sprintf("HexEncodeToString = %q, want %q", g, w)
			}
			return ""
		},
		"Base64Decode": func() string {
			for _, in := range []string{"AA==", "AAA", "////", "!!!!", ""} {
				w, we := base64.StdEncoding.DecodeString(in)
				g, ge := strz.Base64Decode(in, base64.StdEncoding)
				if string(g) != string(w) || (ge == nil) != (we == nil) {
					return fmt.Sprintf("Base64Decode(%q) = %q, %v; encoding/base64 gives %q, %v", in, g, ge, w, we)
				}
			}
			return ""
		},
		"Sha256ToString": func() string {
			in := "abc"
			w := sha256.Sum256([]byte(in))
			if g := hashz.Sha256ToString(in); g != hex.EncodeToString(w[:]) {
				return fmt.Sprintf("Sha256ToString(%q) = %q", in, g)
			}
			return ""
		},
		"LongToIPv4": func() string {
			for _, x := range []uint32{0, 100, 0x7f000001, 0xffffffff, 0x64646464} {
				if g := strz.IPv4ToLong(strz.LongToIPv4(x)); g != x {
					return fmt.Sprintf("IPv4ToLong(LongToIPv4(%d)) = %d", x, g)
				}
			}
			return ""
		},
	}
}
