package main

import (
	"sync"

	"verif/common"
)

type counter struct{ ev, nt int64 }

// enumTexts calls fn once for every text over alpha with minLen <= length <= maxLen, shortest
// length first (one parallel pass per length, sharded by a prefix of the text). fn receives a
// private buffer that it may not retain, and a shard-local counter.
func enumTexts(r *common.Run, what string, alpha []byte, minLen, maxLen int, fn func(s []byte, c *counter)) (ev, nt int64) {
	k := len(alpha)
	need := 1 // prefix length that gives >= 64 shards
	for n := k; n < 64; n *= k {
		need++
	}
	var mu sync.Mutex
	for l := minLen; l <= maxLen; l++ {
		if l == 0 {
			var c counter
			fn([]byte{}, &c)
			ev += c.ev
			nt += c.nt
			continue
		}
		p := need
		if p > l {
			p = l
		}
		shards := 1
		for i := 0; i < p; i++ {
			shards *= k
		}
		l := l
		r.Parallel(shards, func(sh int) {
			if expired(r, what) {
				return
			}
			var c counter
			buf := make([]byte, l)
			x := sh
			for i := p - 1; i >= 0; i-- {
				buf[i] = alpha[x%k]
				x /= k
			}
			common.Seqs(k, l-p, func(idx []int) {
				for i, a := range idx {
					buf[p+i] = alpha[a]
				}
				fn(buf, &c)
			})
			mu.Lock()
			ev += c.ev
			nt += c.nt
			mu.Unlock()
		})
	}
	return
}

var allByteValues = func() []byte {
	b := make([]byte, 256)
	for i := range b {
		b[i] = byte(i)
	}
	return b
}()
