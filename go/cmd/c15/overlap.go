package main

import (
	"fmt"
	"io"

	"verif/common"
)

// Two stream digests that overlap in time (every interleaving at the Read calls of their own
// readers) must each return the digest of their own stream: the helpers are package-level functions
// without documented state. Lengths straddle the digests' block sizes (64 / 128 bytes).

type ovReader struct {
	cur  *func()
	data []byte
	cut  int
	pos  int
}

func (s *ovReader) Read(p []byte) (int, error) {
	(*s.cur)()
	if s.pos >= len(s.data) {
		return 0, io.EOF
	}
	end := len(s.data)
	if s.pos < s.cut && s.cut < end {
		end = s.cut
	}
	n := copy(p, s.data[s.pos:end])
	s.pos += n
	return n, nil
}

func overlappedStreams(r *common.Run) {
	var streams []digestFn
	for _, d := range digestFns {
		if d.stream != nil {
			streams = append(streams, d)
		}
	}
	type call struct {
		d    digestFn
		data []byte
		cut  int
		want string
	}
	var calls [2][]call
	for slot := 0; slot < 2; slot++ {
		for _, d := range streams {
			for _, n := range []int{0, 3, 70, 130} {
				data := pattern(slot, n)
				calls[slot] = append(calls[slot], call{d, data, n / 2, oracleSum(d.newH, data)})
			}
		}
	}
	var execs int64
	for _, a := range calls[0] {
		for _, b := range calls[1] {
			pair := [2]call{a, b}
			execs += int64(common.Overlap(-1, func() ([]func(func()), func(*common.OverlapExec)) {
				var cur func()
				var got [2][]byte
				var errs [2]error
				body := func(k int) func(func()) {
					return func(y func()) {
						var yy func()
						yy = func() { y(); cur = yy }
						cur = yy
						got[k], errs[k] = pair[k].d.stream(&ovReader{cur: &cur, data: pair[k].data, cut: pair[k].cut})
					}
				}
				return []func(func()){body(0), body(1)}, func(x *common.OverlapExec) {
					r.Eval(1)
					r.Nontrivial(1)
					for k := 0; k < 2; k++ {
						c := map[string]any{"function": pair[k].d.name + "Stream", "length": len(pair[k].data), "other": pair[1-k].d.name + "Stream", "other_length": len(pair[1-k].data), "schedule": x.Schedule}
						switch {
						case x.Panics[k] != nil:
							r.Violation("hashz."+pair[k].d.name+"Stream|overlap|panic", fmt.Sprintf("panicked while another stream digest was in progress: %v", x.Panics[k]), c, "")
						case errs[k] != nil:
							r.Violation("hashz."+pair[k].d.name+"Stream|overlap|error", fmt.Sprintf("returned %v while another stream digest was in progress", errs[k]), c, "")
						case string(got[k]) != pair[k].want:
							r.Violation("hashz."+pair[k].d.name+"Stream|overlap|wrong-digest", fmt.Sprintf("%sStream over %d bytes, overlapped with %sStream over %d bytes (switches at the Read calls, schedule %v), returned %s; want %s", pair[k].d.name, len(pair[k].data), pair[1-k].d.name, len(pair[1-k].data), x.Schedule, got[k], pair[k].want), c, "")
						}
					}
				}
			}))
		}
	}
	r.Section(map[string]any{"family": "two overlapping stream digests, every interleaving at the Read calls", "executions": execs, "pairs": len(calls[0]) * len(calls[1])})
}

// Streams around the size of io.Copy's buffer (32 KiB), which the short-stream families never fill.
type bigReader struct {
	data    []byte
	sizes   []int
	eofWith bool
	pos, k  int
}

func (b *bigReader) Read(p []byte) (int, error) {
	if b.pos >= len(b.data) {
		return 0, io.EOF
	}
	end := len(b.data)
	if b.k < len(b.sizes) {
		if e := b.pos + b.sizes[b.k]; e < end {
			end = e
		}
		b.k++
	}
	n := copy(p, b.data[b.pos:end])
	b.pos += n
	if b.pos == len(b.data) && b.eofWith {
		return n, io.EOF
	}
	return n, nil
}

func longDigestStreams(r *common.Run) {
	var cases int64
	for _, d := range digestFns {
		if d.stream == nil {
			continue
		}
		for _, n := range []int{32767, 32768, 32769, 65537} {
			data := pattern(1, n)
			want := oracleSum(d.newH, data)
			readers := map[string]func() io.Reader{
				"full reads":             func() io.Reader { return &bigReader{data: data} },
				"first read 1 byte":      func() io.Reader { return &bigReader{data: data, sizes: []int{1}} },
				"read boundary at 32768": func() io.Reader { return &bigReader{data: data, sizes: []int{32768}} },
				"EOF with the last data": func() io.Reader { return &bigReader{data: data, eofWith: true} },
			}
			for name, mk := range readers {
				cases++
				r.Eval(1)
				r.Nontrivial(1)
				var got []byte
				var err error
				_, st, p := common.Catch(func() { got, err = d.stream(mk()) })
				c := map[string]any{"function": d.name + "Stream", "length": n, "reader": name}
				switch {
				case p:
					r.Violation("hashz."+d.name+"Stream|panic|long-stream", "panicked at "+common.PanicSite(st), map[string]any{"case": c, "stack": st}, "")
				case err != nil:
					r.Violation("hashz."+d.name+"Stream|error|long-stream", fmt.Sprintf("%sStream over %d bytes (%s) returned %v", d.name, n, name, err), c, "")
				case string(got) != want:
					r.Violation("hashz."+d.name+"Stream|wrong-digest|long-stream", fmt.Sprintf("%sStream over %d bytes (%s) = %s, want %s", d.name, n, name, got, want), c, "")
				}
			}
			// the one-shot form on the same data, string and []byte
			cases += 2
			r.Eval(2)
			if g1, g2 := d.b2s(data), d.s2s(string(data)); g1 != want || g2 != want {
				r.Violation("hashz."+d.name+"ToString|wrong-digest|long-input", fmt.Sprintf("%sToString over %d bytes = %s / %s, want %s", d.name, n, g1, g2, want), map[string]any{"length": n}, "")
			}
		}
	}
	r.Section(map[string]any{"family": "digest streams and one-shot digests of 32767, 32768, 32769, 65537 bytes (io.Copy's buffer is 32 KiB)", "cases": cases})
}
