package main

import (
	"fmt"
	"io"

	"verif/common"
)

// Two stream digests that overlap in time (every interleaving at the Read calls of their own
// readers) must each return the digest of their own stream: the helpers are package-level functions
// without documented state. Lengths straddle the digests' block sizes (64 / 128 bytes).

type ovReader struct {
	cur  *func()
	data []byte
	cut  int
	pos  int
}

func (s *ovReader) Read(p []byte) (int, error) {
	(*s.cur)()
	if s.pos >= len(s.data) {
		return 0, io.EOF
	}
	end := len(s.data)
	if s.pos < s.cut && s.cut < end {
		end = s.cut
	}
	n := copy(p, s.data[s.pos:end])
	s.pos += n
	return n, nil
}

func overlappedStreams(r *common.Run) {
	var streams []digestFn
	for _, d := range digestFns {
		if d.stream != nil {
			streams = append(streams, d)
		}
	}
	type call struct {
		d    digestFn
		data []byte
		cut  int
		want string
	}
	var calls [2][]call
	for slot := 0; slot < 2; slot++ {
		for _, d := range streams {
			for _, n := range []int{0, 3, 70, 130} {
				data := pattern(slot, n)
				calls[slot] = append(calls[slot], call{d, data, n / 2, oracleSum(d.newH, data)})
			}
		}
	}
	var execs int64
	for _, a := range calls[0] {
		for _, b := range calls[1] {
			pair := [2]call{a, b}
			execs += int64(common.Overlap(-1, func() ([]func(func()), func(*common.OverlapExec)) {
				var cur func()
				var got [2][]byte
				var errs [2]error
				body := func(k int) func(func()) {
					return func(y func()) {
						var yy func()
						yy = func() { y(); cur = yy }
						cur = yy
						got[k], errs[k] = pair[k].d.stream(&ovReader{cur: &cur, data: pair[k].data, cut: pair[k].cut})
					}
				}
				return []func(func()){body(0), body(1)}, func(x *common.OverlapExec) {
					r.Eval(1)
					r.Nontrivial(1)
					for k := 0; k < 2; k++ {
						c := map[string]any{"function": pair[k].d.name + "Stream", "length": len(pair[k].data), "other": pair[1-k].d.name + "Stream", "other_length": len(pair[1-k].data), "schedule": x.Schedule}
						switch {
						case x.Panics[k] != nil:
							r.Violation("hashz."+pair[k].d.name+"Stream|overlap|panic", fmt.Sprintf("panicked while another stream digest was in progress: %v", x.Panics[k]), c, "")
						case errs[k] != nil:
							r.Violation("hashz."+pair[k].d.name+"Stream|overlap|error", fmt.Sprintf("returned %v while another stream digest was in progress", errs[k]), c, "")
						case string(got[k]) != pair[k].want:
							r.Violation("hashz."+pair[k].d.name+"Stream|overlap|wrong-digest", fmt.Sprintf("%sStream over %d bytes, overlapped with %sStream over %d bytes (switches at the Read calls, schedule %v), returned %s; want %s", pair[k].d.name, len(pair[k].data), pair[1-k].d.name, len(pair[1-k].data), x.Schedule, got[k], pair[k].want), c, "")
						}
					}
				}
			}))
		}
	}
	r.Section(map[string]any{"family": "two overlapping stream digests, every interleaving at the Read calls", "executions": execs, "pairs": len(calls[0]) * len(calls[1])})
}
