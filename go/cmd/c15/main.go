// C15 — golib's re-implemented standard routines agree with the Go standard library.
// Bounded-exhaustive differential enumeration (engine E3): strz.ParseUint vs strconv.ParseUint,
// strz.Hex* vs encoding/hex, strz.Base64* vs encoding/base64, hashz digests / HMAC / streams vs
// crypto/* + hex.EncodeToString, and the IPv4ToLong(LongToIPv4(x)) round trip.
//
// What the oracles demand (property text, DESIGN §6.x soundness register):
//   - ParseUint: same error-NESS as strconv.ParseUint (never the error text); same value where
//     strconv accepts base and bit size; for a base / bit size strconv rejects only error-ness.
//   - Hex: decoded prefix, error-ness and error TEXT of encoding/hex.
//   - Base64: returned bytes and error-ness of the corresponding base64.Encoding.
//   - Digests / HMAC: lower-case hex of the crypto/* sum, one-shot and stream, for every legal
//     chunking of the stream (no statement about reader errors, none is injected).
//   - string form == []byte form; []byte inputs unchanged afterwards (except HexDecodeInPlace).
//   - IPv4ToLong(LongToIPv4(x)) == x.
package main

import (
	"fmt"
	"runtime/debug"
	"sync"
	"sync/atomic"
	"time"

	"verif/common"
)

// info counts differences that are observed but deliberately NOT flagged (see soundness notes).
type infoCounters struct {
	mu sync.Mutex
	m  map[string]int64
	ex map[string]string
}

var info = infoCounters{m: map[string]int64{}, ex: map[string]string{}}

func (c *infoCounters) add(key, example string) {
	c.mu.Lock()
	c.m[key]++
	if _, ok := c.ex[key]; !ok {
		c.ex[key] = example
	}
	c.mu.Unlock()
}

var cutOnce sync.Once
var cut int32

// expired reports (once) that the soft deadline cut a section.
func expired(r *common.Run, what string) bool {
	if atomic.LoadInt32(&cut) != 0 || r.Expired() {
		atomic.StoreInt32(&cut, 1)
		cutOnce.Do(func() {
			r.Incomplete("soft deadline reached in section: " + what + " (this and the later sections are partial)")
		})
		return true
	}
	return false
}

// section runs one family and records its measured counts.
func section(r *common.Run, name, space string, f func() (ev, nt int64)) {
	t0 := time.Now()
	ev, nt := f()
	r.Eval(ev)
	r.Nontrivial(nt)
	r.Section(map[string]any{"name": name, "space": space, "evaluations": ev, "nontrivial": nt, "wall_s": float64(time.Since(t0).Milliseconds()) / 1000})
	fmt.Printf("  %-28s evaluations=%-12d nontrivial=%-12d %.1fs\n", name, ev, nt, time.Since(t0).Seconds())
}

// guarded runs a golib call; a panic becomes a violation "<entry>|panic|<site>".
func guarded(r *common.Run, entry string, input func() map[string]any, f func()) bool {
	_, st, p := common.Catch(f)
	if p {
		c := input()
		c["stack"] = st
		r.Violation(entry+"|panic|"+common.PanicSite(st), entry+" panicked", c, "")
		return false
	}
	return true
}

func main() {
	r := common.Start("C15", "model_checking")
	r.ColdStart(coldProbes())
	// The live heap is a few MB while every case allocates (error values, io.Copy's 32 KiB buffer):
	// collect at a 1 GiB soft limit instead of every few MB (39k collections -> a few dozen).
	debug.SetGCPercent(-1)
	debug.SetMemoryLimit(1 << 30)
	parseUintShort(r)
	parseUintBoundaries(r)
	hexChecks(r)
	base64Checks(r)
	digestChecks(r)
	hmacChecks(r)
	streamChecks(r)
	overlappedStreams(r)
	longDigestStreams(r)
	ipv4Checks(r)
	stabilityChecks(r)
	reusedKeyBuffer(r)
	everyByteInNumerals(r)

	info.mu.Lock()
	if len(info.m) > 0 {
		un := map[string]any{}
		for k, n := range info.m {
			un[k] = map[string]any{"count": n, "first": info.ex[k]}
		}
		r.Cov("observed_not_flagged", un)
	}
	info.mu.Unlock()

	r.Assume(
		"small-scope: ParseUint texts of <= 4 (thorough: 5 for bases 0,2,8,10,16,36) symbols of {0,1,7,8,9,a,f,z,Z,x,X,o,b,B,_,+,-,space,g} plus boundary numerals built with math/big; hex / base64 inputs as listed per section",
		"ParseUint is compared with strconv.ParseUint on error-ness (never error text) and on the value whenever strconv accepts base and bit size; for rejected base / bit size only error-ness",
		"Base64 wrappers are compared with enc.EncodeToString / enc.DecodeString on returned bytes and error-ness (error text only observed)",
		"stream digests: readers deliver the data in every chunking with <= 2 (thorough 3) deviations from one full read (short read of every size, (n, io.EOF) together, (0, nil)); thorough adds all compositions of streams <= 16 bytes; no reader error is injected because the property says nothing about it",
		"string immutability is assumed for string inputs (a write through an unsafe view would fault); []byte inputs are compared with a copy after every call",
		"the hashz non-cryptographic string hashes (BKDR, AP, DJB, ...) have no standard-library counterpart and are outside this property",
	)
	r.Finish("every input of each family is enumerated exactly once (no sampling; overlaps between families are skipped in the later family); one evaluation = one input tuple run through the string and the []byte form of every entry point of its family; non-trivial = ParseUint: base and bit size are legal for strconv and the oracle either fails or accepts a text of >= 2 characters; hex/base64 decode: the oracle returns an error or >= 1 decoded byte; hex/base64 encode: input of >= 1 byte; digests/HMAC: data or key of >= 1 byte; streams: script with >= 1 deviation from the single full read; IPv4: address with at least one field >= 10")
}
