package main

import (
	"fmt"
	"sync"

	"verif/common"

	"github.com/welllog/golib/strz"
)

var ipBytes = []uint32{0, 1, 9, 10, 99, 100, 127, 128, 254, 255}

func ipNontrivial(x uint32) bool {
	return x>>24 >= 10 || (x>>16)&0xff >= 10 || (x>>8)&0xff >= 10 || x&0xff >= 10
}

// ipRange checks x = lo, lo+step, ... (count values); a panic is reported and the loop resumes.
func ipRange(r *common.Run, lo uint64, step uint64, count uint64, skip func(uint32) bool) (ev, nt int64) {
	i := uint64(0)
	for i < count {
		var cur uint32
		_, st, p := common.Catch(func() {
			for ; i < count; i++ {
				cur = uint32(lo + i*step)
				if skip != nil && skip(cur) {
					continue
				}
				ev++
				if ipNontrivial(cur) {
					nt++
				}
				ipOne(r, cur)
			}
		})
		if p {
			r.Violation("IPv4ToLong(LongToIPv4)|panic|"+common.PanicSite(st), fmt.Sprintf("panicked for x = %d", cur), map[string]any{"x": cur, "stack": st}, "")
			i++
		}
	}
	return
}

func ipOne(r *common.Run, x uint32) {
	s := strz.LongToIPv4(x)
	if y := strz.IPv4ToLong(s); y != x {
		r.Violation("IPv4ToLong(LongToIPv4)|round-trip|uint32", fmt.Sprintf("LongToIPv4(%d) = %q, IPv4ToLong of it = %d, want %d", x, s, y, x), map[string]any{"x": x, "text": s},
			fmt.Sprintf("func TestReplay(t *testing.T) { if y := strz.IPv4ToLong(strz.LongToIPv4(%d)); y != %d { t.Fatal(y) } }", x, x))
	}
}

func ipv4Checks(r *common.Run) {
	if r.Thorough() {
		section(r, "IPv4 round trip", "all 2^32 addresses", func() (int64, int64) {
			var ev, nt int64
			var mu sync.Mutex
			const shards = 4096
			const per = uint64(1) << 32 / shards
			r.Parallel(shards, func(sh int) {
				if expired(r, "IPv4 round trip") {
					return
				}
				e, n := ipRange(r, uint64(sh)*per, 1, per, nil)
				mu.Lock()
				ev += e
				nt += n
				mu.Unlock()
			})
			return ev, nt
		})
	} else {
		section(r, "IPv4 round trip", "all x < 2^16, all x = h<<16 (h < 2^16), and all x whose four bytes are in {0,1,9,10,99,100,127,128,254,255}", func() (int64, int64) {
			if expired(r, "IPv4 round trip") {
				return 0, 0
			}
			ev, nt := ipRange(r, 0, 1, 1<<16, nil)
			e, n := ipRange(r, 0, 1<<16, 1<<16, func(x uint32) bool { return x == 0 })
			ev, nt = ev+e, nt+n
			for _, a := range ipBytes {
				for _, b := range ipBytes {
					for _, c := range ipBytes {
						for _, d := range ipBytes {
							x := a<<24 | b<<16 | c<<8 | d
							if x < 1<<16 || x&0xffff == 0 {
								continue // already in one of the two 2^16 families
							}
							ev++
							if ipNontrivial(x) {
								nt++
							}
							if !guarded(r, "IPv4ToLong(LongToIPv4)", func() map[string]any { return map[string]any{"x": x} }, func() { ipOne(r, x) }) {
								continue
							}
						}
					}
				}
			}
			return ev, nt
		})
	}
	r.SampleL("IPv4", map[string]any{"x": uint32(0x7f0000ff), "LongToIPv4": strz.LongToIPv4(0x7f0000ff)})
}
