// C12 — SafeKV is data-race free and every operation is atomic.
// Engine E1: all schedules of every pair of SafeKV methods (and of several 3-thread mixes) on
// the real (instrumented) mapz/safekv.go + iter.go; vector-clock race detection on every
// access to the entries field and to the map it refers to; linearizability against a plain map.
package main

import (
	"fmt"
	"math"
	"sort"
	"strings"

	"verif/sched"

	"github.com/welllog/golib/mapz"
	"github.com/welllog/golib/vshim/core"
	"github.com/welllog/golib/vshim/vmap"
)

type kv = mapz.SafeKV[string, int]

func dump(m map[string]int) string {
	keys := make([]string, 0, len(m))
	for k := range m {
		keys = append(keys, k)
	}
	sort.Strings(keys)
	var sb strings.Builder
	for _, k := range keys {
		fmt.Fprintf(&sb, "%s=%d,", k, m[k])
	}
	return sb.String()
}

func parse(s string) map[string]int {
	m := map[string]int{}
	for _, p := range strings.Split(s, ",") {
		if p == "" {
			continue
		}
		var k string
		var v int
		i := strings.IndexByte(p, '=')
		k = p[:i]
		fmt.Sscanf(p[i+1:], "%d", &v)
		m[k] = v
	}
	return m
}

// one menu entry: how to run it on the real object, and its sequential specification
type opDef struct {
	name string
	run  func(s *kv, val int) any
	spec func(m map[string]int, val int, res any) (bool, map[string]int) // m may be modified and returned
}

func keysOf(m map[string]int) string {
	ks := make([]string, 0, len(m))
	for k := range m {
		ks = append(ks, k)
	}
	sort.Strings(ks)
	return strings.Join(ks, ",")
}
func valsOf(m map[string]int) string {
	vs := make([]int, 0, len(m))
	for _, v := range m {
		vs = append(vs, v)
	}
	sort.Ints(vs)
	return fmt.Sprint(vs)
}

var menu = []opDef{
	{"Get(a)", func(s *kv, _ int) any { v, ok := s.Get("a"); return fmt.Sprint(v, ok) },
		func(m map[string]int, _ int, res any) (bool, map[string]int) {
			v, ok := m["a"]
			return res == fmt.Sprint(v, ok), m
		}},
	{"Has(a)", func(s *kv, _ int) any { return s.Has("a") },
		func(m map[string]int, _ int, res any) (bool, map[string]int) { _, ok := m["a"]; return res == ok, m }},
	{"Contains(b)", func(s *kv, _ int) any { return s.Contains("b") },
		func(m map[string]int, _ int, res any) (bool, map[string]int) { _, ok := m["b"]; return res == ok, m }},
	{"Len", func(s *kv, _ int) any { return s.Len() },
		func(m map[string]int, _ int, res any) (bool, map[string]int) { return res == len(m), m }},
	{"Set(a)", func(s *kv, val int) any { s.Set("a", val); return nil },
		func(m map[string]int, val int, _ any) (bool, map[string]int) { m["a"] = val; return true, m }},
	{"Set(b)", func(s *kv, val int) any { s.Set("b", val); return nil },
		func(m map[string]int, val int, _ any) (bool, map[string]int) { m["b"] = val; return true, m }},
	{"SetNx(a)", func(s *kv, val int) any { return s.SetNx("a", val) },
		func(m map[string]int, val int, res any) (bool, map[string]int) {
			_, ok := m["a"]
			if !ok {
				m["a"] = val
			}
			return res == !ok, m
		}},
	{"SetX(a)", func(s *kv, val int) any { return s.SetX("a", val) },
		func(m map[string]int, val int, res any) (bool, map[string]int) {
			_, ok := m["a"]
			if ok {
				m["a"] = val
			}
			return res == ok, m
		}},
	{"Delete(a)", func(s *kv, _ int) any { s.Delete("a"); return nil },
		func(m map[string]int, _ int, _ any) (bool, map[string]int) { delete(m, "a"); return true, m }},
	{"Delete(a,b)", func(s *kv, _ int) any { s.Delete("a", "b"); return nil },
		func(m map[string]int, _ int, _ any) (bool, map[string]int) {
			delete(m, "a")
			delete(m, "b")
			return true, m
		}},
	{"Keys", func(s *kv, _ int) any { ks := s.Keys(); sort.Strings(ks); return strings.Join(ks, ",") },
		func(m map[string]int, _ int, res any) (bool, map[string]int) { return res == keysOf(m), m }},
	{"Values", func(s *kv, _ int) any { vs := s.Values(); sort.Ints(vs); return fmt.Sprint(vs) },
		func(m map[string]int, _ int, res any) (bool, map[string]int) { return res == valsOf(m), m }},
	{"Range", func(s *kv, _ int) any {
		got := map[string]int{}
		s.Range(func(k string, v int) bool { got[k] = v; core.Pause(); return true })
		return dump(got)
	}, func(m map[string]int, _ int, res any) (bool, map[string]int) { return res == dump(m), m }},
	{"All", func(s *kv, _ int) any {
		got := map[string]int{}
		for k, v := range s.All() {
			got[k] = v
			core.Pause()
		}
		return dump(got)
	}, func(m map[string]int, _ int, res any) (bool, map[string]int) { return res == dump(m), m }},
	{"Range(stop after 1)", func(s *kv, _ int) any {
		got := map[string]int{}
		s.Range(func(k string, v int) bool { got[k] = v; core.Pause(); return false })
		return dump(got)
	}, firstOnly},
	{"All(break after 1)", func(s *kv, _ int) any {
		got := map[string]int{}
		for k, v := range s.All() {
			got[k] = v
			core.Pause()
			break
		}
		return dump(got)
	}, firstOnly},
	{"GetWithMap(a,b)", func(s *kv, _ int) any {
		q := map[string]int{"a": -1, "b": -1}
		s.GetWithMap(q)
		return dump(q)
	}, func(m map[string]int, _ int, res any) (bool, map[string]int) {
		q := map[string]int{"a": -1, "b": -1}
		for k := range q {
			if v, ok := m[k]; ok {
				q[k] = v
			}
		}
		return res == dump(q), m
	}},
	{"GetWithLock(a)", func(s *kv, _ int) any {
		got := "none"
		s.GetWithLock("a", func(v int) { got = fmt.Sprint(v); core.Pause() })
		return got
	}, func(m map[string]int, _ int, res any) (bool, map[string]int) {
		want := "none"
		if v, ok := m["a"]; ok {
			want = fmt.Sprint(v)
		}
		return res == want, m
	}},
	{"Clear", func(s *kv, _ int) any { s.Clear(); return nil },
		func(m map[string]int, _ int, _ any) (bool, map[string]int) { return true, map[string]int{} }},
	{"Map(set b)", func(s *kv, val int) any {
		var seen string
		s.Map(func(m mapz.KV[string, int]) {
			seen = dump(core.RM(m))
			core.Pause()
			core.WM(m)["b"] = val
		})
		return seen
	}, func(m map[string]int, val int, res any) (bool, map[string]int) {
		ok := res == dump(m)
		m["b"] = val
		return ok, m
	}},
}

// bulk operations: one call that carries many keys. A change that processes its arguments in
// batches (and gives the lock back in between) is only visible when one call carries more keys
// than a batch holds: 600 keys exceed every batch size up to 512 with a remainder.
const bulkN = 600

var bulkKeys = func() []string {
	ks := make([]string, bulkN)
	for i := range ks {
		ks[i] = fmt.Sprintf("k%03d", i)
	}
	return ks
}()

func bulkInit() map[string]int {
	m := map[string]int{"a": 1}
	for i, k := range bulkKeys {
		m[k] = 1000 + i
	}
	return m
}

var bulkMenu = []opDef{
	{"Delete(600 keys)", func(s *kv, _ int) any { s.Delete(bulkKeys...); return nil },
		func(m map[string]int, _ int, _ any) (bool, map[string]int) {
			for _, k := range bulkKeys {
				delete(m, k)
			}
			return true, m
		}},
	{"GetWithMap(600 keys)", func(s *kv, _ int) any {
		q := make(map[string]int, bulkN)
		for _, k := range bulkKeys {
			q[k] = -1
		}
		s.GetWithMap(q)
		found := 0
		for _, v := range q {
			if v != -1 {
				found++
			}
		}
		return found
	}, func(m map[string]int, _ int, res any) (bool, map[string]int) {
		found := 0
		for _, k := range bulkKeys {
			if _, ok := m[k]; ok {
				found++
			}
		}
		return res == found, m
	}},
	{"len(Keys)", func(s *kv, _ int) any { return len(s.Keys()) },
		func(m map[string]int, _ int, res any) (bool, map[string]int) { return res == len(m), m }},
	{"len(Values)", func(s *kv, _ int) any { return len(s.Values()) },
		func(m map[string]int, _ int, res any) (bool, map[string]int) { return res == len(m), m }},
	{"count(Range)", func(s *kv, _ int) any {
		n := 0
		s.Range(func(string, int) bool { n++; return true })
		return n
	}, func(m map[string]int, _ int, res any) (bool, map[string]int) { return res == len(m), m }},
}

// firstOnly: an enumeration stopped by the callback after one binding saw exactly one binding of
// the map as it was at one instant (none iff the map was empty) — and gave the lock back.
func firstOnly(m map[string]int, _ int, res any) (bool, map[string]int) {
	got := parse(res.(string))
	if len(m) == 0 {
		return len(got) == 0, m
	}
	if len(got) != 1 {
		return false, m
	}
	for k, v := range got {
		if mv, ok := m[k]; !ok || mv != v {
			return false, m
		}
	}
	return true, m
}

var byName = map[string]*opDef{}

var model = sched.Model{
	Init: func() any { return "" },
	Step: func(st any, op *core.OpRec) (bool, any) {
		if op.Name == "init" {
			return true, op.Arg.(string)
		}
		d := byName[op.Name]
		ok, m := d.spec(parse(st.(string)), op.Arg.(int), op.Res)
		return ok, dump(m)
	},
	Key: func(st any) string { return st.(string) },
}

var checker = &sched.LinChecker{M: model}

type ctxT struct {
	s    *kv
	init string
}

func scenario(name string, init map[string]int, progs ...[]string) sched.Spec {
	sc := sched.Scenario{
		Name: name,
		Build: func(x *core.Exec) any {
			s := mapz.NewSafeKV[string, int](2)
			for k, v := range init {
				s.Set(k, v)
			}
			c := &ctxT{s: s, init: dump(init)}
			for ti, p := range progs {
				ti, p := ti, p
				x.Spawn(fmt.Sprintf("t%d", ti+1), func(t *core.Thread) {
					for oi, o := range p {
						if x.Failed() {
							return
						}
						d := byName[o]
						val := (ti+1)*10 + oi
						t.Op(d.name, val, func() any { return d.run(s, val) })
					}
				})
			}
			return c
		},
		Final: func(x *core.Exec, ctx any) {
			c := ctx.(*ctxT)
			x.SeqOp("Len", 0, func() any { return c.s.Len() })
			x.SeqOp("Range", 0, func() any { return byName["Range"].run(c.s, 0) })
			x.SeqOp("Keys", 0, func() any { return byName["Keys"].run(c.s, 0) })
		},
		Check: func(x *core.Exec, ctx any) *core.Failure {
			c := ctx.(*ctxT)
			h := append([]*core.OpRec{{Thread: 0, Name: "init", Arg: c.init, Call: -1, Ret: 0}}, x.Hist...)
			ok, _ := checker.Check(h)
			if !ok {
				return &core.Failure{Sig: "not-linearizable", What: "history is not linearizable to a plain map in which every SafeKV call is one atomic step (initial content " + c.init + "):\n" + sched.FormatHistory(x.Hist)}
			}
			return nil
		},
	}
	return sched.Spec{Sc: sc, Quick: sched.Unbounded, Thorough: sched.Unbounded}
}

// ptrScenario: values are pointers; callbacks that SafeKV runs under its lock dereference them
// (reads under the read lock in GetWithLock / Range / All, a write under the write lock in Map).
// With the documented locking these accesses are ordered; a callback that runs outside the lock
// races. Only the race detector judges these scenarios.
func ptrScenario(name string, reader string) sched.Spec {
	sc := sched.Scenario{
		Name: "ptr/" + name,
		Build: func(x *core.Exec) any {
			s := mapz.NewSafeKV[string, *int](2)
			v := new(int)
			s.Set("a", v)
			x.Spawn("reader", func(t *core.Thread) {
				t.Op(reader, 0, func() any {
					got := -1
					switch reader {
					case "GetWithLock":
						s.GetWithLock("a", func(p *int) { got = *core.R(p); core.Pause() })
					case "Range":
						s.Range(func(_ string, p *int) bool { got = *core.R(p); core.Pause(); return true })
					case "All":
						for _, p := range s.All() {
							got = *core.R(p)
							core.Pause()
						}
					}
					return got
				})
			})
			x.Spawn("writer", func(t *core.Thread) {
				t.Op("Map", 0, func() any {
					s.Map(func(m mapz.KV[string, *int]) {
						if p, ok := core.RM(m)["a"]; ok {
							*core.W(p) = 7
						}
					})
					return nil
				})
			})
			return nil
		},
	}
	return sched.Spec{Sc: sc, Quick: sched.Unbounded, Thorough: sched.Unbounded}
}

// nanScenario: keys that are not equal to themselves (NaN) — "all key choices". A plain map stores
// one entry per Set(NaN, v), finds none of them again, and only loses them when it is cleared.
func nanScenario() sched.Spec {
	sc := sched.Scenario{
		Name: "nan-keys/sequential",
		Build: func(x *core.Exec) any {
			s := mapz.NewSafeKV[float64, int](2)
			x.Spawn("t1", func(t *core.Thread) {
				nan := math.NaN()
				step := func(what string, got, want any) bool {
					if got != want {
						x.FailNow("nan-keys|"+what, fmt.Sprintf("SafeKV[float64,int] with NaN keys: %s = %v, a plain map gives %v", what, got, want))
						return false
					}
					return true
				}
				t.Op("Set", 0, func() any { s.Set(nan, 1); s.Set(nan, 2); s.Set(1.5, 3); return nil })
				if !step("Len after Set(NaN,1), Set(NaN,2), Set(1.5,3)", s.Len(), 3) || !step("Has(NaN)", s.Has(nan), false) || !step("len(Keys())", len(s.Keys()), 3) {
					return
				}
				t.Op("Delete", 0, func() any { s.Delete(nan, 1.5); return nil })
				if !step("Len after Delete(NaN, 1.5)", s.Len(), 2) {
					return
				}
				t.Op("Clear", 0, func() any { s.Clear(); return nil })
				n := 0
				s.Range(func(float64, int) bool { n++; return true })
				if !step("Len after Clear", s.Len(), 0) || !step("len(Keys()) after Clear", len(s.Keys()), 0) || !step("len(Values()) after Clear", len(s.Values()), 0) || !step("entries seen by Range after Clear", n, 0) {
					return
				}
				t.Op("Set", 1, func() any { s.Set(nan, 4); return nil })
				step("Len after Clear, Set(NaN,4)", s.Len(), 1)
			})
			return nil
		},
	}
	return sched.Spec{Sc: sc, Quick: sched.Unbounded, Thorough: sched.Unbounded}
}

func main() {
	// golib's own map iterations (inside Keys/Values/Range/...) are built through vmap: a fixed
	// ascending order keeps executions deterministic even when an edit makes the order matter
	vmap.Global = &vmap.Env{}
	for i := range menu {
		byName[menu[i].name] = &menu[i]
	}
	var specs []sched.Spec
	inits := []map[string]int{{}, {"a": 1}, {"a": 1, "b": 2}}
	for ii, init := range inits {
		for i := range menu {
			for j := i; j < len(menu); j++ {
				specs = append(specs, scenario(fmt.Sprintf("pair/%s|%s/init%d", menu[i].name, menu[j].name, ii), init, []string{menu[i].name}, []string{menu[j].name}))
			}
		}
	}
	three := [][][]string{
		{{"SetNx(a)"}, {"SetNx(a)"}, {"SetNx(a)"}},
		{{"SetX(a)"}, {"Delete(a)"}, {"Has(a)", "Get(a)"}},
		{{"Set(a)", "Set(b)"}, {"Keys"}, {"Len", "Len"}},
		{{"Range"}, {"Set(b)"}, {"Delete(a)"}},
		{{"Clear"}, {"Keys", "Values"}, {"Set(a)"}},
		{{"Map(set b)"}, {"GetWithMap(a,b)"}, {"Delete(a,b)"}},
		{{"All"}, {"Clear"}, {"SetNx(a)", "SetX(a)"}},
		{{"GetWithLock(a)"}, {"Set(a)", "Delete(a)"}, {"Values"}},
	}
	for ii, init := range inits {
		for k, p := range three {
			var names []string
			for _, t := range p {
				names = append(names, strings.Join(t, ","))
			}
			specs = append(specs, scenario(fmt.Sprintf("mix%d/%s/init%d", k, strings.Join(names, "|"), ii), init, p...))
		}
	}
	// every unordered triple of method instances as three goroutines
	for ii, init := range inits {
		for i := range menu {
			for j := i; j < len(menu); j++ {
				for k := j; k < len(menu); k++ {
					s3 := scenario(fmt.Sprintf("triple/%s|%s|%s/init%d", menu[i].name, menu[j].name, menu[k].name, ii), init, []string{menu[i].name}, []string{menu[j].name}, []string{menu[k].name})
					specs = append(specs, s3)
				}
			}
		}
	}
	// only GetWithLock promises that its callback runs under the lock (name and doc comment); for
	// Range and All the property asks for one consistent snapshot, which a copy taken under the
	// lock and handed to the callback afterwards provides as well
	for _, rd := range []string{"GetWithLock"} {
		specs = append(specs, ptrScenario(rd+"|Map", rd))
	}
	four := [][][]string{
		{{"SetNx(a)"}, {"SetNx(a)"}, {"Delete(a)"}, {"Keys"}},
		{{"Set(a)"}, {"Set(b)"}, {"Clear"}, {"Range"}},
		{{"SetX(a)"}, {"Delete(a,b)"}, {"Map(set b)"}, {"Values"}},
		{{"GetWithMap(a,b)"}, {"Set(a)", "Set(b)"}, {"Delete(a)"}, {"Len"}},
	}
	for ii, init := range inits {
		for k, p := range four {
			var names []string
			for _, t := range p {
				names = append(names, strings.Join(t, ","))
			}
			s4 := scenario(fmt.Sprintf("four%d/%s/init%d", k, strings.Join(names, "|"), ii), init, p...)
			s4.ThoroughOnly, s4.Heavy = true, true
			specs = append(specs, s4)
		}
	}
	for i := range bulkMenu {
		byName[bulkMenu[i].name] = &bulkMenu[i]
	}
	for k, p := range [][][]string{
		{{"Delete(600 keys)"}, {"Len", "Len"}},
		{{"Delete(600 keys)"}, {"len(Keys)"}, {"len(Values)"}},
		{{"Delete(600 keys)"}, {"GetWithMap(600 keys)"}, {"count(Range)"}},
		{{"GetWithMap(600 keys)"}, {"Clear"}, {"Set(a)"}},
		{{"Delete(600 keys)"}, {"Delete(600 keys)"}, {"Has(a)", "Len"}},
	} {
		var names []string
		for _, t := range p {
			names = append(names, strings.Join(t, ","))
		}
		specs = append(specs, scenario(fmt.Sprintf("bulk%d/%s", k, strings.Join(names, "|")), bulkInit(), p...))
	}
	specs = append(specs, nanScenario())
	sched.Main("C12", specs,
		[]string{
			"bulk calls: Delete / GetWithMap carrying 600 keys against Len, Keys, Values, Range, Clear on a map of 601 entries (5 scenarios): a call that is processed in batches of up to 512 keys has a step between two batches",
			"small scope: all unordered pairs and all unordered triples of 18 method instances as two / three goroutines with one call each, plus eight 3-goroutine mixes with <= 2 calls each (thorough: four 4-goroutine mixes); keys {a,b}; start states {} and {a:1}",
			"race detection covers the locations the instrumenter probes: the entries field and the content of the map it refers to (two locations), in every explored schedule; callbacks given to Range/All/GetWithLock/Map yield while the lock is held",
			"the RWMutex shim has no writer preference (a superset of Go's behaviours)",
		},
		"states = distinct happens-before signatures; every execution runs the real instrumented mapz/safekv.go + iter.go; vector-clock race check on every probed access; the call/return history (plus Len/Range/Keys epilogue) must be linearizable to a plain map where every call, including Keys/Values/Range/All/GetWithMap/Map, is a single atomic step returning a sorted snapshot; non-trivial = distinct (operations, results, precedence) classes")
}
