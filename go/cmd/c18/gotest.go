package main

// Ready-to-paste Go tests for a failing case (package algz_test, imports: testing, sort, fmt,
// github.com/welllog/golib/algz). They are only rendered for the first case of a signature.

import (
	"fmt"
	"strings"
)

func breakerSrc(b int) string {
	switch b {
	case tbFewer:
		return ", func(old, new []it) bool { return len(new) < len(old) }"
	case tbAlways:
		return ", func(old, new []it) bool { return true }"
	case tbNever:
		return ", func(old, new []it) bool { return false }"
	}
	return ""
}

func itemsSrc(items []Item) string {
	var b strings.Builder
	b.WriteString("[]it{")
	for i, x := range items {
		if i > 0 {
			b.WriteString(", ")
		}
		fmt.Fprintf(&b, "{%d, %d, %d}", x.ID, x.W, x.V)
	}
	b.WriteString("}")
	return b.String()
}

const sumSrc = `	sum := func(sel []it) (w, v int) {
		seen := map[int]bool{}
		for _, x := range sel {
			if seen[x.id] {
				t.Fatalf("item %d used twice in %v", x.id, sel)
			}
			seen[x.id] = true
			w, v = w+x.w, v+x.v
		}
		return
	}
`

func knapsackTest(c Case, opt int) string {
	return fmt.Sprintf(`func TestReplayC18(t *testing.T) {
	type it struct{ id, w, v int }
	items := %s
%s	got := algz.Knapsack(%d, items, func(i it) int { return i.w }, func(i it) int { return i.v }%s)
	if w, v := sum(got); w > %d || v != %d {
		t.Fatalf("Knapsack = %%v (weight %%d, value %%d); want weight <= %d and the optimal value %d", got, w, v)
	}
}`, itemsSrc(c.Items), sumSrc, c.Limit, breakerSrc(c.Breaker), c.Limit, opt, c.Limit, opt)
}

func dpTest(c Case, tab *subsetTable, attain []bool, bestBelow, least int, exact bool) string {
	var need []string
	for t := 0; t <= c.Limit && t <= tab.totV; t++ {
		if attain[t] {
			need = append(need, fmt.Sprint(t))
		}
	}
	if c.AllowOver && least >= 0 {
		need = append(need, fmt.Sprint(least))
	}
	var b strings.Builder
	fmt.Fprintf(&b, `func TestReplayC18(t *testing.T) {
	type it struct{ id, w, v int }
	items := %s
%s	m := algz.FindDpSolvers(%d, items, func(i it) int { return i.v }, %v%s)
	for k, sel := range m {
		if _, v := sum(sel); v != k {
			t.Fatalf("solver[%%d] = %%v sums to %%d", k, sel, v)
		}
`, itemsSrc(c.Items), sumSrc, c.Limit, c.AllowOver, breakerSrc(c.Breaker))
	if !c.AllowOver {
		fmt.Fprintf(&b, "\t\tif k > %d {\n\t\t\tt.Fatalf(\"key %%d above maxValue without allowOverOnce\", k)\n\t\t}\n", c.Limit)
	}
	fmt.Fprintf(&b, `	}
	for _, k := range []int{%s} { // attainable totals <= maxValue (and the least overshoot when allowed)
		if _, ok := m[k]; !ok {
			t.Fatalf("no entry for the attainable total %%d in %%v", k, m)
		}
	}
	if _, v := sum(m.Best(%d)); v != %d {
		t.Fatalf("Best(%d) = %%v, want total %d", m.Best(%d))
	}
`, strings.Join(need, ", "), c.Limit, bestBelow, c.Limit, bestBelow, c.Limit)
	want := -1
	if exact {
		want = c.Limit
	} else if c.AllowOver && least >= 0 {
		want = least
	}
	if want >= 0 {
		fmt.Fprintf(&b, "\tif _, v := sum(m.BestAllowMinOverflow(%d)); v != %d {\n\t\tt.Fatalf(\"BestAllowMinOverflow(%d) = %%v, want total %d\", m.BestAllowMinOverflow(%d))\n\t}\n", c.Limit, want, c.Limit, want, c.Limit)
	}
	b.WriteString("}")
	return b.String()
}

func cliqueTest(c Case, want []uint32) string {
	var b strings.Builder
	b.WriteString("func TestReplayC18(t *testing.T) {\n\tvar g algz.Graph[int]\n")
	hasEdge := make([]bool, c.N)
	for _, e := range c.edgeList() {
		fmt.Fprintf(&b, "\tg.AddUndirectedEdge(%d, %d)\n", e[0], e[1])
		hasEdge[e[0]], hasEdge[e[1]] = true, true
	}
	for v := 0; v < c.N; v++ {
		if !hasEdge[v] {
			fmt.Fprintf(&b, "\tg.AddNode(%d)\n", v)
		}
	}
	if c.Kind == kCliques {
		b.WriteString("\tgot := g.GetMaximalCliques()\n")
	} else {
		fmt.Fprintf(&b, "\tP := %#v\n\tvar got [][]int\n", c.Perm)
		if c.AliasX {
			fmt.Fprintf(&b, "\tg.BronKerbosch(make([]int, 0, %d), P, P[:0], &got)\n", c.N)
		} else {
			b.WriteString("\tg.BronKerbosch(nil, P, nil, &got)\n")
		}
	}
	ws := make([]string, len(want))
	for i, m := range want {
		var vs []string
		for v := 0; v < c.N; v++ {
			if m>>uint(v)&1 == 1 {
				vs = append(vs, fmt.Sprint(v))
			}
		}
		ws[i] = "[" + strings.Join(vs, " ") + "]"
	}
	fmt.Fprintf(&b, `	var gs []string
	for _, cl := range got {
		sort.Ints(cl)
		gs = append(gs, fmt.Sprint(cl))
	}
	sort.Strings(gs)
	want := %#v // the maximal cliques, each once
	sort.Strings(want)
	if fmt.Sprint(gs) != fmt.Sprint(want) {
		t.Fatalf("got %%v want %%v", gs, want)
	}
}`, ws)
	return b.String()
}
