// C18 — Knapsack, subset-sum solvers (FindDpSolvers / Best / BestAllowMinOverflow) and
// maximal-clique enumeration (GetMaximalCliques / BronKerbosch) are exact.
//
// Engine E3: bounded-exhaustive inputs, brute force over all 2^n subsets as oracle.
//
// Structure (important for the map-order environment that is added later):
//   - a Case is a complete, self-contained description of ONE input;
//   - runCase(c) is the ONLY function that calls golib; it builds everything it hands to golib
//     from c (fresh slices, fresh Graph) and returns the raw results;
//   - judge*(c, out, oracle) compares the raw results with a brute-force oracle that is computed
//     from c alone and is independent of any iteration order: every verdict is right for ANY
//     order in which golib ranges over its maps. Running a case once under Go's randomized map
//     order can therefore miss an order-specific bug but can never produce a false alarm;
//   - forEachMapOrder(c, body) is the hook through which a case is re-executed under several
//     map orders (today: once, under the runtime's order). See the comment at its definition.
package main

import (
	"encoding/json"
	"fmt"
	"math"
	"os"
	"sort"
	"strings"
	"sync/atomic"
	"time"

	"verif/common"

	"github.com/welllog/golib/algz"
)

// ---------------------------------------------------------------------------------------------
// Cases
// ---------------------------------------------------------------------------------------------

// Item: identity = index in the item list (ID), so that two items with equal weight and value are
// still told apart when "no item twice" is judged.
type Item struct{ ID, W, V int }

const (
	kKnapsack = "Knapsack"
	kDp       = "FindDpSolvers"
	kCliques  = "GetMaximalCliques"
	kBK       = "BronKerbosch"
)

// tie-breakers, simplest first
const (
	tbNone   = 0 // no tie-breaker argument
	tbFewer  = 1 // replace iff the new selection has fewer items
	tbAlways = 2 // always replace
	tbNever  = 3 // never replace
)

var tbName = []string{"none", "prefer-fewer-items", "always-replace", "never-replace"}

type Case struct {
	Kind string
	// Knapsack / FindDpSolvers
	Items     []Item
	Limit     int // maxWeight (Knapsack) or maxValue (FindDpSolvers, Best, BestAllowMinOverflow)
	Breaker   int
	AllowOver bool // FindDpSolvers allowOverOnce
	// graphs: vertices 0..N-1, bit k of Edges = edge pairs[k]
	N      int
	Edges  uint32
	Perm   []int // BronKerbosch: the candidate list P
	AliasX bool  // BronKerbosch: X = P[:0] and R with capacity N (exactly what GetMaximalCliques does) instead of X = nil, R = nil
	// GetMaximalCliques: all vertices are added first, then the edges one by one between existing
	// vertices, and the graph is QUERIED after every edge (history: whatever a query leaves
	// behind in the Graph must not survive a later AddEdge); only the final answer is judged
	Incremental bool
	// Build: another way of writing the same simple graph down (0 = each edge once with from < to,
	// then the isolated vertices). 1: every edge first, then AddNode for EVERY vertex (also those
	// that already have edges); 2: endpoints reversed (from > to) and every edge given twice;
	// 3: two AddEdge calls per edge instead of AddUndirectedEdge; 4: Init(cap) first; 5: built once,
	// Init again (a populated graph is re-initialised), built again; 6: AddEdge(a,b), then AddUndirectedEdge(a,b).
	Build int
}

// pairs[k] = k-th vertex pair, ordered so that the graphs on n vertices use the first n(n-1)/2 bits.
var pairs [][2]int

func init() {
	for j := 1; j < 6; j++ {
		for i := 0; i < j; i++ {
			pairs = append(pairs, [2]int{i, j})
		}
	}
}

func (c Case) edgeList() [][2]int {
	var out [][2]int
	for k := 0; k < c.N*(c.N-1)/2; k++ {
		if c.Edges>>uint(k)&1 == 1 {
			out = append(out, pairs[k])
		}
	}
	return out
}

func (c Case) adjacency() []uint32 {
	adj := make([]uint32, c.N)
	for _, e := range c.edgeList() {
		adj[e[0]] |= 1 << uint(e[1])
		adj[e[1]] |= 1 << uint(e[0])
	}
	return adj
}

func (c Case) describe() map[string]any {
	m := map[string]any{"entry": c.Kind}
	switch c.Kind {
	case kKnapsack:
		m["items(id,weight,value)"] = fmt.Sprint(c.Items)
		m["maxWeight"] = c.Limit
		m["tieBreaker"] = tbName[c.Breaker]
	case kDp:
		vals := make([]int, len(c.Items))
		for i, it := range c.Items {
			vals[i] = it.V
		}
		m["itemValues(id=index)"] = vals
		m["maxValue"] = c.Limit
		m["allowOverOnce"] = c.AllowOver
		m["tieBreaker"] = tbName[c.Breaker]
	case kCliques, kBK:
		m["vertices"] = c.N
		m["edges"] = fmt.Sprint(c.edgeList())
		m["isolatedVerticesAddedWithAddNode"] = true
		if c.Incremental {
			m["construction"] = "all vertices first, then the edges one by one with a query after each"
		}
		if c.Build > 0 {
			m["construction"] = [...]string{"", "edges first, then AddNode for every vertex", "endpoints reversed, every edge given twice", "two AddEdge calls per edge", "Init(n) first", "a complete graph on N+1 vertices built first, Init(1), then the graph itself", "AddEdge(from,to) first, then AddUndirectedEdge(from,to)"}[c.Build]
		}
		if c.Kind == kBK {
			m["P"] = append([]int(nil), c.Perm...)
			if c.AliasX {
				m["R,X"] = "R = make([]int,0,n), X = P[:0] (as GetMaximalCliques passes them)"
			} else {
				m["R,X"] = "R = nil, X = nil"
			}
		}
	}
	return m
}

// ---------------------------------------------------------------------------------------------
// runCase — the only place where golib is called
// ---------------------------------------------------------------------------------------------

type Outcome struct {
	Panicked bool
	PanicVal string
	Stack    string

	Sel          []Item         // Knapsack
	Map          map[int][]Item // FindDpSolvers
	Best         []Item         // DpSolvers.Best(Limit)
	BestOver     []Item         // DpSolvers.BestAllowMinOverflow(Limit)
	ItemsChanged string
	BestX        [][]Item // Best(x) for x = 0..Limit-1 on the same map
	BestOvX      [][]Item // BestAllowMinOverflow(x) for x = 0..Limit-1
	Cliques      [][]int  // GetMaximalCliques / BronKerbosch
	Stale        string   // non-empty: an earlier result changed during this call
}

func weightOf(i Item) int { return i.W }
func valueOf(i Item) int  { return i.V }

// The tie-breakers neither keep nor modify the slices they are shown.
func breakerFor(b int) []func(old, new []Item) bool {
	switch b {
	case tbFewer:
		return []func(old, new []Item) bool{func(old, new []Item) bool { return len(new) < len(old) }}
	case tbAlways:
		return []func(old, new []Item) bool{func(old, new []Item) bool { return true }}
	case tbNever:
		return []func(old, new []Item) bool{func(old, new []Item) bool { return false }}
	}
	return nil
}

// runCase executes case c on golib and returns the raw results. It shares nothing with other
// cases (the item list is copied, the Graph is built here), so it can be executed any number of
// times, in any goroutine, under any map-iteration order.
// the selection returned by the previous Knapsack call of this process (enumeration runs in
// single-threaded shard processes)
var (
	heldSel, heldCopy []Item
	heldCase          Case
)

func sameItems(a, b []Item) bool {
	for i := range a {
		if a[i] != b[i] {
			return false
		}
	}
	return true
}

func runCase(c Case) (out Outcome) {
	val, st, p := common.Catch(func() {
		switch c.Kind {
		case kKnapsack:
			items := append([]Item(nil), c.Items...)
			out.Sel = algz.Knapsack(c.Limit, items, weightOf, valueOf, breakerFor(c.Breaker)...)
			if !sameItems(items, c.Items) {
				out.ItemsChanged = fmt.Sprintf("Knapsack changed its item list from %v to %v", c.Items, items)
			}
			// a returned selection is a value: it must not change when Knapsack is called again
			if len(heldSel) != len(heldCopy) || !sameItems(heldSel, heldCopy) {
				out.Stale = fmt.Sprintf("the selection returned by the previous Knapsack call (%s) read %v when it was returned and %v after this call", heldCase.describe(), heldCopy, heldSel)
			}
			heldSel, heldCopy, heldCase = out.Sel, append([]Item(nil), out.Sel...), c
		case kDp:
			items := append([]Item(nil), c.Items...)
			m := algz.FindDpSolvers(c.Limit, items, valueOf, c.AllowOver, breakerFor(c.Breaker)...)
			out.Map = m
			out.Best = m.Best(c.Limit)
			out.BestOver = m.BestAllowMinOverflow(c.Limit)
			for x := 0; x < c.Limit; x++ {
				out.BestX = append(out.BestX, m.Best(x))
				out.BestOvX = append(out.BestOvX, m.BestAllowMinOverflow(x))
			}
			if !sameItems(items, c.Items) {
				out.ItemsChanged = fmt.Sprintf("FindDpSolvers changed its item list from %v to %v", c.Items, items)
			}
		case kCliques, kBK:
			var g algz.Graph[int]
			if c.Incremental {
				for v := 0; v < c.N; v++ {
					g.AddNode(v)
				}
				g.GetMaximalCliques()
				for k := 0; k < c.N*(c.N-1)/2; k++ {
					if e := pairs[k]; c.Edges>>uint(k)&1 == 1 {
						g.AddUndirectedEdge(e[0], e[1])
						g.GetMaximalCliques()
					}
				}
				out.Cliques = g.GetMaximalCliques()
				return
			}
			build := func() {
				hasEdge := make([]bool, c.N)
				for k := 0; k < c.N*(c.N-1)/2; k++ {
					if e := pairs[k]; c.Edges>>uint(k)&1 == 1 {
						switch c.Build {
						case 2:
							g.AddUndirectedEdge(e[1], e[0])
							g.AddUndirectedEdge(e[1], e[0])
						case 3:
							g.AddEdge(e[0], e[1])
							g.AddEdge(e[1], e[0])
						case 6:
							g.AddEdge(e[0], e[1]) // one direction is already there when the undirected edge is added
							g.AddUndirectedEdge(e[0], e[1])
						default:
							g.AddUndirectedEdge(e[0], e[1])
						}
						hasEdge[e[0]], hasEdge[e[1]] = true, true
					}
				}
				for v := 0; v < c.N; v++ {
					if !hasEdge[v] || c.Build == 1 {
						g.AddNode(v)
					}
				}
			}
			switch c.Build {
			case 4:
				g.Init(c.N)
			case 5:
				// another graph first (the complete graph on N+1 vertices): Init must forget it
				for a := 0; a <= c.N; a++ {
					for b := a + 1; b <= c.N; b++ {
						g.AddUndirectedEdge(a, b)
					}
				}
				g.Init(1)
			}
			build()
			if c.Kind == kCliques {
				out.Cliques = g.GetMaximalCliques()
				return
			}
			P := append(make([]int, 0, c.N), c.Perm...)
			var cl [][]int
			if c.AliasX {
				g.BronKerbosch(make([]int, 0, c.N), P, P[:0], &cl)
			} else {
				g.BronKerbosch(nil, P, nil, &cl)
			}
			out.Cliques = cl
		}
	})
	if p {
		out.Panicked, out.PanicVal, out.Stack = true, fmt.Sprint(val), st
	}
	return out
}

// forEachMapOrder runs body once for every map-iteration order ("environment script") under which
// case c is to be explored. Today there is exactly one execution, under the Go runtime's own
// (randomized) order. When algz/dp.go and algz/graph.go are built through the instrumentation
// overlay (range-over-map → vshim.MapOrder), replace this variable, e.g.
//
//	forEachMapOrder = func(c Case, body func()) {
//		for _, script := range scriptsFor(c) {   // default = ascending keys, <= k deviations
//			vshim.SetMapOrder(script)             // per goroutine: cases run in parallel shards
//			body()
//		}
//	}
//
// body = { out := runCase(c); judge(c, out, oracle) }; the oracle does not depend on the order, so
// nothing else changes. Every execution of body is counted as one evaluation.
var forEachMapOrder = func(c Case, body func()) { body() }

// ---------------------------------------------------------------------------------------------
// per-shard bookkeeping: counters and violations are local, reported in shard order afterwards
// (so that the case kept for a signature is the first one in enumeration order = the simplest)
// ---------------------------------------------------------------------------------------------

type vrec struct {
	what, goTest string
	c            any
	n            int64
}

type shard struct {
	ev, nt int64
	order  []string
	first  map[string]*vrec
}

func (s *shard) violation(sig, what string, c Case, goTest func() string) {
	if v := s.first[sig]; v != nil {
		v.n++
		return
	}
	if s.first == nil {
		s.first = map[string]*vrec{}
	}
	s.first[sig] = &vrec{what: what, c: c.describe(), goTest: goTest(), n: 1}
	s.order = append(s.order, sig)
}

var expiredFlag int32

// parallel runs fn on n shards and afterwards reports counters and violations in shard order.
func parallel(r *common.Run, n int, fn func(i int, s *shard)) {
	shards := make([]*shard, n)
	r.Parallel(n, func(i int) {
		s := &shard{}
		shards[i] = s
		fn(i, s)
	})
	for _, s := range shards {
		if s == nil {
			continue // item belongs to another process shard
		}
		r.Eval(s.ev)
		r.Nontrivial(s.nt)
		for _, sig := range s.order {
			v := s.first[sig]
			r.Violation(sig, v.what, v.c, v.goTest)
			for k := int64(1); k < v.n && k < 1_000_000; k++ {
				r.Violation(sig, v.what, v.c, v.goTest)
			}
		}
	}
}

func expired(r *common.Run, what string) bool {
	if atomic.LoadInt32(&expiredFlag) != 0 {
		return true
	}
	if r.Expired() {
		if atomic.CompareAndSwapInt32(&expiredFlag, 0, 1) {
			r.Incomplete("time budget reached in " + what + "; the remaining cases were not executed")
		}
		return true
	}
	return false
}

func tbClass(b int) string {
	if b == tbNone {
		return "no-tie-breaker"
	}
	return "tie-breaker"
}

// inspect adds up a selection and tells whether it is a proper selection of items (every element
// is one of the given items, none twice).
func inspect(sel []Item, items []Item) (w, v int, twice, foreign bool) {
	var seen uint32
	for _, it := range sel {
		if it.ID < 0 || it.ID >= len(items) || items[it.ID] != it {
			foreign = true
			continue
		}
		if seen>>uint(it.ID)&1 == 1 {
			twice = true
		}
		seen |= 1 << uint(it.ID)
		w += it.W
		v += it.V
	}
	return
}

// ---------------------------------------------------------------------------------------------
// Knapsack
// ---------------------------------------------------------------------------------------------

// subset sums by brute force: sumW[mask], sumV[mask] for all 2^n selections
type subsetTable struct {
	sumW, sumV []int
	totW, totV int
}

func subsetsOf(items []Item) *subsetTable {
	n := len(items)
	t := &subsetTable{sumW: make([]int, 1<<uint(n)), sumV: make([]int, 1<<uint(n))}
	for m := 1; m < 1<<uint(n); m++ {
		low := 0
		for m>>uint(low)&1 == 0 {
			low++
		}
		rest := m &^ (1 << uint(low))
		t.sumW[m] = t.sumW[rest] + items[low].W
		t.sumV[m] = t.sumV[rest] + items[low].V
	}
	t.totW, t.totV = t.sumW[len(t.sumW)-1], t.sumV[len(t.sumV)-1]
	return t
}

// optimum = max total value over all selections with total weight <= limit (brute force)
func (t *subsetTable) optimum(limit int) int {
	best := 0
	for m := range t.sumW {
		if t.sumW[m] <= limit && t.sumV[m] > best {
			best = t.sumV[m]
		}
	}
	return best
}

func judgeKnapsack(c Case, out Outcome, opt int, s *shard) {
	gt := func() string { return knapsackTest(c, opt) }
	if out.Panicked {
		s.violation("Knapsack|panic|"+common.PanicSite(out.Stack), "Knapsack panicked: "+out.PanicVal, c, gt)
		return
	}
	if out.ItemsChanged != "" {
		s.violation("Knapsack|item-list-modified", out.ItemsChanged, c, gt)
	}
	if out.Stale != "" {
		s.violation("Knapsack|result-changed-after-a-later-call", out.Stale, c, gt)
	}
	w, v, twice, foreign := inspect(out.Sel, c.Items)
	cls := tbClass(c.Breaker)
	switch {
	case foreign:
		s.violation("Knapsack|foreign-item|"+cls, fmt.Sprintf("Knapsack returned %v which contains an element that is not one of the items", out.Sel), c, gt)
	case twice:
		s.violation("Knapsack|item-twice|"+cls, fmt.Sprintf("Knapsack returned %v: an item is used twice", out.Sel), c, gt)
	case w > c.Limit:
		s.violation("Knapsack|over-limit|"+cls, fmt.Sprintf("Knapsack returned %v with total weight %d > limit %d", out.Sel, w, c.Limit), c, gt)
	case v != opt:
		s.violation("Knapsack|not-optimal|"+cls, fmt.Sprintf("Knapsack returned %v with total value %d; the maximum over all selections within the limit is %d", out.Sel, v, opt), c, gt)
	}
}

// the 12 item kinds (weight, value), small first
var kinds [][2]int

func init() {
	for w := 0; w <= 3; w++ {
		for v := 1; v <= 3; v++ {
			kinds = append(kinds, [2]int{w, v})
		}
	}
}

func pow(b, e int) int {
	p := 1
	for ; e > 0; e-- {
		p *= b
	}
	return p
}

func knapsackSpace(r *common.Run, maxItems int) {
	t0 := time.Now() // reported only, never compared
	var lists, cases int64
	for l := 0; l <= maxItems; l++ {
		total := pow(len(kinds), l)
		chunks := total
		if chunks > 512 {
			chunks = 512
		}
		parallel(r, chunks, func(ci int, s *shard) {
			lo, hi := total*ci/chunks, total*(ci+1)/chunks
			items := make([]Item, l)
			var nl, nc int64
			for idx := lo; idx < hi; idx++ {
				if expired(r, "Knapsack") {
					break
				}
				x := idx
				for k := l - 1; k >= 0; k-- {
					kd := kinds[x%len(kinds)]
					x /= len(kinds)
					items[k] = Item{ID: k, W: kd[0], V: kd[1]}
				}
				tab := subsetsOf(items)
				nl++
				for limit := 0; limit <= tab.totW+1; limit++ {
					opt := tab.optimum(limit)
					for b := tbNone; b <= tbNever; b++ {
						c := Case{Kind: kKnapsack, Items: items, Limit: limit, Breaker: b}
						forEachMapOrder(c, func() {
							judgeKnapsack(c, runCase(c), opt, s)
							s.ev++
							if opt > 0 && opt < tab.totV {
								s.nt++
							}
						})
						nc++
					}
				}
			}
			atomic.AddInt64(&lists, nl)
			atomic.AddInt64(&cases, nc)
		})
	}
	r.Section(map[string]any{"family": "Knapsack", "space": fmt.Sprintf("every ordered item list of <= %d items over weight {0,1,2,3} x value {1,2,3} (= every multiset in every order), every limit 0..sum(weights)+1, tie-breaker none / prefer-fewer-items / always-replace / never-replace", maxItems),
		"item_lists": lists, "cases": cases, "wall_s": time.Since(t0).Seconds()})
	r.SampleL("Knapsack", Case{Kind: kKnapsack, Items: []Item{{0, 2, 3}, {1, 1, 2}, {2, 1, 2}, {3, 0, 1}}, Limit: 2, Breaker: tbFewer}.describe())
}

// heavyItems: weights at the upper end of int (each heavier than any limit a table can be built
// for): sums of weights must not wrap. Every ordered list of <= 4 items over six kinds, limits
// 0, 3, 7, 10; brute force with saturating sums.
func heavyItems(r *common.Run) {
	hk := [][2]int{{math.MaxInt, 5}, {math.MaxInt - 1, 7}, {1 << 62, 3}, {4, 1}, {3, 2}, {0, 1}}
	sat := func(a, b int) int {
		if a > math.MaxInt-b {
			return math.MaxInt
		}
		return a + b
	}
	var cases int64
	parallel(r, 1, func(_ int, s *shard) {
		for l := 1; l <= 4; l++ {
			for idx := 0; idx < pow(len(hk), l); idx++ {
				items := make([]Item, l)
				x := idx
				for k := l - 1; k >= 0; k-- {
					items[k] = Item{ID: k, W: hk[x%len(hk)][0], V: hk[x%len(hk)][1]}
					x /= len(hk)
				}
				for _, limit := range []int{0, 3, 7, 10} {
					opt := 0
					for m := 0; m < 1<<l; m++ {
						w, v := 0, 0
						for k := 0; k < l; k++ {
							if m>>k&1 == 1 {
								w, v = sat(w, items[k].W), v+items[k].V
							}
						}
						if w <= limit && v > opt {
							opt = v
						}
					}
					c := Case{Kind: kKnapsack, Items: items, Limit: limit, Breaker: tbNone}
					out := runCase(c)
					cases++
					s.ev++
					s.nt++
					if out.Panicked {
						s.violation("Knapsack|panic|"+common.PanicSite(out.Stack), "Knapsack panicked: "+out.PanicVal, c, func() string { return "" })
						continue
					}
					w, v := 0, 0
					for _, it := range out.Sel {
						w, v = sat(w, it.W), v+it.V
					}
					_, _, twice, foreign := inspect(out.Sel, c.Items)
					switch {
					case foreign || twice:
						s.violation("Knapsack|item-twice|very-heavy-items", fmt.Sprintf("Knapsack returned %v: not a selection of the items", out.Sel), c, func() string { return "" })
					case w > limit:
						s.violation("Knapsack|over-limit|very-heavy-items", fmt.Sprintf("Knapsack returned %v whose weights add up to more than the limit %d (sums of weights near MaxInt must not wrap)", out.Sel, limit), c, func() string { return "" })
					case v != opt:
						s.violation("Knapsack|not-optimal|very-heavy-items", fmt.Sprintf("Knapsack returned %v with total value %d; the maximum within the limit %d is %d", out.Sel, v, limit, opt), c, func() string { return "" })
					}
				}
			}
		}
	})
	r.Section(map[string]any{"family": "Knapsack with weights near MaxInt", "space": "every ordered list of <= 4 items over (MaxInt,5) (MaxInt-1,7) (2^62,3) (4,1) (3,2) (0,1), limits 0 3 7 10", "cases": cases})
}

// ---------------------------------------------------------------------------------------------
// FindDpSolvers / Best / BestAllowMinOverflow
// ---------------------------------------------------------------------------------------------

func judgeDp(c Case, out Outcome, tab *subsetTable, attain []bool, s *shard) {
	maxV := c.Limit
	// brute-force facts
	bestBelow := 0 // largest attainable total <= maxValue (0 is attained by the empty selection)
	for t := 0; t <= maxV && t <= tab.totV; t++ {
		if attain[t] {
			bestBelow = t
		}
	}
	least := -1 // least attainable total > maxValue
	for t := maxV + 1; t <= tab.totV; t++ {
		if attain[t] {
			least = t
			break
		}
	}
	exact := maxV <= tab.totV && attain[maxV]
	gt := func() string { return dpTest(c, tab, attain, bestBelow, least, exact) }

	if out.Panicked {
		s.violation("FindDpSolvers|panic|"+common.PanicSite(out.Stack), "FindDpSolvers / Best / BestAllowMinOverflow panicked: "+out.PanicVal, c, gt)
		return
	}
	if out.ItemsChanged != "" {
		s.violation("FindDpSolvers|item-list-modified", out.ItemsChanged, c, gt)
	}
	cls := tbClass(c.Breaker)
	mapBad := false
	bad := func(kind, what string) {
		mapBad = true
		s.violation("FindDpSolvers|"+kind+"|"+cls, what, c, gt)
	}
	keys := make([]int, 0, len(out.Map))
	for k := range out.Map {
		keys = append(keys, k)
	}
	sort.Ints(keys)
	for _, k := range keys {
		_, sum, twice, foreign := inspect(out.Map[k], c.Items)
		switch {
		case foreign:
			bad("foreign-item", fmt.Sprintf("solver[%d] = %v contains an element that is not one of the items", k, out.Map[k]))
		case twice:
			bad("item-twice", fmt.Sprintf("solver[%d] = %v uses an item twice", k, out.Map[k]))
		case sum != k:
			bad("entry-sum-mismatch", fmt.Sprintf("solver[%d] = %v sums to %d", k, out.Map[k], sum))
		}
		if k > maxV && !c.AllowOver {
			bad("overshoot-when-not-allowed", fmt.Sprintf("solver has key %d > maxValue %d although allowOverOnce is false", k, maxV))
		}
	}
	for t := 0; t <= maxV && t <= tab.totV; t++ {
		if _, ok := out.Map[t]; attain[t] && !ok {
			bad("missing-total", fmt.Sprintf("total %d <= maxValue %d is attained by some selection but the solver map (keys %v) has no entry for it", t, maxV, keys))
			break
		}
	}
	if c.AllowOver && least >= 0 {
		if _, ok := out.Map[least]; !ok {
			bad("least-overshoot-missing", fmt.Sprintf("allowOverOnce: the smallest attainable total above maxValue %d is %d but the solver map (keys %v) has no entry for it", maxV, least, keys))
		}
	}
	if mapBad {
		return // Best / BestAllowMinOverflow only read the map; do not report the same defect again
	}
	_, sum, twice, foreign := inspect(out.Best, c.Items)
	if foreign || twice || sum != bestBelow {
		in := "nearest-below"
		if exact {
			in = "exact-attainable"
		}
		s.violation("DpSolvers.Best|wrong-total|"+in, fmt.Sprintf("Best(%d) = %v (total %d, proper selection: %v); the largest attainable total <= %d is %d", maxV, out.Best, sum, !foreign && !twice, maxV, bestBelow), c, gt)
	}
	_, sum, twice, foreign = inspect(out.BestOver, c.Items)
	switch {
	case exact:
		if foreign || twice || sum != maxV {
			s.violation("DpSolvers.BestAllowMinOverflow|wrong-total|exact-attainable", fmt.Sprintf("BestAllowMinOverflow(%d) = %v (total %d, proper selection: %v); the exact total %d is attainable", maxV, out.BestOver, sum, !foreign && !twice, maxV), c, gt)
		}
	case c.AllowOver && least >= 0:
		if foreign || twice || sum != least {
			s.violation("DpSolvers.BestAllowMinOverflow|wrong-total|overshoot", fmt.Sprintf("BestAllowMinOverflow(%d) = %v (total %d, proper selection: %v); %d is not attainable and the smallest overshoot is %d", maxV, out.BestOver, sum, !foreign && !twice, maxV, least), c, gt)
		}
	default:
		// Neither the exact total nor (in a map built with allowOverOnce) an overshoot exists: the
		// property does not say what is returned (the code returns the nearest total below).
	}
	// the same map queried below the value it was built for: every total <= maxValue that is
	// attainable is a key, so the answers are determined for every x < maxValue as well
	for x := 0; x < maxV && x < len(out.BestX); x++ {
		bb := 0
		for t := 0; t <= x && t <= tab.totV; t++ {
			if attain[t] {
				bb = t
			}
		}
		_, sum, twice, foreign := inspect(out.BestX[x], c.Items)
		if foreign || twice || sum != bb {
			s.violation("DpSolvers.Best|wrong-total|queried-below-the-built-value", fmt.Sprintf("map built for maxValue %d: Best(%d) = %v (total %d, proper selection: %v); the largest attainable total <= %d is %d", maxV, x, out.BestX[x], sum, !foreign && !twice, x, bb), c, gt)
			break
		}
		want := -1
		if x <= tab.totV && attain[x] {
			want = x
		} else {
			for t := x + 1; t <= tab.totV; t++ {
				if attain[t] {
					if t <= maxV || c.AllowOver {
						want = t
					}
					break
				}
			}
		}
		if want >= 0 {
			_, sum, twice, foreign = inspect(out.BestOvX[x], c.Items)
			if foreign || twice || sum != want {
				s.violation("DpSolvers.BestAllowMinOverflow|wrong-total|queried-below-the-built-value", fmt.Sprintf("map built for maxValue %d: BestAllowMinOverflow(%d) = %v (total %d, proper selection: %v); want the total %d (exact if attainable, else the smallest overshoot)", maxV, x, out.BestOvX[x], sum, !foreign && !twice, x, want), c, gt)
				break
			}
		}
	}
}

func dpSpace(r *common.Run, maxItems int) {
	t0 := time.Now() // reported only, never compared
	var lists, cases int64
	for l := 0; l <= maxItems; l++ {
		total := pow(3, l)
		chunks := total
		if chunks > 256 {
			chunks = 256
		}
		parallel(r, chunks, func(ci int, s *shard) {
			lo, hi := total*ci/chunks, total*(ci+1)/chunks
			items := make([]Item, l)
			var nl, nc int64
			for idx := lo; idx < hi; idx++ {
				if expired(r, "FindDpSolvers") {
					break
				}
				x := idx
				for k := l - 1; k >= 0; k-- {
					items[k] = Item{ID: k, W: 0, V: x%3 + 1}
					x /= 3
				}
				tab := subsetsOf(items)
				attain := make([]bool, tab.totV+1)
				for _, v := range tab.sumV {
					attain[v] = true
				}
				nl++
				for maxV := 0; maxV <= tab.totV+1; maxV++ {
					for _, allow := range []bool{false, true} {
						for b := tbNone; b <= tbNever; b++ {
							c := Case{Kind: kDp, Items: items, Limit: maxV, AllowOver: allow, Breaker: b}
							forEachMapOrder(c, func() {
								judgeDp(c, runCase(c), tab, attain, s)
								s.ev++
								if l >= 2 && maxV < tab.totV {
									s.nt++
								}
							})
							nc++
						}
					}
				}
			}
			atomic.AddInt64(&lists, nl)
			atomic.AddInt64(&cases, nc)
		})
	}
	r.Section(map[string]any{"family": "FindDpSolvers+Best+BestAllowMinOverflow", "space": fmt.Sprintf("every ordered list of <= %d item values over {1,2,3} (FindDpSolvers never looks at weights), every maxValue 0..sum+1, allowOverOnce false/true, tie-breaker none / prefer-fewer-items / always-replace / never-replace", maxItems),
		"item_lists": lists, "cases": cases, "wall_s": time.Since(t0).Seconds()})
	r.SampleL("FindDpSolvers", Case{Kind: kDp, Items: []Item{{0, 0, 2}, {1, 0, 2}, {2, 0, 3}}, Limit: 6, AllowOver: true, Breaker: tbAlways}.describe())
}

// ---------------------------------------------------------------------------------------------
// maximal cliques
// ---------------------------------------------------------------------------------------------

// maximalCliques by brute force over all 2^n vertex subsets (bit masks, ascending). The empty set
// is a clique that no vertex extends only when there is no vertex at all; whether the empty graph
// has "the empty clique" or "no clique" is not settled by the property: see judgeCliques.
func maximalCliques(n int, adj []uint32) []uint32 {
	var out []uint32
	for m := uint32(1); m < 1<<uint(n); m++ {
		ok := true
		for v := 0; v < n && ok; v++ {
			if m>>uint(v)&1 == 1 && adj[v]&m != m&^(1<<uint(v)) {
				ok = false // v is not adjacent to all other members
			}
		}
		for v := 0; v < n && ok; v++ {
			if m>>uint(v)&1 == 0 && adj[v]&m == m {
				ok = false // v extends the clique
			}
		}
		if ok {
			out = append(out, m)
		}
	}
	return out
}

func maskString(m uint32) string {
	var b strings.Builder
	b.WriteByte('{')
	first := true
	for v := 0; v < 32; v++ {
		if m>>uint(v)&1 == 1 {
			if !first {
				b.WriteByte(' ')
			}
			fmt.Fprint(&b, v)
			first = false
		}
	}
	b.WriteByte('}')
	return b.String()
}

func sizeClass(m uint32) string {
	n := 0
	for ; m != 0; m &= m - 1 {
		n++
	}
	switch n {
	case 0:
		return "empty-clique"
	case 1:
		return "single-vertex"
	}
	return "size>=2"
}

func judgeCliques(c Case, out Outcome, want []uint32, s *shard) {
	gt := func() string { return cliqueTest(c, want) }
	if out.Panicked {
		s.violation(c.Kind+"|panic|"+common.PanicSite(out.Stack), c.Kind+" panicked: "+out.PanicVal, c, gt)
		return
	}
	// vertex sets over <= 6 vertices are numbers < 64: sets of vertex sets are uint64 bit sets
	var wantSet, seen uint64
	for _, m := range want {
		wantSet |= 1 << m
	}
	wantStr := func() []string {
		ws := make([]string, len(want))
		for i, m := range want {
			ws[i] = maskString(m)
		}
		return ws
	}
	for _, cl := range out.Cliques {
		var m uint32
		broken := false
		for _, v := range cl {
			if v < 0 || v >= c.N {
				s.violation(c.Kind+"|foreign-vertex", fmt.Sprintf("returned clique %v contains %d which is not a vertex of the graph", cl, v), c, gt)
				broken = true
				break
			}
			if m>>uint(v)&1 == 1 {
				s.violation(c.Kind+"|vertex-twice-in-clique", fmt.Sprintf("returned clique %v lists vertex %d twice", cl, v), c, gt)
				broken = true
				break
			}
			m |= 1 << uint(v)
		}
		if broken {
			continue
		}
		if seen>>m&1 == 1 {
			s.violation(c.Kind+"|duplicate-clique|"+sizeClass(m), fmt.Sprintf("clique %s is returned more than once: %v", maskString(m), out.Cliques), c, gt)
			continue
		}
		seen |= 1 << m
		if c.N == 0 && m == 0 {
			continue // empty graph: one empty clique is accepted, as is no clique at all
		}
		if wantSet>>m&1 == 0 {
			s.violation(c.Kind+"|not-a-maximal-clique|"+sizeClass(m), fmt.Sprintf("returned %s which is not a maximal clique; result %v, maximal cliques are %v", maskString(m), out.Cliques, wantStr()), c, gt)
		}
	}
	for _, m := range want {
		if seen>>m&1 == 0 {
			s.violation(c.Kind+"|missing-clique|"+sizeClass(m), fmt.Sprintf("maximal clique %s is not returned; result %v, maximal cliques are %v", maskString(m), out.Cliques, wantStr()), c, gt)
			break
		}
	}
}

func reverseOf(p []int) []int {
	q := make([]int, len(p))
	for i, v := range p {
		q[len(p)-1-i] = v
	}
	return q
}

// permsFor: every permutation of 0..n-1 when all is set, else identity, its rotations, and the
// reverse with its rotations (distinct for n >= 3).
func permsFor(n int, all bool) [][]int {
	var out [][]int
	if all {
		common.Perms(n, func(p []int) { out = append(out, append([]int(nil), p...)) })
		return out
	}
	id := make([]int, n)
	for i := range id {
		id[i] = i
	}
	seen := map[string]bool{}
	for _, base := range [][]int{id, reverseOf(id)} {
		for rot := 0; rot < n; rot++ {
			p := make([]int, n)
			for i := range p {
				p[i] = base[(i+rot)%n]
			}
			if k := fmt.Sprint(p); !seen[k] {
				seen[k] = true
				out = append(out, p)
			}
		}
	}
	if len(out) == 0 {
		out = append(out, []int{}) // n = 0: the one (empty) permutation
	}
	return out
}

func graphSpace(r *common.Run, maxN int, allPermsUpTo int) {
	t0 := time.Now() // reported only, never compared
	var graphs, casesGMC, casesBK int64
	for n := 0; n <= maxN; n++ {
		np := n * (n - 1) / 2
		total := 1 << uint(np)
		chunks := total
		if chunks > 256 {
			chunks = 256
		}
		// X=P[:0] is the call GetMaximalCliques itself makes: all vertex orders up to allPermsUpTo;
		// the plain call (R=nil, X=nil): all orders up to 5 vertices, the rotation family above.
		permsAlias, permsPlain := permsFor(n, n <= allPermsUpTo), permsFor(n, n <= 5)
		parallel(r, chunks, func(ci int, s *shard) {
			lo, hi := total*ci/chunks, total*(ci+1)/chunks
			var ng, n1, n2 int64
			for e := lo; e < hi; e++ {
				if expired(r, "maximal cliques") {
					break
				}
				base := Case{N: n, Edges: uint32(e)}
				want := maximalCliques(n, base.adjacency())
				nontrivial := e != 0 && len(want) >= 2
				ng++
				run := func(c Case) {
					forEachMapOrder(c, func() {
						judgeCliques(c, runCase(c), want, s)
						s.ev++
						if nontrivial {
							s.nt++
						}
					})
				}
				c := base
				c.Kind = kCliques
				run(c)
				n1++
				ci := base
				ci.Kind, ci.Incremental = kCliques, true
				run(ci)
				n1++
				for b := 1; b <= 6; b++ {
					cb := base
					cb.Kind, cb.Build = kCliques, b
					run(cb)
					n1++
				}
				for _, alias := range []bool{false, true} {
					perms := permsPlain
					if alias {
						perms = permsAlias
					}
					for _, p := range perms {
						c := base
						c.Kind, c.Perm, c.AliasX = kBK, p, alias
						run(c)
						n2++
					}
				}
			}
			atomic.AddInt64(&graphs, ng)
			atomic.AddInt64(&casesGMC, n1)
			atomic.AddInt64(&casesBK, n2)
		})
	}
	rot := "; above that: identity, reverse and all their rotations"
	ruleAlias, rulePlain := fmt.Sprintf("every permutation of P for <= %d vertices", allPermsUpTo), "every permutation of P for <= 5 vertices"
	if allPermsUpTo < maxN {
		ruleAlias += rot
	}
	if 5 < maxN {
		rulePlain += rot
	}
	r.Section(map[string]any{"family": "GetMaximalCliques+BronKerbosch", "space": fmt.Sprintf("every simple undirected graph on 0..%d labelled vertices (isolated vertices added with AddNode); GetMaximalCliques once; BronKerbosch(R cap n, P, X=P[:0]) exactly as GetMaximalCliques calls it with %s; BronKerbosch(R=nil, P, X=nil) with %s", maxN, ruleAlias, rulePlain),
		"graphs": graphs, "cases_GetMaximalCliques": casesGMC, "cases_BronKerbosch": casesBK, "wall_s": time.Since(t0).Seconds()})
	r.SampleL("cliques", Case{Kind: kBK, N: 4, Edges: 0b001011, Perm: []int{2, 0, 3, 1}, AliasX: true}.describe())
}

// ---------------------------------------------------------------------------------------------

func main() {
	r := common.Start("C18", "model_checking")
	knapItems, dpItems, graphN, allPerms := 4, 6, 5, 5
	if r.Thorough() {
		knapItems, dpItems, graphN, allPerms = 5, 7, 6, 6
		mapDeviations, mapAllPermsMax, mapDeepSize = 1, 4, 5
	}
	// the map-order environment is process-global: the enumeration runs in single-threaded shards
	if !r.Sharded(16) {
		graphSpace(r, graphN, allPerms)
		dpSpace(r, dpItems)
		knapsackSpace(r, knapItems)
		if r.ShardIdx == 0 {
			heavyItems(r)
		}
		r.Cov("map_order_executions_sum", atomic.LoadInt64(&mapExecutions))
		r.Cov("map_order_nondefault_scripts_sum", atomic.LoadInt64(&mapScripts))
		r.Cov("map_order_range_loops_in_default_runs_sum", atomic.LoadInt64(&mapLoops))
		if atomic.LoadInt64(&mapLoops) == 0 && r.ShardIdx == 0 {
			common.Infra("no range-over-map loop was intercepted: the instrumentation overlay is not in effect")
		}
	}
	r.Assume(
		"small-scope: Knapsack item lists of <= 4 (thorough 5) items, weights 0..3, values 1..3; FindDpSolvers value lists of <= 6 (thorough 8) values 1..3; graphs on <= 5 (thorough 6) vertices",
		"map-iteration order inside golib (FindDpSolvers, Best, BestAllowMinOverflow, GetMaximalCliques) is an enumerated environment answer: algz/dp.go and algz/graph.go are rebuilt from the working tree with every range-over-map redirected to vshim/vmap; default = ascending keys, deviation = another permutation (all permutations for small maps, else reverse + rotations); every script with <= 1 deviation is executed for every case and every script with <= 2 deviations for inputs of <= 3 (thorough 5) items / vertices; BronKerbosch with X=P[:0] and every permutation of P covers every vertex order GetMaximalCliques can produce",
		"tie-breakers are pure functions of the two lengths (they neither keep nor modify the slices)",
		"not demanded (property is silent): what BestAllowMinOverflow returns when neither the exact total nor an overshoot entry exists; whether the empty graph yields no clique or one empty clique; extra overshoot entries above the least one")
	r.Cov("map_order_deviation_bound", mapDeviations)
	if inst, err := os.ReadFile(os.Getenv("VERIF_WORK") + "/instrumented.json"); err == nil {
		var v any
		if json.Unmarshal(inst, &v) == nil {
			r.Cov("instrumented_files", v)
		}
	}
	r.Finish("every case of each family is executed once per map-order script (no sampling, no repetition); non-trivial = Knapsack cases whose optimum takes some but not all of the value (0 < optimum < sum of values); FindDpSolvers cases with >= 2 items and maxValue < sum of values (some selection overshoots); graph cases with >= 1 edge and >= 2 maximal cliques")
}
