package main

import (
	"sync/atomic"

	"github.com/welllog/golib/vshim/vmap"
)

// Map-iteration order inside golib is an environment answer owned by the check: algz/dp.go and
// algz/graph.go are built through the instrumentation overlay, where every `range` over a map
// asks the environment installed here for the order. The default answer is ascending key
// order; a deviation is any other permutation from the menu below. All scripts with at most
// `mapDeviations` deviations are enumerated by a stateless depth-first search (the sequential
// analogue of preemption bounding); executions always run to completion.

var (
	mapDeviations  = 1
	mapAllPermsMax = 3 // maps with <= this many keys: every permutation; larger: reverse + rotations
	mapExecutions  int64
	mapScripts     int64 // executions under a non-default order
	mapLoops       int64
)

// deviationsFor: short inputs get one more deviation (their script spaces are small), so that
// faults needing two cooperating order choices are reached on the quick tier too.
func deviationsFor(c Case) int {
	size := len(c.Items)
	if c.Kind == kCliques {
		size = c.N
	}
	switch {
	case size <= mapDeepSize:
		return mapDeviations + 1
	default:
		return mapDeviations
	}
}

var mapDeepSize = 3

var permCache = map[int][][]int{}

func init() {
	for n := 0; n <= 12; n++ {
		permCache[n] = buildPerms(n)
	}
}

// permMenu(n)[0] is the identity (default answer).
func buildPerms(n int) [][]int {
	id := make([]int, n)
	for i := range id {
		id[i] = i
	}
	if n <= 1 {
		return [][]int{id}
	}
	var out [][]int
	if n <= 4 {
		var rec func(cur []int, used uint)
		rec = func(cur []int, used uint) {
			if len(cur) == n {
				out = append(out, append([]int(nil), cur...))
				return
			}
			for i := 0; i < n; i++ {
				if used&(1<<uint(i)) == 0 {
					rec(append(cur, i), used|1<<uint(i))
				}
			}
		}
		rec(nil, 0)
		return out // lexicographic: identity first
	}
	out = append(out, id)
	rev := make([]int, n)
	for i := range rev {
		rev[i] = n - 1 - i
	}
	out = append(out, rev)
	for r := 1; r < n; r++ {
		p := make([]int, n)
		for i := range p {
			p[i] = (i + r) % n
		}
		out = append(out, p)
	}
	return out
}

func permMenu(n int) [][]int {
	if p, ok := permCache[n]; ok {
		if n > mapAllPermsMax && n <= 4 {
			// thinner menu: identity, reverse, rotations
			return thinMenu(n)
		}
		return p
	}
	return buildPerms(n)
}

var thinCache = map[int][][]int{}

func init() {
	for n := 2; n <= 4; n++ {
		id := make([]int, n)
		rev := make([]int, n)
		for i := range id {
			id[i], rev[i] = i, n-1-i
		}
		m := [][]int{id, rev}
		for r := 1; r < n; r++ {
			p := make([]int, n)
			for i := range p {
				p[i] = (i + r) % n
			}
			same := true
			for i := range p {
				if p[i] != rev[i] {
					same = false
				}
			}
			if !same {
				m = append(m, p)
			}
		}
		thinCache[n] = m
	}
}

func thinMenu(n int) [][]int { return thinCache[n] }

func init() {
	forEachMapOrder = func(c Case, body func()) {
		if c.Kind == kKnapsack || c.Kind == kBK {
			body() // these entry points range over no map
			return
		}
		env := &vmap.Env{}
		var script []int // choice (index into the menu) per range loop
		env.Choose = func(call, n int) []int {
			if call < len(script) {
				m := permMenu(n)
				if script[call] < len(m) {
					return m[script[call]]
				}
				// the loop has fewer keys than when the script was recorded: cannot happen for a
				// deterministic program under the same prefix; fall back to ascending
				return nil
			}
			return nil
		}
		vmap.Global = env
		defer func() { vmap.Global = nil }()
		var execs, nondefault, loops int64
		var explore func(prefix []int, dev int)
		explore = func(prefix []int, dev int) {
			script = prefix
			env.Reset()
			body()
			execs++
			if dev > 0 {
				nondefault++
			}
			if dev >= deviationsFor(c) {
				return
			}
			sizes := append([]int(nil), env.Sizes...)
			if dev == 0 {
				loops += int64(len(sizes))
			}
			for i := len(prefix); i < len(sizes); i++ {
				for alt := 1; alt < len(permMenu(sizes[i])); alt++ {
					np := make([]int, i+1)
					copy(np, prefix)
					np[i] = alt
					explore(np, dev+1)
				}
			}
		}
		explore(nil, 0)
		atomic.AddInt64(&mapExecutions, execs)
		atomic.AddInt64(&mapScripts, nondefault)
		atomic.AddInt64(&mapLoops, loops)
	}
}
