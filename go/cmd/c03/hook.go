package main

import (
	"crypto/sha256"
	"math/rand"
	"reflect"
	"unsafe"

	"github.com/welllog/golib/setz"
)

// The bucket index of a RoaringBitmap is a listz.SkipList whose tower heights are drawn from a
// private, time-seeded *rand.Rand: hidden nondeterminism. The harness owns it by replacing that
// private source (reflect + unsafe) by a scripted one whose next answer is set per operation, so
// the height of a new bucket node is a fixed function of the bucket key (never a stream whose
// position would be invisible to the canonical key).

// heightSrc is the scripted rand.Source64. Like the original sources every method dereferences
// its receiver (shim fidelity: a nil source must fail where the original fails).
type heightSrc struct{ next uint64 }

func (s *heightSrc) Int63() int64   { return int64(s.next >> 1) }
func (s *heightSrc) Uint64() uint64 { return s.next }
func (s *heightSrc) Seed(v int64)   { s.next = uint64(v) }

// kFor returns the 64-bit answer that makes listz.randomLevel return level l (1..32):
// level = ((32 - bits.Len64(k & (2^32-1))) & 31) + 1.
func kFor(l int) uint64 {
	if l < 1 {
		l = 1
	}
	if l > 32 {
		l = 32
	}
	return uint64(1) << uint(32-l)
}

var (
	hookOK   bool
	randOff  uintptr // offset of the skip list's *rand.Rand inside RoaringBitmap
	levelOff uintptr // offset of the skip list's current level (int)
	hookWhy  string

	bufOff, bufLen uintptr // the scratch array of RoaringBitmap (digested instead of dumped element by element)
	bufOK          bool
)

// locate finds the private fields by type (the *rand.Rand) and by name+kind ("level" int) in the
// one struct-typed field of RoaringBitmap that owns a *rand.Rand.
func locate() {
	t := reflect.TypeOf((*setz.RoaringBitmap)(nil)).Elem()
	if f, ok := t.FieldByName("buf"); ok && f.Type.Kind() == reflect.Array && f.Type.Elem().Kind() == reflect.Uint16 {
		bufOff, bufLen, bufOK = f.Offset, f.Type.Size(), true
	}
	randT := reflect.TypeOf((*rand.Rand)(nil))
	for i := 0; i < t.NumField(); i++ {
		f := t.Field(i)
		if f.Type.Kind() != reflect.Struct {
			continue
		}
		var ro, lo uintptr
		var fr, fl bool
		for j := 0; j < f.Type.NumField(); j++ {
			g := f.Type.Field(j)
			if g.Type == randT {
				ro, fr = f.Offset+g.Offset, true
			}
			if g.Name == "level" && g.Type.Kind() == reflect.Int {
				lo, fl = f.Offset+g.Offset, true
			}
		}
		if fr && fl {
			randOff, levelOff, hookOK = ro, lo, true
			return
		}
		if fr {
			hookWhy = "the bucket index owns a *rand.Rand but has no int field named level"
			return
		}
	}
	hookWhy = "no field of RoaringBitmap owns a *rand.Rand"
}

func randSlot(bm *setz.RoaringBitmap) **rand.Rand {
	return (**rand.Rand)(unsafe.Add(unsafe.Pointer(bm), randOff))
}

func listLevel(bm *setz.RoaringBitmap) int {
	return *(*int)(unsafe.Add(unsafe.Pointer(bm), levelOff))
}

// bufDigest stands for the contents of the scratch array in the canonical key: the array is
// skipped by the reflective dump (4096 elements, two thirds of the cost of a key in the small
// family) and its SHA-256 is dumped instead, so it still separates states.
func bufDigest(bm *setz.RoaringBitmap) [32]byte {
	if !bufOK {
		return [32]byte{}
	}
	return sha256.Sum256(unsafe.Slice((*byte)(unsafe.Add(unsafe.Pointer(bm), bufOff)), bufLen))
}
