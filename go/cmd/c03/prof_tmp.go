package main

import (
	"os"
	"runtime/pprof"
	"time"
)

func init() {
	if p := os.Getenv("C03_PROF"); p != "" {
		f, _ := os.Create(p)
		pprof.StartCPUProfile(f)
		go func() {
			for {
				if _, err := os.Stat(p + ".stop"); err == nil {
					pprof.StopCPUProfile()
					f.Close()
					return
				}
				time.Sleep(200 * time.Millisecond)
			}
		}()
	}
}
