package main

import (
	"fmt"
	"slices"

	"verif/common"

	"github.com/welllog/golib/setz"
)

// sparseMid: one SPARSE bucket of medium size (33..1025 members — far below the 4096 threshold,
// so neither the small alphabets nor the threshold families go there) filled and then drained one
// member at a time in three orders. After EVERY step: the result of Remove, Len, membership of the
// removed value and of every remaining one, and the complete enumeration. (A container that
// re-allocates when it has shrunk to a fraction of its capacity does so somewhere in here.)
func sparseMid(r *common.Run) {
	sizes := []int{33, 40, 64, 65, 100, 130, 257, 300}
	if r.Thorough() {
		sizes = append(sizes, 513, 1025, 2049, 4095)
	}
	var steps int64
	type job struct{ n, order int }
	var jobs []job
	for _, n := range sizes {
		for order := 0; order < 3; order++ {
			jobs = append(jobs, job{n, order})
		}
	}
	r.Parallel(len(jobs), func(ji int) {
		n, order := jobs[ji].n, jobs[ji].order
		const high = 5
		var bm setz.RoaringBitmap
		model := map[uint32]bool{}
		var vals []uint32
		for i := 0; i < n; i++ {
			v := uint32(high<<16 | (i*7+3)&0xFFFF)
			vals = append(vals, v)
		}
		fail := func(sig, what string, step int) {
			r.Violation("RoaringBitmap."+sig+"|sparse-bucket-of-medium-size", what, map[string]any{"bucket_size": n, "order": []string{"ascending", "descending", "from the middle outwards"}[order], "step": step}, "")
		}
		for i, v := range vals {
			var ok bool
			if _, _, p := common.Catch(func() { ok = bm.Add(v) }); p || !ok {
				fail("Add|wrong-result", fmt.Sprintf("Add(%#x) of a new value returned %v (panic: %v) while filling", v, ok, p), i)
				return
			}
			model[v] = true
		}
		seq := slices.Clone(vals)
		switch order {
		case 1:
			slices.Reverse(seq)
		case 2:
			seq = seq[:0]
			for lo, hi := n/2-1, n/2; lo >= 0 || hi < n; lo, hi = lo-1, hi+1 {
				if hi < n {
					seq = append(seq, vals[hi])
				}
				if lo >= 0 {
					seq = append(seq, vals[lo])
				}
			}
		}
		var local int64
		for step, v := range seq {
			local++
			var ok bool
			_, st, p := common.Catch(func() { ok = bm.Remove(v) })
			if p {
				fail("Remove|panic", fmt.Sprintf("Remove(%#x) panicked at %s", v, common.PanicSite(st)), step)
				return
			}
			if !ok {
				fail("Remove|wrong-result", fmt.Sprintf("Remove(%#x) of a member returned false", v), step)
				return
			}
			delete(model, v)
			bad := ""
			common.Catch(func() {
				if bm.Len() != len(model) {
					bad = fmt.Sprintf("Len() = %d, want %d", bm.Len(), len(model))
					return
				}
				if bm.Contains(v) {
					bad = fmt.Sprintf("Contains(%#x) = true right after Remove returned true", v)
					return
				}
				for _, w := range vals {
					if bm.Contains(w) != model[w] {
						bad = fmt.Sprintf("Contains(%#x) = %v, want %v", w, !model[w], model[w])
						return
					}
				}
				var got []uint32
				for it := bm.Iter(); it.Next() && len(got) <= len(model)+2; {
					got = append(got, it.Value())
				}
				want := make([]uint32, 0, len(model))
				for _, w := range vals {
					if model[w] {
						want = append(want, w)
					}
				}
				slices.Sort(want)
				if !slices.Equal(got, want) {
					bad = fmt.Sprintf("Iter enumerates %d values, want the %d members in ascending order (first difference at %d)", len(got), len(want), firstDiff(got, want))
				}
			})
			if bad != "" {
				fail("Remove|state-afterwards", fmt.Sprintf("after %d of %d removals (last Remove(%#x)): %s", step+1, n, v, bad), step)
				return
			}
		}
		r.Eval(local)
		r.Nontrivial(local)
		_ = steps
	})
	r.Section(map[string]any{"family": "sparse bucket of medium size filled and drained one member at a time (ascending, descending, from the middle), full battery after every step", "sizes": sizes})
}

func firstDiff(a, b []uint32) int {
	for i := 0; i < len(a) && i < len(b); i++ {
		if a[i] != b[i] {
			return i
		}
	}
	return min(len(a), len(b))
}
