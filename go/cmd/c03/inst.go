package main

import (
	"fmt"
	"hash/fnv"
	"math/rand"
	"slices"
	"strconv"
	"strings"
	"sync"
	"sync/atomic"

	"verif/common"
	"verif/space"

	"github.com/welllog/golib/setz"
)

// threshold is the number of values a sparse (array) bucket may hold; the (threshold+1)-th value
// converts the bucket to the dense (bitmap) representation (property text: "4096-element
// conversion threshold"). The model uses it only to name the input class in signatures and in
// the abstract value, never to decide pass / fail.
const threshold = 4096

type heightFn struct {
	name string
	f    func(high uint32) int
}

type pattern struct {
	name string
	low  func(i int) uint32
	p, a uint32 // a low that is present / absent for every fill size 4094..4097
	code string // Go expression of low(i), for the generated repro test
}

type fill struct {
	high uint32
	pat  int
	n    int
}

// startCache memoises the model side of a start state (the model is a deterministic function of
// the fill steps): the expected result of every pre-fill Add and the resulting set. The real
// object is rebuilt by real calls for every replay; only the model is copied.
type startCache struct {
	once   sync.Once
	expect []bool
	model  map[uint32]struct{}
	cnt    map[uint32]int
	sorted []uint32
}

type startDef struct {
	cache  *startCache
	desc   string
	fills  []fill
	vals   []uint32 // alphabet of Add / Remove arguments, simplest first
	probes []uint32 // Contains probes besides the members themselves
}

type sysDef struct {
	r        *common.Run
	name     string
	hf       heightFn
	starts   []startDef
	maxDepth int
	// family (iii)
	macros bool
	dHigh  uint32
	refill int // pattern used by the Refill macro
}

type inst struct {
	sys   *sysDef
	start int
	bm    setz.RoaringBitmap
	src   heightSrc
	rnd   *rand.Rand

	model map[uint32]struct{}
	cnt   map[uint32]int  // members per high-16 bucket
	dense map[uint32]bool // bucket reached threshold+1 members since it was created (class naming only)

	pre      []uint32 // Remove calls made while the bucket index was still the zero value
	hist     []space.Op
	dead     bool     // a transition oracle failed: impl and model have diverged, do not explore further
	last     string   // class of the last transition, used in Len signatures
	sorted   []uint32 // the model in ascending order: kept up to date by single steps, rebuilt by a full sort after bulk steps
	sortedOK bool
	bulk     bool
}

// ---------------------------------------------------------------- reporting

var (
	reported sync.Map // signature + path: one report per (signature, state path), replays of a prefix do not count twice
	sigSeen  sync.Map

	cConversions, cBucketsRemoved, cDenseStates, cMultiStates int64
)

func hex(v uint32) string { return fmt.Sprintf("0x%08X", v) }

func opString(o space.Op) string {
	switch o.Name {
	case "Add", "Remove":
		return fmt.Sprintf("%s(%s)", o.Name, hex(uint32(o.Args[0])))
	case "Drain":
		ord := "ascending"
		if o.Args[1] == 1 {
			ord = "descending"
		}
		return fmt.Sprintf("Drain(bucket 0x%04X, %s, keep %d)", o.Args[0], ord, o.Args[2])
	case "Refill":
		return fmt.Sprintf("Refill(bucket 0x%04X, %d values, pattern %s)", o.Args[0], o.Args[1], patterns[o.Args[2]].name)
	}
	return o.String()
}

func (x *inst) seq() []string {
	out := make([]string, len(x.hist))
	for i, o := range x.hist {
		out[i] = opString(o)
	}
	return out
}

var reportMu sync.Mutex

// selfTesting is set while the harness checks its own machinery on a few hand-made paths: an
// oracle failure there is not reported (the searches execute the same steps and report them
// with a proper path).
var selfTesting bool

func (x *inst) report(sig, what string) {
	if selfTesting {
		return
	}
	reportMu.Lock()
	defer reportMu.Unlock()
	seq := x.seq()
	k := sig + "\x00" + x.sys.name + "\x00" + fmt.Sprint(x.start) + "\x00" + strings.Join(seq, ";")
	if _, dup := reported.LoadOrStore(k, true); dup {
		return
	}
	if _, dup := sigSeen.LoadOrStore(sig, true); dup {
		x.sys.r.Violation(sig, what, nil, "") // counted only; the library keeps the first case
		return
	}
	c := map[string]any{
		"system":           x.sys.name,
		"start":            x.start,
		"start_state":      x.sys.starts[x.start].desc,
		"sequence":         seq,
		"path":             x.hist,
		"members_in_model": len(x.model),
		"tower_heights":    x.sys.hf.name,
	}
	x.sys.r.Violation(sig, what, c, x.goTest())
}

// fail reports a divergence between the real object and the model and stops the exploration
// below this state. The engine takes the key before it calls Check and keeps the state in the
// frontier when Check returns nil, so a state that failed in Check is remembered by its path:
// the replay that would expand it finds it dead and offers no operations.
func (x *inst) fail(sig, what string) {
	x.report(sig, what)
	x.dead = true
	if !selfTesting {
		deadPaths.Store(x.pathKey(), true)
		atomic.AddInt64(&nDead, 1)
	}
}

var (
	deadPaths sync.Map
	nDead     int64
)

func (x *inst) pathKey() string {
	var b strings.Builder
	b.WriteString(x.sys.name)
	fmt.Fprintf(&b, "#%d", x.start)
	for _, o := range x.hist {
		b.WriteByte(';')
		b.WriteString(o.Name)
		for _, a := range o.Args {
			b.WriteByte(',')
			b.WriteString(strconv.Itoa(a))
		}
	}
	return b.String()
}

// call runs one golib entry point; a panic is a violation.
func (x *inst) call(entry string, f func()) bool {
	_, st, p := common.Catch(f)
	if p {
		x.fail(common.PanicSite(st)+"|panic|"+entry+"-"+x.shape(), fmt.Sprintf("%s panicked (%d members, %s); stack: %s", entry, len(x.model), x.shape(), firstLines(st, 12)))
		return false
	}
	return true
}

func firstLines(s string, n int) string {
	ls := strings.Split(s, "\n")
	if len(ls) > n {
		ls = ls[:n]
	}
	return strings.Join(ls, " / ")
}

// goTest renders the path as a ready-to-paste test (only for paths without Drain macros).
func (x *inst) goTest() string {
	var b strings.Builder
	b.WriteString("func TestC03Repro(t *testing.T) {\n\tvar m setz.RoaringBitmap\n")
	for _, f := range x.sys.starts[x.start].fills {
		fmt.Fprintf(&b, "\tfor i := 0; i < %d; i++ {\n\t\tm.Add(uint32(0x%04X)<<16 | %s)\n\t}\n", f.n, f.high, patterns[f.pat].code)
	}
	for _, o := range x.hist {
		switch o.Name {
		case "Add", "Remove":
			fmt.Fprintf(&b, "\tm.%s(%s)\n", o.Name, hex(uint32(o.Args[0])))
		case "Refill":
			fmt.Fprintf(&b, "\tfor i := 0; i < %d; i++ {\n\t\tm.Add(uint32(0x%04X)<<16 | %s)\n\t}\n", o.Args[1], o.Args[0], patterns[o.Args[2]].code)
		default:
			return ""
		}
	}
	n := len(x.model)
	fmt.Fprintf(&b, "\tit, n := m.Iter(), 0\n\tfor it.Next() {\n\t\tn++\n\t}\n\tr := 0\n\tm.Range(func(uint32) bool { r++; return true })\n")
	fmt.Fprintf(&b, "\tif n != %d || r != %d || m.Len() != %d {\n\t\tt.Fatalf(\"Iter produced %%d, Range %%d, Len %%d; the set has %d members\", n, r, m.Len())\n\t}\n}\n", n, n, n, n)
	return b.String()
}

// ---------------------------------------------------------------- classes

func (x *inst) bucketClass(h uint32) string {
	switch {
	case x.cnt[h] == 0:
		return "no-bucket"
	case x.dense[h]:
		return "dense-bucket"
	}
	return "sparse-bucket"
}

func (x *inst) shape() string {
	nb, anyDense := 0, false
	for h, c := range x.cnt {
		if c > 0 {
			nb++
			anyDense = anyDense || x.dense[h]
		}
	}
	switch {
	case nb == 0:
		return "empty"
	case nb > 1:
		return "multi-bucket"
	case anyDense:
		return "single-dense-bucket"
	}
	return "single-sparse-bucket"
}

func (x *inst) sortedModel() []uint32 {
	if !x.sortedOK {
		x.sorted = x.sorted[:0]
		for v := range x.model {
			x.sorted = append(x.sorted, v)
		}
		slices.Sort(x.sorted)
		x.sortedOK = true
	}
	return x.sorted
}

// ---------------------------------------------------------------- transitions

// realAdd calls Add on the real object with the tower height of a new bucket node scripted.
// It does not catch panics (the callers do).
func (x *inst) realAdd(v uint32) (got bool) {
	want := x.sys.hf.f(v >> 16)
	slot := randSlot(&x.bm)
	if *slot == nil {
		// The bucket index is still the zero value: the first insertion initialises it with a
		// time-seeded source and draws the first height (1 or 2) from it before the harness can
		// replace the source. The harness owns this one draw by rejection: the same real calls
		// are repeated on a fresh zero value until the drawn height is the scripted one.
		if want > 2 {
			want = 2 // a new node is never more than one level above the current top level (1)
		}
		for try := 0; ; try++ {
			got = x.bm.Add(v)
			if *slot == nil || listLevel(&x.bm) == want {
				break
			}
			if try >= 400 {
				// the library's source never draws this height (any distribution of tower heights is
				// legitimate): go on with the height it draws and say that the script was not followed
				heightNotObtained.Store(true)
				break
			}
			x.bm = setz.RoaringBitmap{}
			for _, p := range x.pre {
				x.bm.Remove(p)
			}
		}
		if *slot != nil {
			*slot = x.rnd
		}
		return got
	}
	if *slot != x.rnd {
		*slot = x.rnd
	}
	x.src.next = kFor(want)
	return x.bm.Add(v)
}

// addRaw is one Add transition with its oracle; panics propagate to the caller's Catch.
func (x *inst) addRaw(v uint32) bool {
	h := v >> 16
	_, present := x.model[v]
	n := x.cnt[h]
	class := x.bucketClass(h)
	if !present && n == threshold && !x.dense[h] {
		class = "bucket-at-threshold"
		atomic.AddInt64(&cConversions, 1)
	}
	got := x.realAdd(v)
	if !present {
		x.model[v] = struct{}{}
		x.cnt[h] = n + 1
		if n+1 > threshold {
			x.dense[h] = true
		}
		if x.sortedOK && !x.bulk {
			i, _ := slices.BinarySearch(x.sorted, v)
			x.sorted = slices.Insert(x.sorted, i, v)
		} else {
			x.sortedOK = false
		}
	}
	x.last = "after-Add-" + class
	if got != !present {
		x.fail("RoaringBitmap.Add|wrong-result|"+class, fmt.Sprintf("Add(%s) = %v, want %v (value %s before the call; its bucket held %d values, %s)", hex(v), got, !present, presence(present), n, class))
		return false
	}
	return true
}

func (x *inst) add(v uint32) (ok bool) {
	return x.call("Add", func() { ok = x.addRaw(v) }) && ok
}

// addMany is the macro step "fill a bucket with n values of a pattern": n Add transitions, each
// with its oracle, under one panic guard.
func (x *inst) addMany(high uint32, p pattern, n int) (ok bool) {
	ok = true
	x.bulk = true
	defer func() { x.bulk = false }()
	return x.call("Add", func() {
		for i := 0; i < n && ok; i++ {
			ok = x.addRaw(high<<16 | p.low(i))
		}
	}) && ok
}

func (x *inst) remove(v uint32) bool {
	h := v >> 16
	_, present := x.model[v]
	class := x.bucketClass(h)
	if present && x.cnt[h] == 1 {
		class += "-last-value"
		atomic.AddInt64(&cBucketsRemoved, 1)
	}
	if *randSlot(&x.bm) == nil {
		x.pre = append(x.pre, v)
	}
	var got bool
	if !x.call("Remove", func() { got = x.bm.Remove(v) }) {
		return false
	}
	if present {
		delete(x.model, v)
		x.cnt[h]--
		if x.cnt[h] == 0 {
			delete(x.cnt, h)
			delete(x.dense, h)
		}
		if i, found := slices.BinarySearch(x.sorted, v); x.sortedOK && !x.bulk && found {
			x.sorted = slices.Delete(x.sorted, i, i+1)
		} else {
			x.sortedOK = false
		}
	}
	x.last = "after-Remove-" + class
	if got != present {
		x.fail("RoaringBitmap.Remove|wrong-result|"+class, fmt.Sprintf("Remove(%s) = %v, want %v (value %s before the call, %s)", hex(v), got, present, presence(present), class))
		return false
	}
	return true
}

// heightNotObtained: the first tower height of a zero-value bitmap could not be pinned by rejection.
var heightNotObtained atomic.Bool

func presence(p bool) string {
	if p {
		return "present"
	}
	return "absent"
}

// drain removes the members of one bucket one by one (macro transition), keeping the `keep`
// last ones of the chosen order. Every Remove result, Len and the membership of the removed
// value are compared at every step; the full battery runs at the milestones.
func (x *inst) drain(high uint32, desc bool, keep int) {
	var ms []uint32
	for _, v := range x.sortedModel() {
		if v>>16 == high {
			ms = append(ms, v)
		}
	}
	if desc {
		slices.Reverse(ms)
	}
	if keep > len(ms) {
		keep = len(ms)
	}
	ms = slices.Clone(ms[:len(ms)-keep])
	x.bulk = true // the sorted model is rebuilt at the milestones instead of being updated 4 k times
	defer func() { x.bulk = false }()
	for _, v := range ms {
		if !x.remove(v) {
			return
		}
		var n int
		var c bool
		if !x.call("Len", func() { n = x.bm.Len() }) || !x.call("Contains", func() { c = x.bm.Contains(v) }) {
			return
		}
		if n != len(x.model) {
			x.fail("RoaringBitmap.Len|wrong|"+x.last, fmt.Sprintf("Len = %d, want %d, inside the drain after Remove(%s)", n, len(x.model), hex(v)))
			return
		}
		if c {
			x.fail("RoaringBitmap.Contains|false-positive|"+x.last, fmt.Sprintf("Contains(%s) = true directly after Remove(%s) = true inside the drain", hex(v), hex(v)))
			return
		}
		switch x.cnt[high] {
		case threshold, threshold - 1, 1, 0:
			x.battery(fmt.Sprintf(" [inside the drain, bucket 0x%04X holds %d values]", high, x.cnt[high]))
		}
	}
}

func (x *inst) Apply(op space.Op) *space.Mismatch {
	if x.dead {
		return nil
	}
	x.hist = append(x.hist, op)
	switch op.Name {
	case "Add":
		x.add(uint32(op.Args[0]))
	case "Remove":
		x.remove(uint32(op.Args[0]))
	case "Drain":
		x.drain(uint32(op.Args[0]), op.Args[1] == 1, op.Args[2])
	case "Refill":
		x.addMany(uint32(op.Args[0]), patterns[op.Args[2]], op.Args[1])
	}
	if atomic.LoadInt64(&nDead) > 0 && !x.dead {
		if _, d := deadPaths.Load(x.pathKey()); d {
			x.dead = true
		}
	}
	return nil
}

func (x *inst) Ops() []space.Op {
	if x.dead {
		return nil
	}
	var ops []space.Op
	vals := x.sys.starts[x.start].vals
	for _, v := range vals {
		ops = append(ops, space.Op{Name: "Add", Args: []int{int(v)}})
	}
	for _, v := range vals {
		ops = append(ops, space.Op{Name: "Remove", Args: []int{int(v)}})
	}
	if x.sys.macros {
		d := int(x.sys.dHigh)
		if n := x.cnt[x.sys.dHigh]; n > 0 {
			ops = append(ops, space.Op{Name: "Drain", Args: []int{d, 0, 0}}, space.Op{Name: "Drain", Args: []int{d, 1, 0}})
			if n > 1 {
				ops = append(ops, space.Op{Name: "Drain", Args: []int{d, 0, 1}})
			}
		}
		if x.cnt[x.sys.dHigh] <= 8 {
			ops = append(ops, space.Op{Name: "Refill", Args: []int{d, threshold + 1, x.sys.refill}})
		}
	}
	return ops
}

// Roots: the object under test, the dead flag and the alphabet of this start state (states of
// start states with different alphabets are never merged).
func (x *inst) Roots() []any {
	return []any{&x.bm, bufDigest(&x.bm), x.dead, x.sys.starts[x.start].vals}
}

func (x *inst) Abstract() string {
	if x.dead {
		return "dead"
	}
	s := x.sortedModel()
	if len(s) <= 16 {
		return fmt.Sprint(s)
	}
	h := fnv.New64a()
	var b [4]byte
	for _, v := range s {
		b[0], b[1], b[2], b[3] = byte(v), byte(v>>8), byte(v>>16), byte(v>>24)
		h.Write(b[:])
	}
	var hs []uint32
	for k := range x.cnt {
		hs = append(hs, k)
	}
	slices.Sort(hs)
	var sb strings.Builder
	for _, k := range hs {
		fmt.Fprintf(&sb, "%04X:%d:%v ", k, x.cnt[k], x.dense[k])
	}
	fmt.Fprintf(&sb, "%016x", h.Sum64())
	return sb.String()
}

// ---------------------------------------------------------------- state battery

func (x *inst) Check() *space.Mismatch {
	if x.dead {
		return nil
	}
	switch x.shape() {
	case "multi-bucket":
		atomic.AddInt64(&cMultiStates, 1)
	}
	for _, d := range x.dense {
		if d {
			atomic.AddInt64(&cDenseStates, 1)
			break
		}
	}
	x.battery("")
	return nil
}

// battery compares every read-only query with the model.
//
// Len / Contains disagreeing with the model means the stored set itself is no longer the model's
// set: reported, and the exploration stops below this state (everything after it would only echo
// the same divergence). A wrong enumeration by Iter / Range / All while Len and Contains agree is
// a defect of the read-only query alone: reported with the path of the state, and the search
// goes on below the state.
func (x *inst) battery(note string) {
	want := x.sortedModel()
	if len(want) != len(x.model) {
		common.Infra("harness: sorted model has %d elements, the model set %d", len(want), len(x.model))
	}

	var n int
	if !x.call("Len", func() { n = x.bm.Len() }) {
		return
	}
	if n != len(want) {
		x.fail("RoaringBitmap.Len|wrong|"+x.last, fmt.Sprintf("Len = %d, the set has %d members%s", n, len(want), note))
		return
	}

	// Contains: probes (alphabet, neighbours x-1 / x+1, bucket boundaries), then every member
	var bad uint32
	var got, found bool
	if !x.call("Contains", func() {
		for _, v := range x.sys.starts[x.start].probes {
			_, w := x.model[v]
			if c := x.bm.Contains(v); c != w {
				bad, got, found = v, c, true
				return
			}
		}
		for _, v := range want {
			if !x.bm.Contains(v) {
				bad, got, found = v, false, true
				return
			}
		}
	}) {
		return
	}
	if found {
		if got {
			x.fail("RoaringBitmap.Contains|false-positive|"+x.bucketClass(bad>>16), fmt.Sprintf("Contains(%s) = true, the value is not a member%s", hex(bad), note))
		} else {
			x.fail("RoaringBitmap.Contains|false-negative|"+x.bucketClass(bad>>16), fmt.Sprintf("Contains(%s) = false, the value is a member%s", hex(bad), note))
		}
		return
	}

	// complete ascending enumeration, three ways; production is cut a little above the expected
	// count so that a cycling iterator terminates
	limit := len(want) + 4
	var out []uint32
	if !x.call("Iter", func() {
		out = make([]uint32, 0, limit)
		it := x.bm.Iter()
		for len(out) < limit && it.Next() {
			v := it.Value()
			if v2 := it.Value(); v2 != v { // Value does not advance
				out = append(out, v2)
			}
			out = append(out, v)
		}
		if len(out) < limit && (it.Next() || it.Next()) { // an exhausted iterator stays exhausted
			out = append(out, it.Value())
		}
	}) {
		return
	}
	if x.cmpEnum("Iter", out, want, note) && len(want) > 0 {
		// two iterators over the unchanged set advanced in lock-step: each must still enumerate
		// everything (an iterator's position is its own)
		var out2 []uint32
		if !x.call("Iter", func() {
			out = out[:0]
			a, b := x.bm.Iter(), x.bm.Iter()
			for len(out) < limit {
				na := a.Next()
				if na {
					out = append(out, a.Value())
				}
				nb := b.Next()
				if nb {
					out2 = append(out2, b.Value())
				}
				if !na && !nb {
					break
				}
			}
		}) {
			return
		}
		if x.cmpEnum("Iter (first of two iterators advanced in lock-step)", out, want, note) {
			x.cmpEnum("Iter (second of two iterators advanced in lock-step)", out2, want, note)
		}
	}

	if !x.call("Range", func() {
		out = out[:0]
		x.bm.Range(func(v uint32) bool {
			out = append(out, v)
			return len(out) < limit
		})
	}) {
		return
	}
	rangeOK := x.cmpEnum("Range", out, want, note)
	if rangeOK && len(want) > 0 {
		// read calls from inside the callback (a complete Range, All, a fresh Iter run to its end,
		// Contains, Len — at the first two and the last element): reads do not change the set, the
		// outer enumeration must be unaffected
		nested := func(i int) {
			if i > 1 && i != len(want)-1 {
				return
			}
			n := 0
			x.bm.Range(func(uint32) bool { n++; return true })
			for range x.bm.All() {
				n++
			}
			for it := x.bm.Iter(); it.Next(); {
				n++
			}
			x.bm.Contains(want[0])
			x.bm.Len()
		}
		if !x.call("Range", func() {
			out = out[:0]
			x.bm.Range(func(v uint32) bool {
				nested(len(out))
				out = append(out, v)
				return len(out) < limit
			})
		}) {
			return
		}
		if !x.cmpEnum("Range (with Range, All, Iter, Contains, Len called from its callback)", out, want, note) {
			return
		}
		if !x.call("All", func() {
			out = out[:0]
			for v := range x.bm.All() {
				nested(len(out))
				out = append(out, v)
				if len(out) >= limit {
					break
				}
			}
		}) {
			return
		}
		if !x.cmpEnum("All (with Range, All, Iter, Contains, Len called from the loop body)", out, want, note) {
			return
		}
		if !x.call("Iter", func() {
			out = out[:0]
			for it := x.bm.Iter(); len(out) < limit && it.Next(); {
				nested(len(out))
				out = append(out, it.Value())
			}
		}) {
			return
		}
		if !x.cmpEnum("Iter (with Range, All, Iter, Contains, Len called between Next and Value)", out, want, note) {
			return
		}
	}

	if !x.call("All", func() {
		out = out[:0]
		for v := range x.bm.All() {
			out = append(out, v)
			if len(out) >= limit {
				break
			}
		}
	}) {
		return
	}
	allOK := x.cmpEnum("All", out, want, note)
	if allOK {
		// one iterator value walked again after a complete walk: "calling the iterator again
		// walks the sequence again" (package iter)
		if !x.call("All", func() {
			seq := x.bm.All()
			n := 0
			for range seq {
				if n++; n > limit {
					break
				}
			}
			out = out[:0]
			for v := range seq {
				out = append(out, v)
				if len(out) >= limit {
					break
				}
			}
		}) {
			return
		}
		allOK = x.cmpEnum("All (same iterator value walked a second time)", out, want, note)
	}

	// early stop: fn / yield returns false at its k-th call, k = 1..3 (only where the complete
	// enumeration was right, a wrong one would only be echoed)
	stops := []int{1, 2, 3}
	if len(want) > 0 { // and at the last element of the first bucket and the first of the next
		fb := 0
		for fb < len(want) && want[fb]>>16 == want[0]>>16 {
			fb++
		}
		if fb > 3 {
			stops = append(stops, fb)
		}
		if fb+1 > 3 {
			stops = append(stops, fb+1)
		}
	}
	for _, k := range stops {
		if k > len(want) {
			continue
		}
		for _, entry := range []string{"Range", "All"} {
			if (entry == "Range" && !rangeOK) || (entry == "All" && !allOK) {
				continue
			}
			calls := 0
			var got []uint32
			f := func(v uint32) bool {
				calls++
				if calls <= k {
					got = append(got, v)
				}
				return calls < k
			}
			if !x.call(entry, func() {
				if entry == "Range" {
					x.bm.Range(f)
				} else {
					x.bm.All()(f)
				}
			}) {
				return
			}
			class := x.bucketClass(want[k-1] >> 16)
			switch {
			case calls > k:
				x.report("RoaringBitmap."+entry+"|continues-after-stop|"+class, fmt.Sprintf("%s called the function %d more time(s) after it returned false at call %d%s", entry, calls-k, k, note))
			case calls < k || !slices.Equal(got, want[:k]):
				x.report("RoaringBitmap."+entry+"|wrong-before-stop|"+class, fmt.Sprintf("%s delivered %s (%d calls) when asked to stop at call %d, want %s%s", entry, hexes(got), calls, k, hexes(want[:k]), note))
			}
		}
	}
}

// cmpEnum compares one produced enumeration with the sorted model: the count and every element.
// Failure kinds, from the property text "every member exactly once in ascending order":
// "incomplete" = a member is not produced where it is due (the enumeration ends or jumps past it),
// "unexpected-element" = something is produced that is not due (a non-member, a repetition, a
// value out of order, or anything after the last member).
// The input class is taken from the position of the first discrepancy: "multi-bucket" when the
// enumeration goes wrong exactly where it has to step from one bucket to the next, else the
// representation (sparse / dense) of the bucket in which it goes wrong.
func (x *inst) cmpEnum(entry string, out, want []uint32, note string) bool {
	i := 0
	for i < len(out) && i < len(want) && out[i] == want[i] {
		i++
	}
	if i == len(out) && i == len(want) {
		return true
	}
	var kind, class, what string
	switch {
	case i == len(want):
		kind = "unexpected-element"
		class = "empty-set"
		if len(want) > 0 {
			class = x.bucketClass(want[len(want)-1] >> 16)
		}
		what = fmt.Sprintf("%s produced more than the %d members: %s at position %d", entry, len(want), hex(out[i]), i)
	case i == len(out) || out[i] > want[i]:
		kind = "incomplete"
		if i == len(out) {
			what = fmt.Sprintf("%s produced %d of %d members: it stops after %s, the next member %s is never produced", entry, len(out), len(want), lastHex(out), hex(want[i]))
		} else {
			what = fmt.Sprintf("%s skips the member %s: it produced %s at position %d (%d members expected)", entry, hex(want[i]), hex(out[i]), i, len(want))
		}
	default:
		kind = "unexpected-element"
		what = fmt.Sprintf("%s produced %s at position %d where %s is due (not a member, repeated or out of order; %d members expected)", entry, hex(out[i]), i, hex(want[i]), len(want))
	}
	if class == "" {
		if i > 0 && want[i]>>16 != want[i-1]>>16 {
			class = "multi-bucket"
		} else {
			class = x.bucketClass(want[i] >> 16)
		}
	}
	if len(want) <= 12 {
		what += fmt.Sprintf("; got %s, want %s", hexes(out), hexes(want))
	}
	x.report("RoaringBitmap."+entry+"|"+kind+"|"+class, what+note)
	return false
}

func lastHex(s []uint32) string {
	if len(s) == 0 {
		return "nothing"
	}
	return hex(s[len(s)-1])
}

func hexes(s []uint32) string {
	var b strings.Builder
	b.WriteByte('[')
	for i, v := range s {
		if i > 0 {
			b.WriteByte(' ')
		}
		b.WriteString(hex(v))
	}
	b.WriteByte(']')
	return b.String()
}
