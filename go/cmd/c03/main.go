// C03 — setz.RoaringBitmap behaves as a set of uint32 with complete ascending enumeration.
// Engine E2: explicit-state BFS over Add / Remove sequences on the real object (zero value
// start), compared step by step with a map[uint32]struct{} model.
//
//	(i)   small/*      BFS to the fix-point, highs {0,1,0xFFFF} x lows {0,1,65535}
//	(ii)  threshold/*  one bucket pre-filled with 4094..4097 values in four fill patterns,
//	                   optionally a second small bucket before / after it, depth-bounded BFS over
//	                   {Add,Remove} x {2 highs x 4 lows}
//	(iii) drain/*      dense bucket, macro transitions drain-to-empty / drain-to-one / refill
package main

import (
	"fmt"
	"maps"
	"math/rand"
	"os"
	"reflect"
	"slices"
	"strings"
	"sync"
	"sync/atomic"
	"time"

	"verif/common"
	"verif/space"
)

var heightFns = []heightFn{
	{"towers-1", func(h uint32) int { return 1 }},
	{"towers-rising", func(h uint32) int {
		switch h {
		case 0:
			return 1
		case 1:
			return 2
		}
		return 3
	}},
	{"towers-falling", func(h uint32) int {
		switch h {
		case 0:
			return 3
		case 1:
			return 1
		}
		return 2
	}},
}

func alphaLow(i int) uint32 {
	if i < 3 {
		return []uint32{65535, 0, 1}[i]
	}
	return uint32(97 + i)
}

const (
	patAsc = iota
	patDesc
	patEven
	patAlpha
)

var patterns = []pattern{
	{"ascending", func(i int) uint32 { return uint32(100 + i) }, 2000, 99, "uint32(100+i)"},
	{"descending", func(i int) uint32 { return uint32(60000 - i) }, 58000, 30000, "uint32(60000-i)"},
	{"even", func(i int) uint32 { return uint32(2 * i) }, 2000, 2001, "uint32(2*i)"},
	{"alphabet-lows-first", alphaLow, 2000, 50, "func() uint32 { if i < 3 { return []uint32{65535, 0, 1}[i] }; return uint32(97 + i) }()"},
}

// canon: the scripted source contributes only nil / non-nil; the scratch array is represented by
// its digest (see bufDigest) when it could be located, else dumped like everything else.
var canon = &space.Canonizer{SkipTypes: map[reflect.Type]bool{reflect.TypeOf((*rand.Rand)(nil)): true}, SkipFields: map[string]bool{}}

func uniqSorted(v []uint32) []uint32 {
	v = slices.Clone(v)
	slices.Sort(v)
	return slices.Compact(v)
}

func withNeighbours(vals []uint32, highs []uint32) []uint32 {
	var p []uint32
	for _, v := range vals {
		p = append(p, v, v-1, v+1) // uint32 wrap-around is intended: the neighbours of 0 and of 2^32-1
	}
	for _, h := range highs {
		p = append(p, h<<16, h<<16|0xFFFF, h<<16-1, h<<16+0x10000)
	}
	return uniqSorted(p)
}

func newInst(sys *sysDef, start int) *inst {
	sd := &sys.starts[start]
	x := &inst{sys: sys, start: start, last: "start-state"}
	x.rnd = rand.New(&x.src)
	c := sd.cache
	c.once.Do(func() {
		c.model, c.cnt = map[uint32]struct{}{}, map[uint32]int{}
		for _, f := range sd.fills {
			for i := 0; i < f.n; i++ {
				v := f.high<<16 | patterns[f.pat].low(i)
				_, present := c.model[v]
				c.expect = append(c.expect, !present)
				if !present {
					c.model[v] = struct{}{}
					c.cnt[f.high]++
				}
			}
		}
		for v := range c.model {
			c.sorted = append(c.sorted, v)
		}
		slices.Sort(c.sorted)
	})
	// the real object: one real Add per pre-fill value, each result compared
	k := 0
	var v uint32
	var got bool
	if !x.call("Add", func() {
		for _, f := range sd.fills {
			low := patterns[f.pat].low
			for i := 0; i < f.n; i++ {
				v = f.high<<16 | low(i)
				if got = x.realAdd(v); got != c.expect[k] {
					return
				}
				k++
			}
		}
	}) {
		x.model, x.cnt, x.dense = map[uint32]struct{}{}, map[uint32]int{}, map[uint32]bool{}
		return x
	}
	x.model, x.cnt, x.dense = maps.Clone(c.model), maps.Clone(c.cnt), map[uint32]bool{}
	for h, n := range x.cnt {
		if n > threshold {
			x.dense[h] = true
			atomic.AddInt64(&cConversions, 1)
		}
	}
	x.sorted, x.sortedOK = slices.Clone(c.sorted), true
	if k < len(c.expect) {
		x.fail("RoaringBitmap.Add|wrong-result|pre-fill", fmt.Sprintf("Add(%s) = %v, want %v at value number %d of the pre-fill (%s)", hex(v), got, c.expect[k], k+1, sd.desc))
	}
	if atomic.LoadInt64(&nDead) > 0 && !x.dead {
		if _, d := deadPaths.Load(x.pathKey()); d {
			x.dead = true // this start state failed its battery
		}
	}
	return x
}

// ---------------------------------------------------------------- system definitions

func smallSystems(r *common.Run) []*sysDef {
	var vals []uint32
	for _, h := range []uint32{0, 1, 0xFFFF} {
		for _, l := range []uint32{0, 1, 65535} {
			vals = append(vals, h<<16|l)
		}
	}
	probes := withNeighbours(vals, []uint32{0, 1, 2, 0xFFFE, 0xFFFF})
	var out []*sysDef
	for _, hf := range heightFns {
		out = append(out, &sysDef{r: r, name: "small/" + hf.name, hf: hf,
			starts: []startDef{{cache: &startCache{}, desc: "zero value", vals: vals, probes: probes}}})
	}
	return out
}

const dHigh = 1 // the bucket that is filled up to the threshold

func secondBucket(variant int) (s uint32, fills []fill, desc string) {
	switch variant {
	case 1:
		return 0, []fill{{0, patAlpha, 2}}, ", bucket 0x0000 = {65535, 0} inserted first"
	case 2:
		return 2, []fill{{2, patAlpha, 2}}, ", bucket 0x0002 = {65535, 0} inserted first"
	}
	return 2, nil, ""
}

// thresholdSystems: depth 0 = to the fix-point (the alphabet has 8 values, so the reachable
// space is finite: at most 2^8 membership patterns on top of the pre-fill, times the
// representations and index shapes by which they can be reached).
func thresholdSystems(r *common.Run, pats []int, sizes []int, hfs []heightFn, depth int) []*sysDef {
	var out []*sysDef
	for _, pi := range pats {
		p := patterns[pi]
		for _, n := range sizes {
			for _, hf := range hfs {
				fam := "threshold"
				if depth == 0 {
					fam = "threshold-fixpoint"
				}
				sys := &sysDef{r: r, name: fmt.Sprintf("%s/%s/n%d/%s", fam, p.name, n, hf.name), hf: hf, maxDepth: depth}
				for variant := 0; variant < 3; variant++ {
					s, fills, d := secondBucket(variant)
					var vals, edge []uint32
					for _, h := range []uint32{dHigh, s} {
						for _, l := range []uint32{p.p, p.a, 0, 65535} {
							vals = append(vals, h<<16|l)
						}
						edge = append(edge, h<<16|p.low(0), h<<16|p.low(n-1), h<<16|p.low(n), h<<16|p.low(threshold+1))
					}
					fills = append(fills, fill{dHigh, pi, n})
					sys.starts = append(sys.starts, startDef{
						cache:  &startCache{},
						desc:   fmt.Sprintf("bucket 0x%04X pre-filled with %d values, pattern %s%s", dHigh, n, p.name, d),
						fills:  fills,
						vals:   vals,
						probes: withNeighbours(append(edge, vals...), []uint32{0, 1, 2, 3}),
					})
				}
				out = append(out, sys)
			}
		}
	}
	return out
}

func drainSystems(r *common.Run, pats []int, hfs []heightFn, depth int) []*sysDef {
	var out []*sysDef
	for _, pi := range pats {
		p := patterns[pi]
		for _, hf := range hfs {
			sys := &sysDef{r: r, name: fmt.Sprintf("drain/%s/%s", p.name, hf.name), hf: hf, maxDepth: depth, macros: true, dHigh: dHigh, refill: patAsc}
			for _, variant := range []int{0, 2} {
				s, fills, d := secondBucket(variant)
				vals := []uint32{dHigh<<16 | p.p, dHigh<<16 | p.a, s<<16 | 0}
				edge := []uint32{dHigh<<16 | p.low(0), dHigh<<16 | p.low(threshold), dHigh<<16 | 100, dHigh<<16 | (100 + threshold), dHigh << 16, dHigh<<16 | 65535}
				fills = append(fills, fill{dHigh, pi, threshold + 1})
				sys.starts = append(sys.starts, startDef{
					cache:  &startCache{},
					desc:   fmt.Sprintf("bucket 0x%04X pre-filled with %d values (dense), pattern %s%s", dHigh, threshold+1, p.name, d),
					fills:  fills,
					vals:   vals,
					probes: withNeighbours(append(edge, vals...), []uint32{0, 1, 2, 3}),
				})
			}
			out = append(out, sys)
		}
	}
	return out
}

// ---------------------------------------------------------------- self-test of the harness' own machinery

var statesNotAFunctionOfThePath string

func selfTest(r *common.Run) {
	locate()
	if !hookOK {
		common.Infra("cannot own the tower-height nondeterminism of the bucket index: %s", hookWhy)
	}
	if bufOK {
		canon.SkipFields["RoaringBitmap.buf"] = true
	}
	selfTesting = true
	defer func() { selfTesting = false }()
	sys := smallSystems(r)[1]
	build := func() *inst {
		x := newInst(sys, 0)
		x.remove(5)
		for _, v := range []uint32{0x10000, 0, 0xFFFF0000, 0x10001} {
			x.add(v)
		}
		x.remove(0)
		x.add(0)
		return x
	}
	a := build()
	for i := 0; i < 24; i++ { // the first tower height is time-seeded inside the library: many rebuilds
		b := build()
		if da, db := canon.Dump(a.Roots()...), canon.Dump(b.Roots()...); da != db {
			// the tower heights of the bucket index cannot be scripted on this tree (any distribution of
			// heights is legitimate): explicit-state search needs the private state to be a function
			// of the path, so only the families that do not merge states run (and say so)
			statesNotAFunctionOfThePath = fmt.Sprintf("%s / %s", trunc(da), trunc(db))
			return
		}
	}
	if a.dead {
		return // the transition oracle failed on the self-test path; it is reported by the search as well
	}
	// the canonical key must tell a sparse bucket from a dense one that holds the same values
	noBuf := &space.Canonizer{SkipTypes: canon.SkipTypes, SkipFields: map[string]bool{"RoaringBitmap.buf": true}}
	t0 := thresholdSystems(r, []int{patAsc}, []int{threshold, threshold + 1}, heightFns[:1], 1)
	sparse := newInst(t0[0], 0) // 4096 values
	dense := newInst(t0[1], 0)  // 4097 values
	last := uint32(dHigh)<<16 | patterns[patAsc].low(threshold)
	dense.remove(last)
	ds, dd := noBuf.Dump(&sparse.bm), noBuf.Dump(&dense.bm)
	// (recorded, not demanded: which representation a bucket has is the library's business; on the
	// current tree a bucket that was dense stays dense, and the two dumps differ)
	types := map[string]bool{}
	for _, d := range []string{ds, dd} {
		for _, part := range strings.Split(d, "iface(")[1:] {
			if i := strings.IndexByte(part, ')'); i > 0 {
				types[part[:i]] = true
			}
		}
	}
	var ts []string
	for t := range types {
		ts = append(ts, t)
	}
	slices.Sort(ts)
	r.Cov("container_types_seen_in_canonical_dump", ts)
	r.Cov("key_distinguishes_sparse_from_dense", ds != dd)
}

func trunc(s string) string {
	if len(s) > 20000 {
		// skip the 4096-entry scratch buffer
		if i := strings.Index(s, "buf:["); i > 0 {
			if j := strings.IndexByte(s[i:], ']'); j > 0 {
				s = s[:i] + "buf:[…" + s[i+j:]
			}
		}
	}
	if len(s) > 1500 {
		s = s[:1500] + "…"
	}
	return s
}

// ---------------------------------------------------------------- main

func search(r *common.Run, d *sysDef) space.Result {
	sys := space.System{
		Name:     d.name,
		Starts:   len(d.starts),
		New:      func(s int) space.Instance { return newInst(d, s) },
		Canon:    canon,
		MaxDepth: d.maxDepth,
	}
	t0 := time.Now()
	res := space.Search(r, sys)
	if os.Getenv("C03_DEBUG") != "" {
		fmt.Fprintf(os.Stderr, "%-60s states %6d trans %7d depth %2d fix %v  %.1fs (at %.1fs)\n", d.name, res.States, res.Transitions, res.Depth, res.FixPoint, time.Since(t0).Seconds(), time.Since(r.Start).Seconds())
	}
	r.Nontrivial(int64(res.States))
	return res
}

func runAll(r *common.Run, defs []*sysDef, conc int) []space.Result {
	out := make([]space.Result, len(defs))
	var next int64 = -1
	var wg sync.WaitGroup
	for w := 0; w < conc; w++ {
		wg.Add(1)
		go func() {
			defer wg.Done()
			for {
				i := int(atomic.AddInt64(&next, 1))
				if i >= len(defs) {
					return
				}
				out[i] = search(r, defs[i])
			}
		}()
	}
	wg.Wait()
	return out
}

func main() {
	r := common.Start("C03", "model_checking")
	selfTest(r)
	if statesNotAFunctionOfThePath != "" {
		r.Incomplete("the scripted tower heights do not make the private state a function of the path on this tree; the explicit-state families were skipped, only the step-by-step drain family ran: " + statesNotAFunctionOfThePath)
		sparseMid(r)
		r.Finish("reduced run: see coverage.incomplete")
		return
	}

	var results []space.Result
	// (i) first and alone, so that the case kept for a signature is a shortest one
	small := smallSystems(r)
	w := r.Workers
	r.Workers = 1 // the first system sequentially: the case kept for a signature is the same in every run
	results = append(results, runAll(r, small[:1], 1)...)
	r.Workers = w
	results = append(results, runAll(r, small[1:], 1)...)

	var defs []*sysDef
	allPats, allSizes := []int{patAsc, patDesc, patEven, patAlpha}, []int{4094, 4095, 4096, 4097}
	if r.Thorough() {
		// two threshold systems to the fix-point (about 5 000 states / 80 000 transitions each) ...
		defs = append(defs, thresholdSystems(r, []int{patAsc}, []int{4095}, heightFns[1:2], 0)...)
		defs = append(defs, thresholdSystems(r, []int{patEven}, []int{4096}, heightFns[1:2], 0)...)
		// ... and all of them to depth 4 under three tower-height functions
		defs = append(defs, thresholdSystems(r, allPats, allSizes, heightFns, 4)...)
		defs = append(defs, drainSystems(r, allPats, heightFns, 5)...)
	} else {
		// quick: one tower-height function, depth 3; the drain family on two of the four patterns
		defs = append(defs, thresholdSystems(r, allPats, allSizes, heightFns[1:2], 3)...)
		defs = append(defs, drainSystems(r, []int{patAsc, patEven}, heightFns[1:2], 4)...)
	}
	results = append(results, runAll(r, defs, 16)...)

	space.Summarize(r, results)
	if heightNotObtained.Load() {
		r.Incomplete("the bucket index never drew the scripted first tower height from its own source within 400 attempts: the tower-height scripts were followed only in part")
	}
	sparseMid(r)
	r.Cov("sparse_to_dense_conversions_executed_incl_replays", atomic.LoadInt64(&cConversions))
	r.Cov("removals_of_the_last_value_of_a_bucket_executed_incl_replays", atomic.LoadInt64(&cBucketsRemoved))
	r.Cov("battery_runs_on_states_with_a_dense_bucket", atomic.LoadInt64(&cDenseStates))
	r.Cov("battery_runs_on_multi_bucket_states", atomic.LoadInt64(&cMultiStates))
	r.SampleL("threshold start", map[string]any{"start_state": defs[0].starts[1].desc, "alphabet": hexes(defs[0].starts[1].vals)})

	r.Assume(
		"small scope: (i) 3 buckets x 3 lows to the fix-point; (ii) one bucket filled to 4094..4097 in four fill patterns (+ optional 2-value bucket before / after), then every Add/Remove sequence up to the depth bound over 2 highs x 4 lows; (iii) drain / refill macro steps on a dense bucket. More than 3 buckets, fills far above 4097 and other values are outside",
		"tower heights of the bucket index (listz.SkipList, private time-seeded *rand.Rand) are owned by the harness: the private source is replaced (reflect+unsafe) by a scripted one, the height requested for a new bucket node is a fixed function of the bucket key ("+heightNames()+"); the very first insertion draws from the library's own source before it can be replaced, that draw (height 1 or 2) is pinned by rebuilding the zero value and repeating the same calls until the scripted height comes out. The skip list itself is the subject of C02",
		"state merging: two objects with isomorphic private graphs (bucket index incl. towers, containers, scratch buffer, length counter; slice capacities excluded) have identical futures under the same alphabet",
		"a failed read-only query (Len, Contains, Iter, Range, All) is reported and the search continues below the state; a failed Add/Remove result or a panic stops the exploration below that state",
		"early stop: Range / All must deliver the first k members in order and must not call the function again after it returned false (k = 1..3) — the bool-returning callback contract of Range and the iter.Seq contract of All",
	)
	r.Finish("case = one transition: a real Add/Remove (or macro step) on a replayed real object compared with the map model, followed by the battery Len, Contains (alphabet, neighbours x-1/x+1, bucket boundaries, every member) and Iter = Range = All = sorted model with the count compared, plus early stop of Range/All after 1..3 elements; non-trivial = distinct canonical private states reached (reflective dump of bucket index, containers incl. sparse/dense type, scratch buffer and length)")
}

func heightNames() string {
	var n []string
	for _, h := range heightFns {
		n = append(n, h.name)
	}
	return strings.Join(n, ", ")
}
