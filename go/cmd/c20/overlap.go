package main

import (
	srand "crypto/rand"
	"fmt"
	"time"
	"unicode/utf8"

	"verif/common"

	"github.com/welllog/golib/randz"
)

// golib shares ONE StrGenerator / IdGenerator between all callers of randz.String / randz.Id (an
// atomically published default instance over a locked random source), so Generate has to give
// the documented shape to every caller also when calls on one generator overlap. Two calls are run
// as coroutines that can be switched at every answer of the caller-supplied random source (the
// only points where the harness owns control); EVERY interleaving is enumerated, and successive
// calls on one generator are covered by the 0-switch executions.

type yieldSource struct {
	scriptSource
	cur *func()
}

func (s *yieldSource) Int63() int64 {
	(*s.cur)()
	return s.scriptSource.Int63()
}

func strOverlap(r *common.Run) {
	pool := []rune("ab世😀éZ0_-~" + "ABCDEFGHJKMNPQRSTUVWXYZ23456789")
	ns := []int{0, 1, 2, 3, 13, 14, 22}
	scripts := [][]int64{nil, {1<<63 - 1}, {0x5555555555555555, 0x2AAAAAAAAAAAAAAA}}
	var execs int64
	outcomes := map[string]bool{}
	for _, size := range []int{1, 3, 5, 9, 31, 33} {
		set := string(pool[:size])
		in := map[rune]bool{}
		for _, c := range set {
			in[c] = true
		}
		for _, script := range scripts {
			for _, n0 := range ns {
				for _, n1 := range ns {
					nn := [2]int{n0, n1}
					execs += int64(common.Overlap(-1, func() ([]func(func()), func(*common.OverlapExec)) {
						var cur func()
						src := &yieldSource{scriptSource: scriptSource{script: script}, cur: &cur}
						var g randz.StrGenerator
						if _, _, p := common.Catch(func() { g = randz.NewStrGenerator(set, src) }); p {
							return nil, func(*common.OverlapExec) {} // reported by the sequential family
						}
						var out [2]string
						body := func(i int) func(func()) {
							return func(y func()) {
								var yy func()
								yy = func() { y(); cur = yy }
								cur = yy
								out[i] = g.Generate(nn[i])
							}
						}
						return []func(func()){body(0), body(1)}, func(x *common.OverlapExec) {
							r.Eval(1)
							c := map[string]any{"charset": set, "script": script, "n": nn, "schedule": x.Schedule}
							sw := 0
							for i := 1; i < len(x.Schedule); i++ {
								if x.Schedule[i] != x.Schedule[i-1] {
									sw++
								}
							}
							if sw > 1 {
								r.Nontrivial(1)
							}
							for i := 0; i < 2; i++ {
								if x.Panics[i] != nil {
									r.Violation("StrGenerator.Generate|overlap|panic", fmt.Sprintf("Generate(%d) panicked while another Generate on the same generator was in progress: %v", nn[i], x.Panics[i]), c, "")
									continue
								}
								if cnt := utf8.RuneCountInString(out[i]); cnt != nn[i] || !utf8.ValidString(out[i]) {
									r.Violation("StrGenerator.Generate|overlap|length", fmt.Sprintf("two overlapping calls on one generator (switches at the random source's answers %v): Generate(%d) returned %d runes: %q", x.Schedule, nn[i], cnt, out[i]), c, "")
								}
								for _, ch := range out[i] {
									if !in[ch] {
										r.Violation("StrGenerator.Generate|overlap|foreign-rune", fmt.Sprintf("overlapping Generate(%d) = %q contains %q which is not in the set", nn[i], out[i], ch), c, "")
										break
									}
								}
							}
							if len(outcomes) < 4096 {
								outcomes[fmt.Sprint(out)] = true
							}
						}
					}))
				}
			}
		}
	}
	r.Section(map[string]any{"family": "StrGenerator: two overlapping Generate calls on one generator, every interleaving at the random source's answers",
		"executions": execs, "distinct_outcomes_at_least": len(outcomes)})
}

type yieldReader struct {
	cur   *func()
	calls int
}

func (s *yieldReader) Read(p []byte) (int, error) {
	(*s.cur)()
	fill := byte(0)
	if s.calls%2 == 1 {
		fill = 0xFF
	}
	s.calls++
	for i := range p {
		p[i] = fill
	}
	return len(p), nil
}

func idOverlap(r *common.Run) {
	saved := srand.Reader
	defer func() { srand.Reader = saved }()
	const mask = int64(1)<<41 - 1
	var execs int64
	for _, randBit := range []int{2, 8, 16, 22} {
		for _, off := range []time.Duration{0, -time.Second, -time.Duration(int64(1)<<41+5) * time.Millisecond} {
			start := time.Now().Add(off)
			execs += int64(common.Overlap(-1, func() ([]func(func()), func(*common.OverlapExec)) {
				var cur func()
				rd := &yieldReader{cur: &cur}
				srand.Reader = rd
				var g randz.IdGenerator
				if _, _, p := common.Catch(func() { g = randz.NewIdGenerator(start, randBit) }); p {
					return nil, func(*common.OverlapExec) {} // reported by the sequential family
				}
				var out [2]randz.ID
				var before, after [2]int64
				body := func(i int) func(func()) {
					return func(y func()) {
						var yy func()
						yy = func() { y(); cur = yy }
						cur = yy
						before[i] = time.Since(start).Milliseconds()
						out[i] = g.Generate()
						after[i] = time.Since(start).Milliseconds()
					}
				}
				return []func(func()){body(0), body(1)}, func(x *common.OverlapExec) {
					r.Eval(1)
					r.Nontrivial(1)
					c := map[string]any{"randBit": randBit, "start_offset": off.String(), "schedule": x.Schedule}
					for i := 0; i < 2; i++ {
						if x.Panics[i] != nil {
							r.Violation("IdGenerator.Generate|overlap|panic", fmt.Sprintf("Generate panicked while another Generate on the same generator was in progress: %v", x.Panics[i]), c, "")
							continue
						}
						id := int64(out[i])
						rnd := id & (int64(1)<<randBit - 1)
						ts := id >> randBit
						if id < 0 {
							r.Violation("IdGenerator.Generate|overlap|negative", fmt.Sprintf("overlapping Generate() = %d < 0", id), c, "")
						}
						if rnd != 0 && rnd != int64(1)<<randBit-1 {
							r.Violation("IdGenerator.Generate|overlap|random-part", fmt.Sprintf("random part %#x is neither of the two answers of the random source", rnd), c, "")
						}
						if (ts-before[i])&mask > (after[i]-before[i]) || ts > mask {
							r.Violation("IdGenerator.Generate|overlap|timestamp", fmt.Sprintf("id>>%d = %d not within the bracket [%d,%d] measured around this call (mod 2^41)", randBit, ts, before[i]&mask, after[i]&mask), c, "")
						}
					}
				}
			}))
		}
	}
	r.Section(map[string]any{"family": "IdGenerator: two overlapping Generate calls on one generator, every interleaving at the reads of crypto/rand.Reader", "executions": execs})
}
