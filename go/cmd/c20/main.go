// C20 — randz identifiers and random strings have the documented shape.
// Bounded-exhaustive enumeration of inputs and of random-source answers (engine E3).
package main

import (
	srand "crypto/rand"
	"errors"
	"fmt"
	"io"
	"math/big"
	"strings"
	"time"
	"unicode/utf8"

	"verif/common"

	"github.com/welllog/golib/randz"
)

const alphabet = "0123456789abcdefghjkmnprstuvwxyz"

var digit [256]int

func init() {
	for i := range digit {
		digit[i] = -1
	}
	for i := 0; i < len(alphabet); i++ {
		digit[alphabet[i]] = i
	}
}

func main() {
	r := common.Start("C20", "model_checking")
	r.ColdStart(coldProbes())
	coldFailed := r.NumViolations() > 0 // a probe crashed or hung its own process: do not repeat that in this one
	// every family under a last-resort guard: a panic of golib that reaches the harness outside the
	// guarded calls (a constructor, a package-level setter) is a violation, not a crash of the check
	family := func(name string, f func(*common.Run)) {
		if _, st, p := common.Catch(func() { f(r) }); p {
			r.Violation(name+"|panic|"+common.PanicSite(st), "golib panicked at "+common.PanicSite(st)+" in the family '"+name+"'", map[string]any{"stack": st}, "")
		}
	}
	family("ParseBase32", parseAll)
	family("round trips", roundTrip)
	family("IdGenerator", idGenerator)
	family("StrGenerator", strGenerator)
	family("StrGenerator (large)", strGeneratorLarge)
	family("StrGenerator overlap", strOverlap)
	family("IdGenerator overlap", idOverlap)
	family("CountGenerator", countGenerator)
	if !coldFailed {
		family("package-level entry points", packageLevel)
	}
	r.Assume("small-scope: ParseBase32 inputs up to 3 arbitrary bytes (+ structured longer numerals); IDs < 2^20 (quick) / 2^24 (thorough) and 2^k-1,2^k,2^k+1",
		"IdGenerator timestamps are compared with a bracket measured around the call, random source scripted through crypto/rand.Reader",
		"StrGenerator: scripted rand.Source answers of <= 3 words followed by a fixed accepting tail")
	r.Finish("every input of each family is enumerated once (no sampling); non-trivial = ParseBase32 inputs containing a byte outside the alphabet, round-trip IDs >= 32 (multi-digit), generator configurations with at least one rejected random chunk, count-rule sets with >= 2 rules")
}

func byteClass(b byte) string {
	switch {
	case b < 32:
		return "invalid-byte-below-32"
	case b >= 'A' && b <= 'Z':
		return "invalid-byte-upper-case"
	default:
		return "invalid-byte-ge-32"
	}
}

func parseAll(r *common.Run) {
	// every byte string of length <= 3 over all 256 byte values
	r.Parallel(256, func(b0 int) {
		var ev, nt int64
		buf := make([]byte, 3)
		check := func(in []byte) {
			ev++
			bad := -1
			var want int64
			for i, c := range in {
				if digit[c] < 0 {
					bad = i
					break
				}
				want = want*32 + int64(digit[c])
			}
			var id randz.ID
			var err error
			_, st, p := common.Catch(func() { id, err = randz.ParseBase32(in) })
			if p {
				r.Violation("ParseBase32|panic", "ParseBase32 panicked", map[string]any{"input": fmt.Sprintf("%q", in), "stack": st}, "")
				return
			}
			if bad >= 0 {
				nt++
				if !errors.Is(err, randz.ErrInvalidBase32) {
					r.Violation("ParseBase32|no-error|"+byteClass(in[bad]),
						fmt.Sprintf("ParseBase32(%q) = %d, %v; want ErrInvalidBase32 (byte %#x is outside the alphabet)", in, id, err, in[bad]),
						map[string]any{"input": fmt.Sprintf("%q", in)},
						fmt.Sprintf("func TestReplay(t *testing.T) { if _, err := randz.ParseBase32([]byte(%q)); err == nil { t.Fatal(\"accepted\") } }", in))
				}
				return
			}
			// demanded for the numerals Base32 prints (no leading zero): the value. The empty input and
			// numerals with leading zeros are not outputs of Base32: rejecting them is within the
			// property, accepting them with another value is not.
			canon := len(in) > 0 && (in[0] != '0' || len(in) == 1)
			if (err != nil && canon) || (err == nil && int64(id) != want) {
				r.Violation("ParseBase32|wrong-value", fmt.Sprintf("ParseBase32(%q) = %d, %v; want %d", in, id, err, want), map[string]any{"input": string(in)}, "")
			}
		}
		if b0 == 0 {
			check(buf[:0])
		}
		buf[0] = byte(b0)
		check(buf[:1])
		for b1 := 0; b1 < 256; b1++ {
			buf[1] = byte(b1)
			check(buf[:2])
			for b2 := 0; b2 < 256; b2++ {
				buf[2] = byte(b2)
				check(buf[:3])
			}
		}
		r.Eval(ev)
		r.Nontrivial(nt)
	})
	r.SampleL("ParseBase32", map[string]any{"input": "\"7\\xffz\"", "want": "ErrInvalidBase32"})
	// longer inputs: one invalid byte (each of the 256 values) at each position of valid numerals of length 4..13
	for l := 4; l <= 13; l++ {
		for pos := 0; pos < l; pos++ {
			for b := 0; b < 256; b++ {
				in := []byte(strings.Repeat("z", l))
				in[0] = '1'
				in[pos] = byte(b)
				r.Eval(1)
				id, err := randz.ParseBase32(in)
				if digit[b] < 0 {
					r.Nontrivial(1)
					if !errors.Is(err, randz.ErrInvalidBase32) {
						r.Violation("ParseBase32|no-error|"+byteClass(byte(b)), fmt.Sprintf("ParseBase32(%q) = %d, %v; want ErrInvalidBase32", in, id, err), map[string]any{"input": fmt.Sprintf("%q", in)}, "")
					}
				} else if l == 13 && digit[in[0]] > 7 {
					// a numeral of 13 digits whose first digit exceeds 7 denotes no ID (it needs more than 63
					// bits): Base32 never prints it, nothing is demanded beyond not panicking
				} else if err != nil {
					r.Violation("ParseBase32|error-on-valid", fmt.Sprintf("ParseBase32(%q) error %v", in, err), map[string]any{"input": string(in)}, "")
				} else {
					var want int64
					for _, c := range in {
						want = want*32 + int64(digit[c])
					}
					if int64(id) != want {
						r.Violation("ParseBase32|wrong-value", fmt.Sprintf("ParseBase32(%q) = %d; want %d", in, id, want), map[string]any{"input": string(in)}, "")
					}
				}
			}
		}
	}
}

func canonical(s string) string {
	s = strings.TrimLeft(s, "0")
	if s == "" {
		return "0"
	}
	return s
}

func checkID(r *common.Run, v int64) {
	id := randz.ID(v)
	var s string
	_, st, p := common.Catch(func() { s = id.Base32() })
	if p {
		r.Violation("Base32|panic", "Base32 panicked", map[string]any{"id": v, "stack": st}, "")
		return
	}
	// independent numeral: big.Int base 32 uses 0-9a-v; map to the alphabet
	std := big.NewInt(v).Text(32)
	var want strings.Builder
	for _, c := range std {
		var d int
		if c <= '9' {
			d = int(c - '0')
		} else {
			d = int(c-'a') + 10
		}
		want.WriteByte(alphabet[d])
	}
	if s != want.String() {
		r.Violation("Base32|wrong-numeral", fmt.Sprintf("ID(%d).Base32() = %q, want %q", v, s, want.String()), map[string]any{"id": v}, "")
	}
	back, err := randz.ParseBase32([]byte(s))
	if err != nil || int64(back) != v {
		r.Violation("ParseBase32(Base32)|round-trip", fmt.Sprintf("ParseBase32(ID(%d).Base32()=%q) = %d, %v", v, s, back, err), map[string]any{"id": v}, "")
	}
	var b2, b36, b10 string
	if _, st, p := common.Catch(func() { b2, b36, b10 = id.Base2(), id.Base36(), id.String() }); p {
		r.Violation("Base2/Base36/String|panic", "Base2 / Base36 / String panicked", map[string]any{"id": v, "stack": st}, "")
		return
	}
	if got, w := b2, big.NewInt(v).Text(2); got != w {
		r.Violation("Base2|wrong-numeral", fmt.Sprintf("ID(%d).Base2() = %q want %q", v, got, w), map[string]any{"id": v}, "")
	}
	if got, w := b36, big.NewInt(v).Text(36); got != w {
		r.Violation("Base36|wrong-numeral", fmt.Sprintf("ID(%d).Base36() = %q want %q", v, got, w), map[string]any{"id": v}, "")
	}
	if got, w := b10, big.NewInt(v).Text(10); got != w {
		r.Violation("String|wrong-numeral", fmt.Sprintf("ID(%d).String() = %q want %q", v, got, w), map[string]any{"id": v}, "")
	}
	if id.Int64() != v {
		r.Violation("Int64|wrong", "Int64 differs", map[string]any{"id": v}, "")
	}
}

func roundTrip(r *common.Run) {
	lim := int64(1) << 20
	if r.Thorough() {
		lim = 1 << 24
	}
	shards := int64(64)
	r.Parallel(int(shards), func(i int) {
		lo, hi := lim*int64(i)/shards, lim*int64(i+1)/shards
		for v := lo; v < hi; v++ {
			checkID(r, v)
		}
		r.Eval(hi - lo)
		if hi > 32 {
			n := hi - lo
			if lo < 32 {
				n = hi - 32
			}
			r.Nontrivial(n)
		}
	})
	for k := 0; k <= 62; k++ {
		for _, d := range []int64{-1, 0, 1} {
			v := int64(1)<<k + d
			if v >= 0 {
				checkID(r, v)
				r.Eval(1)
				r.Nontrivial(1)
			}
		}
	}
	checkID(r, 1<<63-1)
	r.Eval(1)
	// every digit value in every digit position of 13-digit IDs (generator-sized values), three fillers
	for _, filler := range []string{"1000000000000", "1zzzzzzzzzzzz", "15a5a5a5a5a5a"} {
		for pos := 0; pos < 13; pos++ {
			for d := 0; d < 32; d++ {
				if pos == 0 && (d == 0 || d > 7) {
					continue // no leading zero; the leading digit of an int63 is at most 7
				}
				b := []byte(filler)
				b[pos] = alphabet[d]
				var v int64
				for _, c := range b {
					v = v*32 + int64(digit[c])
				}
				checkID(r, v)
				r.Eval(1)
				r.Nontrivial(1)
			}
		}
	}
	r.SampleL("round-trip", map[string]any{"id": int64(1)<<40 + 1, "base32": randz.ID(int64(1)<<40 + 1).Base32()})
	// every numeral of length <= 4 parses to its positional value and prints back canonically
	syms := make([]string, len(alphabet))
	for i := range syms {
		syms[i] = string(alphabet[i])
	}
	common.Strings(syms, 4, func(s string) {
		r.Eval(1)
		id, err := randz.ParseBase32([]byte(s))
		if err != nil {
			if s != "" && s == canonical(s) { // only the numerals Base32 prints must be accepted
				r.Violation("ParseBase32|error-on-valid", fmt.Sprintf("ParseBase32(%q) error %v", s, err), map[string]any{"input": s}, "")
			}
			return
		}
		if s != "" && id.Base32() != canonical(s) {
			r.Violation("Base32(ParseBase32)|round-trip", fmt.Sprintf("ParseBase32(%q)=%d prints as %q", s, id, id.Base32()), map[string]any{"input": s}, "")
		}
	})
}

type scriptReader struct {
	fill byte
	fail bool
	n    int
}

func (s *scriptReader) Read(p []byte) (int, error) {
	s.n++
	if s.fail {
		return 0, errors.New("scripted failure of crypto/rand.Reader")
	}
	for i := range p {
		p[i] = s.fill
	}
	return len(p), nil
}

func idGenerator(r *common.Run) {
	saved := srand.Reader
	defer func() { srand.Reader = saved }()
	const mask = int64(1)<<41 - 1
	type rd struct {
		name string
		mk   func() io.Reader
	}
	readers := []rd{
		{"zeros", func() io.Reader { return &scriptReader{fill: 0} }},
		{"ones", func() io.Reader { return &scriptReader{fill: 0xFF} }},
		{"0x55", func() io.Reader { return &scriptReader{fill: 0x55} }},
		{"error", func() io.Reader { return &scriptReader{fail: true} }},
		{"system", func() io.Reader { return saved }},
	}
	offsets := []struct {
		name string
		d    time.Duration
	}{{"now", 0}, {"-1ms", -time.Millisecond}, {"-1s", -time.Second}, {"-1y", -365 * 24 * time.Hour},
		{"-(2^40+7)ms", -time.Duration(int64(1)<<40+7) * time.Millisecond}, {"-(2^41-1000)ms", -time.Duration(int64(1)<<41-1000) * time.Millisecond},
		{"-(2^41+5)ms", -time.Duration(int64(1)<<41+5) * time.Millisecond}, {"+1s(future)", 5 * time.Second}}
	for randBit := -1; randBit <= 24; randBit++ {
		eff := randBit
		if eff <= 1 {
			eff = 16
		}
		if eff > 22 {
			eff = 22
		}
		for _, off := range offsets {
			for _, rdr := range readers {
				start := time.Now().Add(off.d)
				var g randz.IdGenerator
				if _, st, p := common.Catch(func() { g = randz.NewIdGenerator(start, randBit) }); p {
					r.Violation("NewIdGenerator|panic", fmt.Sprintf("NewIdGenerator(start, %d) panicked", randBit), map[string]any{"randBit": randBit, "stack": st}, "")
					continue
				}
				rd := rdr.mk()
				srand.Reader = rd
				var prev randz.ID = -1
				for rep := 0; rep < 2; rep++ {
					before := time.Since(start).Milliseconds()
					var id randz.ID
					_, st, p := common.Catch(func() { id = g.Generate() })
					after := time.Since(start).Milliseconds()
					r.Eval(1)
					c := map[string]any{"randBit": randBit, "start": off.name, "reader": rdr.name}
					if p {
						r.Violation("IdGenerator.Generate|panic", "Generate panicked", map[string]any{"case": c, "stack": st}, "")
						break
					}
					if id < 0 {
						r.Violation("IdGenerator.Generate|negative", fmt.Sprintf("Generate() = %d < 0", id), c, "")
					}
					// random part: below 2^randBit by construction of the split; the scripted reader pins it
					rnd := int64(id) & (int64(1)<<eff - 1)
					consulted := ""
					if sr, ok := rd.(*scriptReader); ok && sr.n > 0 {
						consulted = rdr.name // the scripted crypto/rand.Reader was really read: its answer pins the random part
					}
					switch consulted {
					case "zeros":
						if rnd != 0 {
							r.Violation("IdGenerator.Generate|random-part", fmt.Sprintf("random part %d with an all-zero source", rnd), c, "")
						}
					case "ones":
						if rnd != int64(1)<<eff-1 {
							r.Violation("IdGenerator.Generate|random-part", fmt.Sprintf("random part %d with an all-one source, want %d", rnd, int64(1)<<eff-1), c, "")
						}
					}
					ts := int64(id) >> eff
					if off.d <= 0 {
						// bracket (no wall-clock threshold): before-1 <= ts <= after+1, modulo 2^41 (one
						// millisecond of slack either way: elapsed time may be rounded or taken as a
						// difference of two truncated clock readings)
						if (ts-(before-1))&mask > (after-before+2) || ts > mask {
							r.Violation("IdGenerator.Generate|timestamp", fmt.Sprintf("id>>%d = %d not within the measured bracket [%d,%d] (mod 2^41)", eff, ts, before&mask, after&mask), c, "")
						}
						if rep == 1 && off.name != "-(2^41+5)ms" && id <= prev {
							r.Violation("IdGenerator.Generate|not-increasing", fmt.Sprintf("id %d taken >= 2ms after id %d is not larger", id, prev), c, "")
						}
					}
					prev = id
					if rdr.name == "error" || randBit > 22 || randBit <= 1 {
						r.Nontrivial(1)
					}
					if rep == 0 {
						time.Sleep(2 * time.Millisecond)
					}
				}
			}
		}
	}
	srand.Reader = saved
	r.SampleL("IdGenerator", map[string]any{"randBit": 24, "start": "-(2^41+5)ms", "reader": "ones"})
}

// scriptSource answers Int63 from a script, then from an accepting tail.
type scriptSource struct {
	script []int64
	i      int
}

var tail = []int64{0x123456789ABCDEF, 0}

func (s *scriptSource) Int63() int64 {
	var v int64
	if s.i < len(s.script) {
		v = s.script[s.i]
	} else {
		v = tail[(s.i-len(s.script))%len(tail)]
	}
	s.i++
	return v
}
func (s *scriptSource) Seed(int64) {}

// strGeneratorLarge: long outputs and set sizes around the index-bit boundaries (63/64/65 need 6/7
// bits, 127/128/129 and 255/256 need 7/8/9): script of <= 1 word, then the accepting tail.
func strGeneratorLarge(r *common.Run) {
	var pool []rune
	for c := rune(0x4e00); len(pool) < 300; c++ { // distinct 3-byte runes
		pool = append(pool, c)
	}
	menu := []int64{0, 1<<63 - 1, 0x5555555555555555}
	var n int64
	for _, size := range []int{63, 64, 65, 127, 128, 129, 255, 256, 257} {
		set := string(pool[:size])
		in := map[rune]bool{}
		for _, c := range set {
			in[c] = true
		}
		for sl := 0; sl <= 1; sl++ {
			for mi := range menu {
				if sl == 0 && mi > 0 {
					continue
				}
				for _, k := range []int{1, 8, 9, 10, 63, 64, 65, 1000} {
					n++
					src := &scriptSource{script: menu[mi : mi+sl]}
					var g randz.StrGenerator
					if _, st, p := common.Catch(func() { g = randz.NewStrGenerator(set, src) }); p {
						r.Violation("NewStrGenerator|panic", fmt.Sprintf("NewStrGenerator over a set of %d runes panicked", len([]rune(set))), map[string]any{"charset": set, "stack": st}, "")
						continue
					}
					var out string
					_, st, p := common.Catch(func() { out = g.Generate(k) })
					c := map[string]any{"charset_size": size, "script": menu[mi : mi+sl], "n": k}
					if p {
						r.Violation("StrGenerator.Generate|panic", "Generate panicked", map[string]any{"case": c, "stack": st}, "")
						continue
					}
					if cnt := utf8.RuneCountInString(out); cnt != k || !utf8.ValidString(out) {
						r.Violation("StrGenerator.Generate|length", fmt.Sprintf("Generate(%d) over a set of %d runes returned %d runes", k, size, cnt), c, "")
					}
					for _, ch := range out {
						if !in[ch] {
							r.Violation("StrGenerator.Generate|foreign-rune", fmt.Sprintf("Generate(%d) over a set of %d runes contains %q which is not in the set", k, size, ch), c, "")
							break
						}
					}
				}
			}
		}
	}
	r.Eval(n)
	r.Nontrivial(n)
	r.Section(map[string]any{"family": "StrGenerator: set sizes 63..257, lengths up to 1000", "cases": n})
}

func strGenerator(r *common.Run) {
	pool := []rune("ab世😀éZ0_-~" + "ABCDEFGHJKMNPQRSTUVWXYZ23456789")
	sizes := []int{1, 2, 3, 4, 5, 7, 8, 9, 31, 32, 33}
	menu := []int64{0, 1<<63 - 1, 0x5555555555555555, 0x2AAAAAAAAAAAAAAA, 1}
	maxN := 20
	for _, size := range sizes {
		set := string(pool[:size])
		in := map[rune]bool{}
		for _, c := range set {
			in[c] = true
		}
		for sl := 0; sl <= 3; sl++ {
			common.Seqs(len(menu), sl, func(idx []int) {
				script := make([]int64, sl)
				for i, k := range idx {
					script[i] = menu[k]
				}
				for n := 0; n <= maxN; n++ {
					src := &scriptSource{script: script}
					var g randz.StrGenerator
					if _, st, p := common.Catch(func() { g = randz.NewStrGenerator(set, src) }); p {
						r.Violation("NewStrGenerator|panic", fmt.Sprintf("NewStrGenerator over a set of %d runes panicked", len([]rune(set))), map[string]any{"charset": set, "stack": st}, "")
						continue
					}
					var out string
					_, st, p := common.Catch(func() { out = g.Generate(n) })
					r.Eval(1)
					c := map[string]any{"charset": set, "script": script, "n": n}
					if p {
						r.Violation("StrGenerator.Generate|panic", "Generate panicked", map[string]any{"case": c, "stack": st}, "")
						continue
					}
					if cnt := utf8.RuneCountInString(out); cnt != n || !utf8.ValidString(out) {
						r.Violation("StrGenerator.Generate|length", fmt.Sprintf("Generate(%d) returned %d runes: %q", n, cnt, out), c, "")
					}
					for _, ch := range out {
						if !in[ch] {
							r.Violation("StrGenerator.Generate|foreign-rune", fmt.Sprintf("Generate(%d) = %q contains %q which is not in the set", n, out, ch), c, "")
							break
						}
					}
					if size&(size+1) != 0 && sl > 0 && n > 0 {
						r.Nontrivial(1) // set size not 2^k-1: some chunk values are rejected
					}
				}
			})
		}
	}
	r.SampleL("StrGenerator", map[string]any{"charset": string(pool[:5]), "script": []int64{menu[1], menu[2]}, "n": 7})
}

type ruleT struct{ period, endIncr, interval, incr int }

func countGenerator(r *common.Run) {
	var rules []ruleT
	for p := 1; p <= 6; p++ {
		for iv := 1; iv <= 3; iv++ {
			for inc := 1; inc <= 3; inc++ {
				for e := 1; e <= 3; e += 2 {
					rules = append(rules, ruleT{p, e, iv, inc})
				}
			}
		}
	}
	// the id only enters through its hash modulo the increments (1..3): one id per residue 0..5 mod 6
	ids := []string{"", "a", "b", "c", "d", "e", "f", "zz"}
	run := func(set []ruleT) {
		var g randz.CountGenerator
		maxP := 0
		for ri, x := range set {
			g.AddRule(x.period, x.endIncr, x.interval, x.incr)
			if x.period > maxP {
				maxP = x.period
			}
			if ri < len(set)-1 {
				// history: the generator is queried between AddRule calls (every prefix of the rule
				// list is a rule set with positive parameters too); whatever these queries leave behind
				// must not influence the answers after the next AddRule
				for _, d := range []int{1, maxP, maxP + 1} {
					common.Catch(func() { g.Generate("a", d); g.Min(d); g.Max(d) })
				}
			}
		}
		for _, id := range ids {
			prev := 0
			for diff := -1; diff <= maxP+3; diff++ {
				var v, lo, hi int
				_, st, p := common.Catch(func() { v, lo, hi = g.Generate(id, diff), g.Min(diff), g.Max(diff) })
				c := map[string]any{"rules": fmt.Sprint(set), "id": id, "diff": diff}
				if p {
					r.Violation("CountGenerator|panic", "panicked", map[string]any{"case": c, "stack": st}, "")
					return
				}
				if v < lo || v > hi {
					r.Violation("CountGenerator.Generate|outside-min-max", fmt.Sprintf("Generate=%d not in [Min=%d, Max=%d]", v, lo, hi), c, "")
				}
				if diff > -1 && v < prev {
					r.Violation("CountGenerator.Generate|decreasing", fmt.Sprintf("Generate(diff=%d)=%d < Generate(diff=%d)=%d", diff, v, diff-1, prev), c, "")
				}
				prev = v
			}
		}
	}
	var ev, nt int64
	for i := range rules {
		run([]ruleT{rules[i]})
		ev++
	}
	for i := range rules {
		for j := range rules {
			run([]ruleT{rules[i], rules[j]})
			ev++
			nt++
		}
	}
	if r.Thorough() {
		// three rules: thinner menu to keep the cube enumerable
		var thin []ruleT
		for _, x := range rules {
			if x.endIncr == 1 || (x.interval == 2 && x.incr == 3) {
				thin = append(thin, x)
			}
		}
		for i := range thin {
			for j := range thin {
				for k := range thin {
					run([]ruleT{thin[i], thin[j], thin[k]})
					ev++
					nt++
				}
			}
		}
	}
	// insertion orders: three and four rules with pairwise distinct periods, added in EVERY order (a rule
	// set is a set: an AddRule that inserts in front of one, two or three rules already present must
	// leave the same generator as one that appends), parameters from a thinner menu
	for _, periods := range [][]int{{2, 4, 7}, {2, 4, 7, 11}} {
		k := len(periods)
		common.Perms(k, func(order []int) {
			choice := make([]int, k)
			var rec func(i int)
			rec = func(i int) {
				if i == k {
					set := make([]ruleT, k)
					for pos, which := range order {
						c := choice[which]
						set[pos] = ruleT{periods[which], 1 + 2*(c&1), 1 + which%2, 1 + 2*((c>>1)&1)} // interval 1 / 2 alternating by rule
					}
					run(set)
					ev++
					nt++
					return
				}
				for c := 0; c < 4; c++ {
					choice[i] = c
					rec(i + 1)
				}
			}
			rec(0)
		})
	}
	r.Eval(ev)
	r.Nontrivial(nt)
	r.SampleL("CountGenerator", map[string]any{"rules": "[{3 1 2 3} {6 3 1 2}]", "id": "zz", "diffs": "-1..9"})
}
