package main

import (
	"fmt"
	"time"
	"unicode/utf8"

	"verif/common"

	"github.com/welllog/golib/randz"
)

// The package-level entry points are the same generators behind a default instance:
// SetIdGeneratorStartTime + Id (documented layout: 18 random bits), SetStrGeneratorCharSet +
// String, and NewLockRandSource as the source of a StrGenerator. Same oracles as for the types.
func packageLevel(r *common.Run) {
	const mask = int64(1)<<41 - 1
	var n int64
	// ---- Id
	for _, off := range []time.Duration{0, -time.Second, -365 * 24 * time.Hour, -time.Duration(int64(1)<<40+7) * time.Millisecond} {
		start := time.Now().Add(off)
		randz.SetIdGeneratorStartTime(start)
		var prev randz.ID = -1
		for rep := 0; rep < 2; rep++ {
			n++
			before := time.Since(start).Milliseconds()
			var id randz.ID
			_, st, p := common.Catch(func() { id = randz.Id() })
			after := time.Since(start).Milliseconds()
			c := map[string]any{"start_offset": off.String()}
			if p {
				r.Violation("Id|panic", "randz.Id panicked", map[string]any{"case": c, "stack": st}, "")
				break
			}
			ts := int64(id) >> 18
			if id < 0 {
				r.Violation("Id|negative", fmt.Sprintf("Id() = %d < 0", id), c, "")
			}
			if (ts-(before-1))&mask > (after-before+2) || ts > mask {
				r.Violation("Id|timestamp", fmt.Sprintf("after SetIdGeneratorStartTime(now%s): Id()>>18 = %d not within the bracket [%d,%d] measured around the call (mod 2^41)", off, ts, before&mask, after&mask), c, "")
			}
			if rep == 1 && id <= prev {
				r.Violation("Id|not-increasing", fmt.Sprintf("Id() %d taken >= 2ms after %d is not larger", id, prev), c, "")
			}
			prev = id
			if rep == 0 {
				time.Sleep(2 * time.Millisecond)
			}
		}
	}
	// ---- String
	pool := []rune("ab世😀éZ0_-~" + "ABCDEFGHJKMNPQRSTUVWXYZ23456789")
	sets := []string{randz.CHAR_SET, randz.CHAR_LOWER_SET}
	for _, size := range []int{1, 2, 3, 5, 9, 33} {
		sets = append(sets, string(pool[:size]))
	}
	for _, set := range sets {
		in := map[rune]bool{}
		for _, c := range set {
			in[c] = true
		}
		randz.SetStrGeneratorCharSet(set)
		for _, k := range []int{0, 1, 2, 7, 12, 13, 14, 31, 64} {
			for rep := 0; rep < 3; rep++ {
				n++
				var out string
				_, st, p := common.Catch(func() { out = randz.String(k) })
				c := map[string]any{"charset": set, "n": k}
				if p {
					r.Violation("String|panic", "randz.String panicked", map[string]any{"case": c, "stack": st}, "")
					continue
				}
				if cnt := utf8.RuneCountInString(out); cnt != k || !utf8.ValidString(out) {
					r.Violation("String|length", fmt.Sprintf("after SetStrGeneratorCharSet(%q): String(%d) returned %d runes: %q", set, k, cnt, out), c, "")
				}
				for _, ch := range out {
					if !in[ch] {
						r.Violation("String|foreign-rune", fmt.Sprintf("after SetStrGeneratorCharSet(%q): String(%d) = %q contains %q which is not in the set", set, k, out, ch), c, "")
						break
					}
				}
			}
		}
	}
	randz.SetStrGeneratorCharSet(randz.CHAR_SET)
	// ---- LockRandSource under a StrGenerator: seeds 0..63, the shape must hold for whatever it answers
	for seed := int64(0); seed < 64; seed++ {
		src := randz.NewLockRandSource(seed)
		if seed%2 == 1 {
			src.Seed(seed * 7919)
		}
		var g randz.StrGenerator
		if _, _, p := common.Catch(func() { g = randz.NewStrGenerator("abc世", src) }); p {
			break // reported by the sequential family
		}
		for _, k := range []int{0, 1, 5, 40} {
			n++
			out := g.Generate(k)
			if cnt := utf8.RuneCountInString(out); cnt != k {
				r.Violation("StrGenerator.Generate|length|LockRandSource", fmt.Sprintf("Generate(%d) over NewLockRandSource(%d) returned %d runes", k, seed, cnt), map[string]any{"seed": seed, "n": k}, "")
			}
			for _, ch := range out {
				if ch != 'a' && ch != 'b' && ch != 'c' && ch != '世' {
					r.Violation("StrGenerator.Generate|foreign-rune|LockRandSource", fmt.Sprintf("Generate(%d) = %q", k, out), map[string]any{"seed": seed, "n": k}, "")
					break
				}
			}
		}
		if v := src.Int63(); v < 0 {
			r.Violation("LockRandSource.Int63|negative", fmt.Sprintf("Int63() = %d", v), map[string]any{"seed": seed}, "")
		}
	}
	r.Eval(n)
	r.Nontrivial(n)
	r.Section(map[string]any{"family": "package-level entry points: SetIdGeneratorStartTime+Id, SetStrGeneratorCharSet+String (the real random sources: the shape must hold for whatever they answer), NewLockRandSource", "cases": n})
}
