package main

import (
	"errors"
	"fmt"

	"github.com/welllog/golib/randz"
)

func coldProbes() map[string]func() string {
	return map[string]func() string{
		"ParseBase32": func() string {
			for _, in := range []string{"A", " ", "\xff", "\x00", "i", "l", "o"} {
				if _, err := randz.ParseBase32([]byte(in)); !errors.Is(err, randz.ErrInvalidBase32) {
					return fmt.Sprintf("ParseBase32(%q) did not return ErrInvalidBase32 (err %v)", in, err)
				}
			}
			if id, err := randz.ParseBase32([]byte("10")); err != nil || id != 32 {
				return fmt.Sprintf("ParseBase32(\"10\") = %d, %v", id, err)
			}
			return ""
		},
		"ID.Base32": func() string {
			if s := randz.ID(1<<60 + 33).Base32(); s != "1000000000011" {
				return fmt.Sprintf("ID(2^60+33).Base32() = %q", s)
			}
			return ""
		},
		// the locked random source and the default generators run in a child of their own: a lock
		// that is unlocked twice ends the process, one that is never released ends nothing
		"LockRandSource+String": func() string {
			src := randz.NewLockRandSource(7)
			for i := 0; i < 3; i++ {
				if v := src.Int63(); v < 0 {
					return fmt.Sprintf("LockRandSource.Int63() = %d", v)
				}
				src.Seed(int64(i))
			}
			g := randz.NewStrGenerator("abc", src)
			for _, n := range []int{0, 1, 30} {
				if out := g.Generate(n); len(out) != n {
					return fmt.Sprintf("Generate(%d) over a LockRandSource returned %q", n, out)
				}
			}
			for _, n := range []int{0, 1, 30} {
				if out := randz.String(n); len(out) != n {
					return fmt.Sprintf("String(%d) returned %q", n, out)
				}
			}
			if id := randz.Id(); id < 0 {
				return fmt.Sprintf("Id() = %d", id)
			}
			return ""
		},
		"CountGenerator": func() string {
			var g randz.CountGenerator
			g.AddRule(3, 1, 1, 2)
			g.AddRule(6, 2, 2, 3)
			for d := 0; d < 9; d++ {
				if v, lo, hi := g.Generate("a", d), g.Min(d), g.Max(d); v < lo || v > hi {
					return fmt.Sprintf("Generate(%d) = %d outside [%d,%d]", d, v, lo, hi)
				}
			}
			return ""
		},
	}
}
