// C17 — rune-aware string helpers of strz/strs.go never split a rune and match rune-slice
// definitions. Bounded-exhaustive enumeration of texts and arguments (engine E3).
//
// Families (every input is executed once, nothing is sampled):
//
//	A  valid texts: every string of <= 5 (thorough 7) runes over {a, B, é, 世, 😀, _}
//	B  arbitrary bytes: every byte string of <= 5 (thorough 7) bytes over
//	   {a, FF, C3, A9, E4, B8, F0, 9F} that is not already in A
//	C  identifiers w(_w)* with <= 3 words over {a, ab, a1, b2c} that are not already in A
//
// For every text: Len, Rev, Sub(start 0..N+2, length -1..N+2), Mask(4 masks, start/end 0..N+2),
// SubByDisplay(limit 0..2N+2), RemoveRunes(3 predicates), UcFirst, LcFirst,
// SnakeToCamelCase(false/true), CamelCaseToSnake. N = rune count (valid text) or byte count.
//
// What is demanded (and nothing more, see DESIGN.md "Soundness register"):
//   - no call panics, whatever the text (arguments are non-negative, except length -1 of Sub);
//   - for VALID texts only: the rune-slice definitions of the property statement and valid UTF-8
//     results; for texts that are not valid UTF-8 nothing beyond the absence of panics;
//   - Mask with start+end >= rune count: only that the first/last runes are kept;
//     the empty mask: only the absence of panics;
//   - UcFirst/LcFirst/SnakeToCamelCase/CamelCaseToSnake on arbitrary texts: no panic, valid UTF-8
//     for valid text; the round trip only for [a-z][a-z0-9]*(_[a-z][a-z0-9]*)*.
package main

import (
	"fmt"
	"math"
	"sort"
	"strings"
	"sync/atomic"
	"unicode/utf8"

	"verif/common"

	"github.com/welllog/golib/strz"
)

const (
	classValid   = "text-valid-utf8"
	classInvalid = "text-not-valid-utf8"
)

// ---------------------------------------------------------------------------------------------
// per-shard bookkeeping: counters are local, violations are buffered and merged in input order so
// that the reported counterexample of every signature is the first one of the enumeration order
// (shortest text, simplest symbols, smallest arguments) whatever the goroutine interleaving.

type vrec struct {
	sig, what, goTest string
	c                 any
	idx               int64 // global position of the text in the enumeration
	count             int64
}

type shard struct {
	last   lastResult
	ev, nt int64
	viol   map[string]*vrec
	order  []string
}

func (sh *shard) fail(idx int64, sig string, detail func() (what string, c any, goTest string)) {
	if v := sh.viol[sig]; v != nil {
		v.count++
		return
	}
	if sh.viol == nil {
		sh.viol = map[string]*vrec{}
	}
	what, c, gt := detail()
	sh.viol[sig] = &vrec{sig: sig, what: what, c: c, goTest: gt, idx: idx, count: 1}
	sh.order = append(sh.order, sig)
}

func merge(r *common.Run, shards []*shard) {
	best := map[string]*vrec{}
	for _, sh := range shards {
		if sh == nil {
			continue
		}
		for _, sig := range sh.order {
			v := sh.viol[sig]
			if b := best[sig]; b == nil {
				cp := *v
				best[sig] = &cp
			} else {
				if v.idx < b.idx {
					b.what, b.c, b.goTest, b.idx = v.what, v.c, v.goTest, v.idx
				}
				b.count += v.count
			}
		}
	}
	sigs := make([]string, 0, len(best))
	for s := range best {
		sigs = append(sigs, s)
	}
	sort.Slice(sigs, func(i, j int) bool {
		a, b := best[sigs[i]], best[sigs[j]]
		if a.idx != b.idx {
			return a.idx < b.idx
		}
		return a.sig < b.sig
	})
	for _, s := range sigs {
		v := best[s]
		for k := int64(0); k < v.count; k++ { // the library counts calls per signature
			r.Violation(v.sig, v.what, v.c, v.goTest)
		}
	}
}

// ---------------------------------------------------------------------------------------------
// independent definitions on []rune

// extreme non-negative arguments ("beyond the rune count" has no upper end)
var extremes = []int{math.MaxInt32, math.MaxInt/2 + 1, math.MaxInt - 1, math.MaxInt}

// argRange lists from..N+2 and, for the rune-index arguments, the extremes.
func argRange(N, from int) []int {
	var out []int
	for v := from; v <= N+2; v++ {
		out = append(out, v)
	}
	if from <= 0 && N <= 4 { // the extremes multiply the tuple count: on the short texts only
		out = append(out, extremes...)
	}
	return out
}

func subWant(rs []rune, start, length int) string {
	n := len(rs)
	if start >= n {
		return ""
	}
	end := n
	if length >= 0 && length < n-start { // no overflow for huge lengths
		end = start + length
	}
	return string(rs[start:end])
}

func displayWidth(c rune) int {
	if c < 0x80 {
		return 1
	}
	return 2
}

func subByDisplayWant(rs []rune, limit int) string {
	w, k := 0, 0
	for k < len(rs) && w+displayWidth(rs[k]) <= limit {
		w += displayWidth(rs[k])
		k++
	}
	return string(rs[:k])
}

func revWant(rs []rune) string {
	out := make([]rune, len(rs))
	for i, c := range rs {
		out[len(rs)-1-i] = c
	}
	return string(out)
}

func removeWant(rs []rune, pred func(rune) bool) string {
	var out []rune
	for _, c := range rs {
		if !pred(c) {
			out = append(out, c)
		}
	}
	return string(out)
}

// isSnakeIdent: [a-z][a-z0-9]*(_[a-z][a-z0-9]*)*
func isSnakeIdent(s string) bool {
	if s == "" {
		return false
	}
	wordStart := true
	for i := 0; i < len(s); i++ {
		b := s[i]
		switch {
		case b >= 'a' && b <= 'z':
			wordStart = false
		case b >= '0' && b <= '9':
			if wordStart {
				return false
			}
		case b == '_':
			if wordStart {
				return false
			}
			wordStart = true
		default:
			return false
		}
	}
	return !wordStart
}

type predT struct {
	name string
	fn   func(rune) bool
}

var preds = []predT{
	{"non-ASCII (r >= 0x80)", func(c rune) bool { return c >= 0x80 }},
	{"r in {a, 世, _}", func(c rune) bool { return c == 'a' || c == '世' || c == '_' }},
	{"every rune", func(c rune) bool { return true }},
}

var predSrc = []string{
	"func(r rune) bool { return r >= 0x80 }",
	"func(r rune) bool { return r == 'a' || r == '世' || r == '_' }",
	"func(r rune) bool { return true }",
}

// masks: "*" and "世" are single-rune masks (one per replaced rune), "ab" is inserted once,
// "" is unspecified by the property (no-panic only).
var masks = []string{"*", "世", "ab", ""}

func testSrc(call, want string) string {
	if want == "" {
		return fmt.Sprintf("func TestReplayC17(t *testing.T) { _ = %s /* must not panic */ }", call)
	}
	return fmt.Sprintf("func TestReplayC17(t *testing.T) { if got := %s; got != %s { t.Fatalf(\"got %%q\", got) } }", call, want)
}

// ---------------------------------------------------------------------------------------------

type checker struct {
	sh  *shard
	idx int64
	s   string
	cls string
}

// a returned string is a value: it must not change when the library is called again (a result
// built in a recycled buffer would). The previous result of each shard is kept with a private
// copy and compared after the next call.
type lastResult struct {
	got, clone, fn string
	src            func() string
}

func (k *checker) panicked(fn, call, stack string, val any) {
	k.sh.fail(k.idx, fn+"|panic|"+k.cls, func() (string, any, string) {
		return fmt.Sprintf("%s panicked: %v (at %s); want no panic on any input", call, val, common.PanicSite(stack)),
			map[string]any{"call": call, "text": fmt.Sprintf("%q", k.s), "panic": fmt.Sprint(val), "site": common.PanicSite(stack)},
			testSrc("strz."+call, "")
	})
}

// str runs a string-valued golib call; ok=false if it panicked (already reported).
func (k *checker) str(fn string, call func() string, src func() string) (got string, ok bool) {
	val, st, p := common.Catch(func() { got = call() })
	if l := &k.sh.last; l.got != l.clone {
		lf, lc, lg, lcl := l.fn, l.src(), l.got, l.clone
		k.sh.fail(k.idx, lf+"|result-changed-after-a-later-call|"+k.cls, func() (string, any, string) {
			return fmt.Sprintf("the string returned by %s was %q and reads %q after the next library call (%s)", lc, lcl, lg, src()),
				map[string]any{"first_call": lc, "next_call": src(), "was": lcl, "now": fmt.Sprintf("%q", lg)}, ""
		})
	}
	if p {
		k.sh.last = lastResult{}
		k.panicked(fn, src(), st, val)
		return "", false
	}
	if len(got) > 0 && len(got) <= 64 {
		k.sh.last = lastResult{got: got, clone: strings.Clone(got), fn: fn, src: src}
	} else {
		k.sh.last = lastResult{}
	}
	return got, true
}

// exact: for valid text the result must equal want (want is valid UTF-8 by construction, so the
// "valid UTF-8 result" clause is implied).
func (k *checker) exact(fn, got, want string, src func() string) {
	if got == want {
		return
	}
	kind := "wrong-result"
	if !utf8.ValidString(got) {
		kind = "result-not-valid-utf8"
	}
	k.sh.fail(k.idx, fn+"|"+kind+"|"+k.cls, func() (string, any, string) {
		c := src()
		return fmt.Sprintf("%s = %q, want %q", c, got, want),
			map[string]any{"call": c, "text": k.s, "got": fmt.Sprintf("%q", got), "want": want},
			testSrc("strz."+c, fmt.Sprintf("%q", want))
	})
}

func (k *checker) validOut(fn, got string, src func() string) {
	if utf8.ValidString(got) {
		return
	}
	k.sh.fail(k.idx, fn+"|result-not-valid-utf8|"+k.cls, func() (string, any, string) {
		c := src()
		return fmt.Sprintf("%s = %q is not valid UTF-8 although the text is", c, got),
			map[string]any{"call": c, "text": k.s, "got": fmt.Sprintf("%q", got)}, ""
	})
}

func hasNonASCII(s string) bool {
	for i := 0; i < len(s); i++ {
		if s[i] >= 0x80 {
			return true
		}
	}
	return false
}

// checkText runs every entry point on one text.
func checkText(sh *shard, idx int64, s string) {
	valid := utf8.ValidString(s)
	k := &checker{sh: sh, idx: idx, s: s, cls: classInvalid}
	var rs []rune
	N := len(s) // argument range for texts that are not valid UTF-8: byte count (>= rune count)
	if valid {
		k.cls = classValid
		rs = []rune(s)
		N = len(rs)
	}
	multi := hasNonASCII(s)
	var ev, nt int64

	// Len
	{
		ev++
		if multi {
			nt++
		}
		var got int
		val, st, p := common.Catch(func() { got = strz.Len(s) })
		if p {
			k.panicked("Len", fmt.Sprintf("Len(%q)", s), st, val)
		} else if valid && got != N {
			sh.fail(idx, "Len|wrong-result|"+k.cls, func() (string, any, string) {
				return fmt.Sprintf("Len(%q) = %d, want %d runes", s, got, N), map[string]any{"text": s, "got": got, "want": N},
					fmt.Sprintf("func TestReplayC17(t *testing.T) { if got := strz.Len(%q); got != %d { t.Fatal(got) } }", s, N)
			})
		}
	}
	// Rev
	{
		ev++
		if multi {
			nt++
		}
		src := func() string { return fmt.Sprintf("Rev(%q)", s) }
		if got, ok := k.str("Rev", func() string { return strz.Rev(s) }, src); ok && valid {
			k.exact("Rev", got, revWant(rs), src)
		}
	}
	// Sub
	for _, start := range argRange(N, 0) {
		for _, length := range argRange(N, -1) {
			ev++
			// non-trivial: a proper cut of a text with a multi-byte rune / invalid byte
			if multi && start < N && length != 0 && !(start == 0 && (length == -1 || length >= N)) {
				nt++
			}
			start, length := start, length
			src := func() string { return fmt.Sprintf("Sub(%q, %d, %d)", s, start, length) }
			if got, ok := k.str("Sub", func() string { return strz.Sub(s, start, length) }, src); ok && valid {
				k.exact("Sub", got, subWant(rs, start, length), src)
			}
		}
	}
	// Mask
	for _, mask := range masks {
		mrs := []rune(mask)
		for _, start := range argRange(N, 0) {
			for _, end := range argRange(N, 0) {
				ev++
				if multi && start < N && end < N && start+end < N {
					nt++
				}
				mask, start, end := mask, start, end
				src := func() string { return fmt.Sprintf("Mask(%q, %q, %d, %d)", s, mask, start, end) }
				got, ok := k.str("Mask", func() string { return strz.Mask(s, mask, start, end) }, src)
				if !ok || !valid || mask == "" {
					continue // empty mask / invalid text: absence of panics only
				}
				if start < N && end < N && start+end < N {
					// runes [start, N-end) are replaced: one mask rune each, or a multi-rune mask once
					var mid string
					if len(mrs) == 1 {
						mid = strings.Repeat(mask, N-start-end)
					} else {
						mid = mask
					}
					k.exact("Mask", got, string(rs[:start])+mid+string(rs[N-end:]), src)
					continue
				}
				// nothing lies between the kept parts: the statement only determines that the first
				// `start` and last `end` runes (as many as exist) are kept and the result is UTF-8
				k.validOut("Mask", got, src)
				ps, pe := start, end
				if ps > N {
					ps = N
				}
				if pe > N {
					pe = N
				}
				if !strings.HasPrefix(got, string(rs[:ps])) || !strings.HasSuffix(got, string(rs[N-pe:])) {
					sh.fail(idx, "Mask|kept-runes-not-kept|"+k.cls, func() (string, any, string) {
						c := src()
						return fmt.Sprintf("%s = %q does not keep the first %d and last %d runes", c, got, ps, pe),
							map[string]any{"call": c, "text": s, "got": fmt.Sprintf("%q", got)}, ""
					})
				}
			}
		}
	}
	// SubByDisplay
	for _, limit := range append(argRange(2*N, 0), extremes...) {
		ev++
		if multi && limit >= 1 && limit < len(s) {
			nt++
		}
		limit := limit
		src := func() string { return fmt.Sprintf("SubByDisplay(%q, %d)", s, limit) }
		if got, ok := k.str("SubByDisplay", func() string { return strz.SubByDisplay(s, limit) }, src); ok && valid {
			k.exact("SubByDisplay", got, subByDisplayWant(rs, limit), src)
		}
	}
	// RemoveRunes
	for pi, pr := range preds {
		ev++
		if multi && pi < 2 {
			nt++
		}
		pi, pr := pi, pr
		src := func() string { return fmt.Sprintf("RemoveRunes(%q, %s)", s, predSrc[pi]) }
		if got, ok := k.str("RemoveRunes", func() string { return strz.RemoveRunes(s, pr.fn) }, src); ok && valid {
			k.exact("RemoveRunes", got, removeWant(rs, pr.fn), src)
		}
	}
	// UcFirst / LcFirst / CamelCaseToSnake: no panic; valid UTF-8 for valid text
	for _, f := range []struct {
		name string
		fn   func(string) string
	}{{"UcFirst", strz.UcFirst}, {"LcFirst", strz.LcFirst}, {"CamelCaseToSnake", strz.CamelCaseToSnake}} {
		ev++
		if multi {
			nt++
		}
		f := f
		src := func() string { return fmt.Sprintf("%s(%q)", f.name, s) }
		if got, ok := k.str(f.name, func() string { return f.fn(s) }, src); ok && valid {
			k.validOut(f.name, got, src)
		}
	}
	// SnakeToCamelCase (+ round trip for identifiers)
	ident := isSnakeIdent(s)
	if ident {
		// history: spellings that differ from the identifier only in the case of one letter (and map
		// to the same camel form) are converted first; the round trip below must not be influenced
		// by what the library was asked before
		for i := 0; i < len(s); i++ {
			if s[i] >= 'a' && s[i] <= 'z' {
				v := s[:i] + string(s[i]-'a'+'A') + s[i+1:]
				for _, up := range []bool{false, true} {
					ev++
					up := up
					k.str("SnakeToCamelCase", func() string { return strz.SnakeToCamelCase(v, up) }, func() string { return fmt.Sprintf("SnakeToCamelCase(%q, %v)", v, up) })
				}
			}
		}
	}
	for _, up := range []bool{false, true} {
		ev++
		if multi || (ident && strings.Contains(s, "_")) {
			nt++
		}
		up := up
		src := func() string { return fmt.Sprintf("SnakeToCamelCase(%q, %v)", s, up) }
		camel, ok := k.str("SnakeToCamelCase", func() string { return strz.SnakeToCamelCase(s, up) }, src)
		if !ok {
			continue
		}
		if valid {
			k.validOut("SnakeToCamelCase", camel, src)
		}
		if !ident {
			continue
		}
		src2 := func() string { return fmt.Sprintf("CamelCaseToSnake(SnakeToCamelCase(%q, %v))", s, up) }
		back, ok := k.str("CamelCaseToSnake(SnakeToCamelCase)", func() string { return strz.CamelCaseToSnake(camel) }, src2)
		if ok && back != s {
			sh.fail(idx, fmt.Sprintf("CamelCaseToSnake(SnakeToCamelCase)|round-trip|firstUp=%v|snake-identifier", up), func() (string, any, string) {
				return fmt.Sprintf("%s = %q (camel form %q), want %q", src2(), back, camel, s),
					map[string]any{"identifier": s, "firstUp": up, "camel": camel, "got": back},
					testSrc("strz."+src2(), fmt.Sprintf("%q", s))
			})
		}
	}
	sh.ev += ev
	sh.nt += nt
}

// ---------------------------------------------------------------------------------------------

func runFamily(r *common.Run, texts []string, base int64, what string) (*shard, []*shard, bool) {
	const chunks = 512
	shards := make([]*shard, chunks)
	var cut atomic.Bool
	r.Parallel(chunks, func(i int) {
		sh := &shard{}
		shards[i] = sh
		lo, hi := len(texts)*i/chunks, len(texts)*(i+1)/chunks
		for j := lo; j < hi; j++ {
			if j&63 == 0 && r.Expired() {
				cut.Store(true)
				break
			}
			checkText(sh, base+int64(j), texts[j])
		}
	})
	tot := &shard{}
	for _, sh := range shards {
		tot.ev += sh.ev
		tot.nt += sh.nt
	}
	if cut.Load() {
		r.Incomplete(what + ": deadline reached before the enumeration was complete")
	}
	return tot, shards, cut.Load()
}

func main() {
	r := common.Start("C17", "model_checking")

	maxRunes, maxBytes := 5, 5
	if r.Thorough() {
		maxRunes, maxBytes = 7, 7
	}
	// one rune per UTF-8 lead-byte class: ASCII (incl. its last value 0x7F), C2..CF (é), D0..DF (я), E0..EF (世), F0..F4 (😀)
	runeAlpha := []string{"a", "B", "\x7f", "é", "я", "世", "😀", "_", "\uFFFD"} // U+FFFD: a well-formed rune that decoders also use as their error value
	byteAlpha := []string{"a", "\x7f", "\xff", "\xc3", "\xa9", "\xd1", "\xe4", "\xb8", "\xf0", "\x9f"}

	// family A
	famA := common.AllStrings(runeAlpha, maxRunes)
	inA := func(s string) bool { // is s a member of family A?
		if !utf8.ValidString(s) || utf8.RuneCountInString(s) > maxRunes {
			return false
		}
		for _, c := range s {
			if !strings.ContainsRune(strings.Join(runeAlpha, ""), c) {
				return false
			}
		}
		return true
	}
	// family B: byte strings not already in A (the valid ones over {a, é} with few runes are)
	var famB []string
	var bValid int64
	common.Strings(byteAlpha, maxBytes, func(s string) {
		if inA(s) {
			return
		}
		if utf8.ValidString(s) {
			bValid++
		}
		famB = append(famB, s)
	})
	// family C: identifiers w(_w)* not already in A
	// z, 9, 0 are the upper / lower ends of the character ranges the converters compare with
	words := []string{"a", "ab", "a1", "b2c", "z", "za9", "y0z"}
	var famC []string
	for nw := 1; nw <= 3; nw++ {
		common.Seqs(len(words), nw, func(idx []int) {
			parts := make([]string, nw)
			for i, w := range idx {
				parts[i] = words[w]
			}
			id := strings.Join(parts, "_")
			if !isSnakeIdent(id) {
				common.Infra("generated identifier %q is outside the recorded grammar", id)
			}
			if !inA(id) {
				famC = append(famC, id)
			}
		})
	}
	// family D: the first and the last rune of every encoding length (the values the code compares
	// with: utf8.RuneSelf = U+0080 is the first rune that is NOT ASCII), texts not already in A
	edgeAlpha := []string{"a", "\x7f", "\u0080", "\u07ff", "\u0800", "\ud7ff", "\ue000", "\uffff", "\U00010000", "\U0010ffff"}
	edgeRunes := 3
	if r.Thorough() {
		edgeRunes = 4
	}
	var famD []string
	for _, s := range common.AllStrings(edgeAlpha, edgeRunes) {
		if !inA(s) {
			famD = append(famD, s)
		}
	}
	var identsInA int64
	for _, s := range famA {
		if isSnakeIdent(s) {
			identsInA++
		}
	}

	var all []*shard
	ta, sa, _ := runFamily(r, famA, 0, "family A (valid texts)")
	all = append(all, sa...)
	tb, sb, _ := runFamily(r, famB, int64(len(famA)), "family B (arbitrary bytes)")
	all = append(all, sb...)
	tc, sc, _ := runFamily(r, famC, int64(len(famA)+len(famB)), "family C (snake identifiers)")
	all = append(all, sc...)
	td, sd, _ := runFamily(r, famD, int64(len(famA)+len(famB)+len(famC)), "family D (encoding-length boundary runes)")
	all = append(all, sd...)
	r.Eval(ta.ev + tb.ev + tc.ev + td.ev)
	r.Nontrivial(ta.nt + tb.nt + tc.nt + td.nt)

	r.Section(map[string]any{"family": "A valid texts", "alphabet": strings.Join(runeAlpha, " "), "max_runes": maxRunes, "texts": len(famA), "cases": ta.ev, "nontrivial": ta.nt, "snake_identifiers_round_tripped": identsInA})
	r.Section(map[string]any{"family": "B arbitrary bytes", "alphabet": fmt.Sprintf("% X", strings.Join(byteAlpha, "")), "max_bytes": maxBytes, "texts": len(famB), "of_which_valid_utf8": bValid, "cases": tb.ev, "nontrivial": tb.nt})
	r.Section(map[string]any{"family": "C snake identifiers", "words": strings.Join(words, " "), "max_words": 3, "texts": len(famC), "cases": tc.ev, "nontrivial": tc.nt})
	r.Section(map[string]any{"family": "D encoding-length boundary runes", "alphabet": fmt.Sprintf("%+q", edgeAlpha), "max_runes": edgeRunes, "texts": len(famD), "cases": td.ev, "nontrivial": td.nt})

	r.SampleL("valid", map[string]any{"call": "Sub(\"a世😀é_\", 1, 3)", "want": "世😀é"})
	r.SampleL("valid", map[string]any{"call": "Mask(\"Bé世😀a\", \"ab\", 1, 2)", "want": "Bab😀a"})
	r.SampleL("valid-display", map[string]any{"call": "SubByDisplay(\"a世é\", 4)", "want": "a世"})
	r.SampleL("bytes", map[string]any{"call": "SubByDisplay(\"\\xff\\xffaaa\", 4)", "want": "no panic"})
	r.SampleL("bytes", map[string]any{"call": "Mask(\"\\xe4\\xb8a\\xf0\\x9f\", \"世\", 1, 1)", "want": "no panic"})
	r.SampleL("round-trip", map[string]any{"call": "CamelCaseToSnake(SnakeToCamelCase(\"ab_b2c_a1\", true))", "want": "ab_b2c_a1"})

	merge(r, all)

	r.Assume(
		fmt.Sprintf("small-scope: valid texts of <= %d runes over {%s}; byte strings of <= %d bytes over {% X}; start/length/end 0..N+2 (length also -1) and, on texts of <= 4 runes, MaxInt32, MaxInt/2+1, MaxInt-1, MaxInt; display limit 0..2N+2 and the same extremes; N = rune count (valid text) or byte count", maxRunes, strings.Join(runeAlpha, ","), maxBytes, strings.Join(byteAlpha, "")),
		"negative start/end/limit and length < -1 are outside the property (\"non-negative arguments\") and are not run",
		"texts that are not valid UTF-8: only the absence of panics is demanded (results are not compared)",
		"Mask: exact result only when start+end < rune count; otherwise only 'the first start / last end runes are kept' and valid UTF-8; the empty mask is run for absence of panics only; masks \"*\" and \"世\" (one per replaced rune) and \"ab\" (once)",
		"UcFirst, LcFirst, SnakeToCamelCase, CamelCaseToSnake on arbitrary text: no panic and valid UTF-8 for valid text; the round trip CamelCaseToSnake(SnakeToCamelCase(x, firstUp)) == x is demanded for x matching [a-z][a-z0-9]*(_[a-z][a-z0-9]*)* only, for both values of firstUp",
		"RemoveRunes predicates: non-ASCII; member of {a,世,_}; every rune",
	)
	r.Finish("every text of families A, B, C is enumerated once and every entry point is run with every argument tuple of the stated ranges (no sampling); a case = one call (the round trip counts with its SnakeToCamelCase call); non-trivial = the text contains a multi-byte rune or an invalid byte AND (Sub: the requested range is a proper cut, start < N, length != 0, not the whole text; Mask: start+end < N so something is replaced; SubByDisplay: 1 <= limit < byte length; RemoveRunes: predicate other than 'every rune'; argument-less functions: no further condition), or the text is a snake identifier with >= 2 words (SnakeToCamelCase / round trip)")
}
