// C02 — listz.SkipList and listz.SkipListWithCmp behave as an ordered map.
// Engine E2: explicit-state BFS to the fix-point on the real lists, reflective canonical state
// (private graph incl. tower heights), compared step by step with a sorted-map reference.
//
// Tower heights are an enumerated choice: the private `rand *rand.Rand` of a list is replaced
// (reflect + unsafe, only once golib itself has created it) by rand.New(scripted source); the raw
// 64-bit answer of the next draw is part of the operation Set(k,v,h) / SetNx(k,v,h).
package main

import (
	"fmt"
	"iter"
	"math/rand"
	"reflect"
	"sort"
	"strings"
	"sync"
	"sync/atomic"
	"time"
	"unsafe"

	"verif/common"
	"verif/space"

	"github.com/welllog/golib/listz"
)

func main() {
	r := common.Start("C02", "model_checking")
	laySkip = layoutOf(reflect.TypeOf(listz.SkipList[int, int]{}), false)
	layCmp = layoutOf(reflect.TypeOf(listz.SkipListWithCmp[int, int]{}), true)
	{ // which int counts the bindings, if the fields are not called len / level
		a := listz.NewSkipList[int, int]()
		b := listz.NewSkipListWithCmp[int, int](func(x, y int) int { return x - y })
		for k := 1; k <= 40; k++ {
			a.Set(k, 0)
			b.Set(k, 0)
		}
		laySkip.bindLenLevel(unsafe.Pointer(a), 40)
		layCmp.bindLenLevel(unsafe.Pointer(b), 40)
	}
	menu, heights := selfTest(r)

	nkeys, nmenu, levelCap := 3, 3, 0
	if r.Thorough() {
		nkeys, nmenu, levelCap = 4, 4, 5
	}
	canon := &space.Canonizer{SkipTypes: map[reflect.Type]bool{reflect.TypeOf((*rand.Rand)(nil)): true}}
	ident := make([]int, nkeys)
	for i := range ident {
		ident[i] = i + 1
	}

	type job struct {
		sys   space.System
		label string // name used in the evidence (the signature name sys.Name is coarser)
	}
	var jobs []job
	add := func(cfg *config, starts int, label string, mk func(s int) space.Instance) {
		jobs = append(jobs, job{space.System{Name: cfg.sysName, Starts: starts, New: mk, Canon: canon}, label})
	}

	// SkipList, three start states: NewSkipList() (0), the zero value (1), the zero value after
	// Clear() (2). One system: states a lazily initialised zero value shares with a constructed list
	// are searched once; the signature carries the class of the state the failing call ran in
	// ("zero-value" = golib has not created the generator yet, "initialised" otherwise).
	cSkip := newConfig("SkipList", "skip", ident, []int{0, 1}, menu[:nmenu], heights[:nmenu], levelCap, &laySkip)
	add(cSkip, 3, "SkipList/start=new,zero,zero+Clear", func(s int) space.Instance { return mkSkip(cSkip, s) })

	// SkipListWithCmp under every total order of the stored keys (0 below, 4/5 above all of them)
	for _, p := range permutations(nkeys) {
		c := newConfig("SkipListWithCmp", "cmp", p, []int{0, 1}, menu[:nmenu], heights[:nmenu], levelCap, &layCmp)
		add(c, 2, "SkipListWithCmp/order="+joinInts(p), func(s int) space.Instance { return mkCmp(c, s) })
	}

	// ladder: only the "very high" answer on two keys, no level cap: the top level ratchets up to
	// the maximum of 32 and back (Set, Remove only).
	lSkip := newConfig("SkipList", "skip", []int{1, 2}, []int{0}, menu[3:4], heights[3:4], 0, &laySkip)
	lSkip.ladder = true
	add(lSkip, 1, "SkipList/ladder32", func(s int) space.Instance { return mkSkip(lSkip, s) })
	lCmp := newConfig("SkipListWithCmp", "cmp", []int{2, 1}, []int{0}, menu[3:4], heights[3:4], 0, &layCmp)
	lCmp.ladder = true
	add(lCmp, 1, "SkipListWithCmp/ladder32/order=2,1", func(s int) space.Instance { return mkCmp(lCmp, s) })

	results := make([]space.Result, len(jobs))
	walls := make([]float64, len(jobs))
	sem := make(chan struct{}, 4) // a few systems at a time: the first BFS levels are too narrow for 16 cores
	done := make(chan int)
	for i := range jobs {
		go func(i int) {
			sem <- struct{}{}
			t0 := time.Now()
			res := space.Search(r, jobs[i].sys)
			res.Name = jobs[i].label
			results[i], walls[i] = res, time.Since(t0).Seconds()
			<-sem
			done <- i
		}(i)
	}
	for range jobs {
		<-done
	}
	wallBy := map[string]float64{}
	for i, res := range results {
		r.Nontrivial(int64(res.States))
		wallBy[res.Name] = float64(int(walls[i]*100)) / 100
		fmt.Printf("  %-40s states=%-6d transitions=%-8d depth=%-3d fixpoint=%v abstract=%d wall=%.2fs %s\n", res.Name, res.States, res.Transitions, res.Depth, res.FixPoint, res.Abstract, walls[i], res.CapHit)
	}
	space.Summarize(r, results)
	reportProbeFailure(r)
	r.Cov("system_wall_s", wallBy)
	r.Cov("uncontrolled_first_inserts_selected_by_rejection_sampling", atomic.LoadInt64(&rejections))
	if atomic.LoadInt64(&rejectFailed) > 0 {
		r.Incomplete("first insert into an uninitialised list: a tower-height class was never produced by 2000 real draws of the list's own time-seeded generator")
	}
	r.SampleL("alphabet", map[string]any{"keys": ident, "query_keys": "0..5", "values": []int{0, 1}, "ops": "Set(k,v,h) SetNx(k,v,h) SetX(k,v) Remove(k) SetValue(k,v) Clear()", "h": "index into rng_menu"})
	r.SampleL("battery", "Len, Head, Get/GetNode(0..5), Keys, Values, All (full and break after each count), Range / RangeWithStart(s) / RangeWithRange(s,e) for all s,e in 0..5 (full and stopped after each count), structural invariants of the private towers")
	r.Assume(
		fmt.Sprintf("small scope: stored keys 1..%d (queries 0..5), values {0,1}, tower heights from the raw-answer menu %v; the 'very high' answer is offered only while the current top level is below %d (0 = answer not in the menu of this tier); separate ladder systems (two keys, only the very high answer, no cap) reach the maximum level 32", nkeys, menu[:nmenu], levelCap),
		"the list's private *rand.Rand is replaced (reflect+unsafe) by rand.New(scripted Source64) only after golib created it; a nil generator is left nil. The one draw golib makes from its own time-seeded generator (first insert into a lazily initialised zero value, inside the initialising call) is resolved by rejection: the real call is repeated on a fresh replica until the enumerated height class (1 / more than 1) comes out",
		"SkipListWithCmp comparators: rank in every permutation of the stored keys, query key 0 below and 4/5 above all stored keys; a zero-value SkipListWithCmp has no comparator and is not a start state")
	if len(obs) > 0 {
		o := map[string]any{}
		for k, v := range obs {
			o[k] = map[string]any{"states": obsN[k], "first": v}
		}
		r.Cov("structural_observations_not_violations", o)
	}
	r.Finish("states = distinct canonical dumps of the private object graph (head tower, level, len, node keys/values/tower heights, generator nil/non-nil); every transition is one real method call compared with a sorted-map model, followed by the read-only battery; distinct_nontrivial = number of distinct canonical states over all systems")
}

func joinInts(p []int) string {
	s := make([]string, len(p))
	for i, v := range p {
		s[i] = fmt.Sprint(v)
	}
	return strings.Join(s, ",")
}

func permutations(n int) [][]int {
	var out [][]int
	cur := make([]int, 0, n)
	used := make([]bool, n+1)
	var rec func()
	rec = func() {
		if len(cur) == n {
			out = append(out, append([]int(nil), cur...))
			return
		}
		for k := 1; k <= n; k++ { // lexicographic: the identity order first
			if !used[k] {
				used[k] = true
				cur = append(cur, k)
				rec()
				cur = cur[:len(cur)-1]
				used[k] = false
			}
		}
	}
	rec()
	return out
}

// ---------------------------------------------------------------- scripted random source

// defaultWord is answered when no answer is pending (height 1 on the current randomLevel:
// k = word & (2^32-1), level = ((32 - bits.Len64(k)) & 31) + 1, so bit 31 set -> level 1).
var defaultWord = uint64(1) << 31

// script implements rand.Source64. rand.(*Rand).Uint64 returns Source64.Uint64() unchanged, which
// is the only method randomLevel calls. Every method dereferences its receiver.
type script struct {
	word  uint64
	armed bool
	draws int
}

func (s *script) Uint64() uint64 {
	s.draws++
	if s.armed {
		s.armed = false
		return s.word
	}
	return defaultWord
}
func (s *script) Int63() int64 { return int64(s.Uint64() & (1<<63 - 1)) }
func (s *script) Seed(int64)   { s.armed = false }

// ---------------------------------------------------------------- private layout

// mnode is the harness's own picture of a node; mirror() builds it from the real private graph
// through the offsets layoutOf discovers, so extra, renamed or reordered private fields in the node
// or the list do not matter as long as a node still has an int key, an int value and one slice of
// pointers to nodes, and the list an embedded head node, two ints (len, level) and one *rand.Rand.
type mnode struct {
	key, val int
	next     []*mnode
}

type layout struct {
	head, len, level, rand uintptr
	nkey, nval, nnext      uintptr // inside a node
}

var laySkip, layCmp layout

func layoutOf(t reflect.Type, wantCmp bool) layout {
	var l layout
	// the generator is found by type, whatever its name
	found := 0
	for i := 0; i < t.NumField(); i++ {
		if t.Field(i).Type == reflect.TypeOf((*rand.Rand)(nil)) {
			l.rand = t.Field(i).Offset
			found++
		}
	}
	if found != 1 {
		common.Infra("%s: expected exactly one private field of type *math/rand.Rand, found %d — tower heights cannot be enumerated", t, found)
	}
	// the head node: the field whose struct type has a slice of pointers to itself
	isNode := func(nt reflect.Type) (next reflect.StructField, ok bool) {
		if nt.Kind() != reflect.Struct {
			return next, false
		}
		n := 0
		for i := 0; i < nt.NumField(); i++ {
			f := nt.Field(i)
			if f.Type.Kind() == reflect.Slice && f.Type.Elem().Kind() == reflect.Ptr && f.Type.Elem().Elem() == nt {
				next, n = f, n+1
			}
		}
		return next, n == 1
	}
	var nt reflect.Type
	heads := 0
	for i := 0; i < t.NumField(); i++ {
		if nx, ok := isNode(t.Field(i).Type); ok {
			nt, l.head, l.nnext = t.Field(i).Type, t.Field(i).Offset, nx.Offset
			heads++
		}
	}
	if heads != 1 {
		common.Infra("%s: expected exactly one embedded head node (a struct with a slice of pointers to itself), found %d", t, heads)
	}
	// key and value of a node: by name if the names are there, else the first two int fields
	var ints []reflect.StructField
	for i := 0; i < nt.NumField(); i++ {
		if nt.Field(i).Type.Kind() == reflect.Int {
			ints = append(ints, nt.Field(i))
		}
	}
	kf, okk := nt.FieldByName("key")
	vf, okv := nt.FieldByName("val")
	if !okk || !okv || kf.Type.Kind() != reflect.Int || vf.Type.Kind() != reflect.Int {
		if len(ints) != 2 {
			common.Infra("%s: a node has neither int fields key/val nor exactly two int fields: %s", t, nt)
		}
		kf, vf = ints[0], ints[1]
	}
	l.nkey, l.nval = kf.Offset, vf.Offset
	// len and level of the list: by name, else told apart by behaviour (see bindLenLevel)
	lf, okl := t.FieldByName("len")
	vl, okv2 := t.FieldByName("level")
	if okl && okv2 && lf.Type.Kind() == reflect.Int && vl.Type.Kind() == reflect.Int {
		l.len, l.level = lf.Offset, vl.Offset
	} else {
		var li []reflect.StructField
		for i := 0; i < t.NumField(); i++ {
			if t.Field(i).Type.Kind() == reflect.Int {
				li = append(li, t.Field(i))
			}
		}
		if len(li) != 2 {
			common.Infra("%s: expected int fields len and level (or exactly two int fields), found %d ints", t, len(li))
		}
		// provisional: bindLenLevel swaps them if the first one does not count the bindings
		l.len, l.level = li[0].Offset, li[1].Offset
	}
	_ = wantCmp
	return l
}

// bindLenLevel settles which of two unnamed ints counts the bindings: base points at a freshly
// constructed list that now holds exactly n keys (n above the maximal level).
func (l *layout) bindLenLevel(base unsafe.Pointer, n int) {
	if *(*int)(unsafe.Add(base, l.len)) != n && *(*int)(unsafe.Add(base, l.level)) == n {
		l.len, l.level = l.level, l.len
	}
}

// mirror copies the real node graph reachable from the node at p into mnode values (pointer
// identity preserved through memo).
func (l *layout) mirror(p unsafe.Pointer, memo map[unsafe.Pointer]*mnode) *mnode {
	if p == nil {
		return nil
	}
	if m, ok := memo[p]; ok {
		return m
	}
	m := &mnode{key: *(*int)(unsafe.Add(p, l.nkey)), val: *(*int)(unsafe.Add(p, l.nval))}
	memo[p] = m
	next := *(*[]unsafe.Pointer)(unsafe.Add(p, l.nnext))
	m.next = make([]*mnode, len(next))
	for i, q := range next {
		m.next[i] = l.mirror(q, memo)
	}
	return m
}

// ---------------------------------------------------------------- configuration of one system

const nq = 6 // query keys 0..5

type config struct {
	sysName  string
	class    string // "skip" | "cmp"
	order    []int  // stored keys in ascending comparator order
	nkeys    int
	vals     []int
	menu     []uint64
	menuH    []int
	levelCap int // the entry with probed height > 3 is offered only while level < levelCap (0 = always)
	ladder   bool
	lay      *layout
	rank     [nq]int // comparator: rank[a] - rank[b]
	ord      [nq]int // keys 0..5 ascending
}

func newConfig(sysName, class string, order, vals []int, menu []uint64, menuH []int, levelCap int, lay *layout) *config {
	c := &config{sysName: sysName, class: class, order: order, nkeys: len(order), vals: vals, menu: menu, menuH: menuH, levelCap: levelCap, lay: lay}
	for k := 0; k < nq; k++ {
		c.rank[k] = 100 + k // keys above the stored ones keep their natural order above everything
	}
	c.rank[0] = 0
	for i, k := range order {
		c.rank[k] = i + 1
	}
	for k := 0; k < nq; k++ {
		c.ord[k] = k
	}
	sort.Slice(c.ord[:], func(i, j int) bool { return c.rank[c.ord[i]] < c.rank[c.ord[j]] })
	return c
}

func (c *config) describe() string {
	if c.class != "cmp" {
		return "natural order"
	}
	return "comparator order " + fmt.Sprint(c.ord[:])
}

// ---------------------------------------------------------------- the two list types behind one interface

type nodeT[N any] interface {
	comparable
	Key() int
	Value() int
	SetValue(int)
	Next() N
}

type listT[N nodeT[N]] interface {
	Len() int
	Set(int, int)
	SetNx(int, int) bool
	SetX(int, int) bool
	Get(int) (int, bool)
	GetNode(int) N
	Head() N
	Remove(int) (int, bool)
	Clear()
	Range(func(int, int) bool)
	RangeWithStart(int, func(int, int) bool)
	RangeWithRange(int, int, func(int, int) bool)
	Keys() []int
	Values() []int
	All() iter.Seq2[int, int]
}

type (
	skN = *listz.SkipNode[int, int]
	skL = *listz.SkipList[int, int]
	cmN = *listz.SkipNodeCmp[int, int]
	cmL = *listz.SkipListWithCmp[int, int]
)

func mkSkip(cfg *config, start int) *inst[skN, skL] {
	var l skL
	switch start {
	case 0:
		l = listz.NewSkipList[int, int]()
	default: // the zero value; nothing is initialised by the harness
		l = new(listz.SkipList[int, int])
		if start == 2 {
			l.Clear()
		}
	}
	x := &inst[skN, skL]{cfg: cfg, start: start, l: l, root: l, base: unsafe.Pointer(l), col: newCollector(), mk: mkSkip}
	x.inject()
	return x
}

func mkCmp(cfg *config, start int) *inst[cmN, cmL] {
	rank := &cfg.rank
	cmp := func(a, b int) int { return rank[a] - rank[b] }
	var l cmL
	if start == 0 {
		l = listz.NewSkipListWithCmp[int, int](cmp)
	} else {
		l = new(listz.SkipListWithCmp[int, int])
		l.Init(cmp)
	}
	x := &inst[cmN, cmL]{cfg: cfg, start: start, l: l, root: l, base: unsafe.Pointer(l), col: newCollector(), mk: mkCmp}
	x.inject()
	return x
}

// ---------------------------------------------------------------- instance

type collector struct {
	k, v [8]int
	n    int
	stop int
	over bool
	cb   func(int, int) bool
}

func newCollector() *collector {
	c := &collector{}
	c.cb = c.add
	return c
}

// add records one callback and answers false at the stop-th one.
func (c *collector) add(k, v int) bool {
	if c.n >= len(c.k) {
		c.over = true
		return false
	}
	c.k[c.n], c.v[c.n] = k, v
	c.n++
	return c.n < c.stop
}

func (c *collector) reset(stop int) { c.n, c.stop, c.over = 0, stop, false }

const never = 1 << 30

type inst[N nodeT[N], L listT[N]] struct {
	cfg   *config
	start int
	l     L
	root  any            // the list pointer handed to the canonizer
	base  unsafe.Pointer // same address
	sc    *script
	rng   *rand.Rand
	hist  []space.Op
	col   *collector
	mk    func(*config, int) *inst[N, L]

	present [nq]bool
	val     [nq]int
	expK    [nq]int // present keys in ascending order (rebuilt by the battery)
	en      int
}

func (x *inst[N, L]) randp() **rand.Rand { return (**rand.Rand)(unsafe.Add(x.base, x.cfg.lay.rand)) }
func (x *inst[N, L]) level() int         { return *(*int)(unsafe.Add(x.base, x.cfg.lay.level)) }
func (x *inst[N, L]) plen() int          { return *(*int)(unsafe.Add(x.base, x.cfg.lay.len)) }
func (x *inst[N, L]) head() *mnode {
	return x.cfg.lay.mirror(unsafe.Add(x.base, x.cfg.lay.head), map[unsafe.Pointer]*mnode{})
}

// inject installs the scripted generator if (and only if) the list currently owns a generator that
// is not ours. A nil generator stays nil: golib must cope with its own zero values.
func (x *inst[N, L]) inject() (foreign bool) {
	p := x.randp()
	if *p == nil || *p == x.rng {
		return false
	}
	if x.rng == nil {
		x.sc = &script{}
		x.rng = rand.New(x.sc)
	}
	*p = x.rng
	return true
}

// towerOf reads the tower height of the node holding k from the private level-0 chain.
func (x *inst[N, L]) towerOf(k int) int {
	h := x.head()
	if len(h.next) == 0 {
		return 0
	}
	n := 0
	for p := h.next[0]; p != nil && n < 64; n++ {
		if p.key == k {
			return len(p.next)
		}
		if len(p.next) == 0 {
			return 0
		}
		p = p.next[0]
	}
	return 0
}

func (x *inst[N, L]) Roots() []any { return []any{x.root} }

// stateClass is the last component of every signature. It is taken when a failure is observed:
// "zero-value" while golib has not created the list's generator (the zero value, also after Clear
// or reads), "initialised" after Init — explicit or lazy. A defect of the shared insert / search
// code therefore has one signature however the list was started; a defect of the zero-value
// handling has another.
func (x *inst[N, L]) stateClass() string {
	if *x.randp() == nil {
		return "zero-value"
	}
	return "initialised"
}

var startNames = map[string][]string{
	"skip": {"NewSkipList()", "zero value", "zero value then Clear()"},
	"cmp":  {"NewSkipListWithCmp(cmp)", "zero value then Init(cmp)"},
}

func (x *inst[N, L]) startName() string { return "start " + startNames[x.cfg.class][x.start] }

func (x *inst[N, L]) Abstract() string {
	var sb strings.Builder
	for _, k := range x.cfg.ord {
		if x.present[k] {
			sb.WriteByte(byte('0' + k))
			sb.WriteByte('=')
			sb.WriteByte(byte('0' + x.val[k]))
			sb.WriteByte(' ')
		}
	}
	return sb.String()
}

func (x *inst[N, L]) Ops() []space.Op {
	c := x.cfg
	rnil := *x.randp() == nil
	level := x.level()
	allowed := func(h int) bool {
		if rnil {
			// no generator yet: the next insert either fails or draws from golib's own freshly
			// seeded generator; h is then the outcome class (0: height 1, 1: height > 1)
			return h < 2
		}
		if c.levelCap > 0 && c.menuH[h] > 3 {
			return level < c.levelCap
		}
		return true
	}
	var ops []space.Op
	for _, name := range []string{"Set", "SetNx"} {
		for h := range c.menu {
			for _, v := range c.vals {
				for k := 1; k <= c.nkeys; k++ {
					if !x.present[k] && allowed(h) {
						ops = append(ops, space.Op{Name: name, Args: []int{k, v, h}})
					}
				}
			}
		}
		if c.ladder {
			break
		}
		for _, v := range c.vals {
			for k := 1; k <= c.nkeys; k++ {
				if x.present[k] { // no draw: no height argument
					ops = append(ops, space.Op{Name: name, Args: []int{k, v}})
				}
			}
		}
	}
	if !c.ladder {
		for _, v := range c.vals {
			for k := 1; k <= c.nkeys; k++ {
				ops = append(ops, space.Op{Name: "SetX", Args: []int{k, v}})
			}
		}
	}
	for k := 1; k <= c.nkeys; k++ {
		ops = append(ops, space.Op{Name: "Remove", Args: []int{k}})
	}
	if !c.ladder {
		for _, v := range c.vals {
			for k := 1; k <= c.nkeys; k++ {
				if x.present[k] {
					ops = append(ops, space.Op{Name: "SetValue", Args: []int{k, v}})
				}
			}
		}
		ops = append(ops, space.Op{Name: "Clear"})
	}
	return ops
}

var rejections, rejectFailed int64

// classOK: outcome class of an uncontrolled draw (see Ops).
func classOK(op space.Op, height int) bool {
	if height == 0 || len(op.Args) < 3 {
		return true // nothing to select on
	}
	if op.Args[2] == 0 {
		return height == 1
	}
	return height > 1
}

func (x *inst[N, L]) Apply(op space.Op) *space.Mismatch {
	mm, unc, h := x.guarded(op)
	if unc {
		atomic.AddInt64(&rejections, 1) // counted per uncontrolled insert, not per retry: deterministic
	}
	if !unc || classOK(op, h) {
		return mm
	}
	// The insert drew from a generator golib created inside this very call (lazy initialisation of
	// a zero value): the height was golib's own coin. Repeat the real call on fresh replicas until
	// the enumerated class comes out, then continue with that replica.
	prefix := x.hist[:len(x.hist)-1]
	for try := 0; try < 2000; try++ {
		y := x.mk(x.cfg, x.start)
		for _, o := range prefix {
			y.Apply(o)
		}
		mm, unc, h = y.guarded(op)
		if !unc || classOK(op, h) {
			*x = *y
			return mm
		}
	}
	atomic.AddInt64(&rejectFailed, 1)
	return mm
}

func (x *inst[N, L]) guarded(op space.Op) (mm *space.Mismatch, unc bool, h int) {
	val, st, p := common.Catch(func() { mm, unc, h = x.step(op) })
	if p {
		return x.panicMismatch(val, st, "apply", op.String()), false, 0
	}
	return
}

func (x *inst[N, L]) panicMismatch(val any, stack, stage, during string) *space.Mismatch {
	return &space.Mismatch{Sig: common.PanicSite(stack) + "|panic|" + stage + "|" + x.stateClass(),
		What: fmt.Sprintf("panic %q during %s (%s, %s, model %s); golib frames: %s", fmt.Sprint(val), during, x.cfg.describe(), x.startName(), x.modelString(), golibFrames(stack))}
}

func golibFrames(stack string) string {
	lines := strings.Split(stack, "\n")
	var out []string
	for i, ln := range lines {
		if strings.HasPrefix(ln, "github.com/welllog/golib/") && len(out) < 4 {
			f := ln
			if j := strings.LastIndex(f, "("); j > 0 {
				f = f[:j]
			}
			f = strings.TrimPrefix(f, "github.com/welllog/golib/")
			if i+1 < len(lines) {
				loc := strings.TrimSpace(lines[i+1])
				if j := strings.Index(loc, " +0x"); j > 0 {
					loc = loc[:j]
				}
				f += " " + loc
			}
			out = append(out, f)
		}
	}
	return strings.Join(out, " <- ")
}

func (x *inst[N, L]) modelString() string {
	s := strings.TrimSpace(x.Abstract())
	return "{" + s + "}"
}

func (x *inst[N, L]) mis(sig, format string, a ...any) *space.Mismatch {
	return &space.Mismatch{Sig: sig + "|" + x.stateClass(), What: fmt.Sprintf(format, a...) + fmt.Sprintf(" [%s, %s, model after the step %s]", x.cfg.describe(), x.startName(), x.modelString())}
}

// step executes one operation on the real list and on the model (transition oracle).
func (x *inst[N, L]) step(op space.Op) (mm *space.Mismatch, unc bool, height int) {
	if x.hist == nil {
		x.hist = make([]space.Op, 0, 16)
	}
	x.hist = append(x.hist, op)
	k, v := 0, 0
	if len(op.Args) > 0 {
		k = op.Args[0]
	}
	if len(op.Args) > 1 {
		v = op.Args[1]
	}
	switch op.Name {
	case "Set", "SetNx":
		absent := !x.present[k]
		if len(op.Args) > 2 && x.rng != nil && *x.randp() == x.rng {
			x.sc.word, x.sc.armed = x.cfg.menu[op.Args[2]], true
		}
		got := true
		if op.Name == "Set" {
			x.l.Set(k, v)
		} else {
			got = x.l.SetNx(k, v)
		}
		if x.sc != nil {
			x.sc.armed = false // a pending answer never survives its operation
		}
		foreign := x.inject()
		if op.Name == "Set" || absent {
			x.present[k], x.val[k] = true, v
		}
		if absent && foreign {
			unc, height = true, x.towerOf(k)
		}
		if op.Name == "SetNx" && got != absent {
			return x.mis("SetNx|wrong-result", "SetNx(%d,%d) = %v, want %v (key absent before the call: %v)", k, v, got, absent, absent), unc, height
		}
	case "SetX":
		was := x.present[k]
		got := x.l.SetX(k, v)
		x.inject()
		if was {
			x.val[k] = v
		}
		if got != was {
			return x.mis("SetX|wrong-result", "SetX(%d,%d) = %v, want %v (key present before the call: %v)", k, v, got, was, was), false, 0
		}
	case "Remove":
		was, old := x.present[k], x.val[k]
		gv, got := x.l.Remove(k)
		x.inject()
		x.present[k], x.val[k] = false, 0
		if got != was {
			return x.mis("Remove|wrong-result", "Remove(%d) = (%d,%v), want removed=%v", k, gv, got, was), false, 0
		}
		if was && gv != old {
			return x.mis("Remove|wrong-value", "Remove(%d) returned value %d, the binding removed was %d=%d", k, gv, k, old), false, 0
		}
	case "Clear":
		x.l.Clear()
		x.inject()
		x.present, x.val = [nq]bool{}, [nq]int{}
	case "SetValue":
		n := x.l.GetNode(k)
		var zero N
		if n == zero {
			if x.present[k] {
				return x.mis("GetNode|wrong", "GetNode(%d) = nil for a bound key", k), false, 0
			}
			return nil, false, 0
		}
		if !x.present[k] {
			return x.mis("GetNode|wrong", "GetNode(%d) returned a node (key %d) for an unbound key", k, n.Key()), false, 0
		}
		n.SetValue(v)
		x.val[k] = v
	}
	return nil, unc, height
}

// ---------------------------------------------------------------- state oracle

func (x *inst[N, L]) Check() *space.Mismatch {
	var mm *space.Mismatch
	what := callDesc{name: "battery", n: -1}
	val, st, p := common.Catch(func() {
		mm = x.battery(&what)
		if mm == nil {
			what = callDesc{name: "structural invariants", n: -1}
			mm = x.structure()
		}
	})
	if p {
		return x.panicMismatch(val, st, "check", what.String())
	}
	return mm
}

// callDesc names the query in flight (formatted only when needed: the battery is the hot path).
type callDesc struct {
	name string
	n    int // number of arguments, -1 = not a call
	a, b int
}

func (c callDesc) String() string {
	switch c.n {
	case 0:
		return c.name + "()"
	case 1:
		return fmt.Sprintf("%s(%d)", c.name, c.a)
	case 2:
		return fmt.Sprintf("%s(%d,%d)", c.name, c.a, c.b)
	}
	return c.name
}

// expect compares what the collector saw with expK[lo:hi] cut after `stop` callbacks.
func (x *inst[N, L]) expect(call callDesc, lo, hi, stop int) *space.Mismatch {
	c := x.col
	if hi < lo {
		hi = lo
	}
	want := hi - lo
	if stop != never && stop < want {
		want = stop
	}
	ok := !c.over && c.n == want
	for i := 0; ok && i < want; i++ {
		k := x.expK[lo+i]
		ok = c.k[i] == k && c.v[i] == x.val[k]
	}
	if ok {
		return nil
	}
	var got, exp []string
	for i := 0; i < c.n; i++ {
		got = append(got, fmt.Sprintf("%d=%d", c.k[i], c.v[i]))
	}
	for i := 0; i < want; i++ {
		k := x.expK[lo+i]
		exp = append(exp, fmt.Sprintf("%d=%d", k, x.val[k]))
	}
	stopTxt := "callback always true"
	if stop != never {
		stopTxt = fmt.Sprintf("callback false at call %d", stop)
	}
	more := ""
	if c.over {
		more = " (and more)"
	}
	return x.mis(call.name+"|wrong-sequence", "%s with %s enumerated %v%s, want %v", call.String(), stopTxt, got, more, exp)
}

func (x *inst[N, L]) battery(what *callDesc) *space.Mismatch {
	c := x.cfg
	l := x.l
	col := x.col
	var zero N
	x.en = 0
	for _, k := range c.ord {
		if x.present[k] {
			x.expK[x.en] = k
			x.en++
		}
	}
	en := x.en

	*what = callDesc{name: "Len"}
	if g := l.Len(); g != en {
		return x.mis("Len|wrong", "Len() = %d, want %d", g, en)
	}
	*what = callDesc{name: "Head"}
	h := l.Head()
	if en == 0 {
		if h != zero {
			return x.mis("Head|wrong", "Head() is a node (key %d) on an empty list", h.Key())
		}
	} else {
		if h == zero {
			return x.mis("Head|wrong", "Head() = nil, want the node of key %d", x.expK[0])
		}
		if h.Key() != x.expK[0] || h.Value() != x.val[x.expK[0]] {
			return x.mis("Head|wrong", "Head() = %d=%d, want %d=%d", h.Key(), h.Value(), x.expK[0], x.val[x.expK[0]])
		}
	}
	for k := 0; k < nq; k++ {
		*what = callDesc{name: "Get", n: 1, a: k}
		gv, ok := l.Get(k)
		if ok != x.present[k] || (ok && gv != x.val[k]) {
			return x.mis("Get|wrong", "Get(%d) = (%d,%v), want (%d,%v)", k, gv, ok, x.val[k], x.present[k])
		}
		*what = callDesc{name: "GetNode", n: 1, a: k}
		n := l.GetNode(k)
		if (n != zero) != x.present[k] {
			return x.mis("GetNode|wrong", "GetNode(%d) non-nil = %v, key bound = %v", k, n != zero, x.present[k])
		}
		if n != zero && (n.Key() != k || n.Value() != x.val[k]) {
			return x.mis("GetNode|wrong", "GetNode(%d) = node %d=%d, want %d=%d", k, n.Key(), n.Value(), k, x.val[k])
		}
	}
	*what = callDesc{name: "Keys"}
	ks := l.Keys()
	okk := len(ks) == en
	for i := 0; okk && i < en; i++ {
		okk = ks[i] == x.expK[i]
	}
	if !okk {
		return x.mis("Keys|wrong-sequence", "Keys() = %v, want %v", ks, x.expK[:en])
	}
	*what = callDesc{name: "Values"}
	vs := l.Values()
	okv := len(vs) == en
	for i := 0; okv && i < en; i++ {
		okv = vs[i] == x.val[x.expK[i]]
	}
	if !okv {
		return x.mis("Values|wrong-sequence", "Values() = %v for keys %v", vs, x.expK[:en])
	}

	// the node chain: Head(), then Next() to nil, is the binding sequence; GetNode(k).Next() is the
	// successor binding
	*what = callDesc{name: "Head/Next walk"}
	{
		i := 0
		for n := l.Head(); n != zero; n = n.Next() {
			if i >= en || n.Key() != x.expK[i] || n.Value() != x.val[x.expK[i]] {
				return x.mis("Next|wrong-chain", "walking Head(), Next(), ...: node %d is %d=%d, want the bindings %v in order and then nil", i, n.Key(), n.Value(), x.expK[:en])
			}
			i++
			if i > 64 {
				return x.mis("Next|wrong-chain", "the Next() chain does not end")
			}
		}
		if i != en {
			return x.mis("Next|wrong-chain", "walking Head(), Next(), ... ends after %d nodes, want %d", i, en)
		}
		for j := 0; j < en; j++ {
			nx := l.GetNode(x.expK[j]).Next()
			if j == en-1 {
				if nx != zero {
					return x.mis("Next|wrong-chain", "GetNode(%d).Next() is a node (key %d), want nil after the last binding", x.expK[j], nx.Key())
				}
			} else if nx == zero || nx.Key() != x.expK[j+1] {
				return x.mis("Next|wrong-chain", "GetNode(%d).Next() is not the node of the next key %d", x.expK[j], x.expK[j+1])
			}
		}
	}
	// every enumerating entry point run to completion from inside the callback of every other one
	// (and Keys, Values, Head, GetNode): reads do not change the map, the outer walk is unaffected
	if en >= 1 {
		inner := func() {
			n := 0
			l.Range(func(int, int) bool { n++; return true })
			l.RangeWithStart(x.expK[0], func(int, int) bool { n++; return true })
			for range l.All() {
				n++
			}
			l.Keys()
			l.Values()
			l.Head()
			l.GetNode(x.expK[en-1])
		}
		cb := func(k, v int) bool { inner(); return col.add(k, v) }
		*what = callDesc{name: "Range (with Range, RangeWithStart, All, Keys, Values, Head, GetNode called from its callback)"}
		col.reset(never)
		l.Range(cb)
		if mm := x.expect(*what, 0, en, never); mm != nil {
			return mm
		}
		*what = callDesc{name: "RangeWithStart (with the other enumerations called from its callback)", n: 1, a: x.expK[0]}
		col.reset(never)
		l.RangeWithStart(x.expK[0], cb)
		if mm := x.expect(*what, 0, en, never); mm != nil {
			return mm
		}
		*what = callDesc{name: "All (with the other enumerations called from the loop body)"}
		col.reset(never)
		for k, v := range l.All() {
			inner()
			if !col.add(k, v) {
				break
			}
		}
		if mm := x.expect(*what, 0, en, never); mm != nil {
			return mm
		}
		// two All() sequences advanced in lock-step
		*what = callDesc{name: "All (two sequences pulled in lock-step)"}
		next1, stop1 := iter.Pull2(l.All())
		next2, stop2 := iter.Pull2(l.All())
		for i := 0; i <= en; i++ {
			k1, v1, ok1 := next1()
			k2, v2, ok2 := next2()
			if i == en {
				if ok1 || ok2 {
					stop1()
					stop2()
					return x.mis("All|wrong-sequence", "two All() sequences pulled in lock-step: a sequence yields more than the %d bindings", en)
				}
				break
			}
			if !ok1 || !ok2 || k1 != x.expK[i] || k2 != x.expK[i] || v1 != x.val[k1] || v2 != x.val[k2] {
				stop1()
				stop2()
				return x.mis("All|wrong-sequence", "two All() sequences pulled in lock-step: step %d gives (%d=%d,%v) and (%d=%d,%v), want key %d from both", i, k1, v1, ok1, k2, v2, ok2, x.expK[i])
			}
		}
		stop1()
		stop2()
	}

	// stops: after each possible count, then never
	*what = callDesc{name: "All"}
	for stop := 1; stop <= en+1; stop++ {
		s := stop
		if stop == en+1 {
			s = never
		}
		col.reset(s)
		for k, v := range l.All() {
			if !col.add(k, v) {
				break
			}
		}
		if mm := x.expect(*what, 0, en, s); mm != nil {
			return mm
		}
	}
	// one iterator value walked again: "calling the iterator again walks the sequence again"
	// (package iter)
	*what = callDesc{name: "All (same iterator value walked a second time)"}
	{
		seq := l.All()
		col.reset(never)
		for k, v := range seq {
			if !col.add(k, v) {
				break
			}
		}
		col.reset(never)
		for k, v := range seq {
			if !col.add(k, v) {
				break
			}
		}
		if mm := x.expect(*what, 0, en, never); mm != nil {
			return mm
		}
	}
	*what = callDesc{name: "Range"}
	for stop := 1; stop <= en+1; stop++ {
		s := stop
		if stop == en+1 {
			s = never
		}
		col.reset(s)
		l.Range(col.cb)
		if mm := x.expect(*what, 0, en, s); mm != nil {
			return mm
		}
	}
	// lower[s] = index of the first bound key >= s in comparator order
	var lower [nq]int
	for s := 0; s < nq; s++ {
		i := 0
		for i < en && c.rank[x.expK[i]] < c.rank[s] {
			i++
		}
		lower[s] = i
	}
	for s := 0; s < nq; s++ {
		*what = callDesc{name: "RangeWithStart", n: 1, a: s}
		lo := lower[s]
		for stop := 1; stop <= en-lo+1; stop++ {
			st := stop
			if stop == en-lo+1 {
				st = never
			}
			col.reset(st)
			l.RangeWithStart(s, col.cb)
			if mm := x.expect(*what, lo, en, st); mm != nil {
				return mm
			}
		}
	}
	for s := 0; s < nq; s++ {
		for e := 0; e < nq; e++ {
			*what = callDesc{name: "RangeWithRange", n: 2, a: s, b: e}
			lo, hi := lower[s], lower[e]
			if hi < lo {
				hi = lo
			}
			for stop := 1; stop <= hi-lo+1; stop++ {
				st := stop
				if stop == hi-lo+1 {
					st = never
				}
				col.reset(st)
				l.RangeWithRange(s, e, col.cb)
				if mm := x.expect(*what, lo, hi, st); mm != nil {
					return mm
				}
			}
			// read calls issued from inside the callback (a complete RangeWithRange over everything, Get,
			// Len): reads do not change the map, so the outer enumeration must be unaffected
			if hi-lo >= 1 {
				*what = callDesc{name: "RangeWithRange (with another RangeWithRange, Get and Len called from its callback)", n: 2, a: s, b: e}
				col.reset(never)
				inner := 0
				l.RangeWithRange(s, e, func(k, v int) bool {
					l.RangeWithRange(0, nq-1, func(int, int) bool { inner++; return true })
					l.Get(k)
					l.Len()
					return col.add(k, v)
				})
				if mm := x.expect(*what, lo, hi, never); mm != nil {
					return mm
				}
			}
		}
	}
	return nil
}

// structure asserts the representation invariants named in the property record: the level-0 chain
// is strictly ascending and has len nodes, every level-i chain is a sub-chain of level i-1, nothing
// is linked at or above the current level, and the top level is non-empty unless level is 1.
// observe records a structural oddity that is NOT a violation: links above the list level, towers
// taller than it and an empty top level are invisible to every read (searches start at the list
// level) unless a later operation makes them live — and then the breadth-first search over the
// operations and tower heights reaches the state in which the map answers wrongly. They are kept
// in the evidence as observations.
var (
	obsMu sync.Mutex
	obs   = map[string]string{}
	obsN  = map[string]int64{}
)

func observe(kind, example string) {
	obsMu.Lock()
	if _, ok := obs[kind]; !ok {
		obs[kind] = example
	}
	obsN[kind]++
	obsMu.Unlock()
}

func (x *inst[N, L]) structure() *space.Mismatch {
	c := x.cfg
	h := x.head()
	level, ln := x.level(), x.plen()
	if level == 0 && len(h.next) == 0 {
		if ln != 0 {
			return x.mis("structure|len", "uninitialised list with len %d", ln)
		}
		return nil // the zero value
	}
	if level < 1 || level > len(h.next) {
		return x.mis("structure|level-range", "level = %d with a head tower of %d", level, len(h.next))
	}
	count := 0
	var prev *mnode
	for p := h.next[0]; p != nil; p = p.next[0] {
		count++
		if count > 64 {
			return x.mis("structure|cycle", "level-0 chain does not end")
		}
		if len(p.next) == 0 {
			return x.mis("structure|tower", "node %d has an empty tower", p.key)
		}
		if len(p.next) > level {
			observe("a node's tower is taller than the list level", fmt.Sprintf("node %d has a tower of %d at list level %d", p.key, len(p.next), level))
		}
		if p.key < 0 || p.key >= nq {
			return x.mis("structure|key", "node with key %d never stored", p.key)
		}
		if prev != nil && c.rank[prev.key] >= c.rank[p.key] {
			return x.mis("structure|order", "level-0 chain not strictly ascending: %d before %d", prev.key, p.key)
		}
		prev = p
	}
	if count != ln {
		return x.mis("structure|len", "len = %d but the level-0 chain has %d nodes", ln, count)
	}
	for i := 1; i < len(h.next); i++ {
		if i >= level {
			if h.next[i] != nil {
				observe("the head links a node above the list level", fmt.Sprintf("head links a node at level %d, list level is %d", i+1, level))
			}
			continue
		}
		q := h.next[i-1]
		for p := h.next[i]; p != nil; p = p.next[i] {
			for q != nil && q != p {
				q = q.next[i-1]
			}
			if q == nil {
				return x.mis("structure|sub-chain", "level-%d chain is not a sub-chain of level %d (node %d)", i+1, i, p.key)
			}
			if len(p.next) <= i {
				return x.mis("structure|tower", "node %d linked at level %d has a tower of %d", p.key, i+1, len(p.next))
			}
			q = q.next[i-1]
		}
	}
	if level > 1 && h.next[level-1] == nil {
		observe("the top level is empty", fmt.Sprintf("level = %d but no node reaches it (len %d)", level, ln))
	}
	return nil
}

// ---------------------------------------------------------------- start-up self test of the shim

// probeHeight inserts six keys, each with the same raw answer, and returns the tower of the last
// one: min(randomLevel(word), 7), because the list level grows by at most one per insert.
// A failure of golib during the probe is returned, not hidden: it is a violation like any other.
func probeHeight(mk func(*config) space.Instance, towerOf func(space.Instance, int) int, sysName string, lay *layout, class string, word uint64, useDefault bool) (int, *probeFailure) {
	cfg := newConfig(sysName, class, []int{1, 2, 3, 4, 5}, []int{0}, []uint64{word}, []int{0}, 0, lay)
	x := mk(cfg)
	var seq []string
	for k := 0; k < nq; k++ {
		op := space.Op{Name: "Set", Args: []int{k, 0, 0}}
		if useDefault {
			op.Args = op.Args[:2]
		}
		seq = append(seq, op.String())
		if mm := x.Apply(op); mm != nil {
			return 0, &probeFailure{sysName, mm, seq, word}
		}
	}
	return towerOf(x, nq-1), nil
}

type probeFailure struct {
	sys  string
	mm   *space.Mismatch
	seq  []string
	word uint64
}

// probeFailed is reported after the searches (which normally find the same signature with a
// counterexample inside the search alphabet; the library keeps the first case per signature).
var probeFailed *probeFailure

func reportProbeFailure(r *common.Run) {
	if f := probeFailed; f != nil {
		r.Violation(f.sys+"|"+f.mm.Sig, f.mm.What+fmt.Sprintf(" — start-up probe: six inserts, every height draw answered %#x", f.word),
			map[string]any{"system": f.sys, "start": 0, "sequence": f.seq, "raw_answer": fmt.Sprintf("%#x", f.word)}, "")
	}
}

func selfTest(r *common.Run) ([]uint64, []int) {
	var failed *probeFailure
	type probe func(word uint64, useDefault bool) int
	wrap := func(h int, f *probeFailure) int {
		if f != nil && failed == nil {
			failed = f
		}
		return h
	}
	probes := map[string]probe{
		"SkipList": func(w uint64, d bool) int {
			return wrap(probeHeight(func(c *config) space.Instance { return mkSkip(c, 0) },
				func(i space.Instance, k int) int { return i.(*inst[skN, skL]).towerOf(k) }, "SkipList", &laySkip, "skip", w, d))
		},
		"SkipListWithCmp": func(w uint64, d bool) int {
			return wrap(probeHeight(func(c *config) space.Instance { return mkCmp(c, 0) },
				func(i space.Instance, k int) int { return i.(*inst[cmN, cmL]).towerOf(k) }, "SkipListWithCmp", &layCmp, "cmp", w, d))
		},
	}
	// Derived from randomLevel: k = Uint64() & (2^32-1); level = ((32 - bits.Len64(k)) & 31) + 1.
	menu := []uint64{1 << 31, 1 << 30, 1 << 29, 1}
	want := []int{1, 2, 3, 7} // 1 -> level 32, seen as 7 through six inserts ("capped to level+1")
	source := "read from randomLevel"
	static := true
	var got []int
	for _, name := range []string{"SkipList", "SkipListWithCmp"} {
		got = got[:0]
		for i, w := range menu {
			g := probes[name](w, false)
			got = append(got, g)
			if g != want[i] {
				static = false
			}
		}
		if probes[name](0, true) != 1 {
			static = false
		}
	}
	if !static && failed == nil {
		// randomLevel was edited: derive a menu with the same meaning by probing single-bit words
		cands := []uint64{0, ^uint64(0)}
		for b := 63; b >= 0; b-- {
			cands = append(cands, 1<<uint(b))
		}
		pick := map[int]uint64{}
		have := map[int]bool{}
		best, bestH := uint64(0), 0
		for _, w := range cands {
			hs, hc := probes["SkipList"](w, false), probes["SkipListWithCmp"](w, false)
			if hs != hc || failed != nil {
				continue
			}
			if !have[hs] {
				have[hs], pick[hs] = true, w
			}
			if hs >= bestH { // ties: the later candidate (lower bit) is normally the taller tower
				best, bestH = w, hs
			}
		}
		if failed == nil {
			if !have[1] {
				// not even height 1 can be produced: every answer gives the same (or a few other) heights
				r.Incomplete(fmt.Sprintf("randomLevel yields no tower of height 1 for any probed answer (heights seen: %v): the tower-height menu is reduced to what it yields", have))
				pick[1], have[1] = best, true
			}
			if !have[2] || !have[3] || bestH < 4 {
				// the current randomLevel cannot produce every small height (it is still free to choose
				// any distribution): the search runs with the heights it can produce and says so
				r.Incomplete(fmt.Sprintf("randomLevel no longer yields tower heights 2 and 3 and a height above 3 for any probed answer (heights seen: %v): the tower-height menu is reduced accordingly", have))
				for h := 2; h <= 3; h++ {
					if !have[h] {
						pick[h] = pick[h-1]
					}
				}
				if bestH < 4 {
					best, bestH = pick[3], 3
					if !have[3] {
						bestH = 1
						if have[2] {
							bestH = 2
						}
					}
				}
			}
			menu = []uint64{pick[1], pick[2], pick[3], best}
			want = []int{1, 2, 3, bestH}
			for i, w := range menu {
				want[i] = probes["SkipList"](w, false)
			}
			defaultWord = pick[1]
			source = "probed (randomLevel no longer maps the static menu to heights 1,2,3,high)"
			for _, name := range []string{"SkipList", "SkipListWithCmp"} {
				if probes[name](0, true) != 1 && failed == nil {
					r.Incomplete(fmt.Sprintf("the default answer %#x does not give height 1 on %s", defaultWord, name))
				}
			}
		}
	}
	if failed != nil {
		// golib itself failed on the probe sequence: report it and search with the static menu
		menu, want = []uint64{1 << 31, 1 << 30, 1 << 29, 1}, []int{1, 2, 3, 7}
		defaultWord = 1 << 31
		source = "read from randomLevel, NOT verified: golib failed during the start-up probe (reported as a violation)"
		probeFailed = failed
	}
	// shim fidelity: a zero value keeps its nil generator, with and without Clear
	common.Catch(func() {
		for s := 1; s <= 2; s++ {
			z := mkSkip(newConfig("SkipList", "skip", []int{1}, []int{0}, menu, want, 0, &laySkip), s)
			if s == 1 && (*z.randp() != nil || z.rng != nil || z.level() != 0) {
				common.Infra("self test: the zero-value start state is not untouched")
			}
			if *z.randp() != nil && *z.randp() != z.rng {
				common.Infra("self test: a generator created by golib was not replaced")
			}
		}
	})
	var rows []map[string]any
	for i, w := range menu {
		hh := any(want[i])
		if i == 3 {
			hh = fmt.Sprintf(">= %d through six inserts (capped to level+1 by set)", want[i])
		}
		rows = append(rows, map[string]any{"h": i, "raw_answer": fmt.Sprintf("%#x", w), "tower_height": hh})
	}
	r.Cov("rng_menu", rows)
	r.Cov("rng_menu_source", source)
	r.Cov("rng_default_answer", fmt.Sprintf("%#x (height 1)", defaultWord))
	r.Eval(int64(2 * (len(menu) + 1) * nq))
	fmt.Printf("  rng menu (%s): raw %#x -> heights %v; default %#x -> 1\n", source, menu, want, defaultWord)
	return menu, want
}
