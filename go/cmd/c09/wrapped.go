package main

import (
	"bytes"
	"fmt"

	"verif/common"
)

// `openssl enc -aes-256-cbc -md md5 -a` writes its base64 in lines of 64 characters, each ended
// by a newline (also the last one). A message in that shape is the same message: Decrypt must
// return the plaintext (the independent OpenSSL-format reader accepts it, Go's decoder skips
// newlines). Every plaintext length 0..80 (1 to 3 lines), three secrets, both argument kinds.
func wrappedMessages(r *common.Run) {
	sc := newSec("messages wrapped in lines of 64 characters as openssl -a writes them")
	for n := 0; n <= 80; n++ {
		p := pat(1, n)
		for si, s := range secrets {
			msg := oracleMsg(p, s, salts[1][:])
			var w bytes.Buffer
			for i := 0; i < len(msg); i += 64 {
				w.Write(msg[i:min(i+64, len(msg))])
				w.WriteByte('\n')
			}
			wrapped := w.Bytes()
			if back, ok := modelMsg(bytes.ReplaceAll(wrapped, []byte("\n"), nil), s); !ok || !bytes.Equal(back, p) {
				common.Infra("oracle: the reference message does not decrypt")
			}
			for ck := 0; ck < 2; ck++ {
				sc.add(1, 1)
				got, err, st := call(func() ([]byte, error) { return gDecrypt(wrapped, ck, s, ck) })
				c := map[string]any{"message": string(wrapped), "secret_index": si, "plaintext": hx(p), "argument_kind": kinds[ck]}
				switch {
				case st != "":
					r.Violation("Decrypt|panic|wrapped-base64", "Decrypt panicked at "+common.PanicSite(st)+" on a message wrapped in 64-character lines", map[string]any{"case": c, "stack": st}, "")
				case err != nil:
					r.Violation("Decrypt|error-on-valid|wrapped-base64", fmt.Sprintf("Decrypt returned %v for a %d-byte plaintext's message written in lines of 64 characters with trailing newlines (the shape `openssl enc -a` produces)", err, n), c, "")
				case !bytes.Equal(got, p):
					r.Violation("Decrypt|wrong-plaintext|wrapped-base64", fmt.Sprintf("Decrypt of the wrapped message returned %s, want %s", hx(got), hx(p)), c, "")
				}
			}
		}
	}
	sc.done(r)
}
