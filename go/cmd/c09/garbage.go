package main

import (
	"bytes"
	srand "crypto/rand"
	"encoding/base64"
	"encoding/hex"
	"fmt"
	"strings"

	"verif/common"

	"github.com/welllog/golib/cryptz"
)

var subst = []byte{'A', '=', '!', 'g', '0'}

// garbage: truncations, single-character substitutions, short strings and the empty input for
// every decryption entry point. Messages are built by the oracle (CBC) or by golib (GCM) with
// the enumerated salts. A set removes corrupted strings that several messages share.
func garbage(r *common.Run, a *agg) {
	sc := newSec("garbage")
	defer sc.done(r)
	// GCM messages come from golib itself (its envelope is not part of the property), drawn with
	// the scripted salts before the parallel phase.
	gcmMsgs := map[[3]int][]gm{}
	saved := srand.Reader
	defer func() { srand.Reader = saved }()
	for si := range salts {
		srand.Reader = &saltReader{salt: salts[si]}
		for ki, s := range secrets {
			for ai, ad := range aads {
				for n := 0; n <= maxPlain; n++ {
					for pp := 0; pp < 3; pp++ {
						if n == 0 && pp > 0 {
							continue
						}
						p := pat(pp, n)
						if msg, err, st := call(func() ([]byte, error) { return cryptz.GCMEncrypt(p, s, ad) }); st == "" && err == nil {
							gcmMsgs[[3]int{si, ki, ai}] = append(gcmMsgs[[3]int{si, ki, ai}], gm{p, msg})
						}
					}
				}
			}
		}
	}
	srand.Reader = saved
	type sh struct{ si, ki, part int } // part 0 = CBC, 1.. = GCM with aads[part-1]
	var shards []sh
	for si := range salts {
		for ki := range secrets {
			for part := 0; part <= len(aads); part++ {
				shards = append(shards, sh{si, ki, part})
			}
		}
	}
	r.Parallel(len(shards), func(shi int) {
		x := shards[shi]
		l := newLagg(shi)
		var ev, nt int64
		if x.part == 0 {
			ev, nt = garbageCBC(l, secrets[x.ki], salts[x.si][:])
		} else {
			ev, nt = garbageGCM(l, secrets[x.ki], aads[x.part-1], x.part-1, gcmMsgs[[3]int{x.si, x.ki, x.part - 1}])
		}
		sc.add(ev, nt)
		a.merge(l)
	})

	// short arbitrary strings over the substitution alphabet (the empty input first)
	alpha := make([]string, len(subst))
	for i, c := range subst {
		alpha[i] = string(c)
	}
	l := newLagg(0)
	common.Strings(alpha, 4, func(g string) {
		for ki, s := range secrets {
			for k := 0; k < 2; k++ {
				sc.add(2, 2)
				cls := "short-garbage"
				if g == "" {
					cls = "empty-input"
				}
				c := map[string]any{"message": g, "secret": string(s), "type": kinds[k]}
				rank := int64(len(g))*10 + int64(ki)
				got, err, st := call(func() ([]byte, error) { return gDecrypt([]byte(g), k, s, k) })
				if st != "" {
					l.report("Decrypt|panic|"+cls, rank, "Decrypt panicked at "+common.PanicSite(st), map[string]any{"case": c, "stack": st}, "")
				} else if err == nil {
					l.report("Decrypt|no-error|"+cls, rank, fmt.Sprintf("Decrypt(%q) returned %s and no error", g, hx(got)), c, "")
				}
				got, err, st = call(func() ([]byte, error) { return gGCMDecrypt([]byte(g), s, k, aads[ki%2], k) })
				if st != "" {
					l.report("GCMDecrypt|panic|"+cls, rank, "GCMDecrypt panicked at "+common.PanicSite(st), map[string]any{"case": c, "stack": st}, "")
				} else if err == nil {
					l.report("GCMDecrypt|no-error|"+cls, rank, fmt.Sprintf("GCMDecrypt(%q) returned %s and no error", g, hx(got)), c, "")
				}
			}
		}
	})
	// empty binary envelopes
	for _, reuse := range []bool{false, true} {
		for _, in := range [][]byte{nil, {}} {
			sc.add(2, 2)
			_, e1, s1 := call(func() ([]byte, error) { return cryptz.SaltBySecretCBCDecrypt(in, "k", reuse) })
			_, e2, s2 := call(func() ([]byte, error) { return cryptz.SaltBySecretGCMDecrypt(in, "k", "a", reuse) })
			if s1 != "" || s2 != "" {
				l.report("SaltBySecretDecrypt|panic|empty-input", 0, "panicked on an empty envelope", map[string]any{"stack": s1 + s2}, "")
			} else if e1 == nil || e2 == nil {
				l.report("SaltBySecretDecrypt|no-error|empty-input", 0, fmt.Sprintf("empty envelope: CBC err=%v GCM err=%v", e1, e2), nil, "")
			}
		}
	}
	a.merge(l)
	r.SampleL("garbage", map[string]any{"message": base64.StdEncoding.EncodeToString(append(append([]byte{}, magic...), salts[1][:]...)), "secret": "k", "want": "error (envelope without a cipher block)"})
}

// randFaults: crypto/rand.Reader misbehaves while a salt is drawn. Sequential (the reader has
// state). Demanded: no panic, and a call that reports success must have produced a message /
// stream that decrypts to the plaintext.
func randFaults(r *common.Run, a *agg) {
	sc := newSec("rand-faults")
	defer sc.done(r)
	saved := srand.Reader
	defer func() { srand.Reader = saved }()
	l := newLagg(0)
	outcomes := map[string]int{}
	for mode := range randModes {
		for _, n := range []int{0, 1, 16, 17} {
			p := pat(1, n)
			type ep struct {
				name string
				enc  func() ([]byte, error)
				dec  func(m []byte) ([]byte, error)
			}
			eps := []ep{
				{"Encrypt", func() ([]byte, error) { return cryptz.Encrypt(p, "k") }, func(m []byte) ([]byte, error) { return cryptz.Decrypt(m, "k") }},
				{"GCMEncrypt", func() ([]byte, error) { return cryptz.GCMEncrypt(p, "k", "a") }, func(m []byte) ([]byte, error) { return cryptz.GCMDecrypt(m, "k", "a") }},
				{"SaltBySecretCBCEncrypt", func() ([]byte, error) { return cryptz.SaltBySecretCBCEncrypt(p, "k") }, func(m []byte) ([]byte, error) { return cryptz.SaltBySecretCBCDecrypt(m, "k", false) }},
				{"SaltBySecretGCMEncrypt", func() ([]byte, error) { return cryptz.SaltBySecretGCMEncrypt(p, "k", "a") }, func(m []byte) ([]byte, error) { return cryptz.SaltBySecretGCMDecrypt(m, "k", "a", false) }},
				{"EncryptStreamTo", func() ([]byte, error) {
					var w swriter
					err := cryptz.EncryptStreamTo(&w, bytes.NewReader(p), "k")
					return w.buf, err
				}, func(m []byte) ([]byte, error) {
					var w swriter
					err := cryptz.DecryptStreamTo(&w, bytes.NewReader(m), "k")
					return w.buf, err
				}},
			}
			for _, e := range eps {
				sc.add(1, 1)
				srand.Reader = &faultyRand{mode: mode}
				out, err, st := call(e.enc)
				srand.Reader = saved
				c := map[string]any{"rand_reader": randModes[mode], "plaintext": hx(p)}
				if st != "" {
					l.report(e.name+"|panic|rand-reader-fault", int64(n), e.name+" panicked at "+common.PanicSite(st), map[string]any{"case": c, "stack": st}, "")
					continue
				}
				if err != nil {
					outcomes[randModes[mode]+": error"]++
					continue
				}
				outcomes[randModes[mode]+": message"]++
				back, derr, st := call(func() ([]byte, error) { return e.dec(out) })
				if st != "" || derr != nil || !bytes.Equal(back, p) {
					l.report(e.name+"|undecryptable-output|rand-reader-fault", int64(n), fmt.Sprintf("%s reported success while crypto/rand.Reader answered %q, but its output does not decrypt to the plaintext (got %s, err %v)", e.name, randModes[mode], hx(back), derr), c, "")
				}
			}
		}
	}
	a.merge(l)
	r.Cov("rand_fault_outcomes", outcomes)
}

type gm struct{ p, msg []byte }

// garbageCBC: corrupted CBC messages are compared with the independent OpenSSL-style reader.
func garbageCBC(l *lagg, s, salt []byte) (ev, nt int64) {
	seen := map[string]struct{}{}
	cbcText := func(g []byte, cls string, ck int) {
		if _, dup := seen[string(g)]; dup {
			return
		}
		seen[string(g)] = struct{}{}
		ev++
		want, ok := modelMsg(g, s)
		if !ok {
			nt++
		}
		got, err, st := call(func() ([]byte, error) { return gDecrypt(g, ck, s, ck) })
		rank := int64(len(g))
		if st == "" && ((ok && err == nil && bytes.Equal(got, want)) || (!ok && err != nil)) {
			return
		}
		if st == "" && ok && err != nil {
			// base64 whose last quantum carries non-zero padding bits decodes under the lenient
			// reading only; a strict decoder rejects it. Either reading is an OpenSSL-compatible reader.
			if _, strictErr := base64.StdEncoding.Strict().DecodeString(strings.NewReplacer("\n", "", "\r", "").Replace(string(g))); strictErr != nil {
				return
			}
		}
		c := map[string]any{"message": string(g), "secret": string(s), "type": kinds[ck]}
		switch {
		case st != "":
			l.report("Decrypt|panic|"+cls, rank, "Decrypt panicked at "+common.PanicSite(st), map[string]any{"case": c, "stack": st}, "")
		case !ok:
			l.report("Decrypt|no-error|"+cls, rank, fmt.Sprintf("Decrypt returned %s and no error; an OpenSSL-style reader rejects this message (bad base64, length, magic or padding)", hx(got)), c, "")
		default:
			l.report("Decrypt|differs-from-openssl-reader|"+cls, rank, fmt.Sprintf("Decrypt returned %s, %v; the message is still a well-formed OpenSSL message for %s", hx(got), err, hx(want)), c, "")
		}
	}
	seenRaw := map[string]struct{}{}
	cbcRaw := func(g []byte, reuse bool) {
		key := "n" + string(g)
		if reuse {
			key = "r" + string(g)
		}
		if _, dup := seenRaw[key]; dup {
			return
		}
		seenRaw[key] = struct{}{}
		ev++
		want, ok := modelRaw(g, s)
		if !ok {
			nt++
		}
		got, err, st := call(func() ([]byte, error) { return gRawDecrypt(g, s, 1, reuse) })
		if st == "" && ((ok && err == nil && bytes.Equal(got, want)) || (!ok && err != nil)) {
			return
		}
		c := map[string]any{"envelope": hx(g), "secret": string(s), "reuse": reuse}
		switch {
		case st != "":
			l.report("SaltBySecretCBCDecrypt|panic|truncated", int64(len(g)), "panicked at "+common.PanicSite(st), map[string]any{"case": c, "stack": st}, "")
		case !ok:
			l.report("SaltBySecretCBCDecrypt|no-error|truncated", int64(len(g)), fmt.Sprintf("returned %s and no error; an OpenSSL-style reader rejects this envelope", hx(got)), c, "")
		default:
			l.report("SaltBySecretCBCDecrypt|differs-from-openssl-reader|truncated", int64(len(g)), fmt.Sprintf("returned %s, %v; an OpenSSL-style reader gives %s", hx(got), err, hx(want)), c, "")
		}
	}
	for n := 0; n <= maxPlain; n++ {
		for pp := 0; pp < 3; pp++ {
			if n == 0 && pp > 0 {
				continue
			}
			msg := oracleMsg(pat(pp, n), s, salt)
			for k := 0; k < len(msg); k++ {
				cbcText(msg[:k], "truncated", 0)
			}
			g := append([]byte(nil), msg...)
			for pos := range msg {
				for _, ch := range subst {
					if msg[pos] == ch {
						continue
					}
					g[pos] = ch
					cbcText(g, "character-substituted", 1)
				}
				g[pos] = msg[pos]
			}
			raw := oracleRaw(pat(pp, n), s, salt)
			for k := 0; k < len(raw); k++ {
				cbcRaw(raw[:k], false)
				cbcRaw(raw[:k], true)
			}
		}
	}
	return
}

// garbageGCM: every corruption that changes the decoded bytes must be rejected.
func garbageGCM(l *lagg, s, ad []byte, ai int, msgs []gm) (ev, nt int64) {
	seenG := map[string]struct{}{}
	gcmText := func(g []byte, cls string, same bool, p []byte, ck int) {
		if _, dup := seenG[string(g)]; dup {
			return
		}
		seenG[string(g)] = struct{}{}
		ev++
		got, err, st := call(func() ([]byte, error) { return gGCMDecrypt(g, s, ck, ad, ck) })
		rank := int64(len(g))*10 + int64(ai)
		if st == "" && ((same && (err != nil || bytes.Equal(got, p))) || (!same && err != nil)) {
			if !same {
				nt++
			}
			return
		}
		c := map[string]any{"message": string(g), "secret": string(s), "aad": string(ad), "type": kinds[ck]}
		switch {
		case st != "":
			l.report("GCMDecrypt|panic|"+cls, rank, "GCMDecrypt panicked at "+common.PanicSite(st), map[string]any{"case": c, "stack": st}, "")
		case same:
			// decodes to the same bytes (hex case): not a difference, but then the plaintext must be right
			l.report("GCMDecrypt|wrong-plaintext|"+cls, rank, fmt.Sprintf("returned %s, want %s", hx(got), hx(p)), c, "")
		default:
			nt++
			l.report("GCMDecrypt|no-error|"+cls, rank, fmt.Sprintf("GCMDecrypt returned %s and no error for a corrupted message", hx(got)), c, "")
		}
	}
	seenGR := map[string]struct{}{}
	for _, m := range msgs {
		p, msg := m.p, m.msg
		bin, herr := hex.DecodeString(string(msg))
		if herr != nil {
			continue // reported by gcmMessages
		}
		for k := 0; k < len(msg); k++ {
			gcmText(msg[:k], "truncated", false, p, 0)
		}
		g := append([]byte(nil), msg...)
		for pos := range msg {
			for _, ch := range subst {
				if msg[pos] == ch {
					continue
				}
				g[pos] = ch
				dec, derr := hex.DecodeString(string(g))
				gcmText(g, "character-substituted", derr == nil && bytes.Equal(dec, bin), p, 1)
			}
			g[pos] = msg[pos]
		}
		for k := 0; k < len(bin); k++ {
			for _, reuse := range []bool{false, true} {
				key := "n" + string(bin[:k])
				if reuse {
					key = "r" + string(bin[:k])
				}
				if _, dup := seenGR[key]; dup {
					continue
				}
				seenGR[key] = struct{}{}
				ev++
				nt++
				_, err, st := call(func() ([]byte, error) { return gRawGCMDecrypt(bin[:k], s, ad, 1, reuse) })
				if st == "" && err != nil {
					continue
				}
				c := map[string]any{"envelope": hx(bin[:k]), "secret": string(s), "aad": string(ad), "reuse": reuse}
				if st != "" {
					l.report("SaltBySecretGCMDecrypt|panic|truncated", int64(k), "panicked at "+common.PanicSite(st), map[string]any{"case": c, "stack": st}, "")
				} else {
					l.report("SaltBySecretGCMDecrypt|no-error|truncated", int64(k), "accepted a truncated envelope", c, "")
				}
			}
		}
	}
	return
}
