package main

import (
	"bytes"
	"context"
	"crypto/aes"
	"crypto/cipher"
	"fmt"
	"os/exec"
	"time"

	"verif/common"

	"github.com/welllog/golib/cryptz"
)

// ctrOracle: AES-256-CTR under the EVP key and IV (used only to record what the stream format is).
func ctrOracle(p, secret, salt []byte) []byte {
	key, iv := evp(secret, salt)
	blk, err := aes.NewCipher(key)
	if err != nil {
		common.Infra("oracle: %v", err)
	}
	out := make([]byte, len(p))
	cipher.NewCTR(blk, iv).XORKeyStream(out, p)
	return out
}

// opensslBonus (thorough tier, only if an openssl binary is on PATH, never deciding): a few
// messages are piped through `openssl enc` in both directions and the agreement is recorded.
func opensslBonus(r *common.Run) {
	if !r.Thorough() {
		return
	}
	path, err := exec.LookPath("openssl")
	if err != nil {
		return
	}
	run := func(in []byte, args ...string) ([]byte, error) {
		ctx, cancel := context.WithTimeout(context.Background(), 10*time.Second)
		defer cancel()
		cmd := exec.CommandContext(ctx, path, args...)
		cmd.Stdin = bytes.NewReader(in)
		return cmd.Output()
	}
	ok, total := 0, 0
	for _, s := range secrets[1:] {
		for _, n := range []int{0, 5, 16, 33} {
			p := pat(1, n)
			total += 2
			msg, err, st := call(func() ([]byte, error) { return cryptz.Encrypt(p, s) })
			if st == "" && err == nil {
				if out, err := run(append(msg, '\n'), "enc", "-d", "-aes-256-cbc", "-md", "md5", "-a", "-A", "-pass", "pass:"+string(s)); err == nil && bytes.Equal(out, p) {
					ok++
				}
			}
			if enc, err := run(p, "enc", "-aes-256-cbc", "-md", "md5", "-salt", "-a", "-A", "-pass", "pass:"+string(s)); err == nil {
				if got, err, st := call(func() ([]byte, error) { return cryptz.Decrypt(bytes.TrimSpace(enc), s) }); st == "" && err == nil && bytes.Equal(got, p) {
					ok++
				}
			}
		}
	}
	r.Cov("openssl_binary_interop", fmt.Sprintf("%d of %d messages agreed with %s (informational)", ok, total, path))
}
