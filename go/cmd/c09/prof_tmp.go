package main

import (
	"os"
	"runtime/pprof"
)

func init() {
	if p := os.Getenv("C09_PROFILE"); p != "" {
		f, _ := os.Create(p)
		pprof.StartCPUProfile(f)
		stopProf = func() { pprof.StopCPUProfile(); f.Close() }
	}
}

var stopProf = func() {}
