package main

import (
	"errors"
	"io"
	"math/bits"
)

// ---- crypto/rand.Reader scripts ----------------------------------------------------------------

// saltReader is the benign random source: it fills every request with the enumerated salt. It
// has no state, so it may serve all shards of a parallel phase.
type saltReader struct{ salt [8]byte }

func (s *saltReader) Read(p []byte) (int, error) {
	for i := range p {
		p[i] = s.salt[i%8]
	}
	return len(p), nil
}

var errRand = errors.New("scripted failure of crypto/rand.Reader")

// faultyRand: mode 0 fails at once, 1 returns 4 bytes then fails, 2 reports io.EOF at once,
// 3 delivers one byte per call (legal short reads), 4 answers (0,nil) once and then everything.
type faultyRand struct {
	mode  int
	calls int
}

var randModes = []string{"error-at-once", "4-bytes-then-error", "EOF-at-once", "one-byte-per-read", "(0,nil)-then-full"}

func (f *faultyRand) Read(p []byte) (int, error) {
	f.calls++
	switch f.mode {
	case 0:
		return 0, errRand
	case 1:
		if f.calls == 1 && len(p) >= 4 {
			for i := 0; i < 4; i++ {
				p[i] = byte(0x40 + i)
			}
			return 4, nil
		}
		return 0, errRand
	case 2:
		return 0, io.EOF
	case 3:
		if len(p) == 0 {
			return 0, nil
		}
		p[0] = byte(0x50 + f.calls)
		return 1, nil
	default:
		if f.calls == 1 {
			return 0, nil
		}
		for i := range p {
			p[i] = byte(0x60 + i)
		}
		return len(p), nil
	}
}

// ---- io.Reader / io.Writer scripts ---------------------------------------------------------------

var (
	errRead  = errors.New("scripted read failure")
	errWrite = errors.New("scripted write failure")
)

// sreader delivers data in the chunks a script prescribes. The default script (cuts = 0, no
// flags) answers every Read with everything that is left and then (0, io.EOF).
//
//	cuts  bit i  : a chunk ends after byte i+1 (the next Read starts a new chunk there)
//	zeros bit j  : one (0, nil) answer before the Read that starts at offset j < len(data)
//	zeroTail     : one (0, nil) answer before the final (0, io.EOF)
//	eofWith      : the Read delivering the last byte returns io.EOF together with the data
//	failAt       : the failAt-th Read call returns (0, errRead) instead
//
// A Read never returns more than len(p): the rest of the chunk is kept for the next call.
type sreader struct {
	data     []byte
	cuts     uint64
	zeros    uint64
	eofWith  bool
	zeroTail bool
	failAt   int

	pos, calls, zdone int
	firstN            int
	firstErr          error
}

func (s *sreader) reset() {
	s.pos, s.calls, s.zdone, s.firstN, s.firstErr = 0, 0, -1, 0, nil
}

func (s *sreader) Read(p []byte) (int, error) {
	n, err := s.read(p)
	if s.calls == 1 {
		s.firstN, s.firstErr = n, err
	}
	return n, err
}

func (s *sreader) read(p []byte) (n int, err error) {
	s.calls++
	if s.calls == s.failAt {
		return 0, errRead
	}
	if s.pos >= len(s.data) {
		if s.zeroTail && s.zdone != s.pos {
			s.zdone = s.pos
			return 0, nil
		}
		return 0, io.EOF
	}
	if s.zeros>>uint(s.pos)&1 == 1 && s.zdone != s.pos {
		s.zdone = s.pos
		return 0, nil
	}
	end := len(s.data)
	if rest := s.cuts >> uint(s.pos); rest != 0 {
		if e := s.pos + bits.TrailingZeros64(rest) + 1; e < end {
			end = e
		}
	}
	n = copy(p, s.data[s.pos:end])
	s.pos += n
	if s.pos == len(s.data) && s.eofWith {
		return n, io.EOF
	}
	return n, nil
}

// chunks lists the chunk sizes of a script (for reports).
func chunks(l int, cuts uint64) []int {
	var out []int
	start := 0
	for i := 0; i < l-1; i++ {
		if cuts>>uint(i)&1 == 1 {
			out = append(out, i+1-start)
			start = i + 1
		}
	}
	if l > start {
		out = append(out, l-start)
	}
	return out
}

// starts returns the mask of chunk start offsets of a script over l > 0 bytes.
func starts(cuts uint64) uint64 { return cuts<<1 | 1 }

// swriter accepts everything, or fails (0, errWrite) at call failAt.
type swriter struct {
	buf    []byte
	calls  int
	failAt int
}

func (w *swriter) Write(p []byte) (int, error) {
	w.calls++
	if w.calls == w.failAt {
		return 0, errWrite
	}
	w.buf = append(w.buf, p...)
	return len(p), nil
}

func (w *swriter) reset() { w.buf, w.calls = w.buf[:0], 0 }
