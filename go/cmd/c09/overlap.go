package main

import (
	"bytes"
	srand "crypto/rand"
	"fmt"
	"io"

	"verif/common"

	"github.com/welllog/golib/cryptz"
)

// Two calls into cryptz that overlap in time must not disturb each other: the package keeps no
// state of its own, its functions are called from request handlers. The calls run as coroutines
// that can be switched at every environment call they make — each Read on the caller's reader
// (before the data is delivered), each Write on the caller's writer (before the bytes are
// consumed, as a writer that blocks would) and each read of crypto/rand.Reader — and EVERY
// interleaving of those points is enumerated. Each call has its own plaintext, secret, reader and
// writer; each result is judged on its own (decrypts to its own plaintext under its own secret).

type ovEnv struct{ cur func() }

type ovReader struct {
	e    *ovEnv
	data []byte
	cut  int // first Read delivers cut bytes (0: everything), EOF separately
	pos  int
}

func (s *ovReader) Read(p []byte) (int, error) {
	s.e.cur()
	if s.pos >= len(s.data) {
		return 0, io.EOF
	}
	end := len(s.data)
	if s.pos == 0 && s.cut > 0 && s.cut < end {
		end = s.cut
	}
	n := copy(p, s.data[s.pos:end])
	s.pos += n
	return n, nil
}

type ovWriter struct {
	e   *ovEnv
	buf []byte
}

func (w *ovWriter) Write(p []byte) (int, error) {
	w.e.cur()
	w.buf = append(w.buf, p...)
	return len(p), nil
}

type ovRand struct {
	e     *ovEnv
	calls int
}

func (s *ovRand) Read(p []byte) (int, error) {
	s.e.cur()
	s.calls++
	for i := range p {
		p[i] = byte(0x10*s.calls + i)
	}
	return len(p), nil
}

type ovCall struct {
	name  string
	run   func(e *ovEnv) (out []byte, err error)
	judge func(out []byte) string // "" = fine
}

func ovCalls(slot int) []ovCall {
	secret := []string{"k", "another secret, 40 bytes long..........!"}[slot]
	other := []string{"another secret, 40 bytes long..........!", "k"}[slot]
	_ = other
	var calls []ovCall
	for _, n := range []int{0, 5, 33} {
		p := pat(1+slot, n)
		cut := 0
		if n > 16 {
			cut = 17
		}
		calls = append(calls, ovCall{
			name: fmt.Sprintf("EncryptStreamTo(%d bytes, read in %d parts, secret %q)", n, 1+b2i(cut > 0), secret),
			run: func(e *ovEnv) ([]byte, error) {
				w := &ovWriter{e: e}
				err := cryptz.EncryptStreamTo(w, &ovReader{e: e, data: p, cut: cut}, secret)
				return w.buf, err
			},
			judge: func(out []byte) string {
				var w2 swriter
				if derr := cryptz.DecryptStreamTo(&w2, bytes.NewReader(out), secret); derr != nil || !bytes.Equal(w2.buf, p) {
					return fmt.Sprintf("its output %s decrypts (alone, afterwards) to %s, %v; want %s", hx(out), hx(w2.buf), derr, hx(p))
				}
				return ""
			},
		})
		ref, _ := func() ([]byte, error) {
			var w swriter
			err := cryptz.EncryptStreamTo(&w, bytes.NewReader(p), secret)
			return w.buf, err
		}()
		calls = append(calls, ovCall{
			name: fmt.Sprintf("DecryptStreamTo(stream of %d plaintext bytes, secret %q)", n, secret),
			run: func(e *ovEnv) ([]byte, error) {
				w := &ovWriter{e: e}
				err := cryptz.DecryptStreamTo(w, &ovReader{e: e, data: ref, cut: 9}, []byte(secret))
				return w.buf, err
			},
			judge: func(out []byte) string {
				if !bytes.Equal(out, p) {
					return fmt.Sprintf("wrote %s, want %s", hx(out), hx(p))
				}
				return ""
			},
		})
	}
	p := pat(1+slot, 21)
	calls = append(calls, ovCall{
		name: fmt.Sprintf("Encrypt(21 bytes, secret %q)", secret),
		run:  func(e *ovEnv) ([]byte, error) { return cryptz.Encrypt(p, secret) },
		judge: func(out []byte) string {
			if back, ok := modelMsg(out, []byte(secret)); !ok || !bytes.Equal(back, p) {
				return fmt.Sprintf("message %q does not decrypt (independent OpenSSL-format reader) to the plaintext", out)
			}
			return ""
		},
	})
	calls = append(calls, ovCall{
		name: fmt.Sprintf("GCMEncrypt(21 bytes, secret %q)", secret),
		run:  func(e *ovEnv) ([]byte, error) { return cryptz.GCMEncrypt(p, secret, []byte("a")) },
		judge: func(out []byte) string {
			back, err := cryptz.GCMDecrypt(out, []byte(secret), "a")
			if err != nil || !bytes.Equal(back, p) {
				return fmt.Sprintf("message %q decrypts (alone, afterwards) to %s, %v", out, hx(back), err)
			}
			return ""
		},
	})
	return calls
}

func b2i(b bool) int {
	if b {
		return 1
	}
	return 0
}

func overlapped(r *common.Run) {
	saved := srand.Reader
	defer func() { srand.Reader = saved }()
	// the reference streams of the second slot are made before the scripted random source is installed
	srand.Reader = &saltReader{salt: salts[1]}
	c0, c1 := ovCalls(0), ovCalls(1)
	sc := newSec("two overlapping calls, every interleaving at the Read / Write / crypto/rand.Reader calls")
	bound := 3 // switches away from a call that could continue; thorough: no bound
	if r.Thorough() {
		bound = -1
	}
	var execs int64
	for i := range c0 {
		for j := range c1 {
			a, b := c0[i], c1[j]
			n := common.Overlap(bound, func() ([]func(func()), func(*common.OverlapExec)) {
				e := &ovEnv{}
				srand.Reader = &ovRand{e: e}
				var out [2][]byte
				var errs [2]error
				body := func(k int, c ovCall) func(func()) {
					return func(y func()) {
						var yy func()
						yy = func() { y(); e.cur = yy }
						e.cur = yy
						out[k], errs[k] = c.run(e)
					}
				}
				return []func(func()){body(0, a), body(1, b)}, func(x *common.OverlapExec) {
					e.cur = func() {}
					srand.Reader = &saltReader{salt: salts[1]}
					sw := 0
					for q := 1; q < len(x.Schedule); q++ {
						if x.Schedule[q] != x.Schedule[q-1] {
							sw++
						}
					}
					sc.add(1, int64(b2i(sw > 1)))
					for k, c := range []ovCall{a, b} {
						cs := map[string]any{"call": c.name, "other_call": []ovCall{b, a}[k].name, "schedule": x.Schedule}
						ep := c.name[:bytes.IndexByte([]byte(c.name), '(')]
						switch {
						case x.Panics[k] != nil:
							r.Violation(ep+"|overlap|panic", fmt.Sprintf("%s panicked while %s was in progress: %v", c.name, cs["other_call"], x.Panics[k]), cs, "")
						case errs[k] != nil:
							r.Violation(ep+"|overlap|error", fmt.Sprintf("%s returned %v while %s was in progress (schedule %v)", c.name, errs[k], cs["other_call"], x.Schedule), cs, "")
						default:
							if why := c.judge(out[k]); why != "" {
								r.Violation(ep+"|overlap|wrong-result", fmt.Sprintf("%s overlapped with %s (switches at environment calls, schedule %v): %s", c.name, cs["other_call"], x.Schedule, why), cs, "")
							}
						}
					}
				}
			})
			execs += int64(n)
		}
	}
	r.Cov("overlap_switch_bound", map[bool]any{true: "none", false: bound}[bound < 0])
	r.Cov("overlap_executions", execs)
	sc.done(r)
}
