package main

import (
	"bytes"
	"fmt"
	"math/bits"
	"sync"

	"verif/common"

	"github.com/welllog/golib/cryptz"
)

const streamSecret = "k"

// script is one environment behaviour of a reader over l bytes.
type script struct {
	cuts, zeros       uint64
	eofWith, zeroTail bool
}

func (s script) deviations() int {
	n := bits.OnesCount64(s.cuts) + bits.OnesCount64(s.zeros)
	if s.eofWith {
		n++
	}
	if s.zeroTail {
		n++
	}
	return n
}

func (s script) describe(l int) map[string]any {
	var z []int
	for j := 0; j < l; j++ {
		if s.zeros>>uint(j)&1 == 1 {
			z = append(z, j)
		}
	}
	eof := "separate (0, io.EOF) read"
	if s.eofWith && l > 0 {
		eof = "io.EOF together with the last data"
	}
	return map[string]any{"stream_len": l, "read_chunks": chunks(l, s.cuts), "empty_reads_before_offsets": z, "empty_read_before_eof": s.zeroTail, "eof": eof}
}

func (s script) rank(l int) int64 {
	c := s.cuts
	if c > 1<<30 {
		c = 1 << 30
	}
	return int64(l)<<40 | int64(s.deviations())<<32 | int64(c)
}

// allGaps adds an empty read before every chunk and before the final EOF read.
func (s script) allGaps(l int) script {
	if l > 0 {
		s.zeros = starts(s.cuts)
	}
	s.zeroTail = !s.eofWith || l == 0
	return s
}

func (s script) apply(rd *sreader, data []byte) {
	rd.data, rd.cuts, rd.zeros, rd.eofWith, rd.zeroTail, rd.failAt = data, s.cuts, s.zeros, s.eofWith, s.zeroTail, 0
	rd.reset()
}

// encClass names the way the plaintext reader deviates from "one full read, then EOF".
func encClass(s script) string {
	switch {
	case s.cuts != 0:
		return "plaintext-in-several-reads"
	case s.eofWith:
		return "eof-with-last-data"
	case s.zeros != 0 || s.zeroTail:
		return "empty-reads"
	}
	return "full-reads"
}

// decClass names how the ciphertext reader delivers the 16-byte header and the body. It is a
// function of the script only, not of what the implementation happened to ask for.
func decClass(total int, s script) string {
	switch {
	case total < 16:
		return "stream-shorter-than-header"
	case s.cuts&(1<<15-1) != 0 || s.zeros&(1<<16-1) != 0:
		return "header-split-across-reads"
	case total == 16 && s.eofWith:
		return "header-16-bytes-with-eof"
	case s.cuts>>16 != 0:
		return "header-whole/body-in-several-reads"
	case s.eofWith:
		return "header-whole/eof-with-last-data"
	case s.zeros>>16 != 0 || s.zeroTail:
		return "header-whole/empty-reads"
	}
	return "header-whole/full-reads"
}

func decTest(plain []byte, total int, s script) string {
	return fmt.Sprintf(`type chunkReader struct{ data []byte; sizes []int; eofWith bool }
func (c *chunkReader) Read(p []byte) (int, error) {
	if len(c.data) == 0 { return 0, io.EOF }
	n := c.sizes[0]; if n > len(p) { n = len(p) }
	copy(p, c.data[:n]); c.data = c.data[n:]
	if c.sizes[0] -= n; c.sizes[0] == 0 { c.sizes = c.sizes[1:] }
	if len(c.data) == 0 && c.eofWith { return n, io.EOF }
	return n, nil
}
func TestReplay(t *testing.T) {
	plain, _ := hex.DecodeString(%q)
	var enc, out bytes.Buffer
	if err := cryptz.EncryptStreamTo(&enc, bytes.NewReader(plain), "k"); err != nil { t.Fatal(err) }
	err := cryptz.DecryptStreamTo(&out, &chunkReader{data: enc.Bytes(), sizes: %#v, eofWith: %v}, "k")
	if err != nil || !bytes.Equal(out.Bytes(), plain) { t.Fatalf("got %%x, %%v", out.Bytes(), err) }
}`, hx(plain), chunks(total, s.cuts), s.eofWith && total > 0)
}

type outcomes struct {
	mu sync.Mutex
	m  map[string]int64
}

func (o *outcomes) add(local map[string]int64) {
	o.mu.Lock()
	for k, v := range local {
		o.m[k] += v
	}
	o.mu.Unlock()
}

// reference ciphertext stream of a plaintext under the default environment (bytes.Reader in,
// accepting writer out) and the scripted salt.
func refStream(p []byte) ([]byte, error) {
	var w swriter
	var err error
	_, st, pn := common.Catch(func() { err = cryptz.EncryptStreamTo(&w, bytes.NewReader(p), streamSecret) })
	if pn {
		return nil, fmt.Errorf("panic: %s", common.PanicSite(st))
	}
	return w.buf, err
}

func streams(r *common.Run, a *agg) {
	maxTotal := 20 // quick: all compositions of streams up to 20 bytes (thorough: 24)
	if r.Thorough() {
		maxTotal = 24
	}
	r.Cov("stream_all_compositions_up_to_total_bytes", maxTotal)
	out := &outcomes{m: map[string]int64{}}
	refs := map[string][]byte{}
	l0 := newLagg(0)
	sc0 := newSec("stream-default-environment")
	for pp := 0; pp < 3; pp++ {
		for n := 0; n <= 48; n++ {
			if n == 0 && pp > 0 {
				continue
			}
			p := pat(pp, n)
			sc0.add(1, 0)
			ref, err := refStream(p)
			c := map[string]any{"plaintext": hx(p), "secret": streamSecret}
			if err != nil {
				l0.report("EncryptStreamTo|error-on-valid-stream|full-reads", int64(n), fmt.Sprintf("EncryptStreamTo(bytes.Reader) failed: %v", err), c, "")
				continue
			}
			refs[fmt.Sprint(pp, "/", n)] = ref
			for sk := 0; sk < 2; sk++ {
				sc0.add(1, 0)
				var w swriter
				var derr error
				_, st, pn := common.Catch(func() {
					if sk == 0 {
						derr = cryptz.DecryptStreamTo(&w, bytes.NewReader(ref), streamSecret)
					} else {
						derr = cryptz.DecryptStreamTo(&w, bytes.NewReader(ref), []byte(streamSecret))
					}
				})
				switch {
				case pn:
					l0.report("DecryptStreamTo|panic|header-whole/full-reads", int64(n), "DecryptStreamTo panicked at "+common.PanicSite(st), map[string]any{"case": c, "stack": st}, "")
				case derr != nil:
					l0.report("DecryptStreamTo|error-on-valid-stream|header-whole/full-reads", int64(n), fmt.Sprintf("DecryptStreamTo(bytes.Reader over EncryptStreamTo's output) returned %v", derr), c, "")
				case !bytes.Equal(w.buf, p):
					l0.report("DecryptStreamTo|wrong-plaintext|header-whole/full-reads", int64(n), fmt.Sprintf("DecryptStreamTo returned %s, want %s", hx(w.buf), hx(p)), c, "")
				}
			}
		}
	}
	sc0.done(r)
	a.merge(l0)
	ref := func(pp, n int) []byte {
		if n == 0 {
			pp = 0 // the empty plaintext exists once
		}
		return refs[fmt.Sprint(pp, "/", n)]
	}
	// is the stream format Salted__ + salt + AES-256-CTR under the EVP key and IV? (recorded, not demanded)
	r.Cov("stream_format_is_openssl_header_plus_ctr", streamFormatMatches(ref(1, 40), pat(1, 40)))

	// the cheap families first, so that a starved machine can only cut the big enumeration
	// ---- streams that are not valid: shorter than the header, wrong magic ---------------------------
	streamsInvalid(r, a, out, ref)
	// ---- injected reader / writer failures on short streams --------------------------------------
	streamsFaults(r, a, out, ref)
	// ---- longer streams, at most k deviations ------------------------------------------------------
	streamsDeviations(r, a, out, ref, maxTotal)
	// ---- every composition of short streams (shortest first) -----------------------------------------
	streamsAll(r, a, out, maxTotal, ref)

	r.Cov("stream_outcomes", out.m)
	r.SampleL("stream", map[string]any{"entry": "DecryptStreamTo", "plaintext": hx(pat(1, 3)), "script": script{cuts: 0b1000000000000001, eofWith: true}.describe(19), "want": "plaintext back, nil error"})
	r.SampleL("stream", map[string]any{"entry": "EncryptStreamTo", "plaintext": hx(pat(1, 5)), "script": script{cuts: 0b101}.allGaps(5).describe(5), "writer": "fails at call 3", "want": "non-nil error"})
}

// encRun executes EncryptStreamTo under a reader script and an accepting writer and checks it.
func encRun(l *lagg, o map[string]int64, rd *sreader, w *swriter, p, want []byte, s script) {
	s.apply(rd, p)
	w.reset()
	w.failAt = 0
	var err error
	_, st, pn := common.Catch(func() { err = cryptz.EncryptStreamTo(w, rd, streamSecret) })
	cls := encClass(s)
	switch {
	case pn:
		o["EncryptStreamTo panic"]++
		if sig := "EncryptStreamTo|panic|" + cls; l.hit(sig, s.rank(len(p))) {
			l.detail(sig, "EncryptStreamTo panicked at "+common.PanicSite(st), map[string]any{"plaintext": hx(p), "reader": s.describe(len(p)), "stack": st}, "")
		}
	case err != nil:
		o["EncryptStreamTo error"]++
		if sig := "EncryptStreamTo|error-on-valid-stream|" + cls; l.hit(sig, s.rank(len(p))) {
			l.detail(sig, fmt.Sprintf("EncryptStreamTo returned %v although reader and writer behaved legally", err), map[string]any{"plaintext": hx(p), "reader": s.describe(len(p))}, "")
		}
	case bytes.Equal(w.buf, want):
		o["EncryptStreamTo ok, same ciphertext as with full reads"]++
	default:
		// a different ciphertext is fine as long as it decrypts (default environment) to p
		var w2 swriter
		derr := cryptz.DecryptStreamTo(&w2, bytes.NewReader(w.buf), streamSecret)
		if derr == nil && bytes.Equal(w2.buf, p) {
			o["EncryptStreamTo ok, other ciphertext"]++
			return
		}
		o["EncryptStreamTo output does not decrypt"]++
		if sig := "EncryptStreamTo|round-trip-broken|" + cls; l.hit(sig, s.rank(len(p))) {
			l.detail(sig, fmt.Sprintf("EncryptStreamTo wrote %s (with full reads: %s); decrypting it gives %s, %v instead of the plaintext", hx(w.buf), hx(want), hx(w2.buf), derr), map[string]any{"plaintext": hx(p), "reader": s.describe(len(p))}, "")
		}
	}
}

// decRun executes DecryptStreamTo under a reader script over a valid stream.
func decRun(l *lagg, o map[string]int64, rd *sreader, w *swriter, stream, p []byte, s script) {
	s.apply(rd, stream)
	w.reset()
	w.failAt = 0
	var err error
	_, st, pn := common.Catch(func() { err = cryptz.DecryptStreamTo(w, rd, []byte(streamSecret)) })
	if !pn && err == nil && bytes.Equal(w.buf, p) {
		o["DecryptStreamTo ok"]++
		return
	}
	cls := decClass(len(stream), s)
	var sig string
	switch {
	case pn:
		sig = "DecryptStreamTo|panic|" + cls
		o["DecryptStreamTo panic"]++
	case err != nil:
		sig = "DecryptStreamTo|error-on-valid-stream|" + cls
		o["DecryptStreamTo error on "+cls]++
	default:
		sig = "DecryptStreamTo|wrong-plaintext|" + cls
		o["DecryptStreamTo wrong plaintext"]++
	}
	if !l.hit(sig, s.rank(len(stream))) {
		return
	}
	c := map[string]any{"plaintext": hx(p), "secret": streamSecret, "stream": hx(stream), "reader": s.describe(len(stream)), "first_read_returned": fmt.Sprintf("(%d, %v)", rd.firstN, rd.firstErr)}
	switch {
	case pn:
		c["stack"] = st
		l.detail(sig, "DecryptStreamTo panicked at "+common.PanicSite(st), c, decTest(p, len(stream), s))
	case err != nil:
		l.detail(sig, fmt.Sprintf("DecryptStreamTo returned %q for the stream EncryptStreamTo produced, delivered in read chunks %v (%s); want the %d-byte plaintext and a nil error", err.Error(), chunks(len(stream), s.cuts), s.describe(len(stream))["eof"], len(p)), c, decTest(p, len(stream), s))
	default:
		l.detail(sig, fmt.Sprintf("DecryptStreamTo wrote %s, want %s", hx(w.buf), hx(p)), c, decTest(p, len(stream), s))
	}
}

func streamsAll(r *common.Run, a *agg, out *outcomes, maxTotal int, ref func(pp, n int) []byte) {
	type task struct {
		dec    bool
		l      int // stream length seen by the scripted reader
		lo, hi uint64
	}
	const grain = 1 << 12
	var tasks []task
	add := func(dec bool, l int) {
		total := uint64(1)
		if l > 1 {
			total = 1 << uint(l-1)
		}
		for lo := uint64(0); lo < total; lo += grain {
			hi := lo + grain
			if hi > total {
				hi = total
			}
			tasks = append(tasks, task{dec, l, lo, hi})
		}
	}
	for l := 0; l <= maxTotal; l++ {
		add(false, l)
	}
	for l := 16; l <= maxTotal; l++ {
		add(true, l)
	}
	scE, scD := newSec("stream-all-compositions/EncryptStreamTo-plaintext-reader"), newSec("stream-all-compositions/DecryptStreamTo-ciphertext-reader")
	cut := false
	var cutMu sync.Mutex
	r.Parallel(len(tasks), func(ti int) {
		t := tasks[ti]
		if r.Expired() {
			cutMu.Lock()
			cut = true
			cutMu.Unlock()
			return
		}
		l := newLagg(ti)
		o := map[string]int64{}
		var ev, nt int64
		rd, w := &sreader{}, &swriter{}
		var p, stream []byte
		if t.dec {
			p = pat(1, t.l-16)
			stream = ref(1, t.l-16)
			if stream == nil {
				return
			}
		} else {
			p = pat(1, t.l)
			stream = ref(1, t.l)
			if stream == nil {
				return
			}
		}
		for m := t.lo; m < t.hi; m++ {
			for e := 0; e < 2; e++ {
				if e == 1 && t.l == 0 {
					continue
				}
				for z := 0; z < 2; z++ {
					s := script{cuts: m, eofWith: e == 1}
					if z == 1 {
						s = s.allGaps(t.l)
					}
					ev++
					if s.deviations() > 0 {
						nt++
					}
					if t.dec {
						decRun(l, o, rd, w, stream, p, s)
					} else {
						encRun(l, o, rd, w, p, stream, s)
					}
				}
			}
		}
		if t.dec {
			scD.add(ev, nt)
		} else {
			scE.add(ev, nt)
		}
		out.add(o)
		a.merge(l)
	})
	scE.done(r)
	scD.done(r)
	if cut {
		r.Incomplete("stream compositions: deadline reached before all compositions up to the tier's total length were run")
	}
}

// streamsFaults: on short streams, every composition x {EOF with data, separately}; the run is
// first made without fault to learn how many Read / Write calls happen, then repeated with the
// i-th Write failing, and with the j-th Read failing with a non-EOF error. A fault that fired
// must surface as a non-nil error (a nil return would claim a complete copy).
func streamsFaults(r *common.Run, a *agg, out *outcomes, ref func(pp, n int) []byte) {
	maxEnc, maxDec := 10, 17
	if r.Thorough() {
		maxEnc, maxDec = 12, 19
	}
	type task struct {
		dec bool
		l   int
	}
	var tasks []task
	for l := 0; l <= maxEnc; l++ {
		tasks = append(tasks, task{false, l})
	}
	for l := 16; l <= maxDec; l++ {
		tasks = append(tasks, task{true, l})
	}
	sc := newSec("stream-injected-read-write-failures")
	defer sc.done(r)
	r.Parallel(len(tasks), func(ti int) {
		t := tasks[ti]
		l := newLagg(ti)
		o := map[string]int64{}
		var ev int64
		rd, w := &sreader{}, &swriter{}
		var p, data []byte
		entry := "EncryptStreamTo"
		if t.dec {
			entry = "DecryptStreamTo"
			p, data = pat(1, t.l-16), ref(1, t.l-16)
		} else {
			p = pat(1, t.l)
			data = p
		}
		if data == nil && t.l > 0 {
			return
		}
		run := func(s script, rFail, wFail int) (err error, stack string) {
			s.apply(rd, data)
			rd.failAt = rFail
			w.reset()
			w.failAt = wFail
			_, st, pn := common.Catch(func() {
				if t.dec {
					err = cryptz.DecryptStreamTo(w, rd, streamSecret)
				} else {
					err = cryptz.EncryptStreamTo(w, rd, []byte(streamSecret))
				}
			})
			if pn {
				return nil, st
			}
			return err, ""
		}
		total := uint64(1)
		if t.l > 1 {
			total = 1 << uint(t.l-1)
		}
		for m := uint64(0); m < total; m++ {
			for e := 0; e < 2; e++ {
				if e == 1 && t.l == 0 {
					continue
				}
				s := script{cuts: m, eofWith: e == 1}
				_, st := run(s, 0, 0)
				if st != "" {
					continue // reported by streamsAll
				}
				nr, nw := rd.calls, w.calls
				base := append([]byte(nil), w.buf...) // output of the healthy run (the salt is scripted: deterministic)
				for kind := 0; kind < 2; kind++ {
					n := nw
					what := "write"
					if kind == 1 {
						n, what = nr, "read"
					}
					for i := 1; i <= n; i++ {
						ev++
						var err error
						if kind == 0 {
							err, st = run(s, 0, i)
						} else {
							err, st = run(s, i, 0)
						}
						fired := (kind == 0 && w.calls >= i) || (kind == 1 && rd.calls >= i)
						c := func() map[string]any {
							return map[string]any{"plaintext": hx(p), "reader": s.describe(len(data)), "failing_call": fmt.Sprintf("%s #%d", what, i)}
						}
						switch {
						case st != "":
							o[entry+" panic under injected failure"]++
							l.report(entry+"|panic|"+what+"-failure", s.rank(t.l)+int64(i), entry+" panicked at "+common.PanicSite(st), map[string]any{"case": c(), "stack": st}, "")
						case fired && err == nil:
							o[entry+" swallowed an injected failure"]++
							l.report(entry+"|error-not-returned|"+what+"-failure", s.rank(t.l)+int64(i), fmt.Sprintf("%s returned nil although %s call #%d failed", entry, what, i), c(), "")
						case fired:
							o[entry+" returned the injected "+what+" failure"]++
						default:
							o[entry+" stopped before the injected failure"]++
						}
						// a failed call must not leave anything behind: the same healthy call again
						if fired && st == "" {
							ev++
							err2, st2 := run(s, 0, 0)
							if st2 != "" || err2 != nil || !bytes.Equal(w.buf, base) {
								o[entry+" differs after a failed call"]++
								l.report(entry+"|wrong-output-after-a-failed-call|"+what+"-failure", s.rank(t.l)+int64(i), fmt.Sprintf("%s after a call whose %s #%d failed: output %s err=%v panic=%v, the same call before the failure gave %s", entry, what, i, hx(w.buf), err2, st2 != "", hx(base)), c(), "")
							} else {
								o[entry+" healthy again after a failed call"]++
							}
						}
					}
				}
			}
		}
		sc.add(ev, ev)
		out.add(o)
		a.merge(l)
	})
}

// devScripts enumerates every script over l bytes with at most k deviations from the default
// (a deviation = one extra chunk boundary, one empty read, or EOF delivered with the data).
func devScripts(l, k int, fn func(s script)) {
	common.Subsets(l-1, 0, k, func(idx []int) {
		var cuts uint64
		for _, i := range idx {
			cuts |= 1 << uint(i)
		}
		var offs []int // where an empty read may be placed: chunk starts
		st := starts(cuts)
		for j := 0; j < l; j++ {
			if st>>uint(j)&1 == 1 {
				offs = append(offs, j)
			}
		}
		for e := 0; e < 2 && len(idx)+e <= k; e++ {
			npos := len(offs)
			if e == 0 {
				npos++ // the tail position
			}
			common.Subsets(npos, 0, k-len(idx)-e, func(zi []int) {
				s := script{cuts: cuts, eofWith: e == 1}
				for _, z := range zi {
					if z == len(offs) {
						s.zeroTail = true
					} else {
						s.zeros |= 1 << uint(offs[z])
					}
				}
				fn(s)
			})
		}
	})
}

func streamsDeviations(r *common.Run, a *agg, out *outcomes, ref func(pp, n int) []byte, maxTotal int) {
	k := 2
	if r.Thorough() {
		k = 3
	}
	r.Cov("stream_deviation_bound", k)
	type task struct {
		dec   bool
		n, pp int // plaintext length, pattern
	}
	var tasks []task
	// every stream longer than those whose compositions were all enumerated, up to 3 blocks
	for n := 48; n >= 1; n-- { // large first: better balance
		for pp := 0; pp < 3; pp++ {
			if 16+n > maxTotal {
				tasks = append(tasks, task{true, n, pp})
			}
			if n > maxTotal {
				tasks = append(tasks, task{false, n, pp})
			}
		}
	}
	scE, scD := newSec(fmt.Sprintf("stream-longer-at-most-%d-deviations/EncryptStreamTo", k)), newSec(fmt.Sprintf("stream-longer-at-most-%d-deviations/DecryptStreamTo", k))
	cut := false
	var cutMu sync.Mutex
	r.Parallel(len(tasks), func(ti int) {
		t := tasks[ti]
		if r.Expired() {
			cutMu.Lock()
			cut = true
			cutMu.Unlock()
			return
		}
		l := newLagg(ti)
		o := map[string]int64{}
		var ev, nt int64
		rd, w := &sreader{}, &swriter{}
		p, stream := pat(t.pp, t.n), ref(t.pp, t.n)
		if stream == nil {
			return
		}
		sl := t.n
		if t.dec {
			sl = len(stream)
		}
		devScripts(sl, k, func(s script) {
			ev++
			if s.deviations() > 0 {
				nt++
			}
			if t.dec {
				decRun(l, o, rd, w, stream, p, s)
			} else {
				encRun(l, o, rd, w, p, stream, s)
			}
		})
		if t.dec {
			scD.add(ev, nt)
		} else {
			scE.add(ev, nt)
		}
		out.add(o)
		a.merge(l)
	})
	scE.done(r)
	scD.done(r)
	if cut {
		r.Incomplete("stream deviations: deadline reached")
	}
}

// streamsInvalid: input that is no valid stream must give an error, never a panic: every prefix
// of a header (0..15 bytes) under every composition, and a header whose magic has one bit flipped.
func streamsInvalid(r *common.Run, a *agg, out *outcomes, ref func(pp, n int) []byte) {
	sc := newSec("stream-invalid-input")
	defer sc.done(r)
	full := ref(1, 5)
	if full == nil {
		return
	}
	r.Parallel(16, func(tl int) {
		l := newLagg(tl)
		o := map[string]int64{}
		var ev int64
		rd, w := &sreader{}, &swriter{}
		data := full[:tl]
		total := uint64(1)
		if tl > 1 {
			total = 1 << uint(tl-1)
		}
		for m := uint64(0); m < total; m++ {
			for e := 0; e < 2; e++ {
				if e == 1 && tl == 0 {
					continue
				}
				for z := 0; z < 2; z++ {
					s := script{cuts: m, eofWith: e == 1}
					if z == 1 {
						s = s.allGaps(tl)
					}
					ev++
					checkInvalid(l, o, rd, w, data, s, "stream-shorter-than-header")
				}
			}
		}
		sc.add(ev, ev)
		out.add(o)
		a.merge(l)
	})
	l := newLagg(0)
	o := map[string]int64{}
	rd, w := &sreader{}, &swriter{}
	for _, body := range []int{0, 5} {
		st := ref(1, body)
		for bit := 0; bit < 64; bit++ {
			d := append([]byte(nil), st...)
			d[bit/8] ^= 1 << uint(bit%8)
			for _, s := range []script{{}, {eofWith: true}, {cuts: 1<<uint(len(d)-1) - 1}, script{}.allGaps(len(d))} {
				sc.add(1, 1)
				checkInvalid(l, o, rd, w, d, s, "magic-bit-flipped")
			}
		}
	}
	out.add(o)
	a.merge(l)
}

func checkInvalid(l *lagg, o map[string]int64, rd *sreader, w *swriter, data []byte, s script, cls string) {
	s.apply(rd, data)
	w.reset()
	w.failAt = 0
	var err error
	_, st, pn := common.Catch(func() { err = cryptz.DecryptStreamTo(w, rd, streamSecret) })
	switch {
	case pn:
		o["DecryptStreamTo panic on invalid stream"]++
		l.report("DecryptStreamTo|panic|"+cls, s.rank(len(data)), "DecryptStreamTo panicked at "+common.PanicSite(st), map[string]any{"stream": hx(data), "reader": s.describe(len(data)), "stack": st}, "")
	case err == nil:
		o["DecryptStreamTo accepted an invalid stream"]++
		l.report("DecryptStreamTo|no-error|"+cls, s.rank(len(data)), fmt.Sprintf("DecryptStreamTo returned nil (wrote %s) for a stream that is not a valid message (%s)", hx(w.buf), cls), map[string]any{"stream": hx(data), "reader": s.describe(len(data))}, "")
	default:
		o["DecryptStreamTo rejected an invalid stream"]++
	}
}

// streamFormatMatches: is the reference stream "Salted__" + salt + AES-256-CTR(EVP key, EVP iv)?
func streamFormatMatches(stream, p []byte) string {
	if len(stream) != 16+len(p) || !bytes.Equal(stream[:8], magic) {
		return "no"
	}
	if bytes.Equal(ctrOracle(p, []byte(streamSecret), stream[8:16]), stream[16:]) {
		return "yes"
	}
	return "no"
}
