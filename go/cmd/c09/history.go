package main

import (
	"bytes"
	srand "crypto/rand"
	"fmt"

	"verif/common"

	"github.com/welllog/golib/cryptz"
)

// histories: what one call leaves behind must not influence the next one.
//  * results stay valid: the plaintext returned by a decryption (and the message returned by an
//    encryption) is kept with a private copy while further calls are made, and compared afterwards;
//  * the caller's secret buffer is reused: overwritten in place with another secret of the same
//    length between calls — decryption with the old message must then FAIL (GCM) / must not yield
//    the old plaintext (CBC), and encryption must use the secret the buffer holds now.
func histories(r *common.Run) {
	saved := srand.Reader
	defer func() { srand.Reader = saved }()
	srand.Reader = &saltReader{salt: salts[1]}
	var ev int64
	type kept struct {
		what  string
		res   []byte
		clone []byte
	}
	var hist []kept
	keep := func(what string, b []byte) {
		hist = append(hist, kept{what, b, append([]byte(nil), b...)})
	}
	secret := []byte("first-secret")
	for n := 0; n <= 20; n++ {
		p := pat(n%3, n)
		steps := []struct {
			name string
			enc  func() ([]byte, error)
			dec  func(m []byte) ([]byte, error)
		}{
			{"Encrypt/Decrypt", func() ([]byte, error) { return cryptz.Encrypt(p, secret) }, func(m []byte) ([]byte, error) { return cryptz.Decrypt(m, secret) }},
			{"GCMEncrypt/GCMDecrypt", func() ([]byte, error) { return cryptz.GCMEncrypt(p, secret, "a") }, func(m []byte) ([]byte, error) { return cryptz.GCMDecrypt(m, secret, "a") }},
			{"SaltBySecretCBC", func() ([]byte, error) { return cryptz.SaltBySecretCBCEncrypt(p, secret) }, func(m []byte) ([]byte, error) { return cryptz.SaltBySecretCBCDecrypt(m, secret, false) }},
			{"SaltBySecretGCM", func() ([]byte, error) { return cryptz.SaltBySecretGCMEncrypt(p, secret, "a") }, func(m []byte) ([]byte, error) { return cryptz.SaltBySecretGCMDecrypt(m, secret, "a", false) }},
		}
		for _, s := range steps {
			ev += 2
			var m, back []byte
			var err error
			if _, st, pn := common.Catch(func() { m, err = s.enc() }); pn || err != nil {
				r.Violation(s.name+"|encrypt-failed|history", fmt.Sprintf("encryption failed: %v %s", err, st), map[string]any{"plaintext_len": n}, "")
				continue
			}
			keep(s.name+" message", m)
			if _, st, pn := common.Catch(func() { back, err = s.dec(append([]byte(nil), m...)) }); pn || err != nil || !bytes.Equal(back, p) {
				r.Violation(s.name+"|round-trip|history", fmt.Sprintf("decryption returned %s, %v %s; want %s", hx(back), err, st, hx(p)), map[string]any{"plaintext_len": n}, "")
				continue
			}
			keep(s.name+" plaintext", back)
		}
	}
	for _, k := range hist {
		if !bytes.Equal(k.res, k.clone) {
			r.Violation("result-changed-after-later-calls|"+k.what, fmt.Sprintf("a returned %s read %s when it was returned and %s after later calls", k.what, hx(k.clone), hx(k.res)), map[string]any{"what": k.what}, "")
			break
		}
	}
	// reused secret buffer
	bufS := make([]byte, 12)
	secrets2 := [][]byte{[]byte("first-secret"), []byte("other-secret"), []byte("first-secreT"), bytes.Repeat([]byte{0}, 12)}
	p := pat(1, 21)
	for _, a := range secrets2 {
		for _, b := range secrets2 {
			if bytes.Equal(a, b) {
				continue
			}
			copy(bufS, a)
			mg, err1 := cryptz.GCMEncrypt(p, bufS, "a")
			mc, err2 := cryptz.Encrypt(p, bufS)
			if err1 != nil || err2 != nil {
				continue
			}
			if back, err := cryptz.GCMDecrypt(mg, bufS, "a"); err != nil || !bytes.Equal(back, p) {
				continue // reported elsewhere
			}
			cryptz.Decrypt(mc, bufS)
			copy(bufS, b) // the caller now holds another secret in the same buffer
			ev += 3
			c := map[string]any{"secret_during_encryption": string(a), "secret_in_the_buffer_now": string(b)}
			if back, err := cryptz.GCMDecrypt(mg, bufS, "a"); err == nil {
				r.Violation("GCMDecrypt|accepts-wrong-secret|secret-buffer-overwritten-in-place", fmt.Sprintf("GCMDecrypt succeeded (%s) although the secret buffer now holds another secret", hx(back)), c, "")
			}
			if back, err := cryptz.Decrypt(mc, bufS); err == nil && bytes.Equal(back, p) {
				r.Violation("Decrypt|uses-stale-secret|secret-buffer-overwritten-in-place", "Decrypt returned the plaintext although the secret buffer now holds another secret", c, "")
			}
			if m2, err := cryptz.Encrypt(p, bufS); err == nil {
				if why := checkEnvelope(m2, p, b); why != "" {
					r.Violation("Encrypt|uses-stale-secret|secret-buffer-overwritten-in-place", "Encrypt did not use the secret the buffer holds now: "+why, c, "")
				}
			}
		}
	}
	r.Eval(ev)
	r.Nontrivial(ev)
	r.Section(map[string]any{"family": "histories: results stay valid, secret buffer reused", "calls": ev})
}

func coldProbes() map[string]func() string {
	secret := []byte("k")
	salt := salts[1]
	p := pat(1, 21)
	return map[string]func() string{
		"Decrypt": func() string {
			got, err := cryptz.Decrypt(oracleMsg(p, secret, salt[:]), secret)
			if err != nil || !bytes.Equal(got, p) {
				return fmt.Sprintf("Decrypt of an OpenSSL-format message returned %s, %v; want %s", hx(got), err, hx(p))
			}
			return ""
		},
		"Encrypt": func() string {
			srand.Reader = &saltReader{salt: salt}
			out, err := cryptz.Encrypt(p, secret)
			if err != nil {
				return err.Error()
			}
			return checkEnvelope(out, p, secret)
		},
		"GCMDecrypt(garbage)": func() string {
			if _, err := cryptz.GCMDecrypt("zz", secret, ""); err == nil {
				return "GCMDecrypt accepted garbage"
			}
			return ""
		},
	}
}
