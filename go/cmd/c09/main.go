// C09 — secret-based encryption: round trip, OpenSSL format, tamper evidence, stream chunking.
// Bounded-exhaustive enumeration of inputs and of environment answers (engine E3): the salt drawn
// from crypto/rand.Reader is an enumerated input, the io.Reader / io.Writer handed to the stream
// functions are scripts.
package main

import (
	"bytes"
	"crypto/aes"
	"crypto/cipher"
	"crypto/md5"
	srand "crypto/rand"
	"encoding/base64"
	"encoding/hex"
	"fmt"
	"runtime/debug"

	"verif/common"

	"github.com/welllog/golib/cryptz"
)

var (
	magic   = []byte("Salted__")
	secrets = [][]byte{[]byte(""), []byte("k"), []byte("0123456789abcdefghijKLMNOPQRST!@#$%^&*()")}
	aads    = [][]byte{[]byte(""), []byte("a")}
	salts   = [][8]byte{{}, {0x01, 0x23, 0x45, 0x67, 0x89, 0xab, 0xcd, 0xef}, {'S', 'a', 'l', 't', 'e', 'd', '_', '_'}}
	kinds   = []string{"string", "[]byte"}
)

const maxPlain = 40

func pat(k, n int) []byte {
	b := make([]byte, n)
	switch k {
	case 1:
		for i := range b {
			b[i] = byte(i*37 + 11)
		}
	case 2:
		for i := range b {
			b[i] = byte(n - i) // ends ...,3,2,1: looks like padding
		}
	}
	return b
}

func hx(b []byte) string { return hex.EncodeToString(b) }

// ---- independent oracles -------------------------------------------------------------------------

// evp is OpenSSL's EVP_BytesToKey with MD5 and one round: D1 = MD5(secret||salt),
// Di = MD5(D(i-1)||secret||salt); key = D1||D2, iv = D3.
func evp(secret, salt []byte) (key, iv []byte) {
	var d, prev []byte
	for len(d) < 48 {
		h := md5.New()
		h.Write(prev)
		h.Write(secret)
		h.Write(salt)
		prev = h.Sum(nil)
		d = append(d, prev...)
	}
	return d[:32], d[32:48]
}

func oracleBody(p, secret, salt []byte) []byte {
	key, iv := evp(secret, salt)
	blk, err := aes.NewCipher(key)
	if err != nil {
		common.Infra("oracle: %v", err)
	}
	pad := 16 - len(p)%16
	out := make([]byte, len(p)+pad)
	copy(out, p)
	for i := len(p); i < len(out); i++ {
		out[i] = byte(pad)
	}
	cipher.NewCBCEncrypter(blk, iv).CryptBlocks(out, out)
	return out
}

// oracleRaw is the binary OpenSSL envelope, oracleMsg its base64 form.
func oracleRaw(p, secret, salt []byte) []byte {
	raw := append(append([]byte{}, magic...), salt...)
	return append(raw, oracleBody(p, secret, salt)...)
}

func oracleMsg(p, secret, salt []byte) []byte {
	return []byte(base64.StdEncoding.EncodeToString(oracleRaw(p, secret, salt)))
}

// modelRaw says what an OpenSSL-compatible reader makes of a binary envelope: plaintext, or
// reject (too short, not whole blocks, no magic, bad padding).
func modelRaw(raw, secret []byte) ([]byte, bool) {
	if len(raw) < 32 || len(raw)%16 != 0 || !bytes.Equal(raw[:8], magic) {
		return nil, false
	}
	key, iv := evp(secret, raw[8:16])
	blk, err := aes.NewCipher(key)
	if err != nil {
		common.Infra("oracle: %v", err)
	}
	dec := make([]byte, len(raw)-16)
	cipher.NewCBCDecrypter(blk, iv).CryptBlocks(dec, raw[16:])
	v := int(dec[len(dec)-1])
	if v < 1 || v > 16 {
		return nil, false
	}
	for _, c := range dec[len(dec)-v:] {
		if int(c) != v {
			return nil, false
		}
	}
	return dec[:len(dec)-v], true
}

func modelMsg(msg, secret []byte) ([]byte, bool) {
	raw, err := base64.StdEncoding.DecodeString(string(msg))
	if err != nil {
		return nil, false
	}
	return modelRaw(raw, secret)
}

// ---- string / []byte instantiations ----------------------------------------------------------------

func gEncrypt(p []byte, pk int, s []byte, sk int) ([]byte, error) {
	switch pk*2 + sk {
	case 0:
		return cryptz.Encrypt(string(p), string(s))
	case 1:
		return cryptz.Encrypt(string(p), s)
	case 2:
		return cryptz.Encrypt(p, string(s))
	}
	return cryptz.Encrypt(p, s)
}

func gDecrypt(c []byte, ck int, s []byte, sk int) ([]byte, error) {
	switch ck*2 + sk {
	case 0:
		return cryptz.Decrypt(string(c), string(s))
	case 1:
		return cryptz.Decrypt(string(c), s)
	case 2:
		return cryptz.Decrypt(append([]byte(nil), c...), string(s))
	}
	return cryptz.Decrypt(append([]byte(nil), c...), s)
}

func gRawEncrypt(p []byte, s []byte, k int) ([]byte, error) {
	if k == 0 {
		return cryptz.SaltBySecretCBCEncrypt(string(p), string(s))
	}
	return cryptz.SaltBySecretCBCEncrypt(p, s)
}

func gRawDecrypt(raw []byte, s []byte, sk int, reuse bool) ([]byte, error) {
	c := append([]byte(nil), raw...)
	if sk == 0 {
		return cryptz.SaltBySecretCBCDecrypt(c, string(s), reuse)
	}
	return cryptz.SaltBySecretCBCDecrypt(c, s, reuse)
}

// preserved checks a decryption entry point that promises not to reuse the caller's buffer:
// decrypt twice from the same slice, compare the slice with a saved copy, then overwrite it and
// look at the result again. "" = fine.
func preserved(msg, want []byte, dec func([]byte) ([]byte, error)) string {
	m := append([]byte(nil), msg...)
	var got []byte
	var err error
	if _, _, p := common.Catch(func() { got, err = dec(m) }); p || err != nil || !bytes.Equal(got, want) {
		return "" // reported by the round-trip check
	}
	if !bytes.Equal(m, msg) {
		return "input-modified"
	}
	var got2 []byte
	if _, _, p := common.Catch(func() { got2, err = dec(m) }); p || err != nil || !bytes.Equal(got2, want) {
		return "second-decrypt-of-the-same-message-fails"
	}
	for i := range m {
		m[i] ^= 0xFF
	}
	if !bytes.Equal(got, want) || !bytes.Equal(got2, want) {
		return "result-aliases-input"
	}
	return ""
}

// plaintext / message kind follows the secret kind, the AAD kind is independent
func gGCMEncrypt(p, s []byte, sk int, a []byte, ak int) ([]byte, error) {
	switch sk*2 + ak {
	case 0:
		return cryptz.GCMEncrypt(string(p), string(s), string(a))
	case 1:
		return cryptz.GCMEncrypt(string(p), string(s), a)
	case 2:
		return cryptz.GCMEncrypt(p, s, string(a))
	}
	return cryptz.GCMEncrypt(p, s, a)
}

func gGCMDecrypt(c, s []byte, sk int, a []byte, ak int) ([]byte, error) {
	switch sk*2 + ak {
	case 0:
		return cryptz.GCMDecrypt(string(c), string(s), string(a))
	case 1:
		return cryptz.GCMDecrypt(string(c), string(s), a)
	case 2:
		return cryptz.GCMDecrypt(append([]byte(nil), c...), s, string(a))
	}
	return cryptz.GCMDecrypt(append([]byte(nil), c...), s, a)
}

func gRawGCMEncrypt(p, s, a []byte, k int) ([]byte, error) {
	if k == 0 {
		return cryptz.SaltBySecretGCMEncrypt(string(p), string(s), string(a))
	}
	return cryptz.SaltBySecretGCMEncrypt(p, s, a)
}

func gRawGCMDecrypt(raw, s, a []byte, k int, reuse bool) ([]byte, error) {
	c := append([]byte(nil), raw...)
	if k == 0 {
		return cryptz.SaltBySecretGCMDecrypt(c, string(s), string(a), reuse)
	}
	return cryptz.SaltBySecretGCMDecrypt(c, s, a, reuse)
}

// call runs f under Catch; it returns the result, the error and "" or the panic stack.
func call(f func() ([]byte, error)) (out []byte, err error, stack string) {
	_, st, p := common.Catch(func() { out, err = f() })
	if p {
		return nil, nil, st
	}
	return out, err, ""
}

func main() {
	r := common.Start("C09", "model_checking")
	r.ColdStart(coldProbes())
	// io.Copy inside golib allocates a 32 KiB buffer per call: tens of millions of short-lived
	// buffers over a tiny live heap, so let the heap grow further between collections.
	debug.SetGCPercent(800)
	saved := srand.Reader
	defer func() { srand.Reader = saved }()
	a := newAgg()
	for si := range salts {
		srand.Reader = &saltReader{salt: salts[si]}
		cbcMessages(r, a, si)
		gcmMessages(r, a, si)
	}
	srand.Reader = saved
	secretLengths(r)
	wrappedMessages(r)
	spareCapacity(r)
	histories(r)
	garbage(r, a)
	randFaults(r, a)
	srand.Reader = &saltReader{salt: salts[1]}
	streams(r, a)
	longStreams(r)
	faultShapes(r)
	srand.Reader = saved
	overlapped(r)
	opensslBonus(r)
	a.flush(r)
	r.Assume(
		"small-scope: plaintext lengths 0..40 in three byte patterns, secrets \"\", \"k\" and a 40-byte one as string and []byte, AAD \"\" and \"a\", three salts supplied through crypto/rand.Reader (replaced by a script for the run and restored)",
		"CBC carries no integrity claim: a corrupted CBC message is compared with an independent OpenSSL-style reader (EVP_BytesToKey(MD5,1) + stdlib CBC + PKCS#7) which says 'reject' or 'these bytes'; a corruption that still un-pads correctly is therefore not a violation",
		"GCM: hex-case changes that decode to the same bytes are not differences; a forged tag validating by chance (2^-128) is ignored",
		"stream scripts respect the io.Reader / io.Writer contracts: (0,nil) reads and (n>0, io.EOF) are legal answers; writers either accept a whole Write or fail it; the stream wire format itself is not demanded, only DecryptStreamTo(EncryptStreamTo(p)) = p",
		"a failing crypto/rand.Reader is only required not to panic and not to produce a message that does not decrypt")
	r.Finish("every tuple / script of each family is executed once (duplicates among corrupted messages are removed by a set); non-trivial = an error is expected (tampered, truncated, garbage, injected fault), or the plaintext is empty or block-aligned, or the reader / writer script deviates from 'one full read, then EOF'")
}

// ---- CBC messages: format, round trip, interoperability -------------------------------------------

func cbcMessages(r *common.Run, a *agg, si int) {
	sc := newSec(fmt.Sprintf("cbc-messages/salt-%d", si))
	defer sc.done(r)
	salt := salts[si][:]
	r.Parallel(maxPlain+1, func(n int) {
		l := newLagg(n)
		var ev, nt int64
		for pp := 0; pp < 3; pp++ {
			if n == 0 && pp > 0 {
				continue
			}
			p := pat(pp, n)
			for ki, s := range secrets {
				msg := oracleMsg(p, s, salt)
				rank := int64(n)*100 + int64(ki)*10 + int64(pp)
				for sk := 0; sk < 2; sk++ {
					c := map[string]any{"plaintext": hx(p), "secret": string(s), "secret_type": kinds[sk], "salt": hx(salt)}
					var outs [][]byte
					for pk := 0; pk < 2; pk++ {
						ev++
						if n%16 == 0 {
							nt++
						}
						out, err, st := call(func() ([]byte, error) { return gEncrypt(p, pk, s, sk) })
						if st != "" {
							l.report("Encrypt|panic", rank, "Encrypt panicked at "+common.PanicSite(st), map[string]any{"case": c, "stack": st}, "")
							continue
						}
						if err != nil {
							l.report("Encrypt|error-on-valid", rank, fmt.Sprintf("Encrypt returned %v", err), c, "")
							continue
						}
						if why := checkEnvelope(out, p, s); why != "" {
							l.report("Encrypt|not-openssl-format", rank, "Encrypt output "+string(out)+": "+why, c, "")
						}
						if pk == 0 {
							outs = append(outs, out)
						}
					}
					// decrypt the independently built OpenSSL message, and golib's own if it differs
					in := [][]byte{msg}
					for _, o := range outs {
						if !bytes.Equal(o, msg) {
							in = append(in, o)
						}
					}
					for k, m := range in {
						for ck := 0; ck < 2; ck++ {
							ev++
							if n%16 == 0 {
								nt++
							}
							got, err, st := call(func() ([]byte, error) { return gDecrypt(m, ck, s, sk) })
							c2 := map[string]any{"message": string(m), "secret": string(s), "secret_type": kinds[sk], "message_type": kinds[ck], "plaintext": hx(p)}
							entry := "Decrypt(openssl-message)"
							if k > 0 {
								entry = "Decrypt(Encrypt)"
							}
							switch {
							case st != "":
								l.report(entry+"|panic", rank, "Decrypt panicked at "+common.PanicSite(st), map[string]any{"case": c2, "stack": st}, "")
							case err != nil || !bytes.Equal(got, p):
								l.report(entry+"|fails-on-valid-message", rank, fmt.Sprintf("Decrypt returned %s, %v; want %s", hx(got), err, hx(p)), c2, "")
							}
						}
					}
					// the binary entry points
					ev++
					raw, err, st := call(func() ([]byte, error) { return gRawEncrypt(p, s, sk) })
					switch {
					case st != "":
						l.report("SaltBySecretCBCEncrypt|panic", rank, "panicked at "+common.PanicSite(st), map[string]any{"case": c, "stack": st}, "")
					case err != nil:
						l.report("SaltBySecretCBCEncrypt|error-on-valid", rank, fmt.Sprintf("returned %v", err), c, "")
					default:
						if why := checkRaw(raw, p, s); why != "" {
							l.report("SaltBySecretCBCEncrypt|not-openssl-format", rank, "output "+hx(raw)+": "+why, c, "")
						}
					}
					want := oracleRaw(p, s, salt)
					for _, reuse := range []bool{false, true} {
						ev++
						got, err, st := call(func() ([]byte, error) { return gRawDecrypt(want, s, sk, reuse) })
						c2 := map[string]any{"envelope": hx(want), "secret": string(s), "secret_type": kinds[sk], "reuse": reuse, "plaintext": hx(p)}
						switch {
						case st != "":
							l.report("SaltBySecretCBCDecrypt|panic", rank, "panicked at "+common.PanicSite(st), map[string]any{"case": c2, "stack": st}, "")
						case err != nil || !bytes.Equal(got, p):
							l.report("SaltBySecretCBCDecrypt|fails-on-valid-message", rank, fmt.Sprintf("returned %s, %v; want %s", hx(got), err, hx(p)), c2, "")
						}
					}
					// reuseCipherText=false: the caller's message must survive the call (it may be decrypted
					// again, or with another secret first) and the result must not share its memory
					if why := preserved(want, p, func(m []byte) ([]byte, error) { return cryptz.SaltBySecretCBCDecrypt(m, s, false) }); why != "" {
						ev++
						l.report("SaltBySecretCBCDecrypt|"+why+"|reuse=false", rank, "with reuseCipherText=false: "+why, map[string]any{"envelope": hx(want), "secret": string(s), "plaintext": hx(p)}, "")
					}
				}
			}
		}
		sc.add(ev, nt)
		a.merge(l)
	})
	if si == 1 {
		r.SampleL("CBC message", map[string]any{"plaintext": hx(pat(2, 16)), "secret": "k", "salt": hx(salt), "openssl_message": string(oracleMsg(pat(2, 16), secrets[1], salt))})
	}
}

// checkEnvelope parses a base64 message independently and compares it with the OpenSSL
// derivation for the salt found in it. "" = conforms.
func checkEnvelope(out, p, secret []byte) string {
	raw, err := base64.StdEncoding.DecodeString(string(out))
	if err != nil {
		return "not standard base64: " + err.Error()
	}
	if base64.StdEncoding.EncodeToString(raw) != string(out) {
		return "not the canonical base64 of its content"
	}
	return checkRaw(raw, p, secret)
}

func checkRaw(raw, p, secret []byte) string {
	wantLen := 16 + (len(p)/16+1)*16
	if len(raw) != wantLen {
		return fmt.Sprintf("envelope has %d bytes, want %d (magic 8 + salt 8 + padded plaintext)", len(raw), wantLen)
	}
	if !bytes.Equal(raw[:8], magic) {
		return "does not start with \"Salted__\""
	}
	if want := oracleBody(p, secret, raw[8:16]); !bytes.Equal(raw[16:], want) {
		return fmt.Sprintf("body %s is not AES-256-CBC under EVP_BytesToKey(MD5,1)(secret, salt %s) = %s", hx(raw[16:]), hx(raw[8:16]), hx(want))
	}
	return ""
}

// ---- GCM messages: round trip and tamper evidence ---------------------------------------------------

func gcmPart(bit, n int) string {
	switch {
	case bit < 64:
		return "magic"
	case bit < 128:
		return "salt"
	case bit < (16+n)*8:
		return "ciphertext"
	}
	return "tag"
}

// otherSecrets / otherAADs: values that differ from s.
func variants(s []byte, pool [][]byte) [][]byte {
	cand := append([][]byte{}, pool...)
	cand = append(cand, append(append([]byte{}, s...), 'x'), append(append([]byte{}, s...), 0))
	if len(s) > 0 {
		f := append([]byte{}, s...)
		f[len(f)-1] ^= 1
		cand = append(cand, f, s[:len(s)-1])
		g := append([]byte{}, s...)
		g[0] ^= 0x80
		cand = append(cand, g)
	}
	var out [][]byte
	for _, c := range cand {
		dup := bytes.Equal(c, s)
		for _, o := range out {
			dup = dup || bytes.Equal(o, c)
		}
		if !dup {
			out = append(out, c)
		}
	}
	return out
}

func gcmMessages(r *common.Run, a *agg, si int) {
	sc := newSec(fmt.Sprintf("gcm-messages/salt-%d", si))
	defer sc.done(r)
	salt := salts[si][:]
	r.Parallel(maxPlain+1, func(n int) {
		l := newLagg(n)
		var ev, nt int64
		for pp := 0; pp < 3; pp++ {
			if n == 0 && pp > 0 {
				continue
			}
			p := pat(pp, n)
			for ki, s := range secrets {
				for ai, ad := range aads {
					rank := int64(n)*1000 + int64(ki)*100 + int64(ai)*10 + int64(pp)
					for sk := 0; sk < 2; sk++ {
						for ak := 0; ak < 2; ak++ {
							ev++
							c := map[string]any{"plaintext": hx(p), "secret": string(s), "aad": string(ad), "types": kinds[sk] + "/" + kinds[ak], "salt": hx(salt)}
							out, err, st := call(func() ([]byte, error) { return gGCMEncrypt(p, s, sk, ad, ak) })
							if st != "" {
								l.report("GCMEncrypt|panic", rank, "GCMEncrypt panicked at "+common.PanicSite(st), map[string]any{"case": c, "stack": st}, "")
								continue
							}
							if err != nil {
								l.report("GCMEncrypt|error-on-valid", rank, fmt.Sprintf("GCMEncrypt returned %v", err), c, "")
								continue
							}
							c["message"] = string(out)
							got, err, st := call(func() ([]byte, error) { return gGCMDecrypt(out, s, sk, ad, ak) })
							switch {
							case st != "":
								l.report("GCMDecrypt(GCMEncrypt)|panic", rank, "GCMDecrypt panicked at "+common.PanicSite(st), map[string]any{"case": c, "stack": st}, "")
								continue
							case err != nil || !bytes.Equal(got, p):
								l.report("GCMDecrypt(GCMEncrypt)|fails-on-valid-message", rank, fmt.Sprintf("GCMDecrypt returned %s, %v; want %s", hx(got), err, hx(p)), c, "")
								continue
							}
							if ak != sk {
								continue
							}
							// binary entry points
							ev++
							raw, err, st := call(func() ([]byte, error) { return gRawGCMEncrypt(p, s, ad, sk) })
							if st != "" || err != nil {
								l.report("SaltBySecretGCMEncrypt|panic-or-error", rank, fmt.Sprintf("err=%v panic=%v", err, st != ""), map[string]any{"case": c, "stack": st}, "")
							} else {
								for _, reuse := range []bool{false, true} {
									ev++
									got, err, st := call(func() ([]byte, error) { return gRawGCMDecrypt(raw, s, ad, sk, reuse) })
									if st != "" || err != nil || !bytes.Equal(got, p) {
										l.report("SaltBySecretGCMDecrypt(Encrypt)|round-trip", rank, fmt.Sprintf("got %s err=%v panic=%v, want %s", hx(got), err, st != "", hx(p)), map[string]any{"case": c, "reuse": reuse, "stack": st}, "")
									}
								}
								if why := preserved(raw, p, func(m []byte) ([]byte, error) { return cryptz.SaltBySecretGCMDecrypt(m, s, ad, false) }); why != "" {
									l.report("SaltBySecretGCMDecrypt|"+why+"|reuse=false", rank, "with reuseCipherText=false: "+why, map[string]any{"case": c}, "")
								}
							}
							if sk != 0 {
								continue
							}
							// tamper: the binary envelope is recovered by an independent hex decode
							bin, herr := hex.DecodeString(string(out))
							if herr != nil {
								l.report("GCMEncrypt|not-hex", rank, "GCMEncrypt output is not hexadecimal: "+herr.Error(), c, "")
								continue
							}
							mustFail := func(what string, pos int, f func() ([]byte, error), entry string) {
								ev++
								nt++
								_, err, st := call(f)
								if st != "" {
									l.report(entry+"|panic|"+what, rank*1000+int64(pos), entry+" panicked at "+common.PanicSite(st), map[string]any{"original": c, "changed": what, "position": pos, "stack": st}, "")
								} else if err == nil {
									sig := entry + "|no-error|" + what
									if l.hit(sig, rank*1000+int64(pos)) {
										l.detail(sig, fmt.Sprintf("%s accepted a message whose %s differs (position %d)", entry, what, pos), map[string]any{"original": c, "changed": what, "position": pos}, "")
									}
								}
							}
							for bit := 0; bit < len(bin)*8; bit++ {
								t := append([]byte(nil), bin...)
								t[bit/8] ^= 1 << (bit % 8)
								th := hex.EncodeToString(t)
								what := gcmPart(bit, n) + "-bit-flipped"
								mustFail(what, bit, func() ([]byte, error) { return cryptz.GCMDecrypt(th, string(s), string(ad)) }, "GCMDecrypt")
								mustFail(what, bit, func() ([]byte, error) {
									return cryptz.SaltBySecretGCMDecrypt(t, string(s), string(ad), bit%2 == 0)
								}, "SaltBySecretGCMDecrypt")
							}
							for vi, s2 := range variants(s, secrets) {
								mustFail("secret-changed", vi, func() ([]byte, error) { return cryptz.GCMDecrypt(string(out), string(s2), string(ad)) }, "GCMDecrypt")
							}
							for vi, a2 := range variants(ad, aads) {
								mustFail("aad-changed", vi, func() ([]byte, error) { return cryptz.GCMDecrypt(string(out), string(s), string(a2)) }, "GCMDecrypt")
							}
							// same bytes in upper-case hex: not a difference; only "no panic, and if accepted the same plaintext"
							ev++
							up := bytes.ToUpper(out)
							got, err, st = call(func() ([]byte, error) { return cryptz.GCMDecrypt(up, s, ad) })
							if st != "" {
								l.report("GCMDecrypt|panic|upper-case-hex", rank, "GCMDecrypt panicked at "+common.PanicSite(st), map[string]any{"case": c, "stack": st}, "")
							} else if err == nil && !bytes.Equal(got, p) {
								l.report("GCMDecrypt|wrong-plaintext|upper-case-hex", rank, fmt.Sprintf("returned %s, want %s", hx(got), hx(p)), c, "")
							}
						}
					}
				}
			}
		}
		sc.add(ev, nt)
		a.merge(l)
	})
	if si == 1 {
		out, _ := cryptz.GCMEncrypt("hello", "k", "a")
		r.SampleL("GCM message", map[string]any{"plaintext": "hello", "secret": "k", "aad": "a", "salt": hx(salt), "message": string(out), "tamper": "each of its bits flipped -> error"})
	}
}
