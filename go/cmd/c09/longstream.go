package main

import (
	"bytes"
	"fmt"
	"io"

	"verif/common"

	"github.com/welllog/golib/cryptz"
)

// Streams around the size of the copy buffer golib's stream functions use (io.Copy: 32 KiB): the
// short-stream families never fill it. Lengths 32767, 32768, 32769, 65537 (and 65536+15 for the
// block arithmetic), each under the default environment and under every script with one
// deviation from it out of: first Read returns 1 byte, a Read boundary at 32768, the last byte on
// its own, EOF together with the last data, a (0, nil) Read first.

type bigReader struct {
	data    []byte
	sizes   []int // sizes of the first Reads (then everything)
	eofWith bool
	zero    bool
	pos, k  int
}

func (b *bigReader) Read(p []byte) (int, error) {
	if b.zero {
		b.zero = false
		return 0, nil
	}
	if b.pos >= len(b.data) {
		return 0, io.EOF
	}
	end := len(b.data)
	if b.k < len(b.sizes) {
		if e := b.pos + b.sizes[b.k]; e < end {
			end = e
		}
		b.k++
	}
	n := copy(p, b.data[b.pos:end])
	b.pos += n
	if b.pos == len(b.data) && b.eofWith {
		return n, io.EOF
	}
	return n, nil
}

func longStreams(r *common.Run) {
	sc := newSec("streams around the 32 KiB copy buffer")
	type script struct {
		name string
		mk   func(data []byte) io.Reader
	}
	scripts := []script{
		{"full reads", func(d []byte) io.Reader { return bytes.NewReader(d) }},
		{"first read 1 byte", func(d []byte) io.Reader { return &bigReader{data: d, sizes: []int{1}} }},
		{"read boundary at 32768", func(d []byte) io.Reader { return &bigReader{data: d, sizes: []int{32768}} }},
		{"last byte on its own", func(d []byte) io.Reader { return &bigReader{data: d, sizes: []int{len(d) - 1}} }},
		{"EOF with the last data", func(d []byte) io.Reader { return &bigReader{data: d, eofWith: true} }},
		{"(0,nil) first", func(d []byte) io.Reader { return &bigReader{data: d, zero: true} }},
	}
	for _, n := range []int{32767, 32768, 32769, 65536 + 15, 65537} {
		p := pat(2, n)
		ref, err := refStream(p)
		if err != nil || len(ref) == 0 {
			r.Violation("EncryptStreamTo|error-on-valid-stream|long", fmt.Sprintf("EncryptStreamTo of %d bytes failed: %v", n, err), map[string]any{"length": n}, "")
			continue
		}
		for _, s := range scripts {
			sc.add(2, 2)
			c := map[string]any{"plaintext_length": n, "reader": s.name}
			var w swriter
			var e1 error
			_, st, pn := common.Catch(func() { e1 = cryptz.EncryptStreamTo(&w, s.mk(p), streamSecret) })
			var w2 swriter
			var e2 error
			if !pn && e1 == nil {
				e2 = cryptz.DecryptStreamTo(&w2, bytes.NewReader(w.buf), streamSecret)
			}
			switch {
			case pn:
				r.Violation("EncryptStreamTo|panic|long", "EncryptStreamTo panicked at "+common.PanicSite(st), map[string]any{"case": c, "stack": st}, "")
			case e1 != nil:
				r.Violation("EncryptStreamTo|error-on-valid-stream|long", fmt.Sprintf("EncryptStreamTo(%d bytes, %s) returned %v", n, s.name, e1), c, "")
			case e2 != nil || !bytes.Equal(w2.buf, p):
				r.Violation("EncryptStreamTo|round-trip-broken|long", fmt.Sprintf("EncryptStreamTo(%d bytes, %s) wrote %d bytes that decrypt to %d bytes, %v (want the plaintext back)", n, s.name, len(w.buf), len(w2.buf), e2), c, "")
			}
			var w3 swriter
			var e3 error
			_, st, pn = common.Catch(func() { e3 = cryptz.DecryptStreamTo(&w3, s.mk(ref), []byte(streamSecret)) })
			switch {
			case pn:
				r.Violation("DecryptStreamTo|panic|long", "DecryptStreamTo panicked at "+common.PanicSite(st), map[string]any{"case": c, "stack": st}, "")
			case e3 != nil:
				r.Violation("DecryptStreamTo|error-on-valid-stream|long", fmt.Sprintf("DecryptStreamTo(stream of %d plaintext bytes, %s) returned %v", n, s.name, e3), c, "")
			case !bytes.Equal(w3.buf, p):
				r.Violation("DecryptStreamTo|wrong-plaintext|long", fmt.Sprintf("DecryptStreamTo(stream of %d plaintext bytes, %s) wrote %d bytes that differ from the plaintext", n, s.name, len(w3.buf)), c, "")
			}
		}
	}
	sc.done(r)
}

// Fault answers the short-stream fault family does not script: a Write that accepts part of the
// data and fails (k > 0, err), a Read that delivers data together with an error other than EOF.
// Demanded: a non-nil error from the call, no panic.
type partialWriter struct {
	calls, failAt, keep int
}

func (w *partialWriter) Write(p []byte) (int, error) {
	w.calls++
	if w.calls == w.failAt {
		return min(w.keep, len(p)), errWrite
	}
	return len(p), nil
}

type dataErrReader struct {
	data          []byte
	calls, failAt int
	pos           int
	failed        bool // the scripted (n > 0, errRead) answer was really given
}

func (s *dataErrReader) Read(p []byte) (int, error) {
	s.calls++
	if s.failed {
		return 0, errRead // a failed stream stays failed (io.ReadFull drops an error that comes with the last byte it needs)
	}
	if s.pos >= len(s.data) {
		return 0, io.EOF
	}
	n := copy(p, s.data[s.pos:min(s.pos+7, len(s.data))])
	s.pos += n
	if s.calls == s.failAt {
		s.failed = true
		return n, errRead
	}
	return n, nil
}

func faultShapes(r *common.Run) {
	sc := newSec("partial writes (k>0, err) and reads delivering data with an error")
	for _, n := range []int{1, 20, 40} {
		p := pat(1, n)
		ref, _ := refStream(p)
		for failAt := 1; failAt <= 6; failAt++ {
			for _, keep := range []int{1, 8, 15} {
				for dec := 0; dec < 2; dec++ {
					sc.add(1, 1)
					var err error
					w := &partialWriter{failAt: failAt, keep: keep}
					_, st, pn := common.Catch(func() {
						if dec == 0 {
							err = cryptz.EncryptStreamTo(w, bytes.NewReader(p), streamSecret)
						} else {
							err = cryptz.DecryptStreamTo(w, bytes.NewReader(ref), streamSecret)
						}
					})
					name := []string{"EncryptStreamTo", "DecryptStreamTo"}[dec]
					c := map[string]any{"plaintext_length": n, "write_call_that_fails": failAt, "bytes_accepted": keep}
					if pn {
						r.Violation(name+"|panic|partial-write", name+" panicked at "+common.PanicSite(st), map[string]any{"case": c, "stack": st}, "")
					} else if err == nil && w.calls >= failAt {
						r.Violation(name+"|no-error|partial-write", fmt.Sprintf("%s returned nil although Write call %d accepted only %d bytes and failed", name, failAt, keep), c, "")
					}
				}
			}
			for dec := 0; dec < 2; dec++ {
				sc.add(1, 1)
				var err error
				var w swriter
				src := p
				if dec == 1 {
					src = ref
				}
				rd := &dataErrReader{data: src, failAt: failAt}
				_, st, pn := common.Catch(func() {
					if dec == 0 {
						err = cryptz.EncryptStreamTo(&w, rd, streamSecret)
					} else {
						err = cryptz.DecryptStreamTo(&w, rd, streamSecret)
					}
				})
				name := []string{"EncryptStreamTo", "DecryptStreamTo"}[dec]
				c := map[string]any{"plaintext_length": n, "read_call_that_fails_with_data": failAt}
				if pn {
					r.Violation(name+"|panic|read-data-with-error", name+" panicked at "+common.PanicSite(st), map[string]any{"case": c, "stack": st}, "")
				} else if err == nil && rd.failed {
					r.Violation(name+"|no-error|read-data-with-error", fmt.Sprintf("%s returned nil although Read call %d returned data together with an error", name, failAt), c, "")
				}
			}
		}
	}
	sc.done(r)
}
