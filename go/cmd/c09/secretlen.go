package main

import (
	"bytes"
	srand "crypto/rand"
	"encoding/hex"
	"fmt"

	"verif/common"

	"github.com/welllog/golib/cryptz"
)

// secretLengths: the key derivation hashes previous-digest | secret | salt, so the secret's
// length decides where block boundaries and any internal scratch buffers are crossed. Every
// secret length 0..200 (three byte patterns) with a few plaintext lengths: the CBC envelope must
// be the OpenSSL one (independent EVP_BytesToKey), OpenSSL-built messages must decrypt, and for
// GCM a secret differing in its last byte / any changed salt byte must make decryption fail.
func secretLengths(r *common.Run) {
	saved := srand.Reader
	defer func() { srand.Reader = saved }()
	salt := salts[1]
	srand.Reader = &saltReader{salt: salt}
	maxLen := 200
	var ev, nt int64
	type rep struct{ sig, what string; c any }
	var reps []rep
	report := func(sig, what string, c any) { reps = append(reps, rep{sig, what, c}) }
	for n := 0; n <= maxLen; n++ {
		for pp := 0; pp < 3; pp++ {
			if n == 0 && pp > 0 {
				continue
			}
			s := pat(pp, n)
			class := "secret<=64"
			if n > 64 {
				class = "secret>64"
			}
			for _, pl := range []int{0, 5, 16} {
				p := pat(1, pl)
				c := map[string]any{"secret_len": n, "secret_pattern": pp, "plaintext": hx(p), "salt": hx(salt[:])}
				ev++
				if n > 16 {
					nt++
				}
				out, err, st := call(func() ([]byte, error) { return cryptz.Encrypt(p, s) })
				switch {
				case st != "":
					report("Encrypt|panic|"+class, "Encrypt panicked at "+common.PanicSite(st), c)
				case err != nil:
					report("Encrypt|error|"+class, fmt.Sprintf("Encrypt failed: %v", err), c)
				default:
					if why := checkEnvelope(out, p, s); why != "" {
						report("Encrypt|not-openssl-format|"+class, "Encrypt output is not the OpenSSL envelope: "+why, c)
					}
				}
				got, err, st := call(func() ([]byte, error) { return cryptz.Decrypt(oracleMsg(p, s, salt[:]), s) })
				if st != "" || err != nil || !bytes.Equal(got, p) {
					report("Decrypt(openssl-message)|fails-on-valid-message|"+class, fmt.Sprintf("Decrypt of an independently built OpenSSL message returned %s, %v; want %s", hx(got), err, hx(p)), c)
				}
				// GCM
				msg, err, st := call(func() ([]byte, error) { return cryptz.GCMEncrypt(p, s, "a") })
				if st != "" || err != nil {
					report("GCMEncrypt|error|"+class, fmt.Sprintf("GCMEncrypt failed: %v %s", err, st), c)
					continue
				}
				back, err, st := call(func() ([]byte, error) { return cryptz.GCMDecrypt(msg, s, "a") })
				if st != "" || err != nil || !bytes.Equal(back, p) {
					report("GCMDecrypt|round-trip|"+class, fmt.Sprintf("GCMDecrypt(GCMEncrypt(p)) = %s, %v", hx(back), err), c)
					continue
				}
				if n > 0 {
					s2 := append([]byte{}, s...)
					s2[n-1] ^= 1
					ev++
					if _, err, _ := call(func() ([]byte, error) { return cryptz.GCMDecrypt(msg, s2, "a") }); err == nil {
						report("GCMDecrypt|accepts-tampered|secret-last-byte-changed/"+class, "GCMDecrypt succeeded with a secret whose last byte differs", c)
					}
					s3 := append([]byte{}, s...)
					s3[0] ^= 0x80
					if _, err, _ := call(func() ([]byte, error) { return cryptz.GCMDecrypt(msg, s3, "a") }); err == nil {
						report("GCMDecrypt|accepts-tampered|secret-first-byte-changed/"+class, "GCMDecrypt succeeded with a secret whose first byte differs", c)
					}
				}
				// every salt byte of the binary envelope changed (magic 8 bytes, then salt 8 bytes)
				raw, derr := hex.DecodeString(string(msg))
				if derr == nil && len(raw) >= 16 {
					for i := 8; i < 16; i++ {
						t := append([]byte{}, raw...)
						t[i] ^= 0x01
						ev++
						m2 := []byte(hex.EncodeToString(t))
						if _, err, _ := call(func() ([]byte, error) { return cryptz.GCMDecrypt(m2, s, "a") }); err == nil {
							report("GCMDecrypt|accepts-tampered|salt-byte-changed/"+class, fmt.Sprintf("GCMDecrypt succeeded after salt byte %d of the message was changed", i-8), c)
						}
					}
				}
			}
		}
	}
	r.Eval(ev)
	r.Nontrivial(nt)
	for _, x := range reps {
		r.Violation(x.sig, x.what, x.c, "")
	}
	r.Section(map[string]any{"family": "secret-lengths", "secret_lengths": "0..200 x 3 patterns", "plaintext_lengths": []int{0, 5, 16}, "cases": ev})
	r.SampleL("secret-lengths", map[string]any{"secret_len": 129, "checks": "OpenSSL envelope, OpenSSL message decrypts, GCM rejects secret'/salt' variants"})
}
