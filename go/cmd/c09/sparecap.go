package main

import (
	"bytes"
	"fmt"

	"verif/common"

	"github.com/welllog/golib/cryptz"
)

// A []byte secret (or additional data) is an input: a slice with spare capacity behind it — the
// rest of a larger buffer, e.g. "secret|payload" in one array — must come back with that array
// untouched, and the payload living there must be processed as it was.
func spareCapacity(r *common.Run) {
	sc := newSec("secret / additional data slices with spare capacity (the rest of the array belongs to the caller)")
	for _, s := range secrets[1:] {
		for _, n := range []int{0, 5, 16, 33} {
			p := pat(1, n)
			// one array: secret, then the plaintext, then 24 guard bytes
			arr := append(append(append([]byte(nil), s...), p...), bytes.Repeat([]byte{0xA5}, 24)...)
			orig := append([]byte(nil), arr...)
			sec := arr[:len(s)]                     // cap reaches over payload and guard
			pl := arr[len(s) : len(s)+n : len(s)+n] // the payload in the same array
			check := func(entry string, run func() ([]byte, error), judge func(out []byte) string) {
				sc.add(1, 1)
				out, err, st := call(run)
				c := map[string]any{"entry": entry, "secret_len": len(s), "plaintext_len": n}
				switch {
				case st != "":
					r.Violation(entry+"|panic|secret-with-spare-capacity", entry+" panicked at "+common.PanicSite(st), map[string]any{"case": c, "stack": st}, "")
				case err != nil:
					r.Violation(entry+"|error-on-valid|secret-with-spare-capacity", fmt.Sprintf("%s returned %v", entry, err), c, "")
				default:
					if why := judge(out); why != "" {
						r.Violation(entry+"|wrong-result|secret-with-spare-capacity", fmt.Sprintf("%s with the secret and the plaintext in one array: %s", entry, why), c, "")
					}
				}
				if !bytes.Equal(arr, orig) {
					r.Violation(entry+"|caller-memory-modified|secret-with-spare-capacity", fmt.Sprintf("%s wrote into the caller's array behind the secret slice: %s -> %s", entry, hx(orig), hx(arr)), c, "")
					copy(arr, orig)
				}
			}
			var msg, gmsg []byte
			check("Encrypt", func() ([]byte, error) { return cryptz.Encrypt(pl, sec) }, func(out []byte) string {
				msg = out
				if back, ok := modelMsg(out, s); !ok || !bytes.Equal(back, p) {
					return "the message does not decrypt (independent OpenSSL-format reader) to the plaintext"
				}
				return ""
			})
			if msg != nil {
				check("Decrypt", func() ([]byte, error) { return cryptz.Decrypt(msg, sec) }, func(out []byte) string {
					if !bytes.Equal(out, p) {
						return fmt.Sprintf("returned %s, want %s", hx(out), hx(p))
					}
					return ""
				})
			}
			check("GCMEncrypt", func() ([]byte, error) { return cryptz.GCMEncrypt(pl, sec, sec[:1]) }, func(out []byte) string { gmsg = out; return "" })
			if gmsg != nil {
				check("GCMDecrypt", func() ([]byte, error) { return cryptz.GCMDecrypt(gmsg, sec, sec[:1]) }, func(out []byte) string {
					if !bytes.Equal(out, p) {
						return fmt.Sprintf("returned %s, want %s", hx(out), hx(p))
					}
					return ""
				})
			}
			var stream []byte
			check("EncryptStreamTo", func() ([]byte, error) {
				var w swriter
				err := cryptz.EncryptStreamTo(&w, bytes.NewReader(pl), sec)
				return w.buf, err
			}, func(out []byte) string { stream = out; return "" })
			if stream != nil {
				check("DecryptStreamTo", func() ([]byte, error) {
					var w swriter
					err := cryptz.DecryptStreamTo(&w, bytes.NewReader(stream), sec)
					return w.buf, err
				}, func(out []byte) string {
					if !bytes.Equal(out, p) {
						return fmt.Sprintf("wrote %s, want %s", hx(out), hx(p))
					}
					return ""
				})
			}
		}
	}
	sc.done(r)
}
