// e1selftest validates engine E1 on tiny programs with known answers: the explorer must find
// every outcome of a racy counter, report seeded races / deadlocks / livelocks, stay silent on
// their correct twins, respect the preemption bound, and replay deterministically.
package main

import (
	"fmt"
	"os"
	"time"

	"verif/sched"

	"github.com/welllog/golib/vshim/core"
	"github.com/welllog/golib/vshim/vatomic"
	"github.com/welllog/golib/vshim/vchan"
	"github.com/welllog/golib/vshim/vtime"
	"github.com/welllog/golib/vshim/vruntime"
	"github.com/welllog/golib/vshim/vsync"
)

var failed bool

func expect(name string, ok bool, format string, a ...any) {
	if ok {
		fmt.Printf("ok   %s\n", name)
		return
	}
	failed = true
	fmt.Printf("FAIL %s: %s\n", name, fmt.Sprintf(format, a...))
}

func explore(sc sched.Scenario, bound int) sched.Result {
	return sched.Explore(sc, bound, time.Now().Add(60*time.Second))
}

func sig(r sched.Result) string {
	if r.Violation == nil {
		return ""
	}
	return r.Violation.Sig
}

func main() {
	core.Controlled = true

	// 1. lost update: two threads do x = x + 1 with separate load and store
	type c1 struct{ x int32 }
	finals := map[int32]bool{}
	lost := sched.Scenario{Name: "lost-update", Build: func(x *core.Exec) any {
		c := &c1{}
		for i := 0; i < 2; i++ {
			x.Spawn("t", func(t *core.Thread) {
				t.Op("inc", nil, func() any { v := vatomic.LoadInt32(&c.x); vatomic.StoreInt32(&c.x, v+1); return nil })
			})
		}
		return c
	}, Check: func(x *core.Exec, ctx any) *core.Failure { finals[ctx.(*c1).x] = true; return nil }}
	r := explore(lost, sched.Unbounded)
	expect("lost update: both final values found", finals[1] && finals[2] && len(finals) == 2 && r.Violation == nil, "finals %v violation %v", finals, r.Violation)
	finals = map[int32]bool{}
	r0 := explore(lost, 0)
	expect("lost update: invisible without preemptions", finals[2] && !finals[1], "finals %v", finals)
	_ = r0

	// 2. atomic increment: only one final value
	finals = map[int32]bool{}
	explore(sched.Scenario{Name: "atomic-add", Build: func(x *core.Exec) any {
		c := &c1{}
		for i := 0; i < 3; i++ {
			x.Spawn("t", func(t *core.Thread) { t.Op("inc", nil, func() any { vatomic.AddInt32(&c.x, 1); return nil }) })
		}
		return c
	}, Check: func(x *core.Exec, ctx any) *core.Failure { finals[ctx.(*c1).x] = true; return nil }}, sched.Unbounded)
	expect("atomic add: single final value 3", len(finals) == 1 && finals[3], "finals %v", finals)

	// 3. plain write race / mutex-protected twin
	type c3 struct {
		v  int
		mu vsync.Mutex
	}
	racy := func(lock bool) sched.Scenario {
		return sched.Scenario{Name: "plain", Build: func(x *core.Exec) any {
			c := &c3{}
			for i := 0; i < 2; i++ {
				x.Spawn("t", func(t *core.Thread) {
					t.Op("w", nil, func() any {
						if lock {
							c.mu.Lock()
						}
						*core.W(&c.v) = 1
						if lock {
							c.mu.Unlock()
						}
						return nil
					})
				})
			}
			return c
		}}
	}
	r = explore(racy(false), sched.Unbounded)
	expect("unprotected plain writes: race reported", len(sig(r)) > 9 && sig(r)[:9] == "data-race", "got %q", sig(r))
	r = explore(racy(true), sched.Unbounded)
	expect("mutex-protected plain writes: silent", r.Violation == nil, "got %q", sig(r))

	// 4. message passing: data then flag (correct) / flag then data (race)
	type c4 struct {
		data int
		flag int32
	}
	mp := func(good bool) sched.Scenario {
		return sched.Scenario{Name: "mp", Build: func(x *core.Exec) any {
			c := &c4{}
			x.Spawn("producer", func(t *core.Thread) {
				t.Op("produce", nil, func() any {
					if good {
						*core.W(&c.data) = 42
						vatomic.StoreInt32(&c.flag, 1)
					} else {
						vatomic.StoreInt32(&c.flag, 1)
						*core.W(&c.data) = 42
					}
					return nil
				})
			})
			x.Spawn("consumer", func(t *core.Thread) {
				t.Op("consume", nil, func() any {
					if vatomic.LoadInt32(&c.flag) == 1 {
						return *core.R(&c.data)
					}
					return -1
				})
			})
			return c
		}}
	}
	r = explore(mp(true), sched.Unbounded)
	expect("message passing (write, then release): silent", r.Violation == nil, "got %q", sig(r))
	r = explore(mp(false), sched.Unbounded)
	expect("message passing (publish before write): race reported", len(sig(r)) > 9 && sig(r)[:9] == "data-race", "got %q", sig(r))

	// 5. deadlock: opposite lock order
	type c5 struct{ a, b vsync.Mutex }
	r = explore(sched.Scenario{Name: "abba", Build: func(x *core.Exec) any {
		c := &c5{}
		x.Spawn("t1", func(t *core.Thread) { t.Op("ab", nil, func() any { c.a.Lock(); c.b.Lock(); c.b.Unlock(); c.a.Unlock(); return nil }) })
		x.Spawn("t2", func(t *core.Thread) { t.Op("ba", nil, func() any { c.b.Lock(); c.a.Lock(); c.a.Unlock(); c.b.Unlock(); return nil }) })
		return c
	}}, sched.Unbounded)
	expect("ABBA locking: deadlock reported", sig(r) == "deadlock", "got %q", sig(r))
	expect("ABBA locking: needs a preemption", r.Violation != nil && r.Violation.Preempt >= 1, "preemptions %v", r.Violation)

	// 6. livelock: spinning on a flag nobody sets / terminating twin
	spin := func(set bool) sched.Scenario {
		return sched.Scenario{Name: "spin", Build: func(x *core.Exec) any {
			c := &c4{}
			x.Spawn("spinner", func(t *core.Thread) {
				t.Op("wait", nil, func() any {
					for vatomic.LoadInt32(&c.flag) == 0 {
						vruntime.Gosched()
					}
					return nil
				})
			})
			x.Spawn("other", func(t *core.Thread) {
				t.Op("maybe-set", nil, func() any {
					vatomic.LoadInt32(&c.flag)
					if set {
						vatomic.StoreInt32(&c.flag, 1)
					}
					return nil
				})
			})
			return c
		}}
	}
	r = explore(spin(false), sched.Unbounded)
	expect("spin on a flag nobody sets: livelock reported", sig(r) == "livelock", "got %q", sig(r))
	r = explore(spin(true), sched.Unbounded)
	expect("spin on a flag that is set (fair yield): terminates silently", r.Violation == nil && r.CapHit == "", "got %q cap %q", sig(r), r.CapHit)

	// 7. a bug that needs exactly two preemptions
	type c7 struct{ a, b int32 }
	two := sched.Scenario{Name: "two-preemptions", Build: func(x *core.Exec) any {
		c := &c7{}
		x.Spawn("t1", func(t *core.Thread) {
			t.Op("t1", nil, func() any {
				vatomic.StoreInt32(&c.a, 1)
				if vatomic.LoadInt32(&c.b) == 1 {
					vatomic.StoreInt32(&c.a, 2)
					if vatomic.LoadInt32(&c.b) == 2 {
						x.FailNow("two-preemption-bug", "reached")
					}
				}
				return nil
			})
		})
		x.Spawn("t2", func(t *core.Thread) {
			t.Op("t2", nil, func() any {
				if vatomic.LoadInt32(&c.a) == 1 {
					vatomic.StoreInt32(&c.b, 1)
					if vatomic.LoadInt32(&c.a) == 2 {
						vatomic.StoreInt32(&c.b, 2)
					}
				}
				return nil
			})
		})
		return c
	}}
	r = explore(two, 1)
	expect("ping-pong bug: not reachable with 1 preemption", r.Violation == nil, "got %q", sig(r))
	r = explore(two, sched.Unbounded)
	expect("ping-pong bug: found", sig(r) == "two-preemption-bug", "got %q", sig(r))
	if r.Violation != nil {
		f, _, err := sched.Replay(two, r.Violation.Schedule, "")
		expect("replay of the recorded schedule reproduces it", err == nil && f != nil && f.Sig == "two-preemption-bug", "replay %v %v", f, err)
		expect("first counterexample has the fewest preemptions that suffice", r.Violation.Preempt >= 2 && r.Violation.Preempt <= 3, "preemptions %d", r.Violation.Preempt)
	}

	// 8. state matching does not lose outcomes: 3 threads x (load, store) counter, compare with no pruning
	finals = map[int32]bool{}
	explore(sched.Scenario{Name: "three-incs", Build: func(x *core.Exec) any {
		c := &c1{}
		for i := 0; i < 3; i++ {
			x.Spawn("t", func(t *core.Thread) {
				t.Op("inc", nil, func() any { v := vatomic.LoadInt32(&c.x); vatomic.StoreInt32(&c.x, v+1); return nil })
			})
		}
		return c
	}, Check: func(x *core.Exec, ctx any) *core.Failure { finals[ctx.(*c1).x] = true; return nil }}, sched.Unbounded)
	expect("three racy increments: finals {1,2,3}", len(finals) == 3 && finals[1] && finals[2] && finals[3], "finals %v", finals)

	// 9. select: both ready cases are explored; a timer may fire before or after the other event
	picks := map[int]bool{}
	explore(sched.Scenario{Name: "select-choice", Build: func(x *core.Exec) any {
		a, b := vchan.Make[int](1), vchan.Make[int](1)
		a.Send(1)
		b.Send(2)
		x.Spawn("t", func(t *core.Thread) {
			t.Op("select", nil, func() any { i := vchan.Select(vchan.RecvCase(a), vchan.RecvCase(b)); picks[i] = true; return i })
		})
		return nil
	}}, sched.Unbounded)
	expect("select with two ready cases: both explored", picks[0] && picks[1], "picks %v", picks)
	picks = map[int]bool{}
	r = explore(sched.Scenario{Name: "select-timer", Build: func(x *core.Exec) any {
		done := vchan.Make[int](1)
		x.Spawn("worker", func(t *core.Thread) { t.Op("work", nil, func() any { done.Send(1); return nil }) })
		x.Spawn("waiter", func(t *core.Thread) {
			t.Op("wait", nil, func() any {
				i := vchan.Select(vchan.RecvCase(done), vchan.RecvCase(vtime.After(time.Second)))
				picks[i] = true
				return i
			})
		})
		return nil
	}}, sched.Unbounded)
	expect("select against a virtual timer: completion and timeout both explored, no deadlock", picks[0] && picks[1] && r.Violation == nil, "picks %v violation %q", picks, sig(r))

	if failed {
		os.Exit(1)
	}
	fmt.Println("e1selftest: all expectations met")
}
