// vrewrite is the source-to-source instrumenter of engine E1 (and of the map-order environment of
// C18). It reads the CURRENT files of the golib working tree, applies semantics-preserving
// rewrites chosen by a spec, writes the results next to an overlay file for `go build -overlay`,
// and never touches the repository. It refuses (exit 1) what it cannot translate faithfully.
package main

import (
	"bytes"
	"crypto/sha256"
	"encoding/hex"
	"encoding/json"
	"flag"
	"fmt"
	"go/ast"
	"go/build"
	"go/format"
	"go/importer"
	"go/parser"
	"go/token"
	"go/types"
	"os"
	"path/filepath"
	"sort"
	"strconv"
	"strings"

	"golang.org/x/tools/go/ast/astutil"
)

const shimBase = "github.com/welllog/golib/vshim/"

type pkgSpec struct {
	Dir      string   `json:"dir"`
	Files    []string `json:"files"`
	Rewrites []string `json:"rewrites"`
}
type spec struct {
	Packages []pkgSpec `json:"packages"`
}

type fileReport struct {
	File     string         `json:"file"`
	SHA256   string         `json:"sha256"`
	Rewrites map[string]int `json:"rewrites"`
}

func die(format string, a ...any) {
	fmt.Fprintf(os.Stderr, "vrewrite: "+format+"\n", a...)
	os.Exit(1)
}

func main() {
	repo := flag.String("repo", "/repo", "golib working tree")
	shim := flag.String("shim", "/verif/go/shim", "directory holding the shim packages")
	specPath := flag.String("spec", "", "spec json")
	out := flag.String("out", "", "output directory")
	flag.Parse()
	data, err := os.ReadFile(*specPath)
	if err != nil {
		die("%v", err)
	}
	var sp spec
	if err := json.Unmarshal(data, &sp); err != nil {
		die("spec: %v", err)
	}
	gen := filepath.Join(*out, "gen")
	os.RemoveAll(gen)
	os.MkdirAll(gen, 0o755)
	overlay := map[string]string{}
	// shim packages appear as virtual packages inside the golib module
	ents, err := os.ReadDir(*shim)
	if err != nil {
		die("%v", err)
	}
	for _, e := range ents {
		if !e.IsDir() {
			continue
		}
		fs, _ := filepath.Glob(filepath.Join(*shim, e.Name(), "*.go"))
		for _, f := range fs {
			overlay[filepath.Join(*repo, "vshim", e.Name(), filepath.Base(f))] = f
		}
	}
	if err := os.Chdir(*repo); err != nil {
		die("%v", err)
	}
	var reports []fileReport
	for _, ps := range sp.Packages {
		reports = append(reports, rewritePackage(*repo, gen, ps, overlay)...)
	}
	ov, _ := json.MarshalIndent(map[string]any{"Replace": overlay}, "", " ")
	if err := os.WriteFile(filepath.Join(*out, "overlay.json"), ov, 0o644); err != nil {
		die("%v", err)
	}
	rep, _ := json.MarshalIndent(reports, "", " ")
	os.WriteFile(filepath.Join(*out, "instrumented.json"), rep, 0o644)
	for _, r := range reports {
		fmt.Printf("%s %s %v\n", r.File, r.SHA256[:12], r.Rewrites)
	}
}

type rewriter struct {
	fset  *token.FileSet
	info  *types.Info
	pkg   *types.Package
	file  *ast.File
	on    map[string]bool
	count map[string]int

	needImport  map[string]string // local name -> path
	wrapR       map[ast.Expr]bool
	wrapW       map[ast.Expr]bool
	mapR        map[ast.Expr]bool // map-typed operand whose content is read
	mapW        map[ast.Expr]bool
	chanSend    map[*ast.SendStmt]bool
	rangeIsChan map[*ast.RangeStmt]bool
	chanRangeN  int
	chanRecv    map[*ast.UnaryExpr]bool
	chanCall    map[*ast.CallExpr]string
	inComm      map[ast.Node]bool
	parents     map[ast.Node]ast.Node
	rangeIsMap  map[*ast.RangeStmt]bool
	tmpN        int
}

func has(list []string, s string) bool {
	for _, x := range list {
		if x == s {
			return true
		}
	}
	return false
}

func rewritePackage(repo, gen string, ps pkgSpec, overlay map[string]string) []fileReport {
	dir := filepath.Join(repo, ps.Dir)
	bp, err := build.Default.ImportDir(dir, 0)
	if err != nil {
		die("%s: %v", ps.Dir, err)
	}
	fset := token.NewFileSet()
	var files []*ast.File
	byName := map[string]*ast.File{}
	for _, name := range bp.GoFiles {
		f, err := parser.ParseFile(fset, filepath.Join(dir, name), nil, parser.ParseComments)
		if err != nil {
			die("%v", err)
		}
		files = append(files, f)
		byName[name] = f
	}
	info := &types.Info{
		Types:      map[ast.Expr]types.TypeAndValue{},
		Defs:       map[*ast.Ident]types.Object{},
		Uses:       map[*ast.Ident]types.Object{},
		Selections: map[*ast.SelectorExpr]*types.Selection{},
		Implicits:  map[ast.Node]types.Object{},
	}
	conf := types.Config{Importer: importer.ForCompiler(fset, "source", nil), Error: func(err error) {}}
	pkg, err := conf.Check("github.com/welllog/golib/"+ps.Dir, fset, files, info)
	if err != nil {
		die("type check of %s failed: %v", ps.Dir, err)
	}
	var reports []fileReport
	names := ps.Files
	if len(names) == 1 && names[0] == "*" {
		// every non-test file of the package (an edit may move code into another file)
		names = append([]string(nil), bp.GoFiles...)
		sort.Strings(names)
	}
	for _, name := range names {
		f := byName[name]
		if f == nil {
			die("%s/%s is not part of the package for this toolchain (build constraints?)", ps.Dir, name)
		}
		src, _ := os.ReadFile(filepath.Join(dir, name))
		sum := sha256.Sum256(src)
		rw := &rewriter{fset: fset, info: info, pkg: pkg, file: f, on: map[string]bool{}, count: map[string]int{},
			needImport: map[string]string{}, wrapR: map[ast.Expr]bool{}, wrapW: map[ast.Expr]bool{}, mapR: map[ast.Expr]bool{}, mapW: map[ast.Expr]bool{},
			parents: map[ast.Node]ast.Node{}, rangeIsMap: map[*ast.RangeStmt]bool{}}
		for _, r := range ps.Rewrites {
			rw.on[r] = true
		}
		text := rw.run()
		outPath := filepath.Join(gen, ps.Dir, name)
		os.MkdirAll(filepath.Dir(outPath), 0o755)
		if err := os.WriteFile(outPath, text, 0o644); err != nil {
			die("%v", err)
		}
		overlay[filepath.Join(dir, name)] = outPath
		reports = append(reports, fileReport{File: ps.Dir + "/" + name, SHA256: hex.EncodeToString(sum[:]), Rewrites: rw.count})
	}
	return reports
}

// ---------------------------------------------------------------- driver

func (rw *rewriter) run() []byte {
	f := rw.file
	// build constraint lines survive, every other comment is dropped (the printer would
	// otherwise relocate them into inserted nodes)
	var constraints []string
	for _, cg := range f.Comments {
		if cg.End() < f.Package {
			for _, c := range cg.List {
				if strings.HasPrefix(c.Text, "//go:build") {
					constraints = append(constraints, strings.TrimSpace(strings.TrimPrefix(c.Text, "//go:build")))
				}
			}
		}
	}
	f.Comments = nil
	f.Doc = nil
	ast.Inspect(f, func(n ast.Node) bool {
		switch x := n.(type) {
		case *ast.GenDecl:
			x.Doc = nil
		case *ast.FuncDecl:
			x.Doc = nil
		case *ast.Field:
			x.Doc, x.Comment = nil, nil
		case *ast.TypeSpec:
			x.Doc, x.Comment = nil, nil
		case *ast.ValueSpec:
			x.Doc, x.Comment = nil, nil
		case *ast.ImportSpec:
			x.Doc, x.Comment = nil, nil
		}
		return true
	})
	rw.buildParents()
	ast.Inspect(f, func(n ast.Node) bool {
		if r, ok := n.(*ast.RangeStmt); ok && isMap(rw.typeOf(r.X)) {
			rw.rangeIsMap[r] = true
		}
		return true
	})
	if rw.on["chans"] {
		rw.planChans()
	}
	if rw.on["probes"] {
		rw.planProbes()
	}
	rw.apply()
	rw.fixImports()
	var buf bytes.Buffer
	if rw.count["maprange"] > 0 {
		constraints = append(constraints, "go1.23")
	}
	if len(constraints) > 0 {
		parts := make([]string, len(constraints))
		for i, c := range constraints {
			parts[i] = "(" + c + ")"
		}
		buf.WriteString("//go:build " + strings.Join(parts, " && ") + "\n\n")
	}
	buf.WriteString("// Code generated by vrewrite from the current working tree; DO NOT EDIT.\n\n")
	var body bytes.Buffer
	if err := format.Node(&body, token.NewFileSet(), f); err != nil {
		die("print: %v", err)
	}
	buf.Write(body.Bytes())
	res, err := format.Source(buf.Bytes())
	if err != nil {
		die("generated file does not parse: %v\n%s", err, buf.String())
	}
	return res
}

func (rw *rewriter) buildParents() {
	var stack []ast.Node
	ast.Inspect(rw.file, func(n ast.Node) bool {
		if n == nil {
			stack = stack[:len(stack)-1]
			return true
		}
		if len(stack) > 0 {
			rw.parents[n] = stack[len(stack)-1]
		}
		stack = append(stack, n)
		return true
	})
}

func (rw *rewriter) need(name, pkg string) string {
	rw.needImport[name] = shimBase + pkg
	return name
}

func sel(pkg, name string) *ast.SelectorExpr {
	return &ast.SelectorExpr{X: ast.NewIdent(pkg), Sel: ast.NewIdent(name)}
}

// ---------------------------------------------------------------- channels

// With "chans" every channel of the file is modelled: channel types become *vchan.Chan[T],
// make(chan T, n) becomes vchan.Make[T](n), send / receive / close / len / cap become method
// calls, a select becomes `switch vchan.Select(cases…)`, time.After becomes vtime.After (a timer
// is a virtual thread). Channels arriving from other packages would not type-check afterwards:
// the build then fails and the check reports that it cannot run (exit 2) instead of guessing.

func (rw *rewriter) isChan(e ast.Expr) bool {
	t := rw.typeOf(e)
	if t == nil {
		return false
	}
	_, ok := t.Underlying().(*types.Chan)
	return ok
}

func (rw *rewriter) planChans() {
	rw.chanSend = map[*ast.SendStmt]bool{}
	rw.chanRecv = map[*ast.UnaryExpr]bool{}
	rw.chanCall = map[*ast.CallExpr]string{}
	rw.inComm = map[ast.Node]bool{}
	ast.Inspect(rw.file, func(n ast.Node) bool {
		switch x := n.(type) {
		case *ast.SendStmt:
			rw.chanSend[x] = true
		case *ast.UnaryExpr:
			if x.Op == token.ARROW {
				rw.chanRecv[x] = true
			}
		case *ast.RangeStmt:
			if rw.isChan(x.X) {
				if rw.rangeIsChan == nil {
					rw.rangeIsChan = map[*ast.RangeStmt]bool{}
				}
				rw.rangeIsChan[x] = true // rewritten to a for loop around Recv2 in the apply pass
			}
		case *ast.CallExpr:
			if id, ok := x.Fun.(*ast.Ident); ok && len(x.Args) == 1 && rw.isChan(x.Args[0]) {
				if _, isBuiltin := rw.info.Uses[id].(*types.Builtin); isBuiltin {
					if m := map[string]string{"len": "Len", "cap": "Cap", "close": "Close"}[id.Name]; m != "" {
						rw.chanCall[x] = m
					}
				}
			}
		case *ast.CommClause:
			if x.Comm != nil {
				rw.inComm[x.Comm] = true
				switch c := x.Comm.(type) {
				case *ast.ExprStmt:
					rw.inComm[unparen(c.X)] = true
				case *ast.AssignStmt:
					for _, l := range c.Lhs {
						if id, ok := l.(*ast.Ident); !ok || id.Name != "_" {
							die("%s: select case that assigns the received value is not supported by the channel model", rw.pos(c))
						}
					}
					rw.inComm[unparen(c.Rhs[0])] = true
				}
			}
		}
		return true
	})
}

func chanTypeOf(elem ast.Expr, need func(string, string) string) ast.Expr {
	return &ast.StarExpr{X: &ast.IndexExpr{X: sel(need("vchan", "vchan"), "Chan"), Index: elem}}
}

func unparen(e ast.Expr) ast.Expr {
	for {
		p, ok := e.(*ast.ParenExpr)
		if !ok {
			return e
		}
		e = p.X
	}
}

func (rw *rewriter) pos(n ast.Node) string { return rw.fset.Position(n.Pos()).String() }

// makeChan turns make(chan T[, n]) into vchan.Make[T](n).
func (rw *rewriter) makeChan(e ast.Expr) (ast.Expr, bool) {
	c, ok := unparen(e).(*ast.CallExpr)
	if !ok {
		return nil, false
	}
	id, ok := c.Fun.(*ast.Ident)
	if !ok || id.Name != "make" || len(c.Args) == 0 {
		return nil, false
	}
	ct, ok := c.Args[0].(*ast.ChanType)
	if !ok {
		return nil, false
	}
	var n ast.Expr = &ast.BasicLit{Kind: token.INT, Value: "0"}
	if len(c.Args) > 1 {
		n = c.Args[1]
	}
	rw.count["chanmake"]++
	return &ast.CallExpr{Fun: &ast.IndexExpr{X: sel(rw.need("vchan", "vchan"), "Make"), Index: ct.Value}, Args: []ast.Expr{n}}, true
}

// rewriteSelect turns a select whose clauses are still in their native form into a switch over
// vchan.Select.
func (rw *rewriter) rewriteSelect(s *ast.SelectStmt) ast.Stmt {
	var cases []ast.Expr
	var clauses []ast.Stmt
	for i, st := range s.Body.List {
		cc := st.(*ast.CommClause)
		var ce ast.Expr
		switch c := cc.Comm.(type) {
		case nil:
			ce = &ast.CallExpr{Fun: sel(rw.need("vchan", "vchan"), "DefaultCase")}
		case *ast.SendStmt:
			ce = &ast.CallExpr{Fun: sel(rw.need("vchan", "vchan"), "SendCase"), Args: []ast.Expr{c.Chan, c.Value}}
		case *ast.ExprStmt:
			u := unparen(c.X).(*ast.UnaryExpr)
			ce = &ast.CallExpr{Fun: sel(rw.need("vchan", "vchan"), "RecvCase"), Args: []ast.Expr{u.X}}
		case *ast.AssignStmt:
			u := unparen(c.Rhs[0]).(*ast.UnaryExpr)
			ce = &ast.CallExpr{Fun: sel(rw.need("vchan", "vchan"), "RecvCase"), Args: []ast.Expr{u.X}}
		}
		cases = append(cases, ce)
		clauses = append(clauses, &ast.CaseClause{List: []ast.Expr{&ast.BasicLit{Kind: token.INT, Value: strconv.Itoa(i)}}, Body: cc.Body})
	}
	rw.count["select"]++
	return &ast.SwitchStmt{Tag: &ast.CallExpr{Fun: sel(rw.need("vchan", "vchan"), "Select"), Args: cases}, Body: &ast.BlockStmt{List: clauses}}
}

// ---------------------------------------------------------------- probe planning

func (rw *rewriter) isShimType(t types.Type) bool {
	switch u := t.(type) {
	case *types.Named:
		if o := u.Obj(); o != nil && o.Pkg() != nil {
			p := o.Pkg().Path()
			if p == "sync" || p == "sync/atomic" || strings.HasPrefix(p, shimBase) {
				return true
			}
		}
	case *types.Pointer:
		return false
	}
	return false
}

func (rw *rewriter) typeOf(e ast.Expr) types.Type {
	if tv, ok := rw.info.Types[e]; ok {
		return tv.Type
	}
	return nil
}

func isPointer(t types.Type) bool {
	if t == nil {
		return false
	}
	_, ok := t.Underlying().(*types.Pointer)
	return ok
}

func isMap(t types.Type) bool {
	if t == nil {
		return false
	}
	_, ok := t.Underlying().(*types.Map)
	if ok {
		return true
	}
	if tp, ok2 := t.(*types.TypeParam); ok2 {
		_ = tp
	}
	return false
}

// candidate reports whether e denotes addressable memory reached through a field selection,
// a slice/array element or a pointer indirection.
func (rw *rewriter) candidate(e ast.Expr) bool {
	tv, ok := rw.info.Types[e]
	if !ok || !tv.IsValue() || !tv.Addressable() {
		return false
	}
	if rw.isShimType(tv.Type) {
		return false
	}
	switch x := e.(type) {
	case *ast.SelectorExpr:
		sl := rw.info.Selections[x]
		return sl != nil && sl.Kind() == types.FieldVal
	case *ast.IndexExpr:
		t := rw.typeOf(x.X)
		if t == nil {
			return false
		}
		switch u := t.Underlying().(type) {
		case *types.Slice, *types.Array:
			return true
		case *types.Pointer:
			_, ok := u.Elem().Underlying().(*types.Array)
			return ok
		}
		return false
	case *ast.StarExpr:
		return true
	}
	return false
}

// role of expression e as seen from its parent: "read", "write", "addr" (address computed or a
// path component: no access to e as a whole).
func (rw *rewriter) role(e ast.Expr) string {
	p := rw.parents[e]
	switch x := p.(type) {
	case *ast.ParenExpr:
		return rw.role(x)
	case *ast.AssignStmt:
		for _, l := range x.Lhs {
			if l == e {
				return "write"
			}
		}
		return "read"
	case *ast.IncDecStmt:
		return "write"
	case *ast.UnaryExpr:
		if x.Op == token.AND {
			return "addr"
		}
		return "read"
	case *ast.SelectorExpr:
		if x.X != e {
			return "read"
		}
		t := rw.typeOf(e)
		if isPointer(t) {
			return "read" // dereferenced
		}
		sl := rw.info.Selections[x]
		if sl == nil {
			return "read"
		}
		switch sl.Kind() {
		case types.FieldVal:
			// selecting a field of a struct value: e is only a path component; the field
			// access itself is probed (unless indirections hide in between)
			if sl.Indirect() {
				return "read"
			}
			return "addr"
		case types.MethodVal:
			fn, _ := sl.Obj().(*types.Func)
			if fn != nil {
				sig := fn.Type().(*types.Signature)
				if sig.Recv() != nil && isPointer(sig.Recv().Type()) {
					return "addr" // implicit &e
				}
			}
			return "read"
		}
		return "read"
	case *ast.IndexExpr:
		if x.X == e {
			t := rw.typeOf(e)
			if t != nil {
				if _, isArr := t.Underlying().(*types.Array); isArr {
					return rw.role(x) // element of an array value: path component
				}
			}
			return "read" // slice header / map header / pointer
		}
		return "read"
	case *ast.SliceExpr:
		if x.X == e {
			t := rw.typeOf(e)
			if t != nil {
				if _, isArr := t.Underlying().(*types.Array); isArr {
					return "addr"
				}
			}
		}
		return "read"
	case *ast.RangeStmt:
		if x.Key == e || x.Value == e {
			return "write"
		}
		return "read"
	}
	return "read"
}

func (rw *rewriter) planProbes() {
	ast.Inspect(rw.file, func(n ast.Node) bool {
		switch x := n.(type) {
		case *ast.FuncDecl:
			if x.Body == nil {
				return false
			}
		case *ast.IndexExpr:
			// map content access
			if isMap(rw.typeOf(x.X)) {
				if rw.role(x) == "write" {
					rw.mapW[x.X] = true
				} else {
					rw.mapR[x.X] = true
				}
			}
		case *ast.CallExpr:
			if id, ok := x.Fun.(*ast.Ident); ok && len(x.Args) > 0 {
				if _, isBuiltin := rw.info.Uses[id].(*types.Builtin); isBuiltin && isMap(rw.typeOf(x.Args[0])) {
					switch id.Name {
					case "delete", "clear":
						rw.mapW[x.Args[0]] = true
					case "len":
						rw.mapR[x.Args[0]] = true
					}
				}
			}
		case *ast.RangeStmt:
			if isMap(rw.typeOf(x.X)) {
				rw.mapR[x.X] = true
			}
		}
		e, ok := n.(ast.Expr)
		if !ok {
			return true
		}
		if _, isParen := e.(*ast.ParenExpr); isParen {
			return true
		}
		if !rw.candidate(e) {
			return true
		}
		switch rw.role(e) {
		case "read":
			rw.wrapR[e] = true
		case "write":
			rw.wrapW[e] = true
		}
		return true
	})
}

// ---------------------------------------------------------------- application (post-order)

func (rw *rewriter) tmp() string {
	rw.tmpN++
	return "_vr" + strconv.Itoa(rw.tmpN)
}

func (rw *rewriter) apply() {
	pre := func(c *astutil.Cursor) bool {
		if !rw.on["chans"] {
			return true
		}
		// make(chan T[, n]) as a whole, before its ChanType argument is visited
		if call, ok := c.Node().(*ast.CallExpr); ok {
			if mk, ok := rw.makeChan(call); ok {
				c.Replace(mk)
				return false
			}
		}
		return true
	}
	astutil.Apply(rw.file, pre, func(c *astutil.Cursor) bool {
		n := c.Node()
		switch x := n.(type) {
		case *ast.GoStmt:
			if rw.on["go"] {
				c.Replace(rw.rewriteGo(x))
				rw.count["go"]++
			}
			return true
		case *ast.SendStmt:
			if rw.on["chans"] && rw.chanSend[x] && !rw.inComm[x] {
				c.Replace(&ast.ExprStmt{X: &ast.CallExpr{Fun: &ast.SelectorExpr{X: x.Chan, Sel: ast.NewIdent("Send")}, Args: []ast.Expr{x.Value}}})
				rw.count["chansend"]++
			}
			return true
		case *ast.SelectStmt:
			if rw.on["chans"] {
				c.Replace(rw.rewriteSelect(x))
			}
			return true
		case *ast.RangeStmt:
			if rw.on["chans"] && rw.rangeIsChan[x] {
				// for v := range ch { body }  ->  for { v, ok := ch.Recv2(); if !ok { break }; body }
				rw.chanRangeN++
				ok := ast.NewIdent(fmt.Sprintf("vchanOk%d", rw.chanRangeN))
				var lhs ast.Expr = ast.NewIdent("_")
				if x.Key != nil {
					lhs = x.Key
				}
				recv := &ast.CallExpr{Fun: &ast.SelectorExpr{X: x.X, Sel: ast.NewIdent("Recv2")}}
				var head []ast.Stmt
				if x.Tok == token.ASSIGN {
					head = append(head, &ast.DeclStmt{Decl: &ast.GenDecl{Tok: token.VAR, Specs: []ast.Spec{&ast.ValueSpec{Names: []*ast.Ident{ok}, Type: ast.NewIdent("bool")}}}},
						&ast.AssignStmt{Lhs: []ast.Expr{lhs, ok}, Tok: token.ASSIGN, Rhs: []ast.Expr{recv}})
				} else {
					head = append(head, &ast.AssignStmt{Lhs: []ast.Expr{lhs, ok}, Tok: token.DEFINE, Rhs: []ast.Expr{recv}})
				}
				head = append(head, &ast.IfStmt{Cond: &ast.UnaryExpr{Op: token.NOT, X: ok}, Body: &ast.BlockStmt{List: []ast.Stmt{&ast.BranchStmt{Tok: token.BREAK}}}})
				c.Replace(&ast.ForStmt{For: x.For, Body: &ast.BlockStmt{Lbrace: x.Body.Lbrace, List: append(head, x.Body.List...), Rbrace: x.Body.Rbrace}})
				rw.count["chanrange"]++
				return true
			}
			if rw.on["maprange"] && rw.rangeIsMap[x] {
				x.X = &ast.CallExpr{Fun: sel(rw.need("vmap", "vmap"), "Range"), Args: []ast.Expr{x.X}}
				rw.count["maprange"]++
			}
			return true
		}
		e, ok := n.(ast.Expr)
		if !ok {
			return true
		}
		// runtime.Gosched, time.After
		if call, ok := e.(*ast.CallExpr); ok {
			if s, ok := call.Fun.(*ast.SelectorExpr); ok {
				if id, ok := s.X.(*ast.Ident); ok {
					if pn, ok := rw.info.Uses[id].(*types.PkgName); ok {
						switch {
						case rw.on["gosched"] && pn.Imported().Path() == "runtime" && s.Sel.Name == "Gosched":
							call.Fun = sel(rw.need("vruntime", "vruntime"), "Gosched")
							rw.count["gosched"]++
						case rw.on["chans"] && !rw.on["time"] && pn.Imported().Path() == "time" && s.Sel.Name == "After":
							call.Fun = sel(rw.need("vtime", "vtime"), "After")
							rw.count["time.After"]++
						}
					}
				}
			}
		}
		if rw.on["chans"] {
			switch x := e.(type) {
			case *ast.ChanType:
				c.Replace(chanTypeOf(x.Value, rw.need))
				rw.count["chantype"]++
				return true
			case *ast.UnaryExpr:
				if x.Op == token.ARROW && rw.chanRecv[x] && !rw.inComm[x] {
					name := "Recv"
					if as, ok := c.Parent().(*ast.AssignStmt); ok && len(as.Lhs) == 2 && len(as.Rhs) == 1 {
						name = "Recv2"
					}
					c.Replace(&ast.CallExpr{Fun: &ast.SelectorExpr{X: x.X, Sel: ast.NewIdent(name)}})
					rw.count["chanrecv"]++
					return true
				}
			case *ast.CallExpr:
				if m := rw.chanCall[x]; m != "" {
					c.Replace(&ast.CallExpr{Fun: &ast.SelectorExpr{X: x.Args[0], Sel: ast.NewIdent(m)}})
					return true
				}
			}
		}
		if rw.on["probes"] {
			if rw.mapR[e] || rw.mapW[e] {
				fn := "RM"
				if rw.mapW[e] {
					fn = "WM"
				}
				inner := e
				if rw.wrapR[e] {
					inner = rw.deref("R", e)
				}
				c.Replace(&ast.CallExpr{Fun: sel(rw.need("vcore", "core"), fn), Args: []ast.Expr{inner}})
				rw.count["probe-map"]++
				return true
			}
			if rw.wrapR[e] {
				c.Replace(rw.deref("R", e))
				rw.count["probe-read"]++
				return true
			}
			if rw.wrapW[e] {
				c.Replace(rw.deref("W", e))
				rw.count["probe-write"]++
				return true
			}
		}
		return true
	})
}

// deref builds (*vcore.R(&e)).
func (rw *rewriter) deref(fn string, e ast.Expr) ast.Expr {
	return &ast.ParenExpr{X: &ast.StarExpr{X: &ast.CallExpr{Fun: sel(rw.need("vcore", "core"), fn), Args: []ast.Expr{&ast.UnaryExpr{Op: token.AND, X: e}}}}}
}

func (rw *rewriter) rewriteGo(g *ast.GoStmt) ast.Stmt {
	call := g.Call
	var lhs, rhs []ast.Expr
	fun := call.Fun
	hoistFun := true
	switch f := unparen(fun).(type) {
	case *ast.FuncLit:
		hoistFun = false
	case *ast.Ident:
		if fn, ok := rw.info.Uses[f].(*types.Func); ok && fn != nil {
			hoistFun = false
		}
	case *ast.SelectorExpr:
		if id, ok := f.X.(*ast.Ident); ok {
			if _, isPkg := rw.info.Uses[id].(*types.PkgName); isPkg {
				hoistFun = false
			}
		}
	case *ast.IndexExpr, *ast.IndexListExpr:
		hoistFun = false // generic instantiation of a package-level function
	}
	if hoistFun {
		n := rw.tmp()
		lhs, rhs = append(lhs, ast.NewIdent(n)), append(rhs, fun)
		fun = ast.NewIdent(n)
	}
	args := make([]ast.Expr, len(call.Args))
	for i, a := range call.Args {
		n := rw.tmp()
		lhs, rhs = append(lhs, ast.NewIdent(n)), append(rhs, a)
		args[i] = ast.NewIdent(n)
	}
	inner := &ast.CallExpr{Fun: fun, Args: args, Ellipsis: call.Ellipsis}
	if call.Ellipsis != token.NoPos {
		inner.Ellipsis = 1
	}
	spawn := &ast.ExprStmt{X: &ast.CallExpr{Fun: sel(rw.need("vcore", "core"), "Go"), Args: []ast.Expr{
		&ast.FuncLit{Type: &ast.FuncType{Params: &ast.FieldList{}}, Body: &ast.BlockStmt{List: []ast.Stmt{&ast.ExprStmt{X: inner}}}},
	}}}
	if len(lhs) == 0 {
		return spawn
	}
	return &ast.BlockStmt{List: []ast.Stmt{&ast.AssignStmt{Lhs: lhs, Tok: token.DEFINE, Rhs: rhs}, spawn}}
}

// ---------------------------------------------------------------- imports

func (rw *rewriter) fixImports() {
	f := rw.file
	swap := map[string]string{}
	if rw.on["atomic"] {
		swap["sync/atomic"] = shimBase + "vatomic"
	}
	if rw.on["sync"] {
		swap["sync"] = shimBase + "vsync"
	}
	if rw.on["time"] {
		swap["time"] = shimBase + "vtime"
	}
	for _, im := range f.Imports {
		p, _ := strconv.Unquote(im.Path.Value)
		if np, ok := swap[p]; ok {
			if im.Name == nil {
				im.Name = ast.NewIdent(p[strings.LastIndex(p, "/")+1:])
			}
			im.Path.Value = strconv.Quote(np)
			rw.count["import:"+p]++
		}
	}
	names := make([]string, 0, len(rw.needImport))
	for n := range rw.needImport {
		names = append(names, n)
	}
	sort.Strings(names)
	for _, n := range names {
		astutil.AddNamedImport(rw.fset, f, n, rw.needImport[n])
	}
	// imports that became unused (runtime after the Gosched redirection)
	for _, im := range f.Imports {
		p, _ := strconv.Unquote(im.Path.Value)
		if p != "runtime" {
			continue
		}
		name := "runtime"
		if im.Name != nil {
			name = im.Name.Name
		}
		used := false
		ast.Inspect(f, func(n ast.Node) bool {
			if s, ok := n.(*ast.SelectorExpr); ok {
				if id, ok := s.X.(*ast.Ident); ok && id.Name == name {
					used = true
				}
			}
			return !used
		})
		if !used {
			if im.Name != nil {
				astutil.DeleteNamedImport(rw.fset, f, im.Name.Name, p)
			} else {
				astutil.DeleteImport(rw.fset, f, p)
			}
		}
	}
	if rw.on["probes"] {
		// the wrappers take &expr; nothing else is needed
	}
}
