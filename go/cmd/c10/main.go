// C10 — Ring / SyncRing are bounded FIFOs sequentially, across growth and counter wrap.
// Engine E2: explicit-state BFS on the real objects, reflective canonical state.
package main

import (
	"fmt"
	"reflect"
	"strconv"

	"verif/common"
	"verif/space"

	"github.com/welllog/golib/ringz"
)

type Val int

func main() {
	r := common.Start("C10", "model_checking")
	var results []space.Result
	results = append(results, ringSearch(r))
	capCheck(r)
	results = append(results, syncSearch(r)...)
	if r.Thorough() {
		honestWrap(r)
	}
	space.Summarize(r, results)
	r.Assume("small scope: Ring capacities 1..5 at start, Recap(-1..12), grown up to 24; SyncRing capacities 2,4,8 with counters teleported to every position within 2*cap of 0 and 2^32 and to 2^31+-1",
		"teleport (reflect+unsafe write of head, tail and slot sequence numbers) is validated against honest stepping for every k <= 4*cap on every run and against an honest run of 2^32+64 push/pop pairs on the thorough tier")
	r.Finish("states = distinct canonical dumps of the private object graph (head/tail/cap/slot contents, element values renamed by first appearance); every transition is one real method call compared with a bounded-FIFO model, followed by the query battery Len/Cap/IsEmpty/IsFull/Peek and a destructive drain")
}

// ---------------------------------------------------------------- Ring

type ringInst struct {
	r     ringz.Ring[Val]
	model []Val
	cap   int
	next  Val
}

const ringMaxCap = 24

func (x *ringInst) Ops() []space.Op {
	ops := []space.Op{{Name: "Push"}, {Name: "Pop"}, {Name: "Peek"}}
	if len(x.model) < x.cap || x.cap*2 <= ringMaxCap {
		ops = append(ops, space.Op{Name: "PushWithExpand"})
	}
	for c := -1; c <= 12; c++ {
		ops = append(ops, space.Op{Name: "Recap", Args: []int{c}})
	}
	if x.cap > 12 { // around the current capacity too (the "same capacity" refusal)
		for c := x.cap - 1; c <= x.cap+1 && c <= ringMaxCap; c++ {
			ops = append(ops, space.Op{Name: "Recap", Args: []int{c}})
		}
	}
	for c := 1; c <= 3; c++ {
		ops = append(ops, space.Op{Name: "Init", Args: []int{c}})
	}
	return ops
}

func (x *ringInst) Apply(op space.Op) *space.Mismatch {
	switch op.Name {
	case "Push":
		x.next++
		got := x.r.Push(x.next)
		want := len(x.model) < x.cap
		if want {
			x.model = append(x.model, x.next)
		}
		if got != want {
			return &space.Mismatch{Sig: "Ring.Push|wrong-result", What: fmt.Sprintf("Push returned %v with %d of %d slots used", got, len(x.model), x.cap)}
		}
	case "Pop":
		v, ok := x.r.Pop()
		if len(x.model) == 0 {
			if ok {
				return &space.Mismatch{Sig: "Ring.Pop|wrong-result", What: "Pop succeeded on an empty ring"}
			}
			return nil
		}
		want := x.model[0]
		x.model = x.model[1:]
		if !ok || v != want {
			return &space.Mismatch{Sig: "Ring.Pop|wrong-result", What: fmt.Sprintf("Pop = (%v,%v), want (%v,true)", v, ok, want)}
		}
	case "Peek":
		v, ok := x.r.Peek()
		if len(x.model) == 0 {
			if ok {
				return &space.Mismatch{Sig: "Ring.Peek|wrong-result", What: "Peek succeeded on an empty ring"}
			}
			return nil
		}
		if !ok || v != x.model[0] {
			return &space.Mismatch{Sig: "Ring.Peek|wrong-result", What: fmt.Sprintf("Peek = (%v,%v), want (%v,true)", v, ok, x.model[0])}
		}
	case "PushWithExpand":
		x.next++
		full := len(x.model) == x.cap
		x.r.PushWithExpand(x.next)
		x.model = append(x.model, x.next)
		if full {
			// the growth factor is not part of the property: any capacity that holds the content is
			// accepted and becomes the model's capacity (golib doubles)
			c := x.r.Cap()
			if c < len(x.model) {
				return &space.Mismatch{Sig: "Ring.PushWithExpand|capacity-too-small", What: fmt.Sprintf("PushWithExpand on a full ring of %d: Cap() = %d afterwards, %d elements pushed", x.cap, c, len(x.model))}
			}
			x.cap = c
		}
	case "Recap":
		c := op.Args[0]
		got := x.r.Recap(c)
		want := c > 0 && c != x.cap && c >= len(x.model)
		if want {
			x.cap = c
		}
		if got != want {
			return &space.Mismatch{Sig: "Ring.Recap|wrong-result", What: fmt.Sprintf("Recap(%d) = %v with cap %d len %d, want %v", c, got, x.cap, len(x.model), want)}
		}
	case "Init":
		x.r.Init(op.Args[0])
		x.cap = op.Args[0]
		x.model = nil
	}
	return nil
}

func (x *ringInst) Roots() []any { return []any{&x.r} }
func (x *ringInst) Abstract() string {
	return fmt.Sprint(x.cap, len(x.model))
}

func (x *ringInst) Check() *space.Mismatch {
	if g := x.r.Len(); g != len(x.model) {
		return &space.Mismatch{Sig: "Ring.Len|wrong", What: fmt.Sprintf("Len = %d, model %d", g, len(x.model))}
	}
	if g := x.r.Cap(); g != x.cap {
		return &space.Mismatch{Sig: "Ring.Cap|wrong", What: fmt.Sprintf("Cap = %d, model %d", g, x.cap)}
	}
	if g := x.r.IsEmpty(); g != (len(x.model) == 0) {
		return &space.Mismatch{Sig: "Ring.IsEmpty|wrong", What: fmt.Sprintf("IsEmpty = %v with %d elements", g, len(x.model))}
	}
	if g := x.r.IsFull(); g != (len(x.model) == x.cap) {
		return &space.Mismatch{Sig: "Ring.IsFull|wrong", What: fmt.Sprintf("IsFull = %v with %d of %d", g, len(x.model), x.cap)}
	}
	// destructive drain: content and order
	for i, want := range x.model {
		v, ok := x.r.Pop()
		if !ok || v != want {
			return &space.Mismatch{Sig: "Ring|content-or-order", What: fmt.Sprintf("drain position %d: Pop = (%v,%v), want (%v,true); model %v", i, v, ok, want, x.model)}
		}
	}
	if _, ok := x.r.Pop(); ok {
		return &space.Mismatch{Sig: "Ring|content-or-order", What: "ring holds more elements than the model"}
	}
	return nil
}

func ringSearch(r *common.Run) space.Result {
	sys := space.System{
		Name:   "Ring",
		Starts: 5,
		New: func(s int) space.Instance {
			return &ringInst{r: ringz.New[Val](s + 1), cap: s + 1}
		},
		Canon: &space.Canonizer{RenameType: reflect.TypeOf(Val(0))},
	}
	if !r.Thorough() {
		sys.MaxStates = 400000
	}
	res := space.Search(r, sys)
	r.Nontrivial(int64(res.States))
	return res
}

// ---------------------------------------------------------------- SyncRing Cap()

func capCheck(r *common.Run) {
	want := func(req int) int {
		c := 2
		for c < req {
			c *= 2
		}
		return c
	}
	var reqs []int
	for i := 1; i <= 1025; i++ {
		reqs = append(reqs, i)
	}
	for k := 11; k <= 20; k++ {
		reqs = append(reqs, 1<<k-1, 1<<k, 1<<k+1)
	}
	for _, req := range reqs {
		var got, gotInit int
		_, st, p := common.Catch(func() {
			s := ringz.NewSync[int](req)
			got = s.Cap()
			var z ringz.SyncRing[int] // the other public way to set a ring up
			z.Init(req)
			gotInit = z.Cap()
		})
		r.Eval(1)
		if !p && gotInit != got {
			r.Violation("SyncRing.Init|Cap-differs-from-NewSync", fmt.Sprintf("(*SyncRing).Init(%d) on a zero value gives Cap() = %d, NewSync(%d) gives %d", req, gotInit, req, got), map[string]any{"cap": req}, "")
		}
		if p {
			r.Violation("SyncRing.Init|panic", fmt.Sprintf("NewSync(%d) panicked", req), map[string]any{"cap": req, "stack": st}, "")
			continue
		}
		if got != want(req) {
			r.Violation("SyncRing.Cap|wrong", fmt.Sprintf("NewSync(%d).Cap() = %d, want %d", req, got, want(req)), map[string]any{"cap": req}, "")
		}
		if req&(req-1) != 0 {
			r.Nontrivial(1)
		}
	}
	// requests no 32-bit position counter can serve: refused (panic), never a silently smaller ring
	if strconv.IntSize == 64 {
		big := int64(1) << 32
		for _, req := range []int64{big/2 + 1, big - 1, big, big + 1, big + 3, 2 * big, 1<<62 + 1, 1<<63 - 1} {
			var got int
			var accepted bool
			var pushes, pops []bool
			_, _, p := common.Catch(func() {
				s := ringz.NewSync[int](int(req))
				accepted = true
				got = s.Cap()
				for i := 0; i < 3; i++ {
					pushes = append(pushes, s.Push(i))
				}
				for i := 0; i < 3; i++ {
					_, ok := s.Pop()
					pops = append(pops, ok)
				}
			})
			r.Eval(1)
			r.Nontrivial(1)
			if accepted {
				if int64(got) < req {
					r.Violation("SyncRing.Cap|huge-request-silently-truncated", fmt.Sprintf("NewSync(%d) was accepted and gives Cap() = %d (pushes %v, pops %v, panic afterwards %v); want a refusal (panic in NewSync) or a capacity >= the request", req, got, pushes, pops, p), map[string]any{"cap": req}, "")
				}
			}
		}
	}
	for _, bad := range []int{0, -1} {
		_, _, p := common.Catch(func() { ringz.NewSync[int](bad) })
		r.Eval(1)
		_ = p // a panic for non-positive capacities is the documented behaviour; nothing is asserted
	}
	r.SampleL("SyncRing.Cap", map[string]any{"requested": 1025, "want": 2048})
}

// ---------------------------------------------------------------- SyncRing behaviour with teleported counters

// teleport puts a fresh ring into the state that k push/pop pairs would leave.
func teleport(s *ringz.SyncRing[Val], k uint32) bool { return teleUsable && common.TeleportSyncRing(s, k) }

// teleUsable is cleared when the teleported state does not equal the honestly stepped one (the
// private representation is not of the shape common.TeleportSyncRing understands): the 2^32
// families are then skipped and reported as not covered, they are not an alarm.
var teleUsable = true

type syncInst struct {
	s     ringz.SyncRing[Val]
	model []Val
	cap   int
	next  Val
	steps int
	max   int

	reinit bool
}

func (x *syncInst) Ops() []space.Op {
	if x.steps >= x.max {
		return nil
	}
	ops := []space.Op{{Name: "Push"}, {Name: "Pop"}}
	if x.reinit {
		// Init on a used ring: it is the set-up routine of the type, so afterwards the ring is an
		// empty ring of the requested capacity again
		for _, c := range []int{1, 2, 3, 4, 8} {
			ops = append(ops, space.Op{Name: "Init", Args: []int{c}})
		}
	}
	return ops
}

func (x *syncInst) Apply(op space.Op) *space.Mismatch {
	x.steps++
	switch op.Name {
	case "Push":
		x.next++
		got := x.s.Push(x.next)
		want := len(x.model) < x.cap
		if want {
			x.model = append(x.model, x.next)
		}
		if got != want {
			return &space.Mismatch{Sig: "SyncRing.Push|wrong-result|sequential", What: fmt.Sprintf("Push returned %v with %d of %d slots used", got, len(x.model), x.cap)}
		}
	case "Pop":
		v, ok := x.s.Pop()
		if len(x.model) == 0 {
			if ok {
				return &space.Mismatch{Sig: "SyncRing.Pop|wrong-result|sequential", What: "Pop succeeded on an empty ring"}
			}
			return nil
		}
		want := x.model[0]
		x.model = x.model[1:]
		if !ok || v != want {
			return &space.Mismatch{Sig: "SyncRing.Pop|wrong-result|sequential", What: fmt.Sprintf("Pop = (%v,%v), want (%v,true)", v, ok, want)}
		}
	case "Init":
		x.s.Init(op.Args[0])
		x.cap = pow2(op.Args[0])
		x.model = nil
	}
	return nil
}

func pow2(req int) int {
	c := 2
	for c < req {
		c *= 2
	}
	return c
}
func (x *syncInst) Roots() []any     { return []any{&x.s, x.steps} }
func (x *syncInst) Abstract() string { return fmt.Sprint(len(x.model)) }
func (x *syncInst) Check() *space.Mismatch {
	if g := x.s.Cap(); g != x.cap {
		return &space.Mismatch{Sig: "SyncRing.Cap|wrong|sequential", What: fmt.Sprintf("Cap = %d, want %d", g, x.cap)}
	}
	if g := x.s.Len(); g != len(x.model) {
		return &space.Mismatch{Sig: "SyncRing.Len|wrong|sequential", What: fmt.Sprintf("Len = %d, model %d", g, len(x.model))}
	}
	if g := x.s.IsEmpty(); g != (len(x.model) == 0) {
		return &space.Mismatch{Sig: "SyncRing.IsEmpty|wrong|sequential", What: fmt.Sprintf("IsEmpty = %v with %d elements", g, len(x.model))}
	}
	if g := x.s.IsFull(); g != (len(x.model) == x.cap) {
		return &space.Mismatch{Sig: "SyncRing.IsFull|wrong|sequential", What: fmt.Sprintf("IsFull = %v with %d of %d", g, len(x.model), x.cap)}
	}
	for i, want := range x.model {
		v, ok := x.s.Pop()
		if !ok || v != want {
			return &space.Mismatch{Sig: "SyncRing|content-or-order|sequential", What: fmt.Sprintf("drain position %d: Pop = (%v,%v), want (%v,true)", i, v, ok, want)}
		}
	}
	if _, ok := x.s.Pop(); ok {
		return &space.Mismatch{Sig: "SyncRing|content-or-order|sequential", What: "ring holds more elements than the model"}
	}
	return nil
}

func syncSearch(r *common.Run) []space.Result {
	var out []space.Result
	canon := &space.Canonizer{RenameType: reflect.TypeOf(Val(0))}
	for _, req := range []int{2, 4, 8, 1, 3, 5, 6, 7} {
		capa := pow2(req) // the ring's capacity; req is what the constructor is asked for
		// binding of the teleport to the code: dump(teleport(k)) == dump(k honest pairs)
		teleOK := true
		for k := 0; k <= 4*capa; k++ {
			honest := ringz.NewSync[Val](req)
			for i := 0; i < k; i++ {
				honest.Push(Val(i + 1))
				honest.Pop()
			}
			tele := ringz.NewSync[Val](req)
			if !teleport(&tele, uint32(k)) {
				teleOK = false
				break
			}
			r.Eval(1)
			if a, b := canon.Dump(&honest), canon.Dump(&tele); a != b {
				teleOK, teleUsable = false, false
				r.Cov("teleport_mismatch", fmt.Sprintf("cap %d, k %d: honest %s / teleported %s", capa, k, a, b))
				break
			}
		}
		var ks []uint32
		ks = append(ks, 0)
		if teleOK {
			for d := -2 * capa; d <= 2*capa; d++ {
				if d != 0 {
					ks = append(ks, uint32(int64(d))) // 2^32+d as a 32-bit counter
				}
			}
			ks = append(ks, 1<<31-1, 1<<31, 1<<31+1)
		} else {
			r.Incomplete("SyncRing private fields head/tail/values/pos not found: counter teleport skipped")
		}
		depth := 3 * capa
		if !r.Thorough() && capa == 8 {
			depth = 2*capa + 2
		}
		if req != capa { // rounded-up requests: a shorter window, the index arithmetic is the same
			depth = capa + 3
		}
		sys := space.System{
			Name:   fmt.Sprintf("SyncRing/requested%d-cap%d", req, capa),
			Starts: len(ks),
			New: func(s int) space.Instance {
				x := &syncInst{cap: capa, max: depth}
				if s%2 == 1 {
					x.s.Init(req) // zero value + Init instead of the constructor
				} else {
					x.s = ringz.NewSync[Val](req)
				}
				if s > 0 {
					teleport(&x.s, ks[s])
				}
				return x
			},
			Canon: canon,
		}
		res := space.Search(r, sys)
		r.Nontrivial(int64(res.States))
		out = append(out, res)
	}
	// Init on a ring that has been used (any counters, any content): afterwards an empty ring of the new capacity
	{
		ks := []uint32{0, 1, 3, 1<<32 - 1, 1<<32 - 2}
		sys := space.System{
			Name:   "SyncRing/re-Init",
			Starts: len(ks),
			New: func(s int) space.Instance {
				x := &syncInst{cap: 2, max: 5, reinit: true}
				x.s = ringz.NewSync[Val](2)
				if s > 0 {
					teleport(&x.s, ks[s]) // all or nothing: an unknown representation leaves the fresh ring
				}
				return x
			},
			Canon: canon,
		}
		res := space.Search(r, sys)
		r.Nontrivial(int64(res.States))
		out = append(out, res)
	}
	r.SampleL("SyncRing teleport", map[string]any{"cap": 4, "k": "2^32-3", "then": "Push,Push,Push,Push,Pop,Push (wrap inside the window)"})
	return out
}

// honestWrap performs 2^32+64 push/pop pairs on a real ring (no teleport) and checks FIFO
// behaviour across the real counter wrap, then compares the private state with the teleported one.
func honestWrap(r *common.Run) {
	canon := &space.Canonizer{RenameType: reflect.TypeOf(Val(0))}
	const capa = 4
	s := ringz.NewSync[Val](capa)
	total := uint64(1)<<32 + 64
	bad := false
	// keep two elements in flight so that positions p and p+1 straddle the wrap
	s.Push(1)
	for i := uint64(1); i <= total && !bad; i++ {
		if !s.Push(Val(i%1000003 + 1)) {
			r.Violation("SyncRing.Push|wrong-result|honest-wrap", fmt.Sprintf("Push failed at pair %d with one element stored", i), map[string]any{"pair": i}, "")
			bad = true
		}
		v, ok := s.Pop()
		want := Val((i-1)%1000003 + 1)
		if i == 1 {
			want = 1
		}
		if !ok || v != want {
			r.Violation("SyncRing.Pop|wrong-result|honest-wrap", fmt.Sprintf("Pop = (%v,%v) at pair %d, want %v", v, ok, i, want), map[string]any{"pair": i}, "")
			bad = true
		}
		if i&0xFFFFFF == 0 && s.Len() != 1 {
			r.Violation("SyncRing.Len|wrong|honest-wrap", fmt.Sprintf("Len = %d at pair %d, want 1", s.Len(), i), map[string]any{"pair": i}, "")
			bad = true
		}
	}
	r.Eval(int64(total >> 10)) // counted in units of 1024 pairs
	if bad {
		return
	}
	s.Pop()
	// now head == tail == total+1 (mod 2^32)
	tele := ringz.NewSync[Val](capa)
	if teleport(&tele, uint32(total+1)) {
		a, b := canon.Dump(&s), canon.Dump(&tele)
		r.Cov("honest_wrap_pairs", total)
		r.Cov("honest_wrap_matches_teleport", a == b)
		if a != b {
			r.Incomplete("the teleported state differs from the honest 2^32 run: the teleport-based families of this run are not bound to the code")
		}
	}
}
