// C05 — Trie multi-pattern queries are exact (engine E3, bounded-exhaustive).
//
// Space (verif/triex.Families): pattern sets × insertion histories × texts × keys over
//   - structure alphabets {a,b} and {a,b,c} (shared prefixes, suffix/infix patterns, duplicates,
//     the empty pattern), plus the "one long pattern covering several short ones" shape,
//   - the width alphabet {a, é, 世, 😀, U+FFFD} (1..4-byte runes),
//   - raw bytes {a, C3, A9, EF, BF, BD, FF}: every text that is not valid UTF-8.
//
// Oracle: brute force with package strings. Exactly what the property states and no more:
//   - valid UTF-8 text: Match ⇔ some non-empty pattern is a substring; FindAll = multiset with one
//     entry per (distinct pattern, position);
//   - text not valid UTF-8: no panic, Match ⇒ some pattern occurs byte-for-byte, every FindAll entry
//     is an inserted pattern and no pattern is reported more often than it occurs (soundness only);
//   - PrefixSearch(k) = the distinct non-empty inserted patterns with prefix k, each once, any order;
//   - FuzzySearch(k) ⊆ inserted patterns (soundness only, duplicates allowed);
//   - Insert("") is a no-op as far as the property goes: "" never has to be returned and is
//     tolerated (once in PrefixSearch(""), anywhere in FuzzySearch/FindAll) when it was inserted.
package main

import (
	"fmt"
	"sort"
	"strings"
	"unicode/utf8"

	"verif/common"
	"verif/triex"
)

const (
	xTextCases = iota
	xKeyCases
	xInvalidTexts
)

func main() {
	r := common.Start("C05", "model_checking")
	b := triex.TierBounds(r.Thorough())
	fams := triex.Families(b)
	global := triex.NewCollector()
	tot := &triex.Totals{}
	finish := func() {
		global.Flush(r)
		r.Cov("text_cases", tot.Extra[xTextCases])
		r.Cov("key_cases", tot.Extra[xKeyCases])
		r.Cov("text_cases_not_valid_utf8", tot.Extra[xInvalidTexts])
		r.Assume(assumptions...)
		r.Finish(rule)
	}
	triex.Watch(func(reason string, v *triex.Visit, in *string) {
		entry, kind, input := "Insert+BuildFailureLinks", "text", ""
		if in != nil {
			entry, input = "Match/FindAll/PrefixSearch/FuzzySearch", *in
		}
		r.Violation(entry+"|no-termination|"+v.Oracle.KeyClass(input),
			fmt.Sprintf("%s on input %q %s", entry, input, reason), v.Case(kind, input, nil),
			"func TestReplay(t *testing.T) {\n"+triex.GoSetup(v.Set, v.Hist)+fmt.Sprintf("\tin := %q\n\ttr.Match(in); tr.FindAll(in); tr.PrefixSearch(in); tr.FuzzySearch(in)\n}", input))
		r.Incomplete("aborted by the watchdog: " + reason)
		finish()
	})
	for i, f := range fams {
		f.Run(r, i, global, tot, visit)
		sample(r, f)
	}
	finish()
}

var assumptions = []string{
	"small-scope: bounds per family are listed in coverage.sections; outside: longer patterns, larger pattern sets, longer texts",
	"patterns are valid UTF-8; texts and keys are arbitrary byte strings",
	"text that is not valid UTF-8 is judged like any other text (byte-for-byte occurrences of the patterns, which are valid UTF-8)",
	"keys that are not valid UTF-8: no panic, and every PrefixSearch / FuzzySearch result is an inserted pattern (PrefixSearch: starting with the key bytes, each once); whether a pattern whose first rune shares leading bytes with such a key counts as starting with it is not demanded",
	"FuzzySearch is checked for soundness only (results are inserted patterns)",
	"a case is one (family, pattern set, insertion history, text) with Match+FindAll, or one (family, pattern set, insertion history, key) with PrefixSearch+FuzzySearch",
}

const rule = "every (pattern set, history, text) and (pattern set, history, key) of each family is enumerated once (no sampling); non-trivial = the text contains >= 1 occurrence of a non-empty inserted pattern, resp. >= 1 inserted pattern starts with the key"

func sample(r *common.Run, f *triex.Family) {
	if len(f.Sets) == 0 || len(f.Texts) == 0 {
		return
	}
	set := f.Sets[len(f.Sets)*2/3]
	ps := make([]string, len(set))
	for i, k := range set {
		ps[i] = f.Pats[k]
	}
	o := triex.NewOracle(ps)
	// first text (longest-last order) that has an occurrence, searched from the end
	for ti := len(f.Texts) - 1; ti >= 0; ti-- {
		counts := make([]int, len(o.Pats))
		if o.Count(f.Texts[ti].S, counts) > 0 {
			r.SampleL(f.Name, map[string]any{"patterns": triex.Q(ps), "text": fmt.Sprintf("%q", f.Texts[ti].S), "want_FindAll": triex.Q(expectAll(o, counts))})
			return
		}
	}
}

func expectAll(o *triex.Oracle, counts []int) []string {
	var out []string
	for i, p := range o.Pats {
		for k := 0; k < counts[i]; k++ {
			out = append(out, p)
		}
	}
	return out
}

func goStrs(ss []string) string {
	q := make([]string, len(ss))
	for i, s := range ss {
		q[i] = fmt.Sprintf("%q", s)
	}
	return "[]string{" + strings.Join(q, ", ") + "}"
}

func visit(sh *triex.Shard, v *triex.Visit) {
	o, tr := v.Oracle, v.Trie
	want := sh.Counts[:len(o.Pats)]
	got := make([]int, len(o.Pats))

	for ti := range v.Fam.Texts {
		t := &v.Fam.Texts[ti]
		text := t.S
		sh.At(&t.S)
		sh.Ev++
		sh.Extra[xTextCases]++
		if !t.Valid {
			sh.Extra[xInvalidTexts]++
		}
		total := o.Count(text, want)
		if total > 0 {
			sh.Nt++
		}

		// ---- Match
		var m bool
		p := triex.Try(func() { m = tr.Match(text) })
		switch {
		case p:
			sh.Col.Report("Match|panic|"+o.TextClass(t), v.Size(text), func() (string, any, string) {
				site, st := triex.PanicInfo(func() { tr.Match(text) })
				return fmt.Sprintf("Match(%q) panicked at %s; want %v", text, site, total > 0),
					v.Case("text", text, map[string]any{"stack": st}),
					"func TestReplay(t *testing.T) {\n" + triex.GoSetup(v.Set, v.Hist) + fmt.Sprintf("\t_ = tr.Match(%q) // panics\n}", text)
			})
		case m && total == 0:
			sh.Col.Report("Match|false-positive|"+o.TextClass(t), v.Size(text), func() (string, any, string) {
				return fmt.Sprintf("Match(%q) = true, want false: no inserted pattern of %q occurs in the text byte-for-byte", text, v.Set),
					v.Case("text", text, nil),
					"func TestReplay(t *testing.T) {\n" + triex.GoSetup(v.Set, v.Hist) + fmt.Sprintf("\tif tr.Match(%q) {\n\t\tt.Fatal(\"Match = true, want false\")\n\t}\n}", text)
			})
		case !m && total > 0: // "for every text": also on text that is not valid UTF-8
			sh.Col.Report("Match|false-negative|"+o.TextClass(t), v.Size(text), func() (string, any, string) {
				return fmt.Sprintf("Match(%q) = false, want true: the text contains %q", text, expectAll(o, want)),
					v.Case("text", text, nil),
					"func TestReplay(t *testing.T) {\n" + triex.GoSetup(v.Set, v.Hist) + fmt.Sprintf("\tif !tr.Match(%q) {\n\t\tt.Fatal(\"Match = false, want true\")\n\t}\n}", text)
			})
		}

		// ---- FindAll
		var all []string
		p = triex.Try(func() { all = tr.FindAll(text) })
		if p {
			sh.Col.Report("FindAll|panic|"+o.TextClass(t), v.Size(text), func() (string, any, string) {
				site, st := triex.PanicInfo(func() { tr.FindAll(text) })
				return fmt.Sprintf("FindAll(%q) panicked at %s; want %q", text, site, expectAll(o, want)),
					v.Case("text", text, map[string]any{"stack": st}),
					"func TestReplay(t *testing.T) {\n" + triex.GoSetup(v.Set, v.Hist) + fmt.Sprintf("\t_ = tr.FindAll(%q) // panics\n}", text)
			})
			continue
		}
		for i := range got {
			got[i] = 0
		}
		kind := ""
		for _, e := range all {
			if e == "" && o.HasEmpty {
				continue
			}
			i := o.Index(e)
			if i < 0 {
				kind = "not-a-pattern"
				break
			}
			got[i]++
		}
		if kind == "" {
			for i := range got {
				if got[i] > want[i] {
					kind = "extra-occurrence"
					break
				}
				if got[i] < want[i] {
					kind = "missing-occurrence"
				}
			}
		}
		if kind != "" {
			res := append([]string(nil), all...)
			sh.Col.Report("FindAll|"+kind+"|"+o.TextClass(t), v.Size(text), func() (string, any, string) {
				sort.Strings(res)
				exp := expectAll(o, want)
				rel := "want exactly (as a multiset)"
				return fmt.Sprintf("FindAll(%q) = %q (sorted), %s %q", text, res, rel, exp),
					v.Case("text", text, map[string]any{"got_sorted": triex.Q(res), "want": triex.Q(exp)}),
					"func TestReplay(t *testing.T) {\n" + triex.GoSetup(v.Set, v.Hist) +
						fmt.Sprintf("\tgot := tr.FindAll(%q)\n\tsort.Strings(got)\n\tif want := %s; fmt.Sprintf(\"%%q\", got) != fmt.Sprintf(\"%%q\", want) {\n\t\tt.Fatalf(\"FindAll = %%q, want %%q\", got, want)\n\t}\n}", text, goStrs(exp))
			})
		}
	}

	for ki, key := range v.Fam.Keys {
		sh.At(&v.Fam.Keys[ki])
		sh.Ev++
		sh.Extra[xKeyCases]++
		exp := o.WithPrefix(key)
		if len(exp) > 0 {
			sh.Nt++
		}

		// ---- PrefixSearch: exactly exp, each once, any order
		var ps []string
		p := triex.Try(func() { ps = tr.PrefixSearch(key) })
		if p {
			sh.Col.Report("PrefixSearch|panic|"+o.KeyClass(key), v.Size(key), func() (string, any, string) {
				site, st := triex.PanicInfo(func() { tr.PrefixSearch(key) })
				return fmt.Sprintf("PrefixSearch(%q) panicked at %s; want %q", key, site, exp),
					v.Case("key", key, map[string]any{"stack": st}),
					"func TestReplay(t *testing.T) {\n" + triex.GoSetup(v.Set, v.Hist) + fmt.Sprintf("\t_ = tr.PrefixSearch(%q) // panics\n}", key)
			})
		} else {
			res := append([]string(nil), ps...)
			sort.Strings(res)
			if key == "" && o.HasEmpty && len(res) > 0 && res[0] == "" {
				res = res[1:] // "" was inserted: returning it once is within the property text
			}
			ok := len(res) == len(exp)
			for i := 0; ok && i < len(res); i++ {
				ok = res[i] == exp[i]
			}
			if !utf8.ValidString(key) {
				// a key that is not made of runes: whether a pattern whose first rune merely shares
				// leading bytes with it "starts with" it is not settled by the property; demanded is
				// soundness — every result an inserted pattern that starts with the key bytes, once
				ok = true
				for i, e := range res {
					if o.Index(e) < 0 || !strings.HasPrefix(e, key) || (i > 0 && res[i-1] == e) {
						ok = false
					}
				}
			}
			if !ok {
				sh.Col.Report("PrefixSearch|wrong-result|"+o.KeyClass(key), v.Size(key), func() (string, any, string) {
					return fmt.Sprintf("PrefixSearch(%q) = %q (sorted), want exactly %q (inserted: %q)", key, res, exp, v.Set),
						v.Case("key", key, map[string]any{"got_sorted": triex.Q(res), "want": triex.Q(exp)}),
						"func TestReplay(t *testing.T) {\n" + triex.GoSetup(v.Set, v.Hist) +
							fmt.Sprintf("\tgot := tr.PrefixSearch(%q)\n\tsort.Strings(got)\n\tif want := %s; fmt.Sprintf(\"%%q\", got) != fmt.Sprintf(\"%%q\", want) {\n\t\tt.Fatalf(\"PrefixSearch = %%q, want %%q\", got, want)\n\t}\n}", key, goStrs(exp))
				})
			}
		}

		// ---- FuzzySearch: soundness only
		var fz []string
		p = triex.Try(func() { fz = tr.FuzzySearch(key) })
		if p {
			sh.Col.Report("FuzzySearch|panic|"+o.KeyClass(key), v.Size(key), func() (string, any, string) {
				site, st := triex.PanicInfo(func() { tr.FuzzySearch(key) })
				return fmt.Sprintf("FuzzySearch(%q) panicked at %s", key, site),
					v.Case("key", key, map[string]any{"stack": st}),
					"func TestReplay(t *testing.T) {\n" + triex.GoSetup(v.Set, v.Hist) + fmt.Sprintf("\t_ = tr.FuzzySearch(%q) // panics\n}", key)
			})
			continue
		}
		for _, e := range fz {
			if (e == "" && o.HasEmpty) || o.Index(e) >= 0 {
				continue
			}
			res := append([]string(nil), fz...)
			bad := e
			sh.Col.Report("FuzzySearch|not-a-pattern|"+o.KeyClass(key), v.Size(key), func() (string, any, string) {
				return fmt.Sprintf("FuzzySearch(%q) = %q contains %q which is not an inserted pattern (inserted: %q)", key, res, bad, v.Set),
					v.Case("key", key, map[string]any{"got": triex.Q(res), "not_inserted": fmt.Sprintf("%q", bad)}),
					"func TestReplay(t *testing.T) {\n" + triex.GoSetup(v.Set, v.Hist) +
						fmt.Sprintf("\tins := map[string]bool{}\n\tfor _, p := range %s {\n\t\tins[p] = true\n\t}\n\tfor _, g := range tr.FuzzySearch(%q) {\n\t\tif !ins[g] {\n\t\t\tt.Fatalf(\"FuzzySearch returned %%q which was never inserted\", g)\n\t\t}\n\t}\n}", goStrs(v.Set), key)
			})
			break
		}
	}
}
