package main

import (
	"bytes"
	"fmt"

	"verif/common"

	"github.com/welllog/golib/cryptz"
)

// keyHistories: what earlier calls — also REJECTED ones — leave behind must not influence a call.
// Every ordered triple of keys from a menu in which legal keys are prefixes / mixtures of the
// illegal ones (the caller passed buf[:20], got the error and corrected it to buf[:16]; a 15-byte
// key completed with the tail of the previous good key): the first two calls are history, the third
// is compared with the standard library (legal key) or must fail (illegal key), for all four AES
// helpers, with the history made by the same helper and by AESCBCEncrypt.
func keyHistories(r *common.Run) {
	A := pat(1, 33, 1)
	X := pat(2, 33, 1)
	mix := func(a, b []byte, cut, n int) []byte { // a[:cut] + b[cut:n]
		return append(append([]byte(nil), a[:cut]...), b[cut:n]...)
	}
	type kT struct {
		name string
		k    []byte
	}
	keys := []kT{
		{"A[:16]", A[:16]}, {"A[:24]", A[:24]}, {"A[:32]", A[:32]},
		{"X[:16]", X[:16]}, {"X[:24]", X[:24]}, {"X[:32]", X[:32]},
		{"X[:20] (illegal)", X[:20]}, {"X[:15] (illegal)", X[:15]}, {"X[:33] (illegal)", X[:33]}, {"empty (illegal)", X[:0]}, {"A[:17] (illegal)", A[:17]},
		{"X[:15]+A[15:16]", mix(X, A, 15, 16)}, {"X[:20]+A[20:24]", mix(X, A, 20, 24)}, {"X[:17]+A[17:32]", mix(X, A, 17, 32)},
	}
	legal := func(k []byte) bool { return len(k) == 16 || len(k) == 24 || len(k) == 32 }
	iv := pat(1, 16, 2)
	nonce := pat(1, 12, 3)
	pt := pat(1, 21, 0)
	ops := []string{"AESCBCEncrypt", "AESCBCDecrypt", "AESGCMEncrypt", "AESGCMDecrypt"}
	// call runs one helper under key k and returns (output, error, panicked, stack); inputs for the
	// decrypting helpers are made with the standard library under the same key when it is legal,
	// under A[:16] otherwise
	call := func(op int, k []byte) ([]byte, error, bool, string) {
		mk := k
		if !legal(k) {
			mk = A[:16]
		}
		var out []byte
		var err error
		_, st, p := common.Catch(func() {
			switch op {
			case 0:
				out = make([]byte, cryptz.AESCBCEncryptLen(pt))
				err = cryptz.AESCBCEncrypt(out, pt, append([]byte(nil), k...), append([]byte(nil), iv...))
			case 1:
				ct := stdCBC(mk, iv, pt)
				out = make([]byte, len(ct))
				var n int
				n, err = cryptz.AESCBCDecrypt(out, ct, append([]byte(nil), k...), append([]byte(nil), iv...))
				if err == nil {
					out = out[:n]
				}
			case 2:
				out = make([]byte, len(pt)+16)
				err = cryptz.AESGCMEncrypt(out, pt, append([]byte(nil), k...), append([]byte(nil), nonce...), nil)
			case 3:
				a, _ := stdGCM(mk, nonce)
				ct := a.Seal(nil, nonce, pt, nil)
				out = make([]byte, len(pt))
				err = cryptz.AESGCMDecrypt(out, ct, append([]byte(nil), k...), append([]byte(nil), nonce...), nil)
			}
		})
		return out, err, p, st
	}
	want := func(op int, k []byte) []byte {
		switch op {
		case 0:
			return stdCBC(k, iv, pt)
		case 2:
			a, _ := stdGCM(k, nonce)
			return a.Seal(nil, nonce, pt, nil)
		}
		return pt
	}
	var ev int64
	for op := range ops {
		for hist := 0; hist < 2; hist++ { // 0: history by the same helper, 1: by AESCBCEncrypt
			hop := op
			if hist == 1 {
				if op == 0 {
					continue
				}
				hop = 0
			}
			for _, k1 := range keys {
				for _, k2 := range keys {
					for _, k3 := range keys {
						call(hop, k1.k)
						call(hop, k2.k)
						out, err, p, st := call(op, k3.k)
						ev++
						c := map[string]any{"helper": ops[op], "history_helper": ops[hop], "first_key": k1.name, "second_key": k2.name, "key": k3.name, "key_hex": hx(k3.k), "A": hx(A), "X": hx(X)}
						switch {
						case p:
							r.Violation(ops[op]+"|panic|after-key-history", fmt.Sprintf("%s under key %s panicked (%s) after calls of %s under %s and %s", ops[op], k3.name, st, ops[hop], k1.name, k2.name), c, "")
						case !legal(k3.k) && err == nil:
							r.Violation(ops[op]+"|no-error|after-key-history", fmt.Sprintf("%s accepted the %d-byte key %s after calls of %s under %s and %s", ops[op], len(k3.k), k3.name, ops[hop], k1.name, k2.name), c, "")
						case legal(k3.k) && (err != nil || !bytes.Equal(out, want(op, k3.k))):
							r.Violation(ops[op]+"|wrong-result|after-key-history", fmt.Sprintf("%s under key %s = %s, %v after calls of %s under %s and %s; the standard library gives %s", ops[op], k3.name, hx(out), err, ops[hop], k1.name, k2.name, hx(want(op, k3.k))), c, "")
						}
					}
				}
			}
		}
	}
	r.Eval(ev)
	r.Nontrivial(ev)
	r.Section(map[string]any{"family": "key histories: every ordered triple of 14 keys (6 legal, 5 of illegal size, 3 legal mixtures of an illegal key's bytes with the previous key's tail); two calls of history incl. rejected ones, the third compared with the standard library", "cases": ev})
}
