package main

import (
	"bytes"
	"fmt"

	"github.com/welllog/golib/cryptz"
)

// coldProbes: each runs as the first library call of a fresh process (common.ColdStart).
func coldProbes() map[string]func() string {
	key, iv, nonce := pat(1, 32, 1), pat(1, 16, 2), pat(1, 12, 3)
	pt := pat(2, 21, 0)
	return map[string]func() string{
		"AESCBCDecrypt": func() string {
			ct := stdCBC(key, iv, pt)
			out := make([]byte, len(ct))
			n, err := cryptz.AESCBCDecrypt(out, ct, key, iv)
			if err != nil || !bytes.Equal(out[:n], pt) {
				return fmt.Sprintf("AESCBCDecrypt of a standard AES-CBC ciphertext returned %s, %v; want %s", hx(out[:max(n, 0)]), err, hx(pt))
			}
			return ""
		},
		"AESCBCEncrypt": func() string {
			want := stdCBC(key, iv, pt)
			out := make([]byte, cryptz.AESCBCEncryptLen(pt))
			if err := cryptz.AESCBCEncrypt(out, pt, key, iv); err != nil || !bytes.Equal(out, want) {
				return fmt.Sprintf("AESCBCEncrypt = %s, %v; want %s", hx(out), err, hx(want))
			}
			return ""
		},
		"AESGCMDecrypt": func() string {
			a, _ := stdGCM(key, nonce)
			ct := a.Seal(nil, nonce, pt, nil)
			out := make([]byte, len(pt))
			if err := cryptz.AESGCMDecrypt(out, ct, key, nonce, nil); err != nil || !bytes.Equal(out, pt) {
				return fmt.Sprintf("AESGCMDecrypt = %s, %v; want %s", hx(out), err, hx(pt))
			}
			return ""
		},
		"AESGCMEncrypt": func() string {
			a, _ := stdGCM(key, nonce)
			want := a.Seal(nil, nonce, pt, nil)
			out := make([]byte, len(pt)+16)
			if err := cryptz.AESGCMEncrypt(out, pt, key, nonce, nil); err != nil || !bytes.Equal(out, want) {
				return fmt.Sprintf("AESGCMEncrypt = %s, %v; want %s", hx(out), err, hx(want))
			}
			return ""
		},
		"PKCS7UnPadding": func() string {
			d := append(append([]byte{}, pt[:5]...), 3, 3, 3)
			got, err := cryptz.PKCS7UnPadding(d, 8)
			if err != nil || !bytes.Equal(got, pt[:5]) {
				return fmt.Sprintf("PKCS7UnPadding = %s, %v; want %s", hx(got), err, hx(pt[:5]))
			}
			return ""
		},
		"PKCS7Padding": func() string {
			got, err := cryptz.PKCS7Padding(append([]byte{}, pt[:5]...), 8)
			want := append(append([]byte{}, pt[:5]...), 3, 3, 3)
			if err != nil || !bytes.Equal(got, want) {
				return fmt.Sprintf("PKCS7Padding = %s, %v; want %s", hx(got), err, hx(want))
			}
			return ""
		},
	}
}
