// C08 — AES-CBC/GCM helpers and PKCS#7 padding invert exactly and reject bad input.
// Bounded-exhaustive enumeration (engine E3): every case of each family below is executed once
// on golib's cryptz package and compared with crypto/aes + crypto/cipher used directly.
package main

import (
	"bytes"
	"crypto/aes"
	"crypto/cipher"
	"encoding/hex"
	"fmt"

	"verif/common"

	"github.com/welllog/golib/cryptz"
)

var (
	keySizes    = []int{16, 24, 32}
	badKeySizes = []int{0, 15, 17, 33}
	patNames    = []string{"zeros", "affine", "countdown"}
	layNames    = []string{"fresh", "in-place", "disjoint-halves"}
)

// pat returns n bytes of pattern k. "countdown" with salt 0 ends in ...,3,2,1 so that the
// plaintext itself looks like it carries padding.
func pat(k, n, salt int) []byte {
	b := make([]byte, n)
	switch k {
	case 1:
		for i := range b {
			b[i] = byte(i*37 + 11 + salt*53)
		}
	case 2:
		for i := range b {
			b[i] = byte(n - i + salt)
		}
	}
	return b
}

func hx(b []byte) string { return hex.EncodeToString(b) }

func lenClass(n int) string {
	if n%16 == 0 {
		return "block-aligned-plaintext" // includes the empty plaintext: a full padding block is needed
	}
	return "partial-block-plaintext"
}

// laySig makes signatures that name a layout only when the failure is specific to it: a failure
// kind already seen for the same input in the fresh layout keeps the plain signature, so one
// defect gives one signature and an aliasing-only defect a different one.
type laySig struct{ failed map[string]bool }

func (s *laySig) sig(base string, lay int) string {
	if lay == 0 {
		if s.failed == nil {
			s.failed = map[string]bool{}
		}
		s.failed[base] = true
		return base
	}
	if s.failed[base] {
		return base
	}
	return base + "/" + layNames[lay] + "-only"
}

// ---- independent oracles -------------------------------------------------------------------

func handPad(pt []byte, b int) []byte {
	p := b - len(pt)%b
	out := make([]byte, len(pt)+p)
	copy(out, pt)
	for i := len(pt); i < len(out); i++ {
		out[i] = byte(p)
	}
	return out
}

func stdCBC(key, iv, pt []byte) []byte {
	blk, err := aes.NewCipher(key)
	if err != nil {
		common.Infra("oracle aes.NewCipher: %v", err)
	}
	out := handPad(pt, 16)
	cipher.NewCBCEncrypter(blk, iv).CryptBlocks(out, out)
	return out
}

func rawCBC(key, iv, blocks []byte) []byte {
	blk, err := aes.NewCipher(key)
	if err != nil {
		common.Infra("oracle aes.NewCipher: %v", err)
	}
	out := make([]byte, len(blocks))
	cipher.NewCBCEncrypter(blk, iv).CryptBlocks(out, blocks)
	return out
}

func stdGCM(key, nonce []byte) (cipher.AEAD, error) {
	blk, err := aes.NewCipher(key)
	if err != nil {
		return nil, err
	}
	return cipher.NewGCMWithNonceSize(blk, len(nonce))
}

// wantUnpad is the PKCS#7 definition: a non-empty multiple of b whose last byte v is in 1..b and
// whose last v bytes all equal v.
func wantUnpad(d []byte, b int) (int, bool) {
	if len(d) == 0 || len(d)%b != 0 {
		return 0, false
	}
	v := int(d[len(d)-1])
	if v < 1 || v > b {
		return 0, false
	}
	for i := len(d) - v; i < len(d); i++ {
		if d[i] != byte(v) {
			return 0, false
		}
	}
	return len(d) - v, true
}

// ---- dst/src layouts -------------------------------------------------------------------------

const guardByte = 0xA5
const guardLen = 8

type bufs struct {
	dst, src []byte
	arenas   [][]byte
	snaps    [][]byte
	skip     [][2]int // per arena: the range that may legitimately change
}

// layout builds dst (dstLen bytes) and src (a copy of data) in one of the three layouts:
// 0 separate allocations; 1 in place as the doc comments allow (both start at the same address);
// 2 disjoint halves of one array.
func layout(kind int, data []byte, dstLen int) *bufs {
	if dstLen < 0 {
		dstLen = 0
	}
	b := &bufs{}
	mk := func(n int) []byte {
		a := make([]byte, n+2*guardLen)
		for i := range a {
			a[i] = guardByte
		}
		return a
	}
	switch kind {
	case 0:
		as, ad := mk(len(data)), mk(dstLen)
		copy(as[guardLen:], data)
		b.src = as[guardLen : guardLen+len(data) : guardLen+len(data)]
		b.dst = ad[guardLen : guardLen+dstLen : guardLen+dstLen]
		b.arenas = [][]byte{as, ad}
		b.skip = [][2]int{{0, 0}, {guardLen, guardLen + dstLen}}
	case 1:
		h := len(data)
		if dstLen > h {
			h = dstLen
		}
		a := mk(h)
		copy(a[guardLen:], data)
		b.src = a[guardLen : guardLen+len(data)]
		b.dst = a[guardLen : guardLen+dstLen]
		b.arenas = [][]byte{a}
		b.skip = [][2]int{{guardLen, guardLen + h}}
	default:
		h := len(data)
		if dstLen > h {
			h = dstLen
		}
		a := mk(2 * h)
		copy(a[guardLen:], data)
		b.src = a[guardLen : guardLen+len(data)]
		b.dst = a[guardLen+h : guardLen+h+dstLen]
		b.arenas = [][]byte{a}
		b.skip = [][2]int{{guardLen + h, guardLen + h + dstLen}}
	}
	for _, a := range b.arenas {
		b.snaps = append(b.snaps, append([]byte(nil), a...))
	}
	return b
}

// outside reports whether any byte outside dst (outside the shared region for in-place) changed.
func (b *bufs) outside() bool {
	for k, a := range b.arenas {
		s, sk := b.snaps[k], b.skip[k]
		if !bytes.Equal(a[:sk[0]], s[:sk[0]]) || !bytes.Equal(a[sk[1]:], s[sk[1]:]) {
			return true
		}
	}
	return false
}

func main() {
	r := common.Start("C08", "model_checking")
	r.ColdStart(coldProbes())
	a := newAgg()
	lenHelpers(r, a)
	cbcAll(r, a)
	gcmAll(r, a)
	gcmTamper(r, a)
	invalidKeys(r, a)
	pkcs7RoundTrip(r, a)
	pkcs7Malformed(r, a)
	cbcUnpad(r, a)
	reusedBuffers(r)
	keyHistories(r)
	a.flush(r)
	r.Assume(
		"small-scope: plaintext lengths 0..48, three byte patterns (zeros, affine, countdown ending ...,3,2,1) for key/IV/nonce/AAD/plaintext; AES and GCM are value-oblivious apart from the pad bytes, which are enumerated over all 256 values",
		"dst buffers have exactly the length the ...Len helpers prescribe; aliasing only as the doc comments allow (dst and src start at the same address) or not at all",
		"IVs are 16 bytes (other IV lengths are a stdlib panic by contract and outside the property); CBC carries no tamper claim",
		"a forged GCM tag validating by chance (2^-128 per case) is ignored")
	r.Finish("every tuple of each family is executed once; non-trivial = an error is expected (corrupted / malformed / invalid key or nonce size), or dst shares an array with src, or the plaintext is empty or block-aligned (a full padding block is needed)")
}

// ---- length helpers ---------------------------------------------------------------------------

func lenHelpers(r *common.Run, a *agg) {
	sc := newSec("lenHelpers")
	defer sc.done(r)
	l := newLagg(0)
	buf := make([]byte, 4200)
	var ev int64
	for n := 0; n <= 4128; n++ {
		ev++
		wantC := (n/16 + 1) * 16
		b := buf[:n]
		s := string(b)
		if g1, g2 := cryptz.AESCBCEncryptLen(b), cryptz.AESCBCEncryptLen(s); g1 != wantC || g2 != wantC {
			l.report("AESCBCEncryptLen|wrong-length|"+lenClass(n), int64(n), fmt.Sprintf("AESCBCEncryptLen(%d bytes) = %d ([]byte) / %d (string), want %d", n, g1, g2, wantC), map[string]any{"len": n}, "")
		}
		if g1, g2 := cryptz.AESGCMEncryptLen(b), cryptz.AESGCMEncryptLen(s); g1 != n+16 || g2 != n+16 {
			l.report("AESGCMEncryptLen|wrong-length", int64(n), fmt.Sprintf("AESGCMEncryptLen(%d bytes) = %d / %d, want %d", n, g1, g2, n+16), map[string]any{"len": n}, "")
		}
		if n >= 16 {
			if g1, g2 := cryptz.AESGCMDecryptLen(b), cryptz.AESGCMDecryptLen(s); g1 != n-16 || g2 != n-16 {
				l.report("AESGCMDecryptLen|wrong-length", int64(n), fmt.Sprintf("AESGCMDecryptLen(%d bytes) = %d / %d, want %d", n, g1, g2, n-16), map[string]any{"len": n}, "")
			}
		}
		// AESCBCDecryptLen is a buffer size: it must be enough for the plaintext (< n) and is what
		// the harness allocates; the doc allows dst = cipherText, so n itself is also required to do.
		if g1, g2 := cryptz.AESCBCDecryptLen(b), cryptz.AESCBCDecryptLen(s); g1 != g2 || (n%16 == 0 && n > 0 && g1 < n-1) {
			l.report("AESCBCDecryptLen|wrong-length", int64(n), fmt.Sprintf("AESCBCDecryptLen(%d bytes) = %d / %d", n, g1, g2), map[string]any{"len": n}, "")
		}
	}
	sc.add(ev, 4128/16+1)
	a.merge(l)
}

// ---- CBC ---------------------------------------------------------------------------------------

func cbcAll(r *common.Run, a *agg) {
	sc := newSec("cbcAll")
	defer sc.done(r)
	type sh struct{ ks, kp, ip int }
	var shards []sh
	for _, ks := range keySizes {
		for kp := 0; kp < 3; kp++ {
			for ip := 0; ip < 3; ip++ {
				shards = append(shards, sh{ks, kp, ip})
			}
		}
	}
	r.Parallel(len(shards), func(si int) {
		s := shards[si]
		l := newLagg(si)
		var ev, nt int64
		key, iv := pat(s.kp, s.ks, 1), pat(s.ip, 16, 2)
		key0, iv0 := append([]byte(nil), key...), append([]byte(nil), iv...)
		intact := func(entry string, rank int64) { // key and IV are inputs: a call must leave them alone
			if !bytes.Equal(key, key0) || !bytes.Equal(iv, iv0) {
				l.report(entry+"|key-or-iv-modified", rank, fmt.Sprintf("%s changed its key / IV argument: key %s -> %s, iv %s -> %s", entry, hx(key0), hx(key), hx(iv0), hx(iv)), map[string]any{"key": hx(key0), "iv": hx(iv0)}, "")
				copy(key, key0)
				copy(iv, iv0)
			}
		}
		for n := 0; n <= 48; n++ {
			for pp := 0; pp < 3; pp++ {
				if n == 0 && pp > 0 {
					continue
				}
				pt := pat(pp, n, 0)
				want := stdCBC(key0, iv0, pt)
				var ls laySig
				for lay := 0; lay < 3; lay++ {
					ev++
					if lay > 0 || n%16 == 0 {
						nt++
					}
					rank := int64(n)*100 + int64(lay)*10 + int64(pp)
					c := map[string]any{"key": hx(key), "iv": hx(iv), "plaintext": hx(pt), "layout": layNames[lay]}
					cls := lenClass(n)
					encLen := cryptz.AESCBCEncryptLen(pt)
					if encLen != len(want) {
						continue // reported by lenHelpers; a dst of the wrong size is outside the doc
					}
					b := layout(lay, pt, encLen)
					var err error
					_, st, p := common.Catch(func() { err = cryptz.AESCBCEncrypt(b.dst, b.src, key, iv) })
					intact("AESCBCEncrypt", rank)
					if p {
						l.report(ls.sig("AESCBCEncrypt|panic|"+cls, lay), rank, "AESCBCEncrypt panicked at "+common.PanicSite(st), map[string]any{"case": c, "stack": st}, "")
						continue
					}
					if err != nil {
						l.report(ls.sig("AESCBCEncrypt|error-on-valid|"+cls, lay), rank, fmt.Sprintf("AESCBCEncrypt returned %v for a %d-byte key and 16-byte IV", err, s.ks), c, "")
						continue
					}
					if !bytes.Equal(b.dst, want) {
						l.report(ls.sig("AESCBCEncrypt|wrong-ciphertext|"+cls, lay), rank, fmt.Sprintf("AESCBCEncrypt wrote %s, standard AES-CBC over the PKCS#7-padded plaintext is %s", hx(b.dst), hx(want)), c, "")
					}
					if b.outside() {
						l.report(ls.sig("AESCBCEncrypt|writes-outside-dst|"+cls, lay), rank, "AESCBCEncrypt changed bytes outside dst[:AESCBCEncryptLen]", c, "")
					}
					// decrypt the standard ciphertext in the same layout
					d := layout(lay, want, cryptz.AESCBCDecryptLen(want))
					var got int
					_, st, p = common.Catch(func() { got, err = cryptz.AESCBCDecrypt(d.dst, d.src, key, iv) })
					intact("AESCBCDecrypt", rank)
					c2 := map[string]any{"key": hx(key), "iv": hx(iv), "ciphertext": hx(want), "plaintext": hx(pt), "layout": layNames[lay]}
					if p {
						l.report(ls.sig("AESCBCDecrypt|panic|"+cls, lay), rank, "AESCBCDecrypt panicked at "+common.PanicSite(st), map[string]any{"case": c2, "stack": st}, "")
						continue
					}
					if err != nil {
						l.report(ls.sig("AESCBCDecrypt|error-on-valid|"+cls, lay), rank, fmt.Sprintf("AESCBCDecrypt of a standard AES-CBC message returned %v", err), c2, "")
						continue
					}
					if got != n || got > len(d.dst) || !bytes.Equal(d.dst[:min(got, len(d.dst))], pt) {
						l.report(ls.sig("AESCBCDecrypt|wrong-plaintext|"+cls, lay), rank, fmt.Sprintf("AESCBCDecrypt returned n=%d dst[:n]=%s, want n=%d %s", got, hx(d.dst[:min(max(got, 0), len(d.dst))]), n, hx(pt)), c2, "")
					}
					if d.outside() {
						l.report(ls.sig("AESCBCDecrypt|writes-outside-dst|"+cls, lay), rank, "AESCBCDecrypt changed bytes outside dst", c2, "")
					}
				}
			}
		}
		sc.add(ev, nt)
		a.merge(l)
	})
	r.SampleL("AES-CBC", map[string]any{"key": hx(pat(1, 24, 1)), "iv": hx(pat(2, 16, 2)), "plaintext": hx(pat(2, 16, 0)), "layout": "in-place", "want": hx(stdCBC(pat(1, 24, 1), pat(2, 16, 2), pat(2, 16, 0)))})
}

// ---- GCM ---------------------------------------------------------------------------------------

var nonceLens = []int{12, 1, 16}
var aadLens = []int{0, 1, 17}

func nonceClass(nl int) string {
	if nl == 12 {
		return "nonce-12"
	}
	return "nonce-not-12"
}

func gcmAll(r *common.Run, a *agg) {
	sc := newSec("gcmAll")
	defer sc.done(r)
	type sh struct{ ks, kp, nl, np int }
	var shards []sh
	for _, ks := range keySizes {
		for kp := 0; kp < 3; kp++ {
			for _, nl := range nonceLens {
				for np := 0; np < 3; np++ {
					shards = append(shards, sh{ks, kp, nl, np})
				}
			}
		}
	}
	r.Parallel(len(shards), func(si int) {
		s := shards[si]
		l := newLagg(si)
		var ev, nt int64
		key, nonce := pat(s.kp, s.ks, 1), pat(s.np, s.nl, 3)
		aead, err := stdGCM(key, nonce)
		if err != nil {
			common.Infra("oracle GCM: %v", err)
		}
		key0, nonce0 := append([]byte(nil), key...), append([]byte(nil), nonce...)
		intact := func(entry string, rank int64, aad, aad0 []byte) { // key, nonce and AAD are inputs
			if !bytes.Equal(key, key0) || !bytes.Equal(nonce, nonce0) || !bytes.Equal(aad, aad0) {
				l.report(entry+"|key-nonce-or-aad-modified", rank, fmt.Sprintf("%s changed an input argument: key %s -> %s, nonce %s -> %s, aad %s -> %s", entry, hx(key0), hx(key), hx(nonce0), hx(nonce), hx(aad0), hx(aad)), map[string]any{"key": hx(key0), "nonce": hx(nonce0)}, "")
				copy(key, key0)
				copy(nonce, nonce0)
				copy(aad, aad0)
			}
		}
		for _, al := range aadLens {
			for ap := 0; ap < 3; ap++ {
				if al == 0 && ap > 0 {
					continue
				}
				aad := pat(ap, al, 4)
				aad0 := append([]byte(nil), aad...)
				for n := 0; n <= 48; n++ {
					for pp := 0; pp < 3; pp++ {
						if n == 0 && pp > 0 {
							continue
						}
						pt := pat(pp, n, 0)
						want := aead.Seal(nil, nonce0, pt, aad0)
						var ls laySig
						for lay := 0; lay < 3; lay++ {
							ev++
							if lay > 0 {
								nt++
							}
							rank := int64(n)*1000 + int64(al)*10 + int64(lay)
							cls := nonceClass(s.nl)
							c := map[string]any{"key": hx(key), "nonce": hx(nonce), "aad": hx(aad), "plaintext": hx(pt), "layout": layNames[lay]}
							encLen := cryptz.AESGCMEncryptLen(pt)
							if encLen != len(want) {
								continue
							}
							b := layout(lay, pt, encLen)
							var err error
							_, st, p := common.Catch(func() { err = cryptz.AESGCMEncrypt(b.dst, b.src, key, nonce, aad) })
							intact("AESGCMEncrypt", rank, aad, aad0)
							if p {
								l.report(ls.sig("AESGCMEncrypt|panic|"+cls, lay), rank, "AESGCMEncrypt panicked at "+common.PanicSite(st), map[string]any{"case": c, "stack": st}, "")
								continue
							}
							if err != nil {
								l.report(ls.sig("AESGCMEncrypt|error-on-valid|"+cls, lay), rank, fmt.Sprintf("AESGCMEncrypt returned %v", err), c, "")
								continue
							}
							if !bytes.Equal(b.dst, want) {
								l.report(ls.sig("AESGCMEncrypt|wrong-ciphertext|"+cls, lay), rank, fmt.Sprintf("AESGCMEncrypt wrote %s, gcm.Seal gives %s", hx(b.dst), hx(want)), c, "")
							}
							if b.outside() {
								l.report(ls.sig("AESGCMEncrypt|writes-outside-dst|"+cls, lay), rank, "AESGCMEncrypt changed bytes outside dst[:AESGCMEncryptLen]", c, "")
							}
							decLen := cryptz.AESGCMDecryptLen(want)
							if decLen != n {
								continue
							}
							d := layout(lay, want, decLen)
							_, st, p = common.Catch(func() { err = cryptz.AESGCMDecrypt(d.dst, d.src, key, nonce, aad) })
							intact("AESGCMDecrypt", rank, aad, aad0)
							c2 := map[string]any{"key": hx(key), "nonce": hx(nonce), "aad": hx(aad), "ciphertext": hx(want), "plaintext": hx(pt), "layout": layNames[lay]}
							if p {
								l.report(ls.sig("AESGCMDecrypt|panic|"+cls, lay), rank, "AESGCMDecrypt panicked at "+common.PanicSite(st), map[string]any{"case": c2, "stack": st}, "")
								continue
							}
							if err != nil {
								l.report(ls.sig("AESGCMDecrypt|error-on-valid|"+cls, lay), rank, fmt.Sprintf("AESGCMDecrypt of a gcm.Seal message returned %v", err), c2, "")
								continue
							}
							if !bytes.Equal(d.dst, pt) {
								l.report(ls.sig("AESGCMDecrypt|wrong-plaintext|"+cls, lay), rank, fmt.Sprintf("AESGCMDecrypt wrote %s, want %s", hx(d.dst), hx(pt)), c2, "")
							}
							if d.outside() {
								l.report(ls.sig("AESGCMDecrypt|writes-outside-dst|"+cls, lay), rank, "AESGCMDecrypt changed bytes outside dst", c2, "")
							}
						}
					}
				}
			}
		}
		sc.add(ev, nt)
		a.merge(l)
	})
	// nonce of length 0: the standard library refuses to build the AEAD; the helpers must return
	// that refusal as an error (they use the nonce length as the API's nonce size), never panic.
	l := newLagg(0)
	for _, ks := range keySizes {
		key := pat(1, ks, 1)
		if _, err := stdGCM(key, nil); err == nil {
			continue // this Go version accepts it: nothing to demand
		}
		for _, n := range []int{0, 1, 16, 17} {
			pt := pat(1, n, 0)
			sc.add(1, 1)
			var e1, e2 error
			_, st, p := common.Catch(func() {
				e1 = cryptz.AESGCMEncrypt(make([]byte, n+16), pt, key, nil, nil)
				e2 = cryptz.AESGCMDecrypt(make([]byte, n), make([]byte, n+16), key, []byte{}, nil)
			})
			c := map[string]any{"key": hx(key), "nonce": "", "plaintext_len": n}
			if p {
				l.report("AESGCM|panic|nonce-empty", int64(n), "AESGCMEncrypt/Decrypt panicked with an empty nonce at "+common.PanicSite(st), map[string]any{"case": c, "stack": st}, "")
			} else if e1 == nil || e2 == nil {
				l.report("AESGCM|no-error|nonce-empty", int64(n), fmt.Sprintf("empty nonce: encrypt err=%v decrypt err=%v; cipher.NewGCMWithNonceSize(0) is an error", e1, e2), c, "")
			}
		}
	}
	a.merge(l)
	k, n := pat(1, 32, 1), pat(2, 12, 3)
	g, _ := stdGCM(k, n)
	r.SampleL("AES-GCM", map[string]any{"key": hx(k), "nonce": hx(n), "aad": hx(pat(1, 17, 4)), "plaintext": hx(pat(2, 17, 0)), "layout": "in-place", "want": hx(g.Seal(nil, n, pat(2, 17, 0), pat(1, 17, 4)))})
}

func gcmTamper(r *common.Run, a *agg) {
	sc := newSec("gcmTamper")
	defer sc.done(r)
	maxPt := 17
	if r.Thorough() {
		maxPt = 48
	}
	type sh struct{ ks, kp, dp, nl int }
	var shards []sh
	for _, ks := range keySizes {
		for kp := 0; kp < 3; kp++ {
			for dp := 0; dp < 3; dp++ {
				for _, nl := range nonceLens {
					shards = append(shards, sh{ks, kp, dp, nl})
				}
			}
		}
	}
	r.Parallel(len(shards), func(si int) {
		s := shards[si]
		l := newLagg(si)
		var ev int64
		key, nonce := pat(s.kp, s.ks, 1), pat(s.dp, s.nl, 3)
		dstBuf := make([]byte, 64)
		for _, al := range aadLens {
			aad := pat(s.dp, al, 4)
			for n := 0; n <= maxPt; n++ {
				pt := pat(s.dp, n, 0)
				ct := make([]byte, cryptz.AESGCMEncryptLen(pt))
				if len(ct) != n+16 {
					continue
				}
				if err := cryptz.AESGCMEncrypt(ct, pt, key, nonce, aad); err != nil {
					continue // reported by gcmAll
				}
				base := map[string]any{"key": hx(key), "nonce": hx(nonce), "aad": hx(aad), "ciphertext": hx(ct)}
				try := func(what string, pos int, ct2, nonce2, aad2 []byte) {
					ev++
					dl := cryptz.AESGCMDecryptLen(ct2)
					if dl < 0 {
						dl = 0
					}
					var err error
					_, st, p := common.Catch(func() { err = cryptz.AESGCMDecrypt(dstBuf[:dl], ct2, key, nonce2, aad2) })
					rank := int64(n)*100000 + int64(al)*1000 + int64(pos)
					if p {
						if l.hit("AESGCMDecrypt|panic|"+what, rank) {
							l.detail("AESGCMDecrypt|panic|"+what, "AESGCMDecrypt panicked at "+common.PanicSite(st), map[string]any{"original": base, "changed": what, "position": pos, "stack": st}, "")
						}
						return
					}
					if err == nil {
						if l.hit("AESGCMDecrypt|no-error|"+what, rank) {
							l.detail("AESGCMDecrypt|no-error|"+what, fmt.Sprintf("AESGCMDecrypt accepted a message whose %s (position %d) differs from what was sealed", what, pos),
								map[string]any{"original": base, "ciphertext": hx(ct2), "nonce": hx(nonce2), "aad": hx(aad2)}, "")
						}
					}
				}
				flip := func(src []byte, bit int) []byte {
					c := append([]byte(nil), src...)
					c[bit/8] ^= 1 << (bit % 8)
					return c
				}
				for bit := 0; bit < len(ct)*8; bit++ {
					what := "ciphertext-bit-flipped"
					if bit/8 >= n {
						what = "tag-bit-flipped"
					}
					try(what, bit, flip(ct, bit), nonce, aad)
				}
				for bit := 0; bit < len(nonce)*8; bit++ {
					try("nonce-bit-flipped", bit, append([]byte(nil), ct...), flip(nonce, bit), aad)
				}
				for bit := 0; bit < len(aad)*8; bit++ {
					try("aad-bit-flipped", bit, append([]byte(nil), ct...), nonce, flip(aad, bit))
				}
				// length changes
				for k := 0; k < len(ct); k++ { // every proper prefix, down to the empty message
					what := "ciphertext-truncated"
					if k < 16 {
						what = "ciphertext-shorter-than-a-tag"
					}
					try(what, k, append([]byte(nil), ct[:k]...), nonce, aad)
				}
				try("ciphertext-extended", 0, append(append([]byte(nil), ct...), 0), nonce, aad)
				try("aad-extended", 0, append([]byte(nil), ct...), nonce, append(append([]byte(nil), aad...), 0))
				if al > 0 {
					try("aad-truncated", 0, append([]byte(nil), ct...), nonce, aad[:al-1])
				}
				try("nonce-extended", 0, append([]byte(nil), ct...), append(append([]byte(nil), nonce...), 0), aad)
				if s.nl > 1 {
					try("nonce-truncated", 0, append([]byte(nil), ct...), nonce[:s.nl-1], aad)
				}
			}
		}
		sc.add(ev, ev)
		a.merge(l)
	})
	r.SampleL("AES-GCM tamper", map[string]any{"key": hx(pat(1, 16, 1)), "nonce": hx(pat(1, 12, 3)), "aad": hx(pat(1, 1, 4)), "plaintext": hx(pat(1, 17, 0)), "changed": "tag bit 3", "want": "error"})
}

func invalidKeys(r *common.Run, a *agg) {
	sc := newSec("invalidKeys")
	defer sc.done(r)
	l := newLagg(0)
	iv, nonce := pat(1, 16, 2), pat(1, 12, 3)
	for _, ks := range badKeySizes {
		for kp := 0; kp < 3; kp++ {
			if ks == 0 && kp > 0 {
				continue
			}
			key := pat(kp, ks, 1)
			for _, n := range []int{0, 1, 15, 16, 17, 32, 48} {
				pt := pat(1, n, 0)
				encLen := (n/16 + 1) * 16
				type call struct {
					name string
					f    func() error
				}
				calls := []call{
					{"AESCBCEncrypt", func() error { return cryptz.AESCBCEncrypt(make([]byte, encLen), pt, key, iv) }},
					{"AESCBCDecrypt", func() error {
						_, err := cryptz.AESCBCDecrypt(make([]byte, encLen), pat(1, encLen, 7), key, iv)
						return err
					}},
					{"AESGCMEncrypt", func() error { return cryptz.AESGCMEncrypt(make([]byte, n+16), pt, key, nonce, nil) }},
					{"AESGCMDecrypt", func() error { return cryptz.AESGCMDecrypt(make([]byte, n), pat(1, n+16, 7), key, nonce, nil) }},
				}
				for _, cl := range calls {
					sc.add(1, 1)
					var err error
					_, st, p := common.Catch(func() { err = cl.f() })
					c := map[string]any{"key": hx(key), "key_len": ks, "data_len": n}
					if p {
						l.report(cl.name+"|panic|invalid-key-size", int64(n), fmt.Sprintf("%s panicked with a %d-byte key at %s", cl.name, ks, common.PanicSite(st)), map[string]any{"case": c, "stack": st}, "")
					} else if err == nil {
						l.report(cl.name+"|no-error|invalid-key-size", int64(n), fmt.Sprintf("%s accepted a %d-byte key", cl.name, ks), c, "")
					}
				}
			}
		}
	}
	a.merge(l)
	r.SampleL("invalid key", map[string]any{"key_len": 17, "want": "error from all four AES helpers"})
}

// ---- PKCS#7 ------------------------------------------------------------------------------------

func pkcs7RoundTrip(r *common.Run, a *agg) {
	sc := newSec("pkcs7RoundTrip")
	defer sc.done(r)
	r.Parallel(255, func(i int) {
		b := 255 - i // large block sizes first: better balance
		l := newLagg(i)
		var ev, nt int64
		for n := 1; n <= 3*b; n++ {
			for pp := 0; pp < 3; pp++ {
				ev++
				if n%b == 0 {
					nt++
				}
				d := pat(pp, n, 0)
				want := handPad(d, b)
				padLen := len(want) - n
				// the argument's spare capacity: none, 1, one less than / exactly / one more than the padding needs
				for _, spare := range []int{0, 1, padLen - 1, padLen, padLen + 1} {
					if spare < 0 || (spare == 1 && padLen <= 2) || (spare > 0 && pp > 0) {
						continue
					}
					if spare > 0 {
						ev++
					}
					in := make([]byte, n, n+spare)
					copy(in, d)
					rank := int64(b)*1000 + int64(n)
					c := map[string]any{"block_size": b, "data": hx(d), "spare_capacity_of_the_argument": spare}
					var out, back []byte
					var err, err2 error
					_, st, p := common.Catch(func() {
						out, err = cryptz.PKCS7Padding(in, b)
						if err == nil {
							back, err2 = cryptz.PKCS7UnPadding(out, b)
						}
					})
					switch {
					case p:
						l.report("PKCS7Padding/UnPadding|panic|valid", rank, "panicked at "+common.PanicSite(st), map[string]any{"case": c, "stack": st}, "")
					case err != nil:
						l.report("PKCS7Padding|error-on-valid", rank, fmt.Sprintf("PKCS7Padding(%d bytes, %d) returned %v", n, b, err), c, "")
					case !bytes.Equal(out, want):
						l.report("PKCS7Padding|wrong-padding", rank, fmt.Sprintf("PKCS7Padding(%d bytes, %d) = %d bytes ending %s, want %d bytes ending %s", n, b, len(out), hx(tail(out, 4)), len(want), hx(tail(want, 4))), c, "")
					case err2 != nil:
						l.report("PKCS7UnPadding|error-on-valid", rank, fmt.Sprintf("PKCS7UnPadding(PKCS7Padding(d,%d),%d) returned %v", b, b, err2), c, "")
					case !bytes.Equal(back, d):
						l.report("PKCS7UnPadding|wrong-result|valid", rank, fmt.Sprintf("PKCS7UnPadding(PKCS7Padding(d,%d),%d) has %d bytes, want the %d bytes of d", b, b, len(back), n), c, "")
					}
				}
			}
		}
		sc.add(ev, nt)
		a.merge(l)
	})
	// PKCS#5 = block size 8
	l := newLagg(0)
	for n := 1; n <= 24; n++ {
		for pp := 0; pp < 3; pp++ {
			sc.add(1, 0)
			d := pat(pp, n, 0)
			var out, back []byte
			var err, err2 error
			_, st, p := common.Catch(func() {
				out, err = cryptz.PKCS5Padding(append([]byte(nil), d...)[:n:n])
				if err == nil {
					back, err2 = cryptz.PKCS5UnPadding(out)
				}
			})
			c := map[string]any{"data": hx(d)}
			if p {
				l.report("PKCS5|panic|valid", int64(n), "panicked at "+common.PanicSite(st), map[string]any{"case": c, "stack": st}, "")
			} else if err != nil || err2 != nil || !bytes.Equal(out, handPad(d, 8)) || !bytes.Equal(back, d) {
				l.report("PKCS5|wrong-result", int64(n), fmt.Sprintf("PKCS5Padding/UnPadding: padded=%s err=%v back=%s err=%v", hx(out), err, hx(back), err2), c, "")
			}
		}
	}
	a.merge(l)
	r.SampleL("PKCS7 round trip", map[string]any{"block_size": 255, "data_len": 510, "want_padded_len": 765})
}

func tail(b []byte, n int) []byte {
	if len(b) > n {
		return b[len(b)-n:]
	}
	return b
}

func padClass(d []byte, b int) string {
	if len(d) == 0 {
		return "empty"
	}
	if len(d)%b != 0 {
		return "length-not-multiple-of-block"
	}
	v := int(d[len(d)-1])
	switch {
	case v == 0:
		return "pad-value-zero"
	case v > b:
		return "pad-value-exceeds-block"
	}
	if _, ok := wantUnpad(d, b); ok {
		return "valid"
	}
	return "pad-tail-corrupted"
}

// corruptions of a pad byte of value v: distinct values != v.
func corruptions(v int) []byte {
	var out []byte
	for _, c := range []byte{byte(v) ^ 0xFF, byte(v + 1), byte(v - 1), 0} {
		if c == byte(v) || bytes.IndexByte(out, c) >= 0 {
			continue
		}
		out = append(out, c)
	}
	return out
}

func pkcs7Malformed(r *common.Run, a *agg) {
	sc := newSec("pkcs7Malformed")
	defer sc.done(r)
	r.Parallel(255, func(i int) {
		b := 255 - i // large block sizes first: better balance
		l := newLagg(i)
		var ev, nt int64
		check := func(d []byte, fam string) {
			ev++
			wn, ok := wantUnpad(d, b)
			if !ok {
				nt++
			}
			var out []byte
			var err error
			_, st, p := common.Catch(func() { out, err = cryptz.PKCS7UnPadding(d, b) })
			if b == 8 { // PKCS#5 is the same question for block size 8, asked through its own entry point
				ev++
				var o5 []byte
				var e5 error
				_, _, p5 := common.Catch(func() { o5, e5 = cryptz.PKCS5UnPadding(d) })
				if p5 || (ok && (e5 != nil || !bytes.Equal(o5, d[:wn]))) || (!ok && e5 == nil) {
					sig := "PKCS5UnPadding|wrong-verdict|" + padClass(d, b)
					if l.hit(sig, int64(len(d))*1000+int64(d[len(d)-1])) {
						l.detail(sig, fmt.Sprintf("PKCS5UnPadding(%s) = %d bytes, %v (panicked: %v); correctly padded: %v, want the first %d bytes", hx(d), len(o5), e5, p5, ok, wn),
							map[string]any{"data": hx(d), "family": fam}, fmt.Sprintf("func TestReplay(t *testing.T) { d, _ := hex.DecodeString(%q); out, err := cryptz.PKCS5UnPadding(d); t.Log(len(out), err) }", hx(d)))
					}
				}
			}
			if p || (ok && (err != nil || len(out) != wn || !bytes.Equal(out, d[:wn]))) || (!ok && err == nil) {
				cls := padClass(d, b)
				rank := int64(b)*1000000 + int64(len(d))*1000 + int64(d[len(d)-1])
				var sig, what string
				switch {
				case p:
					sig = "PKCS7UnPadding|panic|" + cls
				case ok && err != nil:
					sig = "PKCS7UnPadding|error-on-valid"
				case ok:
					sig = "PKCS7UnPadding|wrong-result|valid"
				default:
					sig = "PKCS7UnPadding|no-error|" + cls
				}
				if !l.hit(sig, rank) {
					return
				}
				var c any = map[string]any{"block_size": b, "data": hx(d), "family": fam}
				switch {
				case p:
					what = "PKCS7UnPadding panicked at " + common.PanicSite(st)
					c = map[string]any{"case": c, "stack": st}
				case ok && err != nil:
					what = fmt.Sprintf("PKCS7UnPadding returned %v for a correctly padded input", err)
				case ok:
					what = fmt.Sprintf("PKCS7UnPadding returned %d bytes, want the first %d", len(out), wn)
				default:
					what = fmt.Sprintf("PKCS7UnPadding returned %d bytes and no error for input that is not correctly padded (%s)", len(out), cls)
				}
				l.detail(sig, what, c, fmt.Sprintf("func TestReplay(t *testing.T) { d, _ := hex.DecodeString(%q); out, err := cryptz.PKCS7UnPadding(d, %d); t.Log(len(out), err) }", hx(d), b))
			}
		}
		buf := make([]byte, 3*b)
		for k := 1; k <= 3; k++ {
			n := k * b
			for fp := 0; fp < 3; fp++ {
				base := pat(fp, n, 9)
				d := buf[:n]
				for v := 0; v <= 255; v++ {
					t := v
					if t == 0 {
						t = 1
					}
					if t >= n {
						t = n
						if fp > 0 {
							continue // the whole input is the pad value: same bytes for every filler
						}
					}
					copy(d, base)
					for j := n - t; j < n; j++ {
						d[j] = byte(v)
					}
					check(d, "multiple of block size, last min(v,len) bytes = v")
					if v >= 1 && v <= b && fp == 1 {
						// each position of the pad tail (other than the last byte) corrupted
						for j := 1; j < v; j++ {
							for _, cv := range corruptions(v) {
								d[n-1-j] = cv
								check(d, "valid padding with one tail byte corrupted")
								d[n-1-j] = byte(v)
							}
						}
					}
				}
			}
		}
		// lengths that are not a multiple of the block size, tail dressed up as padding
		for n := 1; n < 3*b; n++ {
			if n%b == 0 {
				continue
			}
			d := buf[:n]
			base := pat(1, n, 9)
			for v := 0; v <= 255; v++ {
				t := v
				if t == 0 {
					t = 1
				}
				if t > n {
					t = n
				}
				copy(d, base)
				for j := n - t; j < n; j++ {
					d[j] = byte(v)
				}
				check(d, "length not a multiple of the block size")
			}
		}
		sc.add(ev, nt)
		a.merge(l)
	})
	// the empty input
	l := newLagg(0)
	for _, b := range []int{1, 8, 16, 255} {
		sc.add(1, 1)
		var err error
		_, st, p := common.Catch(func() { _, err = cryptz.PKCS7UnPadding(nil, b); _, err = cryptz.PKCS7UnPadding([]byte{}, b) })
		if p {
			l.report("PKCS7UnPadding|panic|empty", int64(b), "PKCS7UnPadding(empty) panicked at "+common.PanicSite(st), map[string]any{"block_size": b, "stack": st}, "")
		} else if err == nil {
			l.report("PKCS7UnPadding|no-error|empty", int64(b), "PKCS7UnPadding(empty) returned no error", map[string]any{"block_size": b}, "")
		}
	}
	a.merge(l)
	r.SampleL("PKCS7 malformed", map[string]any{"block_size": 16, "data": hx(append(pat(1, 13, 9), 3, 2, 3)), "want": "error (pad tail corrupted)"})
}

// cbcUnpad drives the same un-padding cases (block size 16) through AESCBCDecrypt: the crafted
// final blocks are encrypted with the raw CBC mode, without any padding step.
func cbcUnpad(r *common.Run, a *agg) {
	sc := newSec("cbcUnpad")
	defer sc.done(r)
	type sh struct{ ks, k int }
	var shards []sh
	for _, ks := range keySizes {
		for k := 1; k <= 3; k++ {
			shards = append(shards, sh{ks, k})
		}
	}
	r.Parallel(len(shards), func(si int) {
		s := shards[si]
		l := newLagg(si)
		var ev, nt int64
		key, iv := pat(1, s.ks, 1), pat(1, 16, 2)
		n := 16 * s.k
		check := func(d []byte, fam string) {
			wn, ok := wantUnpad(d, 16)
			ct := rawCBC(key, iv, d)
			var ls laySig
			for lay := 0; lay < 2; lay++ {
				ev++
				if !ok || lay > 0 {
					nt++
				}
				b := layout(lay, ct, cryptz.AESCBCDecryptLen(ct))
				var got int
				var err error
				_, st, p := common.Catch(func() { got, err = cryptz.AESCBCDecrypt(b.dst, b.src, key, iv) })
				if p || (ok && (err != nil || got != wn || !bytes.Equal(b.dst[:wn], d[:wn]))) || (!ok && err == nil) {
					cls := "crafted-blocks/" + padClass(d, 16)
					rank := int64(n)*1000 + int64(d[n-1])
					c := map[string]any{"key": hx(key), "iv": hx(iv), "ciphertext": hx(ct), "decrypts_to_blocks": hx(d), "layout": layNames[lay], "family": fam}
					switch {
					case p:
						l.report(ls.sig("AESCBCDecrypt|panic|"+cls, lay), rank, "AESCBCDecrypt panicked at "+common.PanicSite(st), map[string]any{"case": c, "stack": st}, "")
					case ok && err != nil:
						l.report(ls.sig("AESCBCDecrypt|error-on-valid|"+cls, lay), rank, fmt.Sprintf("AESCBCDecrypt returned %v for correctly padded blocks", err), c, "")
					case ok:
						l.report(ls.sig("AESCBCDecrypt|wrong-plaintext|"+cls, lay), rank, fmt.Sprintf("AESCBCDecrypt returned n=%d, want %d", got, wn), c, "")
					default:
						l.report(ls.sig("AESCBCDecrypt|no-error|"+cls, lay), rank, fmt.Sprintf("AESCBCDecrypt returned n=%d and no error although the decrypted blocks are not correctly padded (%s)", got, padClass(d, 16)), c, "")
					}
				}
			}
		}
		d := make([]byte, n)
		for fp := 0; fp < 3; fp++ {
			base := pat(fp, n, 9)
			for v := 0; v <= 255; v++ {
				t := v
				if t == 0 {
					t = 1
				}
				if t >= n {
					t = n
					if fp > 0 {
						continue
					}
				}
				copy(d, base)
				for j := n - t; j < n; j++ {
					d[j] = byte(v)
				}
				check(d, "last min(v,len) bytes = v")
				if v >= 1 && v <= 16 {
					for j := 1; j < v; j++ {
						for _, cv := range corruptions(v) {
							d[n-1-j] = cv
							check(d, "valid padding with one tail byte corrupted")
							d[n-1-j] = byte(v)
						}
					}
				}
			}
		}
		sc.add(ev, nt)
		a.merge(l)
	})
	// ciphertext lengths that are not a positive multiple of 16
	l := newLagg(0)
	for _, ks := range keySizes {
		key, iv := pat(1, ks, 1), pat(1, 16, 2)
		for n := 0; n <= 49; n++ {
			if n%16 == 0 && n > 0 {
				continue
			}
			for lay := 0; lay < 2; lay++ {
				sc.add(1, 1)
				ct := pat(1, n, 7)
				b := layout(lay, ct, n)
				var err error
				_, st, p := common.Catch(func() { _, err = cryptz.AESCBCDecrypt(b.dst, b.src, key, iv) })
				c := map[string]any{"key": hx(key), "iv": hx(iv), "ciphertext": hx(ct), "layout": layNames[lay]}
				if p {
					l.report("AESCBCDecrypt|panic|ciphertext-length-not-multiple-of-16", int64(n), "AESCBCDecrypt panicked at "+common.PanicSite(st), map[string]any{"case": c, "stack": st}, "")
				} else if err == nil {
					l.report("AESCBCDecrypt|no-error|ciphertext-length-not-multiple-of-16", int64(n), fmt.Sprintf("AESCBCDecrypt accepted a %d-byte ciphertext", n), c, "")
				}
			}
		}
	}
	a.merge(l)
	r.SampleL("CBC un-padding", map[string]any{"key_len": 32, "decrypts_to_blocks": hx(append(pat(1, 12, 9), 4, 4, 5, 4)), "want": "error (pad tail corrupted)"})
}
