package main

import (
	"bytes"
	"fmt"

	"verif/common"

	"github.com/welllog/golib/cryptz"
)

// reusedBuffers: histories. The caller keeps ONE key buffer, ONE IV buffer and ONE nonce buffer
// and overwrites them in place between calls (the normal way to use a key read into a fixed
// array). "For every key" must hold for the key the buffer contains at the time of the call,
// whatever it contained in earlier calls: every ordered pair (previous configuration, current
// configuration) of key size x key pattern is run through all four AES helpers.
func reusedBuffers(r *common.Run) {
	type cfg struct{ ks, kp int }
	var cfgs []cfg
	for _, ks := range keySizes {
		for kp := 0; kp < 3; kp++ {
			cfgs = append(cfgs, cfg{ks, kp})
		}
	}
	keyBuf := make([]byte, 32)
	ivBuf := make([]byte, 16)
	nonceBuf := make([]byte, 12)
	var ev int64
	run := func(c cfg, n int, check bool, prev cfg) {
		key := keyBuf[:c.ks]
		copy(key, pat(c.kp, c.ks, 1))
		copy(ivBuf, pat(c.kp, 16, 2))
		copy(nonceBuf, pat(c.kp, 12, 3))
		refKey := append([]byte(nil), key...)
		refIV := append([]byte(nil), ivBuf...)
		refNonce := append([]byte(nil), nonceBuf...)
		pt := pat(1, n, 0)
		info := map[string]any{"previous_call": fmt.Sprintf("key size %d pattern %d", prev.ks, prev.kp), "key": hx(refKey), "plaintext": hx(pt), "note": "key / IV / nonce buffers are reused and overwritten in place between calls"}
		// CBC
		want := stdCBC(refKey, refIV, pt)
		dst := make([]byte, cryptz.AESCBCEncryptLen(pt))
		var err error
		_, st, p := common.Catch(func() { err = cryptz.AESCBCEncrypt(dst, pt, key, ivBuf) })
		if check {
			ev++
			if p || err != nil || !bytes.Equal(dst, want) {
				r.Violation("AESCBCEncrypt|wrong-ciphertext|argument-buffers-reused", fmt.Sprintf("AESCBCEncrypt = %s, %v %s; standard AES-CBC under the key currently in the buffer gives %s", hx(dst), err, st, hx(want)), info, "")
			}
		}
		out := make([]byte, len(want))
		var nn int
		_, st, p = common.Catch(func() { nn, err = cryptz.AESCBCDecrypt(out, want, key, ivBuf) })
		if check {
			ev++
			if p || err != nil || !bytes.Equal(out[:nn], pt) {
				r.Violation("AESCBCDecrypt|wrong-plaintext|argument-buffers-reused", fmt.Sprintf("AESCBCDecrypt = %s, %v %s; want %s", hx(out[:max(nn, 0)]), err, st, hx(pt)), info, "")
			}
		}
		// GCM
		aead, gerr := stdGCM(refKey, refNonce)
		if gerr != nil {
			return
		}
		wantG := aead.Seal(nil, refNonce, pt, nil)
		dstG := make([]byte, len(pt)+16)
		_, st, p = common.Catch(func() { err = cryptz.AESGCMEncrypt(dstG, pt, key, nonceBuf, nil) })
		if check {
			ev++
			if p || err != nil || !bytes.Equal(dstG, wantG) {
				r.Violation("AESGCMEncrypt|wrong-ciphertext|argument-buffers-reused", fmt.Sprintf("AESGCMEncrypt = %s, %v %s; standard AES-GCM under the key currently in the buffer gives %s", hx(dstG), err, st, hx(wantG)), info, "")
			}
		}
		outG := make([]byte, len(pt))
		_, st, p = common.Catch(func() { err = cryptz.AESGCMDecrypt(outG, wantG, key, nonceBuf, nil) })
		if check {
			ev++
			if p || err != nil || !bytes.Equal(outG, pt) {
				r.Violation("AESGCMDecrypt|wrong-plaintext|argument-buffers-reused", fmt.Sprintf("AESGCMDecrypt = %s, %v %s; want %s", hx(outG), err, st, hx(pt)), info, "")
			}
			// a ciphertext made under the PREVIOUS key must not authenticate under the current one
			if prev != c {
				pk := pat(prev.kp, prev.ks, 1)
				pn := pat(prev.kp, 12, 3)
				if pa, e2 := stdGCM(pk, pn); e2 == nil {
					old := pa.Seal(nil, pn, pt, nil)
					if !bytes.Equal(pk, refKey) || !bytes.Equal(pn, refNonce) {
						ev++
						_, _, p2 := common.Catch(func() { err = cryptz.AESGCMDecrypt(make([]byte, len(pt)), old, key, nonceBuf, nil) })
						if !p2 && err == nil {
							r.Violation("AESGCMDecrypt|accepts-foreign-ciphertext|argument-buffers-reused", "AESGCMDecrypt authenticated a ciphertext sealed under the key/nonce that were in the buffers during the previous call", info, "")
						}
					}
				}
			}
		}
	}
	for _, prev := range cfgs {
		for _, cur := range cfgs {
			for _, n := range []int{0, 5, 16} {
				run(prev, n, false, prev)
				run(cur, n, true, prev)
			}
		}
	}
	r.Eval(ev)
	r.Nontrivial(ev)
	r.Section(map[string]any{"family": "argument buffers reused across calls", "ordered_pairs_of_key_configurations": len(cfgs) * len(cfgs), "cases": ev})
	r.SampleL("reused buffers", map[string]any{"previous": "32-byte key pattern 1", "current": "16-byte key pattern 2 written into the same array", "want": "results under the current key"})
}
