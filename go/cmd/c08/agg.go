package main

import (
	"sort"
	"sync"
	"sync/atomic"
	"time"

	"verif/common"
)

// Violations are collected per shard and reported after the enumeration, so that the case kept
// for a signature is the one with the smallest rank (simplest input) and not whichever goroutine
// came first: the report is the same in every run.
type vrec struct {
	rank  int64
	n     int64
	what  string
	c     any
	test  string
	shard int
}

type lagg struct {
	m     map[string]*vrec
	shard int
}

func newLagg(shard int) *lagg { return &lagg{m: map[string]*vrec{}, shard: shard} }

// hit counts one violating case and says whether its details are wanted (first of its
// signature in this shard, or simpler than the one kept).
func (l *lagg) hit(sig string, rank int64) bool {
	v := l.m[sig]
	if v == nil {
		l.m[sig] = &vrec{rank: rank, n: 1, shard: l.shard}
		return true
	}
	v.n++
	if rank < v.rank {
		v.rank = rank
		return true
	}
	return false
}

func (l *lagg) detail(sig, what string, c any, test string) {
	v := l.m[sig]
	v.what, v.c, v.test = what, c, test
}

// report = hit + detail for cold paths.
func (l *lagg) report(sig string, rank int64, what string, c any, test string) {
	if l.hit(sig, rank) {
		l.detail(sig, what, c, test)
	}
}

type agg struct {
	mu sync.Mutex
	m  map[string]*vrec
}

func newAgg() *agg { return &agg{m: map[string]*vrec{}} }

func (a *agg) merge(l *lagg) {
	a.mu.Lock()
	defer a.mu.Unlock()
	for sig, v := range l.m {
		cur := a.m[sig]
		if cur == nil {
			c := *v
			a.m[sig] = &c
			continue
		}
		cur.n += v.n
		if v.rank < cur.rank || (v.rank == cur.rank && v.shard < cur.shard) {
			cur.rank, cur.what, cur.c, cur.test, cur.shard = v.rank, v.what, v.c, v.test, v.shard
		}
	}
}

func (a *agg) flush(r *common.Run) {
	sigs := make([]string, 0, len(a.m))
	for s := range a.m {
		sigs = append(sigs, s)
	}
	sort.Strings(sigs)
	for _, s := range sigs {
		v := a.m[s]
		r.Violation(s, v.what, v.c, v.test)
		for i := int64(1); i < v.n; i++ {
			r.Violation(s, "", nil, "")
		}
	}
}

// sec counts the cases of one family and records them as a section of the evidence.
type sec struct {
	name   string
	ev, nt int64
	t0     time.Time
}

func newSec(name string) *sec { return &sec{name: name, t0: time.Now()} }

func (s *sec) add(ev, nt int64) {
	atomic.AddInt64(&s.ev, ev)
	atomic.AddInt64(&s.nt, nt)
}

func (s *sec) done(r *common.Run) {
	r.Eval(s.ev)
	r.Nontrivial(s.nt)
	r.Section(map[string]any{"family": s.name, "evaluations": s.ev, "nontrivial": s.nt, "wall_s": float64(time.Since(s.t0).Milliseconds()) / 1000})
}
