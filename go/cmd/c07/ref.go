package main

// Independent reference for the four escape codecs: expected escape units of a Format call, a
// strict scanner for Format output, and a decoder that accepts ONLY Format-shaped escapes.
// Nothing here calls golib.

import (
	"unicode/utf8"
)

type codec struct {
	name    string // "Octal", "Hex", "Unicode", "Utf16"
	prefix  string // `\`, `\x`, `\U`, `\u`
	digits  int    // 3, 2, 8, 4
	base    uint32 // 8 or 16
	unicode bool   // Format input is read as UTF-8 text

	formatS  func(string) []byte
	formatB  func([]byte) []byte
	formatSS func(string) string
	formatSB func([]byte) string
	parse    func(dst, src []byte) int
	parseSS  func(string) string
	parseSB  func([]byte) string

	menu []string // junk tokens, simplest first
	raws []rawFam // raw-string families, in order of enumeration
}

type rawFam struct {
	alpha  string
	maxLen int
	in     [256]bool
}

func (c *codec) width() int { return len(c.prefix) + c.digits }

const upperDigits = "0123456789ABCDEF"

// appendEsc writes one escape unit for value v in the shape the property text gives.
func (c *codec) appendEsc(dst []byte, v uint32) []byte {
	dst = append(dst, c.prefix...)
	for k := c.digits - 1; k >= 0; k-- {
		var d uint32
		if c.base == 8 {
			d = (v >> (3 * uint(k))) & 7
		} else {
			d = (v >> (4 * uint(k))) & 15
		}
		dst = append(dst, upperDigits[d])
	}
	return dst
}

// appendRuneEsc writes the escape(s) of a code point (surrogate pair for Utf16 above U+FFFF).
func (c *codec) appendRuneEsc(dst []byte, v uint32) []byte {
	if c.name == "Utf16" && v > 0xFFFF {
		v -= 0x10000
		dst = c.appendEsc(dst, 0xD800+(v>>10))
		return c.appendEsc(dst, 0xDC00+(v&0x3FF))
	}
	return c.appendEsc(dst, v)
}

// expectFormat returns the expected Format output of s and the expected Parse(Format(s)).
// Octal/Hex: one unit per byte. Unicode/Utf16: one unit (or pair) per rune, every invalid byte
// counts as U+FFFD (utf8.DecodeRune reports width 1 for each invalid byte).
func (c *codec) expectFormat(esc, dec, s []byte) (escOut, decOut []byte) {
	if !c.unicode {
		for _, b := range s {
			esc = c.appendEsc(esc, uint32(b))
		}
		return esc, append(dec, s...)
	}
	for i := 0; i < len(s); {
		r, size := utf8.DecodeRune(s[i:])
		i += size
		esc = c.appendRuneEsc(esc, uint32(r))
		dec = utf8.AppendRune(dec, r)
	}
	return esc, dec
}

// scanFormat is the independent shape scanner: the whole of out must be a sequence of
// fixed-width escapes with upper-case digits; Octal values <= 0377; Unicode values scalar;
// Utf16 surrogates only as high+low pairs. It returns the decoded values (pairs combined).
func (c *codec) scanFormat(vals []uint32, out []byte) ([]uint32, string) {
	w := c.width()
	if len(out)%w != 0 {
		return vals, "length is not a multiple of the escape width"
	}
	pendingHigh := false
	for i := 0; i < len(out); i += w {
		for k := 0; k < len(c.prefix); k++ {
			if out[i+k] != c.prefix[k] {
				return vals, "unit does not start with " + c.prefix
			}
		}
		var v uint32
		for k := len(c.prefix); k < w; k++ {
			ch := out[i+k]
			var d uint32
			switch {
			case ch >= '0' && ch <= '9':
				d = uint32(ch - '0')
			case ch >= 'A' && ch <= 'F':
				d = uint32(ch-'A') + 10
			case ch >= 'a' && ch <= 'f':
				return vals, "lower-case digit"
			default:
				return vals, "non-digit inside a unit"
			}
			if d >= c.base {
				return vals, "digit not below the base"
			}
			v = v*c.base + d
		}
		switch c.name {
		case "Octal":
			if v > 0xFF {
				return vals, "octal value above \\377"
			}
		case "Unicode":
			if v > 0x10FFFF || (v >= 0xD800 && v < 0xE000) {
				return vals, "value is not a Unicode scalar value"
			}
		case "Utf16":
			isHigh, isLow := v >= 0xD800 && v < 0xDC00, v >= 0xDC00 && v < 0xE000
			if pendingHigh {
				if !isLow {
					return vals, "high surrogate not followed by a low surrogate"
				}
				hi := vals[len(vals)-1]
				vals[len(vals)-1] = 0x10000 + (hi-0xD800)<<10 + (v - 0xDC00)
				pendingHigh = false
				continue
			}
			if isLow {
				return vals, "low surrogate without a preceding high surrogate"
			}
			pendingHigh = isHigh
		}
		vals = append(vals, v)
	}
	if pendingHigh {
		return vals, "high surrogate at the end"
	}
	return vals, ""
}

// matchEscape recognises exactly one Format-shaped escape at the start of in.
func (c *codec) matchEscape(in []byte) (n int, v uint32, ok bool) {
	w := c.width()
	unit := func(p []byte) (uint32, bool) {
		if len(p) < w {
			return 0, false
		}
		for k := 0; k < len(c.prefix); k++ {
			if p[k] != c.prefix[k] {
				return 0, false
			}
		}
		var v uint32
		for k := len(c.prefix); k < w; k++ {
			ch := p[k]
			var d uint32
			switch {
			case ch >= '0' && ch <= '9':
				d = uint32(ch - '0')
			case ch >= 'A' && ch <= 'F':
				d = uint32(ch-'A') + 10
			default:
				return 0, false
			}
			if d >= c.base {
				return 0, false
			}
			v = v*c.base + d
		}
		return v, true
	}
	v, ok = unit(in)
	if !ok {
		return 0, 0, false
	}
	switch c.name {
	case "Octal":
		return w, v, v <= 0xFF
	case "Hex":
		return w, v, true
	case "Unicode":
		return w, v, v <= 0x10FFFF && !(v >= 0xD800 && v < 0xE000)
	}
	// Utf16
	if v < 0xD800 || v >= 0xE000 {
		return w, v, true
	}
	if v >= 0xDC00 {
		return 0, 0, false // lone low surrogate
	}
	lo, ok2 := unit(in[w:])
	if !ok2 || lo < 0xDC00 || lo >= 0xE000 {
		return 0, 0, false // unpaired high surrogate
	}
	return 2 * w, 0x10000 + (v-0xD800)<<10 + (lo - 0xDC00), true
}

// input classes of the parser oracle
const (
	clNoBackslash  = iota // must come back unchanged
	clEmbedded            // text·escape·text·…: every escape Format-shaped and no two escapes adjacent — exact
	clFormatOutput        // nothing but Format-shaped escapes (= Format output of some string) — exact
	clJunk                // anything else — safety clauses only
)

var className = [...]string{"no-backslash", "format-shaped-escapes-between-text", "format-output", "junk"}

// expectParse classifies in and, for the exact classes, returns the decoded expectation.
func (c *codec) expectParse(want, in []byte) ([]byte, int) {
	want = want[:0]
	nEsc, adjacent, hasText := 0, false, false
	prevEsc := false
	for i := 0; i < len(in); {
		if in[i] != '\\' {
			j := i
			for j < len(in) && in[j] != '\\' {
				j++
			}
			want = append(want, in[i:j]...)
			i = j
			hasText, prevEsc = true, false
			continue
		}
		n, v, ok := c.matchEscape(in[i:])
		if !ok {
			return nil, clJunk
		}
		if prevEsc {
			adjacent = true
		}
		prevEsc = true
		nEsc++
		if c.unicode {
			want = utf8.AppendRune(want, rune(v))
		} else {
			want = append(want, byte(v))
		}
		i += n
	}
	switch {
	case nEsc == 0:
		return want, clNoBackslash
	case !hasText:
		return want, clFormatOutput
	case !adjacent:
		return want, clEmbedded
	}
	return nil, clJunk
}

// junkTail: for an input with ill-formed backslash sequences, the part that every skipping policy
// must still decode. p = the last backslash that does not start a well-formed escape; whatever the
// parser does with it, it cannot consume more than one full escape width from there (two for a
// UTF-16 pair). If what follows in[p+W:] starts with backslash-free text and is of the exact
// class (well-formed, non-adjacent escapes between text), the output must END with its decoding:
// "every well-formed escape embedded between backslash-free text is replaced ... while that
// surrounding text is preserved byte for byte" holds for every input.
func (c *codec) junkTail(buf, in []byte) ([]byte, bool) {
	p := -1
	for i := 0; i < len(in); {
		if in[i] != '\\' {
			i++
			continue
		}
		if n, _, ok := c.matchEscape(in[i:]); ok {
			i += n
		} else {
			p = i
			i++
		}
	}
	if p < 0 {
		return nil, false
	}
	w := c.width()
	if c.name == "Utf16" {
		w *= 2
	}
	if p+w >= len(in) {
		return nil, false
	}
	for _, b := range in[p+1 : p+w+1] {
		if b == '\\' { // another escape could start inside the window the parser may have consumed
			return nil, false
		}
	}
	res, class := c.expectParse(buf, in[p+w:])
	if class != clEmbedded {
		return nil, false
	}
	return res, true
}

// ---- explainability of a parse result on junk ------------------------------------------------
//
// For ill-formed input the property does not say WHICH sequences a parser still decodes, but every
// reading of it has the parser copy input and replace escapes — nothing else. So an output must
// be explainable as a left-to-right rewriting of the input in which every step either copies one
// byte verbatim or replaces one escape-LIKE unit (the codec's prefix followed by the codec's number
// of digit characters, digits of either case, any value; for Utf16 also a high+low pair of units)
// by what it denotes. Units whose value denotes nothing (octal above 0377, code points above
// U+10FFFF, surrogate code points) may be replaced by any 1..4 bytes. Whatever is not such a unit —
// text, truncated escapes, sequences with a non-digit in a digit position — can only be copied.
// This is deliberately liberal (lower-case digits, any skipping policy, any treatment of
// out-of-range values are all explainable) and still refuses invented or dropped bytes.

// unitLike recognises prefix + digits at the start of p. ok2 = the value is meaningful.
func (c *codec) unitLike(p []byte) (v uint32, meaningful, ok bool) {
	w := c.width()
	if len(p) < w {
		return 0, false, false
	}
	for k := 0; k < len(c.prefix); k++ {
		if p[k] != c.prefix[k] {
			return 0, false, false
		}
	}
	meaningful = true
	for k := len(c.prefix); k < w; k++ {
		ch := p[k]
		var d uint32
		switch {
		case ch >= '0' && ch <= '9':
			d = uint32(ch - '0')
		case c.base == 16 && ch >= 'A' && ch <= 'F':
			d = uint32(ch-'A') + 10
		case c.base == 16 && ch >= 'a' && ch <= 'f':
			d = uint32(ch-'a') + 10
		default:
			return 0, false, false
		}
		if d >= c.base {
			meaningful = false
		}
		v = v*c.base + d
	}
	return v, meaningful, true
}

// greedyDecode decodes every Format-shaped escape from left to right and copies everything else.
func (c *codec) greedyDecode(dst, in []byte) []byte {
	dst = dst[:0]
	for i := 0; i < len(in); {
		if in[i] == '\\' {
			if n, v, ok := c.matchEscape(in[i:]); ok {
				if c.unicode {
					dst = utf8.AppendRune(dst, rune(v))
				} else {
					dst = append(dst, byte(v))
				}
				i += n
				continue
			}
		}
		dst = append(dst, in[i])
		i++
	}
	return dst
}

func (c *codec) explainable(in, out []byte) bool {
	n, m := len(in), len(out)
	// reach[j] for the current i; rolling over i needs look-ahead of up to 2 widths, so keep the table
	reach := make([][]bool, n+1)
	for i := range reach {
		reach[i] = make([]bool, m+1)
	}
	reach[0][0] = true
	w := c.width()
	var enc [4]byte
	for i := 0; i <= n; i++ {
		for j := 0; j <= m; j++ {
			if !reach[i][j] {
				continue
			}
			if i == n {
				continue
			}
			if j < m && in[i] == out[j] {
				reach[i+1][j+1] = true
			}
			if in[i] != '\\' {
				continue
			}
			v, meaningful, ok := c.unitLike(in[i:])
			if !ok {
				continue
			}
			anyBytes := func(ni, lo, hi int) {
				for k := lo; k <= hi && j+k <= m; k++ {
					reach[ni][j+k] = true
				}
			}
			exact := func(ni int, b []byte) {
				if j+len(b) <= m && string(out[j:j+len(b)]) == string(b) {
					reach[ni][j+len(b)] = true
				}
			}
			switch {
			case !c.unicode:
				if meaningful && v <= 0xFF {
					enc[0] = byte(v)
					exact(i+w, enc[:1])
				} else {
					anyBytes(i+w, 1, 1)
				}
			case !meaningful || v > 0x10FFFF:
				anyBytes(i+w, 1, 4)
			case v >= 0xD800 && v < 0xE000:
				anyBytes(i+w, 1, 4)
				if c.name == "Utf16" && v < 0xDC00 {
					if lo, mf, ok2 := c.unitLike(in[i+w:]); ok2 && mf && lo >= 0xDC00 && lo < 0xE000 {
						k := utf8.EncodeRune(enc[:], rune(0x10000+(v-0xD800)<<10+(lo-0xDC00)))
						exact(i+2*w, enc[:k])
					}
				}
			default:
				k := utf8.EncodeRune(enc[:], rune(v))
				exact(i+w, enc[:k])
			}
		}
	}
	return reach[n][m]
}
