package main

// Round-trip families: Format shape and Parse(Format(s)).

import (
	"bytes"
	"fmt"
	"sort"
	"unicode/utf8"

	"verif/common"
)

// boundary byte alphabet for byte strings longer than the all-bytes bound: the structural
// boundaries of UTF-8 (continuation range ends, overlong / surrogate / above-max second bytes,
// every lead-byte class, never-valid bytes) plus NUL, a letter and the backslash.
var bAlpha = []byte{0x00, 'a', '\\', 0x7F, 0x80, 0x8F, 0x90, 0x9F, 0xA0, 0xBF, 0xC0, 0xC2, 0xDF, 0xE0, 0xED, 0xEF, 0xF0, 0xF4, 0xF5, 0xFF}

// boundary runes of the design plus invalid chunks ("invalid bytes inside otherwise valid strings").
var bRunes = []rune{0, 'a', '\\', 0x7F, 0x80, 0x7FF, 0x800, 0xD7FF, 0xE000, 0xFFFD, 0xFFFF, 0x10000, 0x10FFFF}
var badChunks = []string{"\x80", "\xBF", "\xC0", "\xC2", "\xFF", "\xF8", "\xE4\xB8", "\xE0\x80", "\xED\xA0\x80", "\xF4\x90\x80\x80"}

type rtBounds struct {
	allBytes int // every byte string up to this length
	bLen     int // boundary-alphabet strings up to this length
	tuple    int // chunk tuples up to this many chunks
}

var inBAlpha [256]bool

func (b rtBounds) covered(s []byte) bool {
	if len(s) <= b.allBytes {
		return true
	}
	if len(s) > b.bLen {
		return false
	}
	for _, c := range s {
		if !inBAlpha[c] {
			return false
		}
	}
	return true
}

func fmtClass(c *codec, s []byte) (string, bool) {
	if !c.unicode {
		return "bytes", len(s) > 0
	}
	for _, b := range s {
		if b >= 0x80 {
			if utf8.Valid(s) {
				return "valid-multibyte", true
			}
			return "invalid-utf8", true
		}
	}
	return "ascii", false
}

// runParse calls Parse(dst, src), ParseToString(string) and ParseToString([]byte) on in and
// applies the safety clauses (no panic, at most len(in) bytes, the three forms agree).
func (h *harness) runParse(c *codec, in []byte, class string, w *worker) ([]byte, bool) {
	need := len(in) + slack
	if cap(w.dst) < need {
		w.dst = make([]byte, 2*need)
	}
	dst := w.dst[:need]
	for i := range dst {
		dst[i] = 0xA5
	}
	str := string(in)
	var n int
	var s1, s2 string
	w.enter(c, true, in)
	_, st, p := common.Catch(func() { n = c.parse(dst, in); s1 = c.parseSS(str); s2 = c.parseSB(in) })
	w.leave()
	cs := func(extra map[string]any) map[string]any {
		m := map[string]any{"codec": c.name, "input": fmt.Sprintf("%q", in)}
		for k, v := range extra {
			m[k] = v
		}
		return m
	}
	if p {
		entry := c.name + "Parse"
		if _, _, p1 := common.Catch(func() { c.parse(dst, in) }); !p1 {
			entry = c.name + "ParseToString"
		}
		h.viol(entry+"|panic|"+class, str, func() (string, any, string) {
			return fmt.Sprintf("%s panicked on %q at %s", entry, in, common.PanicSite(st)), cs(map[string]any{"stack": st}),
				fmt.Sprintf("func TestReplay(t *testing.T) { _ = strz.%sParseToString(%q) }", c.name, in)
		})
		return nil, false
	}
	if n < 0 || n > len(in) {
		h.viol(c.name+"Parse|output-longer-than-input|"+class, str, func() (string, any, string) {
			return fmt.Sprintf("%sParse(dst, %q) = %d, want at most len(input) = %d", c.name, in, n, len(in)), cs(nil), ""
		})
		return nil, false
	}
	for _, g := range dst[len(in):] {
		if g != 0xA5 {
			h.viol(c.name+"Parse|wrote-past-len(input)|"+class, str, func() (string, any, string) {
				return fmt.Sprintf("%sParse(dst, %q) wrote into dst beyond len(input) = %d", c.name, in, len(in)), cs(nil), ""
			})
			return nil, false
		}
	}
	out := dst[:n]
	if string(out) != s1 || s1 != s2 {
		h.viol(c.name+"Parse/"+c.name+"ParseToString|forms-disagree|"+class, str, func() (string, any, string) {
			return fmt.Sprintf("on %q: %sParse gives %q, ParseToString(string) %q, ParseToString([]byte) %q", in, c.name, out, s1, s2),
				cs(nil), ""
		})
		return nil, false
	}
	// in place: Parse(b, b) — the write position never passes the read position, golib's own tests
	// parse in place — must give what the separate destination gave
	if len(in) > 0 {
		w.alias = append(w.alias[:0], in...)
		var n2 int
		if _, st2, p2 := common.Catch(func() { n2 = c.parse(w.alias, w.alias) }); p2 {
			h.viol(c.name+"Parse|panic|in-place", str, func() (string, any, string) {
				return fmt.Sprintf("%sParse(b, b) with b = %q panicked at %s", c.name, in, common.PanicSite(st2)), cs(map[string]any{"stack": st2}), ""
			})
			return nil, false
		} else if n2 != n || string(w.alias[:min(max(n2, 0), len(w.alias))]) != string(out) {
			got := append([]byte(nil), w.alias[:min(max(n2, 0), len(w.alias))]...)
			h.viol(c.name+"Parse|in-place-differs|"+class, str, func() (string, any, string) {
				return fmt.Sprintf("%sParse(b, b) with b = %q gives %q (n = %d), with a separate destination %q (n = %d)", c.name, in, got, n2, out, n), cs(nil),
					fmt.Sprintf("func TestReplay(t *testing.T) { b := []byte(%q); n := strz.%sParse(b, b); if string(b[:n]) != %q { t.Fatalf(\"got %%q\", b[:n]) } }", in, c.name, out)
			})
			return nil, false
		}
	}
	// a returned string is a value: it must not share memory with the caller's []byte (the caller
	// may reuse its buffer); checked on a private copy of the input that is overwritten afterwards
	if len(in) > 0 {
		w.alias = append(w.alias[:0], in...)
		var s3 string
		if _, _, p3 := common.Catch(func() { s3 = c.parseSB(w.alias) }); !p3 {
			for i := range w.alias {
				w.alias[i] ^= 0xFF
			}
			if s3 != s1 {
				h.viol(c.name+"ParseToString|result-aliases-input|"+class, str, func() (string, any, string) {
					return fmt.Sprintf("%sParseToString([]byte(%q)) returned a string that changed to %q when the caller overwrote its input buffer", c.name, in, s3), cs(nil),
						fmt.Sprintf("func TestReplay(t *testing.T) { b := []byte(%q); s := strz.%sParseToString(b); want := strings.Clone(s); for i := range b { b[i] ^= 0xFF }; if s != want { t.Fatalf(\"result changed to %%q\", s) } }", in, c.name)
				})
				return nil, false
			}
		}
	}
	return out, true
}

func (h *harness) checkFormat(c *codec, s []byte, w *worker) {
	w.ev++
	class, nt := fmtClass(c, s)
	if nt {
		w.nt++
	}
	w.esc, w.dec = c.expectFormat(w.esc[:0], w.dec[:0], s)
	str := string(s)
	var o1, o2 []byte
	var o3, o4 string
	w.enter(c, false, s)
	_, st, p := common.Catch(func() { o1 = c.formatS(str); o2 = c.formatB(s); o3 = c.formatSS(str); o4 = c.formatSB(s) })
	w.leave()
	cs := func() map[string]any { return map[string]any{"codec": c.name, "input": fmt.Sprintf("%q", s)} }
	if p {
		h.viol(c.name+"Format|panic|"+class, str, func() (string, any, string) {
			m := cs()
			m["stack"] = st
			return fmt.Sprintf("%sFormat panicked on %q at %s", c.name, s, common.PanicSite(st)), m,
				fmt.Sprintf("func TestReplay(t *testing.T) { _ = strz.%sFormatToString(%q) }", c.name, s)
		})
		return
	}
	if string(o1) != string(o2) || string(o1) != o3 || o3 != o4 {
		h.viol(c.name+"Format/"+c.name+"FormatToString|forms-disagree|"+class, str, func() (string, any, string) {
			return fmt.Sprintf("on %q: Format(string) %q, Format([]byte) %q, FormatToString(string) %q, FormatToString([]byte) %q", s, o1, o2, o3, o4), cs(), ""
		})
		return
	}
	var problem string
	w.vals, problem = c.scanFormat(w.vals[:0], o1)
	if problem != "" {
		h.viol(c.name+"Format|shape|"+class, str, func() (string, any, string) {
			return fmt.Sprintf("%sFormat(%q) = %q is not a sequence of fixed-width upper-case %s… escapes: %s; want %q", c.name, s, o1, c.prefix, problem, w.esc), cs(),
				fmt.Sprintf("func TestReplay(t *testing.T) { if got := strz.%sFormatToString(%q); got != %q { t.Fatalf(\"got %%q\", got) } }", c.name, s, w.esc)
		})
		return
	}
	if !bytes.Equal(o1, w.esc) {
		h.viol(c.name+"Format|wrong-escape-value|"+class, str, func() (string, any, string) {
			return fmt.Sprintf("%sFormat(%q) = %q, want %q", c.name, s, o1, w.esc), cs(),
				fmt.Sprintf("func TestReplay(t *testing.T) { if got := strz.%sFormatToString(%q); got != %q { t.Fatalf(\"got %%q\", got) } }", c.name, s, w.esc)
		})
		return
	}
	// round trip through the parser (o1 is private to this call)
	out, ok := h.runParse(c, o1, "format-output-of-"+class, w)
	if !ok {
		return
	}
	if !bytes.Equal(out, w.dec) {
		h.viol(c.name+"Parse("+c.name+"Format)|round-trip|"+class, str, func() (string, any, string) {
			return fmt.Sprintf("%sParse(%sFormat(%q) = %q) = %q, want %q", c.name, c.name, s, o1, out, w.dec), cs(),
				fmt.Sprintf("func TestReplay(t *testing.T) { if got := strz.%sParseToString(strz.%sFormat(%q)); got != %q { t.Fatalf(\"got %%q\", got) } }", c.name, c.name, s, w.dec)
		})
	}
}

func roundTrips(h *harness, cs []*codec) {
	b := rtBounds{allBytes: 2, bLen: 5, tuple: 3}
	if h.r.Thorough() {
		b = rtBounds{allBytes: 3, bLen: 6, tuple: 4}
	}
	for _, x := range bAlpha {
		inBAlpha[x] = true
	}
	for _, c := range cs {
		c := c
		// A: every byte string of length <= allBytes
		fa := &fam{name: "roundtrip/all-bytes", codec: c.name, space: fmt.Sprintf("every byte string of length <= %d", b.allBytes)}
		h.addFam(fa)
		h.shards(fa, 256, func(b0 int, w *worker) {
			buf := make([]byte, 0, 8)
			if b0 == 0 {
				h.checkFormat(c, buf[:0], w)
			}
			var rec func(cur []byte)
			rec = func(cur []byte) {
				h.checkFormat(c, cur, w)
				if len(cur) == b.allBytes {
					return
				}
				for x := 0; x < 256; x++ {
					rec(append(cur, byte(x)))
				}
			}
			rec(append(buf, byte(b0)))
		})
		// B: boundary-alphabet strings of length allBytes+1 .. bLen
		bl := b.bLen
		if !c.unicode && h.r.Thorough() {
			bl-- // the longest length only for the codecs that read their input as UTF-8
		}
		fb := &fam{name: "roundtrip/boundary-bytes", codec: c.name,
			space: fmt.Sprintf("every string of length %d..%d over the %d boundary bytes % X", b.allBytes+1, bl, len(bAlpha), bAlpha)}
		h.addFam(fb)
		k := len(bAlpha)
		h.shards(fb, k*k, func(i int, w *worker) {
			buf := make([]byte, b.bLen)
			buf[0], buf[1] = bAlpha[i/k], bAlpha[i%k]
			for l := b.allBytes + 1; l <= bl; l++ {
				if l < 2 {
					continue
				}
				common.Seqs(k, l-2, func(idx []int) {
					for p, v := range idx {
						buf[2+p] = bAlpha[v]
					}
					h.checkFormat(c, buf[:l], w)
				})
			}
		})
		if !c.unicode {
			continue
		}
		// C: every valid rune singly
		fc := &fam{name: "roundtrip/every-rune", codec: c.name, space: "every Unicode scalar value as a one-rune string (1,112,064; those already covered by the byte-string families are not repeated)"}
		h.addFam(fc)
		h.shards(fc, 0x110, func(hi int, w *worker) {
			var buf [4]byte
			for r := rune(hi) << 12; r < rune(hi+1)<<12; r++ {
				if r >= 0xD800 && r < 0xE000 {
					continue
				}
				n := utf8.EncodeRune(buf[:], r)
				if b.covered(buf[:n]) {
					continue
				}
				h.checkFormat(c, buf[:n], w)
			}
		})
		// D: tuples of 2..tuple chunks over boundary runes + invalid chunks
		var chunks []string
		for _, r := range bRunes {
			chunks = append(chunks, string(r))
		}
		chunks = append(chunks, badChunks...)
		set := map[string]struct{}{}
		for l := 2; l <= b.tuple; l++ {
			common.StringsOfLen(chunks, l, func(s string) {
				if b.covered([]byte(s)) {
					return
				}
				if r, n := utf8.DecodeRuneInString(s); n == len(s) && r != utf8.RuneError {
					return // a single valid rune: family C
				}
				set[s] = struct{}{}
			})
		}
		list := make([]string, 0, len(set))
		for s := range set {
			list = append(list, s)
		}
		sort.Strings(list)
		fd := &fam{name: "roundtrip/rune-tuples", codec: c.name,
			space: fmt.Sprintf("every concatenation of 2..%d chunks from the %d boundary runes %U and the %d invalid chunks %q (not repeating the families above)", b.tuple, len(bRunes), bRunes, len(badChunks), badChunks)}
		h.addFam(fd)
		const chunk = 512
		h.shards(fd, (len(list)+chunk-1)/chunk, func(i int, w *worker) {
			for _, s := range list[i*chunk : min(len(list), (i+1)*chunk)] {
				h.checkFormat(c, []byte(s), w)
			}
		})
	}
	h.r.SampleL("roundtrip", map[string]any{"codec": "Utf16", "input": "\"a\\xff\\U0001F600\"", "want_format": lu("0061") + lu("FFFD") + lu("D83D") + lu("DE00"), "want_parse": "a�\U0001F600"})
	h.r.SampleL("roundtrip", map[string]any{"codec": "Octal", "input": "\"\\x00\\\\\\xff\"", "want_format": `\000\134\377`})
}
