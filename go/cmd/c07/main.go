// C07 — backslash escape codecs of strz/enc.go (Octal, Hex, Unicode, Utf16): Format/Parse round
// trips, Format shape, and the Parse functions on junk. Bounded-exhaustive enumeration (engine
// E3): every family below is a finite stated set enumerated completely, no randomness.
//
// Files: ref.go (independent encoder / scanner / strict decoder), format.go (round-trip
// families), parse.go (junk families), main.go (codec table, bookkeeping, hang watchdog).
package main

import (
	"fmt"
	"sort"
	"sync"
	"sync/atomic"
	"time"

	"verif/common"

	"github.com/welllog/golib/strz"
)

// lu builds backslash + "u" + digits (kept out of literals so that no tool ever reads it as an escape).
func lu(d string) string { return "\\" + "u" + d }

func codecs() []*codec {
	cs := []*codec{
		{name: "Octal", prefix: `\`, digits: 3, base: 8,
			formatS: strz.OctalFormat[string], formatB: strz.OctalFormat[[]byte],
			formatSS: strz.OctalFormatToString[string], formatSB: strz.OctalFormatToString[[]byte],
			parse: strz.OctalParse, parseSS: strz.OctalParseToString[string], parseSB: strz.OctalParseToString[[]byte],
			menu: []string{"a", `\101`, `\000`, `\377`, `\`, `\1`, `\10`, `\810`, `\180`, `\108`,
				`\400`, `\777`, `\x41`, "7", "\xff"},
			raws: []rawFam{{alpha: `\07x8DFg`}},
		},
		{name: "Hex", prefix: `\x`, digits: 2, base: 16,
			formatS: strz.HexFormat[string], formatB: strz.HexFormat[[]byte],
			formatSS: strz.HexFormatToString[string], formatSB: strz.HexFormatToString[[]byte],
			parse: strz.HexParse, parseSS: strz.HexParseToString[string], parseSB: strz.HexParseToString[[]byte],
			menu: []string{"a", `\x41`, `\x00`, `\xFF`, `\`, `\x`, `\x4`, `\xG1`, `\x4G`, `\xff`,
				`\X41`, `\101`, "F", "\xff"},
			raws: []rawFam{{alpha: `\x07F8Dg`}},
		},
		{name: "Unicode", prefix: `\U`, digits: 8, base: 16, unicode: true,
			formatS: strz.UnicodeFormat[string], formatB: strz.UnicodeFormat[[]byte],
			formatSS: strz.UnicodeFormatToString[string], formatSB: strz.UnicodeFormatToString[[]byte],
			parse: strz.UnicodeParse, parseSS: strz.UnicodeParseToString[string], parseSB: strz.UnicodeParseToString[[]byte],
			menu: []string{"a", `\U00000041`, `\U00000000`, `\U0010FFFF`, `\U00004E16`, `\`, `\U`,
				`\U0000`, `\U0000004`, `\UG0000041`, `\U0000G041`, `\U0000004G`, `\U00110000`, `\UFFFFFFFF`,
				`\U0000adef`, `\U0000D800`, `\U0000DC00`, lu("0041"), "0", "\xff"},
			raws: []rawFam{{alpha: `\U07F8Dg`}, {alpha: `\U01g`}},
		},
		{name: "Utf16", prefix: lu(""), digits: 4, base: 16, unicode: true,
			formatS: strz.Utf16Format[string], formatB: strz.Utf16Format[[]byte],
			formatSS: strz.Utf16FormatToString[string], formatSB: strz.Utf16FormatToString[[]byte],
			parse: strz.Utf16Parse, parseSS: strz.Utf16ParseToString[string], parseSB: strz.Utf16ParseToString[[]byte],
			menu: []string{"a", lu("0041"), lu("0000"), lu("FFFF"), lu("4E16"), lu("D800"), lu("DC00"), lu("DBFF"), lu("DFFF"),
				`\`, lu(""), lu("00"), lu("004"), lu("G041"), lu("00G1"), lu("004G"), lu("adef"), `\x41`, "0", "\xff"},
			raws: []rawFam{{alpha: "\\" + "u07F8Dg"}, {alpha: "\\" + "uD8C"}},
		},
	}
	return cs
}

// ---------------------------------------------------------------------------------------------
// bookkeeping

type vrec struct {
	sig, what, goTest, key string
	c                      any
	count                  int64
}

type fam struct {
	name, codec, space string
	cases, nontrivial  int64
}

type harness struct {
	r *common.Run

	mu    sync.Mutex
	viols map[string]*vrec
	fams  []*fam
	cut   bool

	wmu     sync.Mutex
	workers []*worker
}

// worker is the per-shard scratch state; seq is odd while a golib call is in flight.
type worker struct {
	seq      atomic.Uint64
	cur      [256]byte
	curLen   int
	curCodec *codec
	curParse bool
	finished atomic.Bool
	ev, nt   int64
	dst      []byte
	esc, dec []byte
	alias    []byte
	want     []byte
	vals     []uint32
	in       []byte
	_        [64]byte
}

const slack = 16

func (h *harness) newWorker() *worker {
	w := &worker{dst: make([]byte, 0, 4096)}
	h.wmu.Lock()
	h.workers = append(h.workers, w)
	h.wmu.Unlock()
	return w
}

func (w *worker) enter(c *codec, parse bool, in []byte) {
	w.curCodec, w.curParse = c, parse
	w.curLen = copy(w.cur[:], in)
	w.seq.Add(1)
}
func (w *worker) leave() { w.seq.Add(1) }

// viol keeps, per signature, the shortest (then lexicographically least) failing input; the
// records are handed to common.Run at the end so that the reported case is the minimal one
// regardless of shard scheduling.
func (h *harness) viol(sig, key string, mk func() (what string, c any, goTest string)) {
	h.mu.Lock()
	defer h.mu.Unlock()
	v := h.viols[sig]
	if v == nil {
		if len(h.viols) >= 200 {
			return
		}
		v = &vrec{sig: sig, key: key}
		v.what, v.c, v.goTest = mk()
		h.viols[sig] = v
	} else if len(key) < len(v.key) || (len(key) == len(v.key) && key < v.key) {
		v.key = key
		v.what, v.c, v.goTest = mk()
	}
	v.count++
}

func (h *harness) flush() {
	h.mu.Lock()
	defer h.mu.Unlock()
	sigs := make([]string, 0, len(h.viols))
	for s := range h.viols {
		sigs = append(sigs, s)
	}
	sort.Slice(sigs, func(i, j int) bool {
		a, b := h.viols[sigs[i]], h.viols[sigs[j]]
		if len(a.key) != len(b.key) {
			return len(a.key) < len(b.key)
		}
		return a.sig < b.sig
	})
	for _, s := range sigs {
		v := h.viols[s]
		n := v.count
		if n > 100000 {
			n = 100000
		}
		for k := int64(0); k < n; k++ {
			h.r.Violation(v.sig, v.what, v.c, v.goTest)
		}
	}
}

func (h *harness) addFam(f *fam) {
	h.mu.Lock()
	h.fams = append(h.fams, f)
	h.mu.Unlock()
}

// shard runs fn on a fresh worker and adds the worker's counters to f.
func (h *harness) shards(f *fam, n int, fn func(i int, w *worker)) {
	h.r.Parallel(n, func(i int) {
		if h.r.Expired() {
			h.mu.Lock()
			if !h.cut {
				h.cut = true
				h.r.Incomplete("soft deadline reached in family " + f.name + "/" + f.codec)
			}
			h.mu.Unlock()
			return
		}
		w := h.newWorker()
		fn(i, w)
		w.finished.Store(true)
		atomic.AddInt64(&f.cases, w.ev)
		atomic.AddInt64(&f.nontrivial, w.nt)
		h.r.Eval(w.ev)
		h.r.Nontrivial(w.nt)
	})
}

// watchdog turns a golib call that does not return into a violation instead of a hung check.
// No wall-clock threshold decides: a worker whose in-call marker is unchanged over hangTicks
// consecutive watchdog rounds is only a suspect (the machine may be overloaded or paused); the
// suspect input is then run again on a fresh goroutine and only if that second, independent run
// does not come back within hangTicks further rounds is non-termination reported (the functions
// are pure and deterministic, so a real endless loop always reproduces).
const hangTicks = 10

func (h *harness) rerunHangs(c *codec, parse bool, in []byte) bool {
	done := make(chan struct{})
	go func() {
		defer close(done)
		common.Catch(func() {
			if parse {
				dst := make([]byte, len(in)+slack)
				c.parse(dst, in)
				c.parseSS(string(in))
				c.parseSB(in)
			} else {
				c.formatS(string(in))
				c.formatB(in)
				c.formatSS(string(in))
				c.formatSB(in)
			}
		})
	}()
	for t := 0; t < hangTicks; t++ {
		select {
		case <-done:
			return false
		case <-time.After(2 * time.Second):
		}
	}
	return true
}

func (h *harness) watchdog(rule string) {
	type seen struct {
		seq   uint64
		ticks int
	}
	last := map[*worker]seen{}
	for {
		time.Sleep(2 * time.Second)
		h.wmu.Lock()
		live := h.workers[:0]
		for _, w := range h.workers {
			if w.finished.Load() {
				delete(last, w)
				continue
			}
			live = append(live, w)
		}
		h.workers = live
		ws := append([]*worker(nil), live...)
		h.wmu.Unlock()
		for _, w := range ws {
			s := w.seq.Load()
			p := last[w]
			if p.seq != s || s%2 == 0 {
				last[w] = seen{s, 0}
				continue
			}
			p.ticks++
			last[w] = p
			if p.ticks < hangTicks {
				continue
			}
			c, parse := w.curCodec, w.curParse
			in := append([]byte(nil), w.cur[:w.curLen]...)
			last[w] = seen{s, 0}
			if w.seq.Load() != s || c == nil || !h.rerunHangs(c, parse, in) {
				continue // it was the machine, not golib
			}
			what := c.name + "Format"
			if parse {
				what = c.name + "Parse"
			}
			h.viol(what+"|no-termination|any", string(in), func() (string, any, string) {
				return fmt.Sprintf("%s does not return on input %q (in flight for %d watchdog rounds, and again when re-run on its own)", what, in, hangTicks),
					map[string]any{"codec": c.name, "input": fmt.Sprintf("%q", in)}, ""
			})
			h.r.Incomplete("a call did not terminate; enumeration abandoned")
			h.flush()
			h.r.Finish(rule)
		}
	}
}

func main() {
	r := common.Start("C07", "model_checking")
	h := &harness{r: r, viols: map[string]*vrec{}}
	rule := "every family is enumerated completely and families are made disjoint (a string covered by an earlier family is skipped by later ones), so counts are counts of distinct inputs per codec; " +
		"non-trivial = Format/round-trip inputs that are non-empty (Octal/Hex) or contain a byte >= 0x80 (Unicode/Utf16: multi-byte rune or invalid byte), parser inputs that contain at least one backslash"
	go h.watchdog(rule)

	cs := codecs()
	for _, c := range cs {
		for k := range c.raws {
			for i := 0; i < len(c.raws[k].alpha); i++ {
				c.raws[k].in[c.raws[k].alpha[i]] = true
			}
		}
	}
	roundTrips(h, cs)
	junk(h, cs)

	h.mu.Lock()
	for _, f := range h.fams {
		r.Section(map[string]any{"family": f.name, "codec": f.codec, "space": f.space, "cases": f.cases, "nontrivial": f.nontrivial})
		fmt.Printf("  %-8s %-28s cases=%-10d nontrivial=%-10d %s\n", f.codec, f.name, f.cases, f.nontrivial, f.space)
	}
	h.mu.Unlock()
	r.Assume(
		"small-scope: round trips on all byte strings up to the stated length plus structured longer strings; parsers on token sequences / raw strings up to the stated lengths",
		"exact decoding is demanded only for escapes in the shape Format emits (upper-case digits, in-range values, scalar values for \\U, paired surrogates for \\u) that are separated from each other by non-empty backslash-free text, and for pure Format output; every other input gets the safety clauses only (no panic, termination, len(out) <= len(in), forms agree)",
		"each invalid byte = each byte for which utf8.DecodeRune reports (RuneError, 1)",
		fmt.Sprintf("termination is observed with a watchdog: a call seen in flight over %d consecutive 2-second rounds is re-run on its own and reported only if the re-run does not return either; Parse(dst, src) is called with len(dst) = len(src)+%d guard bytes and non-overlapping buffers", hangTicks, slack))
	h.flush()
	r.Finish(rule)
}
