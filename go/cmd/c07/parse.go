package main

// Parser-on-junk families.

import (
	"bytes"
	"fmt"
	"sort"
	"sync"

	"verif/common"
)

func (h *harness) checkParse(c *codec, in []byte, w *worker) {
	w.ev++
	res, class := c.expectParse(w.want[:0], in)
	if res != nil {
		w.want = res
	}
	if class != clNoBackslash {
		w.nt++
	}
	out, ok := h.runParse(c, in, className[class], w)
	if !ok {
		return
	}
	switch class {
	case clNoBackslash:
		if !bytes.Equal(out, in) {
			h.viol(c.name+"Parse|changed-input-without-backslash|"+className[class], string(in), func() (string, any, string) {
				return fmt.Sprintf("%sParse(%q) = %q, want the input unchanged (it contains no backslash)", c.name, in, out),
					map[string]any{"codec": c.name, "input": fmt.Sprintf("%q", in)},
					fmt.Sprintf("func TestReplay(t *testing.T) { if got := strz.%sParseToString(%q); got != %q { t.Fatalf(\"got %%q\", got) } }", c.name, in, in)
			})
		}
	case clJunk:
		if !bytes.Equal(out, in) && !bytes.Equal(out, c.greedyDecode(w.want[:0], in)) && !c.explainable(in, out) {
			h.viol(c.name+"Parse|bytes-invented-or-dropped|junk", string(in), func() (string, any, string) {
				return fmt.Sprintf("%sParse(%q) = %q: the output cannot be obtained from the input by copying bytes and replacing escape-like units (%s + %d digit characters of either case) by what they denote — something that is not an escape was rewritten or dropped", c.name, in, out, c.prefix, c.digits),
					map[string]any{"codec": c.name, "input": fmt.Sprintf("%q", in), "output": fmt.Sprintf("%q", out)},
					fmt.Sprintf("func TestReplay(t *testing.T) { t.Logf(\"%%q\", strz.%sParseToString(%q)) /* got %q: not a rewriting of the input */ }", c.name, in, out)
			})
		}
		if suf, ok := c.junkTail(w.want[:0], in); ok {
			w.want = suf
			if !bytes.HasSuffix(out, suf) {
				h.viol(c.name+"Parse|wrong-decode|well-formed-escapes-after-an-ill-formed-one", string(in), func() (string, any, string) {
					return fmt.Sprintf("%sParse(%q) = %q, want an output that ends with %q: the well-formed escapes between backslash-free text after the last ill-formed sequence must still be decoded and the text around them kept", c.name, in, out, suf),
						map[string]any{"codec": c.name, "input": fmt.Sprintf("%q", in)},
						fmt.Sprintf("func TestReplay(t *testing.T) { if got := strz.%sParseToString(%q); !strings.HasSuffix(got, %q) { t.Fatalf(\"got %%q\", got) } }", c.name, in, suf)
				})
			}
		}
	case clEmbedded, clFormatOutput:
		if !bytes.Equal(out, res) {
			h.viol(c.name+"Parse|wrong-decode|"+className[class], string(in), func() (string, any, string) {
				return fmt.Sprintf("%sParse(%q) = %q, want %q", c.name, in, out, res),
					map[string]any{"codec": c.name, "input": fmt.Sprintf("%q", in)},
					fmt.Sprintf("func TestReplay(t *testing.T) { if got := strz.%sParseToString(%q); got != %q { t.Fatalf(\"got %%q\", got) } }", c.name, in, res)
			})
		}
	}
}

// inRaw reports whether s belongs to one of the first n raw families of c.
func (c *codec) inRaw(s []byte, n int) bool {
	for k := 0; k < n; k++ {
		f := &c.raws[k]
		if len(s) > f.maxLen {
			continue
		}
		all := true
		for _, b := range s {
			if !f.in[b] {
				all = false
				break
			}
		}
		if all {
			return true
		}
	}
	return false
}

// used bytes: everything the structured families are built from; the all-bytes parser family
// only runs strings with at least one byte outside this set, which keeps the families disjoint.
func (c *codec) usedBytes() (u [256]bool) {
	for _, t := range c.menu {
		for i := 0; i < len(t); i++ {
			u[t[i]] = true
		}
	}
	for k := range c.raws {
		for i := 0; i < len(c.raws[k].alpha); i++ {
			u[c.raws[k].alpha[i]] = true
		}
	}
	for _, b := range []byte("bz0123456789ABCDEFabcdef\\xuU") {
		u[b] = true
	}
	return
}

func junk(h *harness, cs []*codec) {
	thorough := h.r.Thorough()
	maxTok, nBytes := []int{4, 4, 4, 4}, 2
	rawLen := [][]int{{7}, {7}, {7, 10}, {7, 10}}
	if thorough {
		maxTok, nBytes = []int{6, 6, 5, 5}, 3
		rawLen = [][]int{{8}, {8}, {8, 11}, {8, 12}}
	}
	for ci, c := range cs {
		for k := range c.raws {
			c.raws[k].maxLen = rawLen[ci][k]
		}
	}
	// token sequences: materialise, drop what a raw family already contains, sort, de-duplicate
	lists := make([][]string, len(cs))
	var wg sync.WaitGroup
	for ci, c := range cs {
		wg.Add(1)
		go func(ci int, c *codec) {
			defer wg.Done()
			var l []string
			common.Strings(c.menu, maxTok[ci], func(s string) {
				if !c.inRaw([]byte(s), len(c.raws)) {
					l = append(l, s)
				}
			})
			sort.Strings(l)
			o := l[:0]
			for i, s := range l {
				if i == 0 || s != l[i-1] {
					o = append(o, s)
				}
			}
			lists[ci] = o
		}(ci, c)
	}
	wg.Wait()

	for ci, c := range cs {
		c := c
		// R: raw strings
		for k := range c.raws {
			k := k
			rf := &c.raws[k]
			al := []byte(rf.alpha)
			fr := &fam{name: fmt.Sprintf("parse/raw-%d", k), codec: c.name,
				space: fmt.Sprintf("every string of length <= %d over the bytes %q", rf.maxLen, rf.alpha)}
			h.addFam(fr)
			const pre = 3
			n := len(al)
			h.shards(fr, n*n*n, func(i int, w *worker) {
				buf := make([]byte, rf.maxLen)
				run := func(s []byte) {
					if k > 0 && c.inRaw(s, k) {
						return
					}
					h.checkParse(c, s, w)
				}
				if i == 0 {
					for l := 0; l < pre && l <= rf.maxLen; l++ {
						common.Seqs(n, l, func(idx []int) {
							for p, v := range idx {
								buf[p] = al[v]
							}
							run(buf[:l])
						})
					}
				}
				buf[0], buf[1], buf[2] = al[i/(n*n)], al[i/n%n], al[i%n]
				for l := pre; l <= rf.maxLen; l++ {
					common.Seqs(n, l-pre, func(idx []int) {
						for p, v := range idx {
							buf[pre+p] = al[v]
						}
						run(buf[:l])
					})
				}
			})
		}
		// T: token sequences
		list := lists[ci]
		ft := &fam{name: "parse/token-sequences", codec: c.name,
			space: fmt.Sprintf("every concatenation of <= %d tokens from the %d-token menu %q (distinct strings, not repeating the raw families)", maxTok[ci], len(c.menu), c.menu)}
		h.addFam(ft)
		const chunk = 4096
		h.shards(ft, (len(list)+chunk-1)/chunk, func(i int, w *worker) {
			var buf []byte
			for _, s := range list[i*chunk : min(len(list), (i+1)*chunk)] {
				buf = append(buf[:0], s...)
				h.checkParse(c, buf, w)
			}
		})
		// E: every escape value in context
		embed(h, c)
		// D: every byte value in every digit position of one escape between text, and every pair of
		// byte values in two digit positions (a non-digit there makes the sequence no escape at all)
		fd := &fam{name: "parse/every-byte-in-digit-positions", codec: c.name,
			space: fmt.Sprintf("b·%s·d1..d%d·b with the digits of the values 0x41 / 0o101 / U+0041 and 0x7A..: every byte value 0..255 in every one digit position, and every pair of byte values in every two digit positions", c.prefix, c.digits)}
		h.addFam(fd)
		h.shards(fd, 256, func(x int, w *worker) {
			for _, val := range []uint32{0x41, 0x7A} {
				base := c.appendEsc(nil, val)
				for p := len(c.prefix); p < len(base); p++ {
					in := append(append([]byte("b"), base...), 'b')
					in[1+p] = byte(x)
					h.checkParse(c, in, w)
					for q := p + 1; q < len(base); q++ {
						for y := 0; y < 256; y++ {
							in2 := append([]byte(nil), in...)
							in2[1+q] = byte(y)
							h.checkParse(c, in2, w)
						}
					}
				}
			}
		})
		// N: all byte strings of length <= nBytes with a byte outside the structured families' bytes
		used := c.usedBytes()
		fn := &fam{name: "parse/all-bytes", codec: c.name,
			space: fmt.Sprintf("every byte string of length <= %d containing at least one byte that no other parser family uses", nBytes)}
		h.addFam(fn)
		h.shards(fn, 256, func(b0 int, w *worker) {
			buf := make([]byte, 0, 8)
			var rec func(cur []byte, outside bool)
			rec = func(cur []byte, outside bool) {
				if outside {
					h.checkParse(c, cur, w)
				}
				if len(cur) == nBytes {
					return
				}
				for x := 0; x < 256; x++ {
					rec(append(cur, byte(x)), outside || !used[x])
				}
			}
			rec(append(buf, byte(b0)), !used[b0])
		})
	}
	h.r.SampleL("parse", map[string]any{"codec": "Hex", "input": `a\x41\x4G\xFF`, "class": "junk: safety clauses only"})
	h.r.SampleL("parse", map[string]any{"codec": "Unicode", "input": `b\U0010FFFFz\U0000005Cb`, "class": "format-shaped-escapes-between-text", "want": "b\U0010FFFFz\\b"})
}

// embed: every Format-shaped escape value between text (exact), pairs of boundary values with
// and without text between them, and every ill-shaped single value between text (safety only).
func embed(h *harness, c *codec) {
	ctx := [][2]string{{"b", ""}, {"", "b"}, {"b", "b"}, {"zz", "zz"}}
	nv := 256
	shards := 16
	if c.unicode {
		nv, shards = 0x110000, 0x110
	}
	per := nv / shards
	fe := &fam{name: "parse/every-escape-in-text", codec: c.name,
		space: fmt.Sprintf("every Format-shaped escape value (%s) in the contexts %q", map[bool]string{false: "256 byte values", true: "1,112,064 scalar values"}[c.unicode], ctx)}
	h.addFam(fe)
	h.shards(fe, shards, func(i int, w *worker) {
		var buf []byte
		for v := uint32(i * per); v < uint32((i+1)*per); v++ {
			if c.unicode && v >= 0xD800 && v < 0xE000 {
				continue
			}
			for _, x := range ctx {
				buf = append(buf[:0], x[0]...)
				buf = c.appendRuneEsc(buf, v)
				buf = append(buf, x[1]...)
				h.checkParse(c, buf, w)
			}
		}
	})
	// pairs of boundary values: b·e1·z·e2·b (exact) and b·e1·e2·b (adjacent: safety only)
	var bv []uint32
	if c.unicode {
		for _, r := range bRunes {
			bv = append(bv, uint32(r))
		}
	} else {
		bv = []uint32{0, 'A', '\\', 0x7F, 0x80, 0xFF}
	}
	fp := &fam{name: "parse/escape-pairs-in-text", codec: c.name,
		space: fmt.Sprintf("b·e1·z·e2·b and b·e1·e2·b for all e1, e2 among the escapes of the %d boundary values %X", len(bv), bv)}
	h.addFam(fp)
	h.shards(fp, len(bv), func(i int, w *worker) {
		var buf []byte
		for _, v2 := range bv {
			for _, mid := range []string{"z", ""} {
				buf = append(buf[:0], 'b')
				buf = c.appendRuneEsc(buf, bv[i])
				buf = append(buf, mid...)
				buf = c.appendRuneEsc(buf, v2)
				buf = append(buf, 'b')
				h.checkParse(c, buf, w)
			}
		}
	})
	// ill-shaped single escapes between text
	var ill, illText []string // illText: only run between text (the tail oracle of the next family does not apply to them)
	lower := func(s []byte) []byte { return bytes.ToLower(s) }
	switch c.name {
	case "Octal":
		for v := uint32(0x100); v < 0x200; v++ {
			ill = append(ill, string(c.appendEsc(nil, v)))
		}
	case "Hex":
		for v := uint32(0); v < 256; v++ {
			e := c.appendEsc(nil, v)
			if l := lower(e); !bytes.Equal(l, e) {
				ill = append(ill, string(l))
			}
		}
	case "Unicode":
		for v := uint32(0xD800); v < 0xE000; v++ {
			ill = append(ill, string(c.appendEsc(nil, v)))
		}
		for _, v := range []uint32{0x110000, 0x11FFFF, 0x200000, 0x1000000, 0x10000000, 0x7FFFFFFF, 0x80000000, 0xFFFFFFFF} {
			ill = append(ill, string(c.appendEsc(nil, v)))
		}
		for _, r := range []uint32{0xAB, 0xFFFD, 0x10FFFF, 0x1F600} {
			e := c.appendEsc(nil, r)
			ill = append(ill, c.prefix+string(lower(e[2:])))
		}
	case "Utf16":
		for v := uint32(0xD800); v < 0xE000; v++ {
			ill = append(ill, string(c.appendEsc(nil, v)))
		}
		sur := []uint32{0xD800, 0xDBFF, 0xDC00, 0xDFFF}
		for _, a := range sur {
			for _, b := range sur {
				if a < 0xDC00 && b >= 0xDC00 {
					// proper pair: separate it by text instead
					ill = append(ill, string(c.appendEsc(nil, a))+"z"+string(c.appendEsc(nil, b)))
					continue
				}
				ill = append(ill, string(c.appendEsc(c.appendEsc(nil, a), b)))
			}
		}
		for _, r := range []uint32{0xAB, 0xFFFD, 0xD83D} {
			e := c.appendEsc(nil, r)
			ill = append(ill, c.prefix+string(lower(e[2:])))
		}
		// a surrogate next to a unit just OUTSIDE the surrogate ranges (the ends of the range tests):
		// no pair, the neighbour is an ordinary escape (mutation run: `n2 < 0xe000` -> `<= 0xe000`)
		for _, a := range sur {
			for _, b := range []uint32{0xD7FF, 0xE000, 0xE001, 0xFFFF, 0x0041, 0} {
				illText = append(illText, string(c.appendEsc(c.appendEsc(nil, a), b)), string(c.appendEsc(c.appendEsc(nil, b), a)))
			}
		}
	}
	fi := &fam{name: "parse/ill-shaped-escape-in-text", codec: c.name,
		space: fmt.Sprintf("b·X·b for %d escapes X outside the Format shape (out-of-range values, surrogate code points, unpaired / reversed / text-separated surrogates, lower-case digits)", len(ill)+len(illText))}
	h.addFam(fi)
	h.shards(fi, 1, func(_ int, w *worker) {
		var buf []byte
		for _, x := range append(append([]string(nil), ill...), illText...) {
			buf = append(append(append(buf[:0], 'b'), x...), 'b')
			if _, cl := c.expectParse(nil, buf); cl != clJunk {
				panic("harness: ill-shaped list contains a Format-shaped input: " + string(buf))
			}
			h.checkParse(c, buf, w)
		}
	})
	// an ill-formed sequence, then MORE backslash-free text than any parser can have consumed from
	// it (one escape width, two for UTF-16), then well-formed escapes between text: whatever was done
	// with the ill-formed part, these must still be decoded. The token and raw families are too
	// short to reach this for the 10- and 12-byte windows of \U and \u.
	win := c.width()
	if c.name == "Utf16" {
		win *= 2
	}
	var bad []string
	for _, t := range c.menu {
		if len(t) > 0 && t[0] == '\\' {
			if _, _, ok := c.matchEscape([]byte(t)); !ok {
				bad = append(bad, t)
			}
		}
	}
	if c.name == "Utf16" {
		// a high surrogate followed by each ill-formed token: the second half of a pair fails to parse
		for _, t := range append([]string(nil), bad...) {
			for _, x := range []string{string(c.appendEsc(nil, 0xD800)) + t, string(c.appendEsc(nil, 0xDBFF)) + "z" + t} {
				if _, cl := c.expectParse(nil, []byte(x+"b")); cl == clJunk { // D800+DC00 is a proper pair
					bad = append(bad, x)
				}
			}
		}
	}
	bad = append(bad, ill...)
	ft := &fam{name: "parse/escapes-after-ill-formed-and-text", codec: c.name,
		space: fmt.Sprintf("X·pad·e1·z·e2·b for %d ill-formed X (menu + ill-shaped list), backslash-free pad of %d and %d bytes, e1, e2 among the escapes of %X", len(bad), win, win+1, bv[:4])}
	h.addFam(ft)
	h.shards(ft, 1, func(_ int, w *worker) {
		var buf []byte
		for _, x := range bad {
			for _, padLen := range []int{win, win + 1} {
				for _, v1 := range bv[:4] {
					for _, v2 := range bv[:4] {
						buf = append(buf[:0], x...)
						for k := 0; k < padLen; k++ {
							buf = append(buf, "bz"[k&1])
						}
						buf = c.appendRuneEsc(buf, v1)
						buf = append(buf, 'z')
						buf = c.appendRuneEsc(buf, v2)
						buf = append(buf, 'b')
						if _, ok := c.junkTail(nil, buf); !ok {
							panic("harness: the tail oracle does not apply to " + string(buf))
						}
						h.checkParse(c, buf, w)
					}
				}
			}
		}
	})
}
