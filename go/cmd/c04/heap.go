package main

import (
	"fmt"
	"reflect"
	"sort"
	"unsafe"

	"verif/common"
	"verif/space"

	"github.com/welllog/golib/heapz"
)

// ---------------------------------------------------------------- System A: heapz.Heap with handles

type hElem = heapz.Element[int]

// valuesField is the index of Heap's private backing array: a field of type []*Element[int]. If
// there are several (a free list, say), the one called `values`, else the one that holds exactly
// the pushed elements of a probe heap (-1: none can be told).
var valuesField = func() int {
	t := reflect.TypeOf(heapz.Heap[int]{})
	var cand []int
	for i := 0; i < t.NumField(); i++ {
		if t.Field(i).Type == reflect.TypeOf([]*hElem(nil)) {
			cand = append(cand, i)
		}
	}
	switch len(cand) {
	case 0:
		return -1
	case 1:
		return cand[0]
	}
	for _, i := range cand {
		if t.Field(i).Name == "values" {
			return i
		}
	}
	ph := heapz.New(4, func(a, b int) bool { return a < b })
	probe := &ph
	var pushed []*hElem
	for v := 0; v < 3; v++ {
		pushed = append(pushed, probe.Push(v))
	}
	found := -1
	for _, i := range cand {
		f := reflect.ValueOf(probe).Elem().Field(i)
		got := *(*[]*hElem)(unsafe.Pointer(f.UnsafeAddr()))
		if len(got) == 3 && got[0] == pushed[0] {
			if found >= 0 {
				return -1
			}
			found = i
		}
	}
	return found
}()

// backing returns a copy of the heap's private backing array (the handles in heap order).
func backing(h *heapz.Heap[int]) []*hElem {
	f := reflect.ValueOf(h).Elem().Field(valuesField)
	s := *(*[]*hElem)(unsafe.Pointer(f.UnsafeAddr()))
	return append([]*hElem(nil), s...)
}

func sameSeq(a, b []*hElem) bool {
	if len(a) != len(b) {
		return false
	}
	for i := range a {
		if a[i] != b[i] {
			return false
		}
	}
	return true
}

// handleTable is the harness's view of the handles; it is a canonizer root, so a handle gets the
// number of the node it points to (the heap is dumped first).
type handleTable struct {
	Live    []*hElem // handles the model considers live, in backing order
	Stale   *hElem   // the most recently departed element (nil before the first departure)
	Foreign *hElem   // the element of the second heap
}

type heapInst struct {
	k       cmpKind
	cmp     func(a, b int) bool
	h       *heapz.Heap[int]
	f       *heapz.Heap[int] // second heap, holds exactly `foreign`
	foreign *hElem
	fval    int // model: value of the foreign element
	stale   *hElem
	live    map[*hElem]int // model: handle -> value (only looked up and counted, never iterated for output)
	cap     int
	pending *space.Mismatch // found while building the start state
	start   string          // description of the start state, appended to every report
}

func newHeapInst(k cmpKind, idx, capN int) *heapInst {
	x := &heapInst{k: k, cmp: k.fn(), cap: capN, live: map[*hElem]int{}}
	x.h = new(heapz.Heap[int])
	if idx == 0 {
		*x.h = heapz.New[int](4, x.cmp)
		x.start = fmt.Sprintf("New(4, %s)", k)
	} else {
		x.pending = x.adoptInit(startSlices[idx-1])
		x.start = fmt.Sprintf("Init(%v, %s)", startSlices[idx-1], k)
	}
	x.f = new(heapz.Heap[int])
	*x.f = heapz.New[int](1, x.cmp)
	x.fval = 1
	x.foreign = x.f.Push(x.fval)
	return x
}

// adoptInit calls h.Init(s) and rebuilds the model from what Init built: the new elements are
// only reachable through the backing array (Init returns no handles).
func (x *heapInst) adoptInit(s []int) *space.Mismatch {
	x.h.Init(append([]int(nil), s...), x.cmp)
	x.live = map[*hElem]int{}
	b := backing(x.h)
	var vals []int
	for _, e := range b {
		if e == nil {
			return mm("Heap.Init|nil-element", "Init(%v): backing array holds a nil element", s)
		}
		x.live[e] = e.Value
		vals = append(vals, e.Value)
	}
	if len(x.live) != len(b) || !sameMultiset(vals, s) {
		return mm("Heap.Init|wrong-content", "Init(%v): heap holds %v (%d distinct elements)", s, vals, len(x.live))
	}
	return nil
}

func (x *heapInst) values() []int {
	out := make([]int, 0, len(x.live))
	for _, v := range x.live {
		out = append(out, v)
	}
	return sorted(out)
}

func (x *heapInst) others(e *hElem) []int {
	out := make([]int, 0, len(x.live))
	for o, v := range x.live {
		if o != e {
			out = append(out, v)
		}
	}
	return sorted(out)
}

func (x *heapInst) Ops() []space.Op {
	n := len(x.live)
	var ops []space.Op
	if n < x.cap {
		for v := 0; v < numValues; v++ {
			ops = append(ops, space.Op{Name: "Push", Args: []int{v}})
		}
	}
	ops = append(ops, space.Op{Name: "Pop"}, space.Op{Name: "Peek"})
	for i := 0; i < n; i++ {
		ops = append(ops, space.Op{Name: "Remove", Args: []int{i}})
	}
	if x.stale != nil {
		ops = append(ops, space.Op{Name: "RemoveStale"})
		if n < x.cap {
			// the other way into the heap: an element that has left it is pushed again as an object
			ops = append(ops, space.Op{Name: "PushElementStale"})
		}
	}
	ops = append(ops, space.Op{Name: "RemoveForeign"})
	for i := 0; i < n; i++ {
		for v := 0; v < numValues; v++ {
			ops = append(ops, space.Op{Name: "Fix", Args: []int{i, v}})
		}
	}
	for v := 0; v < numValues; v++ {
		if x.stale != nil {
			ops = append(ops, space.Op{Name: "FixStale", Args: []int{v}})
		}
		ops = append(ops, space.Op{Name: "FixForeign", Args: []int{v}})
	}
	for _, s := range initOpSlices {
		ops = append(ops, space.Op{Name: "Init", Args: s})
	}
	for _, s := range initOpSlices {
		if len(s) >= 2 && len(s) <= 3 {
			ops = append(ops, space.Op{Name: "InitOtherCmp", Args: s})
		}
	}
	if n >= 1 {
		ops = append(ops, space.Op{Name: "PopAllStop", Args: []int{1}})
		ops = append(ops, space.Op{Name: "PopAllUnused"}, space.Op{Name: "PopAllStopThenAgain"})
		for v := 0; v < numValues; v++ {
			ops = append(ops, space.Op{Name: "PopAllPush", Args: []int{v}})
		}
	}
	return ops
}

func (x *heapInst) Apply(op space.Op) *space.Mismatch { return tag(x.start, x.apply(op)) }
func (x *heapInst) Check() *space.Mismatch            { return tag(x.start, x.check()) }

func (x *heapInst) apply(op space.Op) *space.Mismatch {
	switch op.Name {
	case "Push":
		v := op.Args[0]
		e := x.h.Push(v)
		if e == nil {
			return mm("Heap.Push|nil-handle", "Push(%d) returned nil", v)
		}
		if _, dup := x.live[e]; dup || e == x.stale || e == x.foreign {
			return mm("Heap.Push|handle-not-fresh", "Push(%d) returned a handle that already denotes another element", v)
		}
		if e.Value != v {
			return mm("Heap.Push|wrong-value", "Push(%d) returned a handle with Value %d", v, e.Value)
		}
		x.live[e] = v

	case "PushElementStale":
		e := x.stale
		x.h.PushElement(e)
		x.live[e] = e.Value
		x.stale = nil
		if m := x.sameMembers("PushElement", backing(x.h)); m != nil {
			return m
		}
		// the re-entered handle must be fully live again: Fix through it restores the order
		e.Value = 0
		x.live[e] = 0
		x.h.Fix(e)
		if m := x.sameMembers("Fix", backing(x.h)); m != nil {
			return m
		}

	case "Pop":
		e := x.h.Pop()
		if len(x.live) == 0 {
			if e != nil {
				return mm("Heap.Pop|wrong-result", "Pop on an empty heap returned an element (Value %d)", e.Value)
			}
			return nil
		}
		if m := x.checkMin("Pop", e); m != nil {
			return m
		}
		delete(x.live, e)
		x.stale = e
		if e.Index() != -1 {
			return mm("Element.Index|departed-not-minus-one", "the element returned by Pop reports Index() = %d, want -1", e.Index())
		}

	case "PopAllStop":
		before := backing(x.h)
		var got []int
		for v := range x.h.PopAll() {
			got = append(got, v)
			break
		}
		after := backing(x.h)
		in := map[*hElem]bool{}
		for _, e := range after {
			in[e] = true
		}
		var gone []*hElem
		for _, e := range before {
			if !in[e] {
				gone = append(gone, e)
			}
		}
		if len(got) != 1 || len(gone) != 1 || len(after) != len(before)-1 {
			return mm("Heap.PopAll|element-lost-or-duplicated", "PopAll stopped by the consumer after one element yielded %v and %d elements left the heap (had %d, has %d)", got, len(gone), len(before), len(after))
		}
		e := gone[0]
		if e.Value != got[0] {
			return mm("Heap.PopAll|element-lost-or-duplicated", "PopAll yielded %d but the element that left the heap has Value %d", got[0], e.Value)
		}
		if m := x.checkMin("PopAll", e); m != nil {
			return m
		}
		delete(x.live, e)
		x.stale = e
		if e.Index() != -1 {
			return mm("Element.Index|departed-not-minus-one", "the element yielded by PopAll reports Index() = %d, want -1", e.Index())
		}

	case "PopAllUnused":
		// creating the sequence takes nothing out: elements leave when they are yielded
		before := backing(x.h)
		seq := x.h.PopAll()
		_ = seq
		if !sameSeq(before, backing(x.h)) {
			return mm("Heap.PopAll|element-lost-or-duplicated", "calling PopAll() without ranging over the result changed the heap (had %d elements, has %d)", len(before), len(backing(x.h)))
		}

	case "PopAllStopThenAgain":
		// the same sequence value ranged twice: stopped after one element, then to the end — together
		// a permutation of the content, every element exactly once
		want := x.values()
		before := backing(x.h)
		seq := x.h.PopAll()
		var got []int
		for v := range seq {
			got = append(got, v)
			break
		}
		for v := range seq {
			got = append(got, v)
			if len(got) > len(want)+2 {
				break
			}
		}
		if !sameMultiset(got, want) || len(backing(x.h)) != 0 {
			return mm("Heap.PopAll|element-lost-or-duplicated", "one PopAll() sequence ranged twice (stopped after one element, then to the end) yielded %v and left %d elements; want a permutation of %v and an empty heap", got, len(backing(x.h)), sorted(want))
		}
		x.live = map[*hElem]int{}
		if len(before) > 0 {
			x.stale = before[0]
		}
		for i, e := range before {
			if e.Index() != -1 {
				return mm("Element.Index|departed-not-minus-one", "after PopAll the element that was at position %d reports Index() = %d, want -1", i, e.Index())
			}
		}

	case "PopAllPush":
		pv := op.Args[0]
		before := backing(x.h)
		want := append(x.values(), pv)
		var got []int
		var pushed *hElem
		for v := range x.h.PopAll() {
			if len(got) == 0 {
				pushed = x.h.Push(pv)
			}
			got = append(got, v)
			if len(got) > len(want)+2 {
				break
			}
		}
		// nothing lost, nothing duplicated: what was yielded plus what is still in the heap is the old
		// content plus the pushed value (the loop may or may not deliver the element pushed from inside it)
		rest := backing(x.h)
		all := append([]int(nil), got...)
		for _, e := range rest {
			all = append(all, e.Value)
		}
		if !sameMultiset(all, want) || len(rest) > 1 || (len(rest) == 1 && rest[0] != pushed) {
			return mm("Heap.PopAll|element-lost-or-duplicated", "PopAll with Push(%d) while handling the first element yielded %v and left %d element(s) in the heap; want yielded + left = a permutation of %v (only the pushed element may be left)", pv, got, len(rest), sorted(want))
		}
		x.live = map[*hElem]int{}
		if len(rest) == 1 {
			x.live[pushed] = pv
		}
		if len(before) > 0 {
			x.stale = before[0]
		}
		for i, e := range before {
			if e.Index() != -1 {
				return mm("Element.Index|departed-not-minus-one", "after PopAll the element that was at position %d reports Index() = %d, want -1", i, e.Index())
			}
		}

	case "Peek":
		before := backing(x.h)
		e := x.h.Peek()
		if len(x.live) == 0 {
			if e != nil {
				return mm("Heap.Peek|wrong-result", "Peek on an empty heap returned an element (Value %d)", e.Value)
			}
			return nil
		}
		if m := x.checkMin("Peek", e); m != nil {
			return m
		}
		if !sameSeq(before, backing(x.h)) {
			return mm("Heap.Peek|modified-heap", "Peek rearranged or removed elements")
		}

	case "Remove":
		b := backing(x.h)
		pos := op.Args[0]
		if pos >= len(b) {
			return mm("Heap|element-lost-or-duplicated", "backing array has %d elements, the model %d", len(b), len(x.live))
		}
		e := b[pos]
		x.h.Remove(e)
		delete(x.live, e)
		x.stale = e
		nb := backing(x.h)
		for _, o := range nb {
			if o == e {
				return mm("Heap.Remove|element-still-present", "Remove(handle at position %d, Value %d) left the element in the heap", pos, e.Value)
			}
		}
		if m := x.sameMembers("Remove", nb); m != nil {
			return m
		}
		if e.Index() != -1 {
			return mm("Element.Index|departed-not-minus-one", "the element removed by Remove reports Index() = %d, want -1", e.Index())
		}

	case "Fix":
		b := backing(x.h)
		pos, v := op.Args[0], op.Args[1]
		if pos >= len(b) {
			return mm("Heap|element-lost-or-duplicated", "backing array has %d elements, the model %d", len(b), len(x.live))
		}
		e := b[pos]
		e.Value = v
		x.live[e] = v
		x.h.Fix(e)
		if m := x.sameMembers("Fix", backing(x.h)); m != nil {
			return m
		}

	case "RemoveStale", "RemoveForeign", "FixStale", "FixForeign":
		before := backing(x.h)
		var what, fn, kind string
		switch op.Name {
		case "RemoveStale":
			x.h.Remove(x.stale)
			what, fn, kind = "Remove(stale handle)", "Remove", "stale"
		case "RemoveForeign":
			x.h.Remove(x.foreign)
			what, fn, kind = "Remove(handle of another heap)", "Remove", "foreign"
		case "FixStale":
			x.stale.Value = op.Args[0]
			x.h.Fix(x.stale)
			what, fn, kind = "Fix(stale handle)", "Fix", "stale"
		case "FixForeign":
			x.fval = op.Args[0]
			x.foreign.Value = x.fval
			x.h.Fix(x.foreign)
			what, fn, kind = "Fix(handle of another heap)", "Fix", "foreign"
		}
		if !sameSeq(before, backing(x.h)) {
			return mm("Heap."+fn+"|not-ignored|"+kind+"-handle", "%s changed the heap: %d elements before, %d after", what, len(before), len(backing(x.h)))
		}

	case "Init", "InitOtherCmp":
		dropped := backing(x.h)
		if op.Name == "InitOtherCmp" {
			// re-initialisation with a DIFFERENT comparator: the heap must order by the new one
			if x.k == cmpLess {
				x.k = cmpGreater
			} else {
				x.k = cmpLess
			}
			x.cmp = x.k.fn()
		}
		if m := x.adoptInit(op.Args); m != nil {
			return m
		}
		for i, e := range dropped {
			if _, again := x.live[e]; again {
				continue // an implementation may keep an element object; it then is live, not departed
			}
			x.stale = e
			if e.Index() != -1 {
				return mm("Heap.Init|replaced-element-still-attached",
					"Init(%v) on a heap of %d elements: the element that was at position %d (Value %d) has left the heap but reports Index() = %d, want -1 (Remove/Fix through it now act on whatever element sits at that position)",
					op.Args, len(dropped), i, e.Value, e.Index())
			}
		}
	}
	return nil
}

// checkMin: e (returned by Pop/Peek) must be a live element with its own value and no other live
// element may precede it. Ties are broken by the implementation; the model follows.
func (x *heapInst) checkMin(fn string, e *hElem) *space.Mismatch {
	if e == nil {
		return mm("Heap."+fn+"|wrong-result", "%s returned nil with %d elements in the heap", fn, len(x.live))
	}
	want, ok := x.live[e]
	if !ok {
		return mm("Heap."+fn+"|returned-non-member", "%s returned an element (Value %d) that is not in the heap (stale: %v, foreign: %v)", fn, e.Value, e == x.stale, e == x.foreign)
	}
	if e.Value != want {
		return mm("Heap."+fn+"|value-changed", "%s returned an element whose Value is %d, it was stored with %d", fn, e.Value, want)
	}
	if o, bad := precededBy(x.cmp, x.others(e), want); bad {
		return mm("Heap."+fn+"|not-minimal", "%s returned %d although %d precedes it under %q; content %v", fn, want, o, x.k, x.values())
	}
	return nil
}

// sameMembers: the backing array holds exactly the model's live handles, once each.
func (x *heapInst) sameMembers(fn string, b []*hElem) *space.Mismatch {
	seen := map[*hElem]bool{}
	for _, e := range b {
		if _, ok := x.live[e]; !ok || seen[e] || e == nil {
			return mm("Heap."+fn+"|element-lost-or-duplicated", "after %s the heap holds an element it should not hold (or holds one twice): %d slots, model %d elements", fn, len(b), len(x.live))
		}
		seen[e] = true
	}
	if len(b) != len(x.live) {
		return mm("Heap."+fn+"|element-lost-or-duplicated", "after %s the heap holds %d elements, the model %d", fn, len(b), len(x.live))
	}
	return nil
}

// order returns the model's live handles in canonical order: backing order first, then (only in
// already failing states) the ones the backing array lost.
func (x *heapInst) order() []*hElem {
	var out []*hElem
	in := map[*hElem]bool{}
	for _, e := range backing(x.h) {
		if _, ok := x.live[e]; ok && !in[e] {
			out = append(out, e)
			in[e] = true
		}
	}
	var rest []*hElem
	for e := range x.live {
		if !in[e] {
			rest = append(rest, e)
		}
	}
	sort.Slice(rest, func(i, j int) bool {
		if rest[i].Index() != rest[j].Index() {
			return rest[i].Index() < rest[j].Index()
		}
		return rest[i].Value < rest[j].Value
	})
	return append(out, rest...)
}

func (x *heapInst) Roots() []any {
	return []any{x.k.String(), x.h, handleTable{Live: x.order(), Stale: x.stale, Foreign: x.foreign}}
}

func (x *heapInst) Abstract() string { return abstractOf(x.k, x.values()) }

func (x *heapInst) check() *space.Mismatch {
	if x.pending != nil {
		return x.pending
	}
	if g := x.h.Len(); g != len(x.live) {
		return mm("Heap.Len|wrong", "Len = %d, model holds %d elements %v", g, len(x.live), x.values())
	}
	b := backing(x.h)
	if m := x.sameMembers("the call", b); m != nil {
		m.Sig = "Heap|element-lost-or-duplicated"
		return m
	}
	for i, e := range b {
		if e.Value != x.live[e] {
			return mm("Heap|value-changed", "element at position %d has Value %d, the model %d", i, e.Value, x.live[e])
		}
		if e.Index() != i {
			return mm("Element.Index|wrong-position|live-handle", "element at backing position %d (Value %d) reports Index() = %d", i, e.Value, e.Index())
		}
	}
	if x.stale != nil && x.stale.Index() != -1 {
		return mm("Element.Index|departed-not-minus-one", "an element that has left the heap reports Index() = %d, want -1", x.stale.Index())
	}
	// the second heap still holds its element
	if x.f.Len() != 1 || x.foreign.Index() != 0 || x.f.Peek() != x.foreign || x.foreign.Value != x.fval {
		return mm("Heap|foreign-heap-disturbed", "second heap: Len = %d, handle Index() = %d, Value %d (want 1, 0, %d)", x.f.Len(), x.foreign.Index(), x.foreign.Value, x.fval)
	}
	// Peek
	e := x.h.Peek()
	if len(x.live) == 0 {
		if e != nil {
			return mm("Heap.Peek|wrong-result", "Peek on an empty heap returned an element (Value %d)", e.Value)
		}
	} else if m := x.checkMin("Peek", e); m != nil {
		return m
	}
	// PopAll (destructive): a sorted permutation of the content; every element has left afterwards
	want := x.values()
	var got []int
	for v := range x.h.PopAll() {
		got = append(got, v)
		if len(got) > len(want)+2 {
			break
		}
	}
	if !sameMultiset(got, want) {
		return mm("Heap.PopAll|not-a-permutation", "PopAll yielded %v, content was %v", got, want)
	}
	if i, ok := sortedUnder(x.cmp, got); !ok {
		return mm("Heap.PopAll|not-sorted", "PopAll yielded %v: element %d precedes its predecessor under %q", got, i, x.k)
	}
	if g := x.h.Len(); g != 0 {
		return mm("Heap.Len|wrong", "Len = %d after PopAll", g)
	}
	for i, e := range b {
		if e.Index() != -1 {
			return mm("Element.Index|departed-not-minus-one", "after PopAll the element that was at position %d reports Index() = %d, want -1", i, e.Index())
		}
	}
	return nil
}

func heapSystem(r *common.Run) space.System {
	ks := comparators(r)
	per := 1 + len(startSlices)
	capN := sizeCap(r)
	return space.System{
		Name:   "Heap",
		Starts: len(ks) * per,
		New: func(s int) space.Instance {
			return newHeapInst(ks[s/per], s%per, capN)
		},
		Canon: &space.Canonizer{},
	}
}
