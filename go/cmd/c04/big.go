package main

import (
	"fmt"
	"sync/atomic"

	"verif/common"

	"github.com/welllog/golib/heapz"
)

// Family "deep heaps": the fix-point search stops at 6 (7) elements, where every position is the
// root, a child of the root or a leaf. A removed / fixed INNER node below the first level whose
// replacement comes from the other branch (and has to rise past the node's parent) needs 12
// positions: 3 and 4 are inner nodes under 1, the last position 11 hangs under 5 under 2. So:
// EVERY heap-ordered arrangement of 12 (13; thorough 15) values over {0,1,2} as a start state, then
// every single Remove(position) and every Fix(position) after every change of value, on Heap
// (handles), Slice and the generic functions, each followed by the complete battery and a drain.
// One operation deep, but from every member of a family of non-initial states.

// heapArrangements returns every array of n values over {0,1,2} in which no child precedes its parent.
func heapArrangements(n int, cmp func(a, b int) bool) [][]int {
	var out [][]int
	cur := make([]int, n)
	var rec func(i int)
	rec = func(i int) {
		if i == n {
			out = append(out, append([]int(nil), cur...))
			return
		}
		for v := 0; v < numValues; v++ {
			if i > 0 && cmp(v, cur[(i-1)/2]) {
				continue
			}
			cur[i] = v
			rec(i + 1)
		}
	}
	rec(0)
	return out
}

// drainSorted pops everything through pop and checks that what comes out is want, in an order in
// which no later value precedes an earlier one.
func drainCheck(cmp func(a, b int) bool, want []int, pop func() (int, bool)) string {
	rest := append([]int(nil), want...)
	var got []int
	for i := 0; i <= len(want); i++ {
		v, ok := pop()
		if !ok {
			break
		}
		got = append(got, v)
		if w, bad := precededBy(cmp, rest, v); bad {
			return fmt.Sprintf("drain delivered %v: %d came out while %d was still inside", got, v, w)
		}
		var found bool
		rest, found = removeOne(rest, v)
		if !found {
			return fmt.Sprintf("drain delivered %v: %d is not (or no longer) a member; members were %v", got, v, want)
		}
	}
	if len(rest) != 0 {
		return fmt.Sprintf("drain delivered %v and stopped; %v never came out", got, rest)
	}
	return ""
}

func deepHeaps(r *common.Run) {
	sizes := []int{12, 13}
	if r.Thorough() {
		sizes = []int{12, 13, 14, 15}
	}
	var cases, starts int64
	var cut int32
	report := func(sig, text string, c map[string]any) {
		r.Violation(sig, text, c, "")
	}
	for _, k := range comparators(r) {
		cmp := k.fn()
		for _, n := range sizes {
			if k != cmpLess && k != cmpGreater && n > 12 {
				continue // a comparator with more ties has far more arrangements: size 12 only
			}
			arrs := heapArrangements(n, cmp)
			starts += int64(len(arrs))
			r.Parallel(len(arrs), func(ai int) {
				s := arrs[ai]
				if r.Expired() {
					atomic.StoreInt32(&cut, 1)
					return
				}
				for pos := 0; pos < n; pos++ {
					// newVal == -1: Remove(pos); otherwise Value = newVal; Fix(pos)
					for newVal := -1; newVal < numValues; newVal++ {
						if newVal == s[pos] {
							continue
						}
						atomic.AddInt64(&cases, 3)
						opName := "Remove"
						if newVal >= 0 {
							opName = "Fix"
						}
						c := map[string]any{"start": fmt.Sprint(s), "comparator": k.String(), "position": pos, "operation": opName, "new_value": newVal}
						var want []int
						for i, v := range s {
							switch {
							case i != pos:
								want = append(want, v)
							case newVal >= 0:
								want = append(want, newVal)
							}
						}
						// ---- Heap with handles
						func() {
							h := new(heapz.Heap[int])
							var msg string
							_, st, p := common.Catch(func() {
								h.Init(append([]int(nil), s...), cmp)
								b := append([]*hElem(nil), backing(h)...)
								if len(b) != n {
									return // Init's own behaviour is judged by the search
								}
								// the handle standing at pos in the backing order; its value may differ from
								// s[pos] if Init rearranges a heap-ordered input (legal) — follow what is there
								e := b[pos]
								wantH := make([]int, 0, n)
								for _, o := range b {
									if o != e {
										wantH = append(wantH, o.Value)
									}
								}
								if newVal >= 0 {
									if e.Value == newVal {
										return
									}
									e.Value = newVal
									wantH = append(wantH, newVal)
									h.Fix(e)
								} else {
									h.Remove(e)
									if e.Index() != -1 {
										msg = fmt.Sprintf("the removed handle reports Index() %d, want -1", e.Index())
										return
									}
								}
								if h.Len() != len(wantH) {
									msg = fmt.Sprintf("Len() = %d, want %d", h.Len(), len(wantH))
									return
								}
								for i, o := range backing(h) {
									if o == nil || o.Index() != i {
										msg = fmt.Sprintf("the handle at backing position %d reports Index() %d", i, o.Index())
										return
									}
								}
								msg = drainCheck(cmp, wantH, func() (int, bool) {
									o := h.Pop()
									if o == nil {
										return 0, false
									}
									if o.Index() != -1 {
										msg = "a popped handle does not report Index() -1"
									}
									return o.Value, true
								})
							})
							if p {
								report("Heap."+opName+"|panic|deep-heap", fmt.Sprintf("Heap.%s on position %d of Init(%v, %s) panicked at %s", opName, pos, s, k, common.PanicSite(st)), c)
							} else if msg != "" {
								report("Heap."+opName+"|wrong-order-or-content|deep-heap", fmt.Sprintf("Init(%v, %s), %s(handle at position %d, new value %d): %s", s, k, opName, pos, newVal, msg), c)
							}
						}()
						// ---- Slice
						func() {
							var msg string
							_, st, p := common.Catch(func() {
								sl := heapz.FromSlice(append([]int(nil), s...), cmp)
								if len(sl.Values) != n {
									return
								}
								wantS := make([]int, 0, n)
								for i, v := range sl.Values {
									if i != pos {
										wantS = append(wantS, v)
									}
								}
								if newVal >= 0 {
									if sl.Values[pos] == newVal {
										return
									}
									sl.Values[pos] = newVal
									wantS = append(wantS, newVal)
									sl.Fix(pos)
								} else {
									was := sl.Values[pos]
									v, ok := sl.Remove(pos)
									if !ok || v != was {
										msg = fmt.Sprintf("Remove(%d) = %d, %v; the value there was %d", pos, v, ok, was)
										return
									}
								}
								if sl.Len() != len(wantS) {
									msg = fmt.Sprintf("Len() = %d, want %d", sl.Len(), len(wantS))
									return
								}
								if ch, ok := heapOrdered(cmp, sl.Values); !ok {
									msg = fmt.Sprintf("Values = %v: position %d precedes its parent", sl.Values, ch)
									return
								}
								msg = drainCheck(cmp, wantS, sl.Pop)
							})
							if p {
								report("Slice."+opName+"|panic|deep-heap", fmt.Sprintf("Slice.%s(%d) on FromSlice(%v, %s) panicked at %s", opName, pos, s, k, common.PanicSite(st)), c)
							} else if msg != "" {
								report("Slice."+opName+"|wrong-order-or-content|deep-heap", fmt.Sprintf("FromSlice(%v, %s), %s(%d, new value %d): %s", s, k, opName, pos, newVal, msg), c)
							}
						}()
						// ---- generic functions on a caller-supplied container
						func() {
							var msg string
							_, st, p := common.Catch(func() {
								b := &box{a: append([]int(nil), s...), less: cmp}
								heapz.Init[int](b)
								if len(b.a) != n {
									return
								}
								wantG := make([]int, 0, n)
								for i, v := range b.a {
									if i != pos {
										wantG = append(wantG, v)
									}
								}
								if newVal >= 0 {
									if b.a[pos] == newVal {
										return
									}
									b.a[pos] = newVal
									wantG = append(wantG, newVal)
									heapz.Fix[int](b, pos)
								} else {
									was := b.a[pos]
									v, m := asInt("Remove", heapz.Remove[int](b, pos))
									if m != nil || v != was {
										msg = fmt.Sprintf("Remove(h, %d) returned %v; the value there was %d", pos, v, was)
										return
									}
								}
								if len(b.a) != len(wantG) {
									msg = fmt.Sprintf("container holds %d values, want %d", len(b.a), len(wantG))
									return
								}
								if ch, ok := heapOrdered(cmp, b.a); !ok {
									msg = fmt.Sprintf("container = %v: position %d precedes its parent", b.a, ch)
									return
								}
								msg = drainCheck(cmp, wantG, func() (int, bool) {
									if len(b.a) == 0 {
										return 0, false
									}
									v, m := asInt("Pop", heapz.Pop[int](b))
									return v, m == nil
								})
							})
							if p {
								report("generic."+opName+"|panic|deep-heap", fmt.Sprintf("heapz.%s(h, %d) on the container %v (%s) panicked at %s", opName, pos, s, k, common.PanicSite(st)), c)
							} else if msg != "" {
								report("generic."+opName+"|wrong-order-or-content|deep-heap", fmt.Sprintf("container %v (%s), heapz.%s(h, %d, new value %d): %s", s, k, opName, pos, newVal, msg), c)
							}
						}()
					}
				}
			})
		}
	}
	if cut != 0 {
		r.Incomplete("deep heaps: the soft deadline passed before every arrangement was run")
	}
	r.Eval(cases)
	r.Nontrivial(cases)
	r.Section(map[string]any{"family": "deep heaps: every heap-ordered arrangement over {0,1,2} of the stated sizes as start state; every Remove(position) and every Fix(position) after every change of value on Heap (handles), Slice and the generic functions; battery + drain after each", "sizes": sizes, "start_states": starts, "cases": cases})
}
