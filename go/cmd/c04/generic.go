package main

import (
	"fmt"

	"verif/common"
	"verif/space"

	"github.com/welllog/golib/heapz"
)

// ---------------------------------------------------------------- System C: generic functions on a caller-supplied container

// box is the caller's container: a plain slice behind heapz.Interface[int].
type box struct {
	a    []int
	less func(a, b int) bool
}

func (b *box) Len() int           { return len(b.a) }
func (b *box) Less(i, j int) bool { return b.less(b.a[i], b.a[j]) }
func (b *box) Swap(i, j int)      { b.a[i], b.a[j] = b.a[j], b.a[i] }
func (b *box) Push(x int)         { b.a = append(b.a, x) }
func (b *box) Pop() int {
	n := len(b.a) - 1
	x := b.a[n]
	b.a = b.a[:n]
	return x
}

var _ heapz.Interface[int] = (*box)(nil)

type genInst struct {
	k     cmpKind
	cmp   func(a, b int) bool
	b     *box
	model []int
	cap   int
	start string
}

// start i: container filled with startSlices[i] in that (arbitrary) order, then heapz.Init.
func newGenInst(k cmpKind, idx, capN int) *genInst {
	x := &genInst{k: k, cmp: k.fn(), cap: capN}
	src := startSlices[idx]
	x.b = &box{a: append(make([]int, 0, len(src)), src...), less: x.cmp}
	x.model = append([]int(nil), src...)
	heapz.Init[int](x.b)
	x.start = fmt.Sprintf("container %v, Init, %s", src, k)
	return x
}

func (x *genInst) Ops() []space.Op {
	n := len(x.model)
	var ops []space.Op
	if n < x.cap {
		for v := 0; v < numValues; v++ {
			ops = append(ops, space.Op{Name: "Push", Args: []int{v}})
		}
	}
	if n > 0 {
		ops = append(ops, space.Op{Name: "Pop"}) // like container/heap, Pop on an empty container is the caller's error
	}
	for i := 0; i < n; i++ {
		ops = append(ops, space.Op{Name: "Remove", Args: []int{i}})
	}
	for i := 0; i < n; i++ {
		for v := 0; v < numValues; v++ {
			ops = append(ops, space.Op{Name: "Fix", Args: []int{i, v}})
		}
	}
	ops = append(ops, space.Op{Name: "Init"}) // on an already valid heap: must keep content and order
	return ops
}

func asInt(fn string, v any) (int, *space.Mismatch) {
	i, ok := v.(int)
	if !ok {
		return 0, mm("heapz."+fn+"|wrong-result", "%s returned %T(%v), want the int taken from the container", fn, v, v)
	}
	return i, nil
}

func (x *genInst) Apply(op space.Op) *space.Mismatch { return tag(x.start, x.apply(op)) }
func (x *genInst) Check() *space.Mismatch            { return tag(x.start, x.check()) }

func (x *genInst) apply(op space.Op) *space.Mismatch {
	switch op.Name {
	case "Push":
		heapz.Push[int](x.b, op.Args[0])
		x.model = append(x.model, op.Args[0])

	case "Pop":
		v, m := asInt("Pop", heapz.Pop[int](x.b))
		if m != nil {
			return m
		}
		rest, found := removeOne(x.model, v)
		if !found {
			return mm("heapz.Pop|returned-non-member", "Pop returned %d, content was %v", v, sorted(x.model))
		}
		if o, bad := precededBy(x.cmp, rest, v); bad {
			return mm("heapz.Pop|not-minimal", "Pop returned %d although %d precedes it under %q; content %v", v, o, x.k, sorted(x.model))
		}
		x.model = rest

	case "Remove":
		i := op.Args[0]
		if i >= len(x.b.a) {
			return mm("heapz|element-lost-or-duplicated", "container has %d elements, the model %d", len(x.b.a), len(x.model))
		}
		before := append([]int(nil), x.b.a...)
		v, m := asInt("Remove", heapz.Remove[int](x.b, i))
		if m != nil {
			return m
		}
		rest, found := removeOne(x.model, v)
		if !found {
			return mm("heapz.Remove|returned-non-member", "Remove(%d) returned %d, content was %v", i, v, sorted(x.model))
		}
		x.model = rest
		if v != before[i] {
			return mm("heapz.Remove|wrong-element", "Remove(%d) on %v returned %d, the element at that index is %d", i, before, v, before[i])
		}

	case "Fix":
		i, v := op.Args[0], op.Args[1]
		if i >= len(x.b.a) {
			return mm("heapz|element-lost-or-duplicated", "container has %d elements, the model %d", len(x.b.a), len(x.model))
		}
		old := x.b.a[i]
		x.b.a[i] = v
		if rest, found := removeOne(x.model, old); found {
			x.model = append(rest, v)
		}
		heapz.Fix[int](x.b, i)

	case "Init":
		heapz.Init[int](x.b)
	}
	return nil
}

func (x *genInst) Roots() []any     { return []any{x.k.String(), x.b.a} }
func (x *genInst) Abstract() string { return abstractOf(x.k, x.model) }

func (x *genInst) check() *space.Mismatch {
	if g := x.b.Len(); g != len(x.model) {
		return mm("heapz|element-lost-or-duplicated", "container holds %d elements, model %v", g, sorted(x.model))
	}
	if !sameMultiset(x.b.a, x.model) {
		return mm("heapz|element-lost-or-duplicated", "container = %v, model content %v", x.b.a, sorted(x.model))
	}
	if j, ok := heapOrdered(x.cmp, x.b.a); !ok {
		return mm("heapz|heap-order-violated|container", "container = %v: element %d precedes its parent %d under %q", x.b.a, j, (j-1)/2, x.k)
	}
	// destructive drain through the generic Pop: a sorted permutation
	want := sorted(x.model)
	var got []int
	for x.b.Len() > 0 && len(got) <= len(want)+2 {
		v, m := asInt("Pop", heapz.Pop[int](x.b))
		if m != nil {
			return m
		}
		got = append(got, v)
		if j, ok := heapOrdered(x.cmp, x.b.a); !ok {
			return mm("heapz|heap-order-violated|container", "during the drain container = %v: element %d precedes its parent under %q", x.b.a, j, x.k)
		}
	}
	if !sameMultiset(got, want) {
		return mm("heapz.Pop|drain-not-a-permutation", "draining yielded %v, content was %v", got, want)
	}
	if i, ok := sortedUnder(x.cmp, got); !ok {
		return mm("heapz.Pop|drain-not-sorted", "draining yielded %v: element %d precedes its predecessor under %q", got, i, x.k)
	}
	return nil
}

func genericSystem(r *common.Run) space.System {
	ks := comparators(r)
	per := len(startSlices)
	capN := sizeCap(r)
	return space.System{
		Name:   "Generic",
		Starts: len(ks) * per,
		New: func(s int) space.Instance {
			return newGenInst(ks[s/per], s%per, capN)
		},
		Canon: &space.Canonizer{},
	}
}
