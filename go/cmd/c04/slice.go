package main

import (
	"fmt"

	"verif/common"
	"verif/space"

	"github.com/welllog/golib/heapz"
)

// ---------------------------------------------------------------- System B: heapz.Slice

type sliceInst struct {
	k     cmpKind
	cmp   func(a, b int) bool
	s     heapz.Slice[int]
	model []int // multiset
	cap   int
	start string
}

// start 0: NewSlice(4), start 1: FromSlice(nil), start 2+i: FromSlice(copy of startSlices[i])
func newSliceInst(k cmpKind, idx, capN int) *sliceInst {
	x := &sliceInst{k: k, cmp: k.fn(), cap: capN}
	switch {
	case idx == 0:
		x.s = heapz.NewSlice[int](4, x.cmp)
		x.start = fmt.Sprintf("NewSlice(4, %s)", k)
	case idx == 1:
		x.s = heapz.FromSlice[int](nil, x.cmp)
		x.start = fmt.Sprintf("FromSlice(nil, %s)", k)
	default:
		src := startSlices[idx-2]
		x.s = heapz.FromSlice(append(make([]int, 0, len(src)), src...), x.cmp)
		x.model = append([]int(nil), src...)
		x.start = fmt.Sprintf("FromSlice(%v, %s)", src, k)
	}
	return x
}

func (x *sliceInst) Ops() []space.Op {
	n := len(x.model)
	var ops []space.Op
	if n < x.cap {
		for v := 0; v < numValues; v++ {
			ops = append(ops, space.Op{Name: "Push", Args: []int{v}})
		}
	}
	ops = append(ops, space.Op{Name: "Pop"}, space.Op{Name: "Peek"})
	for i := -1; i <= n; i++ {
		ops = append(ops, space.Op{Name: "Remove", Args: []int{i}})
	}
	for i := 0; i < n; i++ {
		for v := 0; v < numValues; v++ {
			ops = append(ops, space.Op{Name: "Fix", Args: []int{i, v}})
		}
	}
	// Fix at the two out-of-range indices (nothing can be overwritten there)
	ops = append(ops, space.Op{Name: "Fix", Args: []int{-1}}, space.Op{Name: "Fix", Args: []int{n}})
	// PopAll consumed partially (the consumer stops after k elements) and PopAll whose consumer
	// pushes while iterating: the yielded elements are exactly the ones that left the heap
	for k := 1; k <= 2 && k <= n; k++ {
		ops = append(ops, space.Op{Name: "PopAllStop", Args: []int{k}})
	}
	if n >= 1 {
		for v := 0; v < numValues; v++ {
			ops = append(ops, space.Op{Name: "PopAllPush", Args: []int{v}})
		}
		ops = append(ops, space.Op{Name: "PopAllUnused"}, space.Op{Name: "PopAllStopThenAgain"})
	}
	return ops
}

func (x *sliceInst) Apply(op space.Op) *space.Mismatch { return tag(x.start, x.apply(op)) }
func (x *sliceInst) Check() *space.Mismatch            { return tag(x.start, x.check()) }

func (x *sliceInst) apply(op space.Op) *space.Mismatch {
	switch op.Name {
	case "Push":
		x.s.Push(op.Args[0])
		x.model = append(x.model, op.Args[0])

	case "Pop":
		v, ok := x.s.Pop()
		if len(x.model) == 0 {
			if ok {
				return mm("Slice.Pop|wrong-result", "Pop on an empty heap returned (%d, true)", v)
			}
			return nil
		}
		if !ok {
			return mm("Slice.Pop|wrong-result", "Pop returned false with content %v", sorted(x.model))
		}
		rest, found := removeOne(x.model, v)
		if !found {
			return mm("Slice.Pop|returned-non-member", "Pop returned %d, content was %v", v, sorted(x.model))
		}
		if o, bad := precededBy(x.cmp, rest, v); bad {
			return mm("Slice.Pop|not-minimal", "Pop returned %d although %d precedes it under %q; content %v", v, o, x.k, sorted(x.model))
		}
		x.model = rest

	case "PopAllStop":
		k := op.Args[0]
		var got []int
		for v := range x.s.PopAll() {
			got = append(got, v)
			if len(got) == k {
				break
			}
		}
		if len(got) != k {
			return mm("Slice.PopAll|wrong-count", "PopAll stopped by the consumer after %d elements yielded %v, content was %v", k, got, sorted(x.model))
		}
		for _, v := range got {
			rest, found := removeOne(x.model, v)
			if !found {
				return mm("Slice.PopAll|not-a-permutation", "PopAll yielded %d which is not in the content %v", v, sorted(x.model))
			}
			if o, bad := precededBy(x.cmp, rest, v); bad {
				return mm("Slice.PopAll|not-sorted", "PopAll yielded %d although %d precedes it under %q", v, o, x.k)
			}
			x.model = rest // every yielded element has left the heap, the others are still in it (Check)
		}

	case "PopAllUnused":
		before := append([]int(nil), x.s.Values...)
		seq := x.s.PopAll()
		_ = seq
		if !sameMultiset(before, x.s.Values) {
			return mm("Slice.PopAll|element-lost-or-duplicated", "calling PopAll() without ranging over the result changed the heap from %v to %v", before, x.s.Values)
		}

	case "PopAllStopThenAgain":
		want := sorted(x.model)
		seq := x.s.PopAll()
		var got []int
		for v := range seq {
			got = append(got, v)
			break
		}
		for v := range seq {
			got = append(got, v)
			if len(got) > len(want)+2 {
				break
			}
		}
		if !sameMultiset(got, want) || len(x.s.Values) != 0 {
			return mm("Slice.PopAll|element-lost-or-duplicated", "one PopAll() sequence ranged twice (stopped after one element, then to the end) yielded %v and left %v; want a permutation of %v and an empty heap", got, x.s.Values, want)
		}
		x.model = nil

	case "PopAllPush":
		pv := op.Args[0]
		want := append(sorted(x.model), pv)
		var got []int
		for v := range x.s.PopAll() {
			if len(got) == 0 {
				x.s.Push(pv)
			}
			got = append(got, v)
			if len(got) > len(want)+2 {
				break
			}
		}
		// yielded + still in the heap = old content + pushed value (see Heap)
		all := append(append([]int(nil), got...), x.s.Values...)
		if !sameMultiset(all, want) || len(x.s.Values) > 1 || (len(x.s.Values) == 1 && x.s.Values[0] != pv) {
			return mm("Slice.PopAll|element-lost-or-duplicated", "PopAll with Push(%d) while handling the first element yielded %v and left %v; want yielded + left = a permutation of %v (only the pushed value may be left)", pv, got, x.s.Values, sorted(want))
		}
		x.model = append([]int(nil), x.s.Values...)

	case "Peek":
		before := append([]int(nil), x.s.Values...)
		v, ok := x.s.Peek()
		if len(x.model) == 0 {
			if ok {
				return mm("Slice.Peek|wrong-result", "Peek on an empty heap returned (%d, true)", v)
			}
			return nil
		}
		if m := x.checkPeek(v, ok); m != nil {
			return m
		}
		if !equalInts(before, x.s.Values) {
			return mm("Slice.Peek|modified-heap", "Peek changed Values from %v to %v", before, x.s.Values)
		}

	case "Remove":
		i := op.Args[0]
		before := append([]int(nil), x.s.Values...)
		v, ok := x.s.Remove(i)
		inRange := i >= 0 && i < len(before)
		if !ok {
			if inRange {
				return mm("Slice.Remove|wrong-result|in-range", "Remove(%d) returned false with Values %v", i, before)
			}
			return nil // nothing left the multiset; Check compares the content
		}
		rest, found := removeOne(x.model, v)
		if !found {
			return mm("Slice.Remove|returned-non-member", "Remove(%d) returned %d, content was %v", i, v, sorted(x.model))
		}
		x.model = rest
		if inRange && v != before[i] {
			return mm("Slice.Remove|wrong-element", "Remove(%d) on Values %v returned %d, the element at that index is %d", i, before, v, before[i])
		}

	case "Fix":
		i := op.Args[0]
		if len(op.Args) == 2 {
			if i >= len(x.s.Values) {
				return mm("Slice|element-lost-or-duplicated", "Values has %d elements, the model %d", len(x.s.Values), len(x.model))
			}
			old := x.s.Values[i]
			x.s.Values[i] = op.Args[1]
			if rest, found := removeOne(x.model, old); found {
				x.model = append(rest, op.Args[1])
			}
		}
		x.s.Fix(i)
	}
	return nil
}

func (x *sliceInst) checkPeek(v int, ok bool) *space.Mismatch {
	if !ok {
		return mm("Slice.Peek|wrong-result", "Peek returned false with content %v", sorted(x.model))
	}
	rest, found := removeOne(x.model, v)
	if !found {
		return mm("Slice.Peek|returned-non-member", "Peek returned %d, content is %v", v, sorted(x.model))
	}
	if o, bad := precededBy(x.cmp, rest, v); bad {
		return mm("Slice.Peek|not-minimal", "Peek returned %d although %d precedes it under %q; content %v", v, o, x.k, sorted(x.model))
	}
	return nil
}

func equalInts(a, b []int) bool {
	if len(a) != len(b) {
		return false
	}
	for i := range a {
		if a[i] != b[i] {
			return false
		}
	}
	return true
}

func (x *sliceInst) Roots() []any     { return []any{x.k.String(), &x.s} }
func (x *sliceInst) Abstract() string { return abstractOf(x.k, x.model) }

func (x *sliceInst) check() *space.Mismatch {
	if g := x.s.Len(); g != len(x.model) {
		return mm("Slice.Len|wrong", "Len = %d, model holds %v", g, sorted(x.model))
	}
	if !sameMultiset(x.s.Values, x.model) {
		return mm("Slice|element-lost-or-duplicated", "Values = %v, model content %v", x.s.Values, sorted(x.model))
	}
	if j, ok := heapOrdered(x.cmp, x.s.Values); !ok {
		return mm("Slice.Values|heap-order-violated", "Values = %v: element %d precedes its parent %d under %q", x.s.Values, j, (j-1)/2, x.k)
	}
	v, ok := x.s.Peek()
	if len(x.model) == 0 {
		if ok {
			return mm("Slice.Peek|wrong-result", "Peek on an empty heap returned (%d, true)", v)
		}
	} else if m := x.checkPeek(v, ok); m != nil {
		return m
	}
	want := sorted(x.model)
	var got []int
	for v := range x.s.PopAll() {
		got = append(got, v)
		if len(got) > len(want)+2 {
			break
		}
	}
	if !sameMultiset(got, want) {
		return mm("Slice.PopAll|not-a-permutation", "PopAll yielded %v, content was %v", got, want)
	}
	if i, ok := sortedUnder(x.cmp, got); !ok {
		return mm("Slice.PopAll|not-sorted", "PopAll yielded %v: element %d precedes its predecessor under %q", got, i, x.k)
	}
	if g := x.s.Len(); g != 0 {
		return mm("Slice.Len|wrong", "Len = %d after PopAll", g)
	}
	return nil
}

func sliceSystem(r *common.Run) space.System {
	ks := comparators(r)
	per := 2 + len(startSlices)
	capN := sizeCap(r)
	return space.System{
		Name:   "Slice",
		Starts: len(ks) * per,
		New: func(s int) space.Instance {
			return newSliceInst(ks[s/per], s%per, capN)
		},
		Canon: &space.Canonizer{},
	}
}
