package main

import (
	"fmt"
	"math"

	"verif/common"

	"github.com/welllog/golib/heapz"
)

// A caller-supplied container need not be a slice: vheap is a sparse one with up to MaxInt
// positions (every position that was never written holds the same large value, so the heap order
// holds wherever nothing was written). The generic functions are run at the far end of the index
// range, where 2*i+1 no longer fits an int: they must never hand Less / Swap an index outside
// [0, Len()), and Fix / Remove must leave the order intact along every position they touched.
type vheap struct {
	n     int
	m     map[int]int
	calls []string // Less / Swap calls with an index outside [0, n)
	touch map[int]bool
}

const vDefault = 1 << 40

func (v *vheap) at(i int) int {
	if x, ok := v.m[i]; ok {
		return x
	}
	return vDefault
}
func (v *vheap) chk(op string, i, j int) bool {
	v.touch[i], v.touch[j] = true, true
	if i < 0 || j < 0 || i >= v.n || j >= v.n {
		if len(v.calls) < 4 {
			v.calls = append(v.calls, fmt.Sprintf("%s(%d, %d)", op, i, j))
		}
		return false
	}
	return true
}
func (v *vheap) Len() int { return v.n }
func (v *vheap) Less(i, j int) bool {
	if !v.chk("Less", i, j) {
		return false
	}
	return v.at(i) < v.at(j)
}
func (v *vheap) Swap(i, j int) {
	if !v.chk("Swap", i, j) {
		return
	}
	a, b := v.at(i), v.at(j)
	v.m[i], v.m[j] = b, a
}
func (v *vheap) Push(x int) { v.m[v.n] = x; v.n++ }
func (v *vheap) Pop() int   { v.n--; x := v.at(v.n); delete(v.m, v.n); return x }

func (v *vheap) orderBroken() string {
	for i := range v.touch {
		if i <= 0 || i >= v.n {
			continue
		}
		if p := (i - 1) / 2; v.at(i) < v.at(p) {
			return fmt.Sprintf("position %d holds %d, its parent %d holds %d", i, v.at(i), p, v.at(p))
		}
	}
	return ""
}

func virtualContainers(r *common.Run) {
	var cases int64
	for _, n := range []int{math.MaxInt, math.MaxInt - 1, math.MaxInt/2 + 2, 1<<32 + 1} {
		for _, i := range []int{n - 1, n - 2, (n - 1) / 2, (n-1)/2 + 1, n / 2, n/2 - 1, 1, 0} {
			for _, val := range []int{0, vDefault, vDefault + 5} {
				for op := 0; op < 2; op++ {
					cases++
					v := &vheap{n: n, m: map[int]int{}, touch: map[int]bool{}}
					name := "Fix"
					var popped any
					_, st, p := common.Catch(func() {
						if op == 0 {
							v.m[i] = val
							heapz.Fix[int](v, i)
						} else {
							name = "Remove"
							v.m[n-1] = val // the element that takes the place of the removed one
							popped = heapz.Remove[int](v, i)
						}
					})
					c := map[string]any{"container_len": n, "index": i, "value": val, "operation": name}
					switch {
					case p:
						r.Violation("generic."+name+"|panic|huge-sparse-container", fmt.Sprintf("heapz.%s(h, %d) on a container of %d positions panicked at %s", name, i, n, common.PanicSite(st)), map[string]any{"case": c, "stack": st}, "")
					case len(v.calls) > 0:
						r.Violation("generic."+name+"|index-out-of-range|huge-sparse-container", fmt.Sprintf("heapz.%s(h, %d) on a container of %d positions called %v: indices outside [0, Len())", name, i, n, v.calls), c, "")
					case v.orderBroken() != "":
						r.Violation("generic."+name+"|heap-order|huge-sparse-container", fmt.Sprintf("after heapz.%s(h, %d) on a container of %d positions (value %d): %s", name, i, n, val, v.orderBroken()), c, "")
					case op == 1 && v.n != n-1:
						r.Violation("generic.Remove|wrong-len|huge-sparse-container", fmt.Sprintf("Len() = %d after Remove, want %d (returned %v)", v.n, n-1, popped), c, "")
					}
				}
			}
		}
	}
	r.Eval(cases)
	r.Nontrivial(cases)
	r.Section(map[string]any{"family": "generic Fix / Remove on a sparse caller-supplied container of up to MaxInt positions (indices where 2i+1 overflows)", "cases": cases})
}
