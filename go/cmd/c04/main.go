// C04 — heapz heaps behave as priority queues with stable element handles.
// Engine E2: explicit-state BFS to the fix-point on the real objects, compared step by step with
// a sorted-multiset + handle-table reference model.
//
// Three systems (files heap.go, slice.go, generic.go), each searched for every comparator:
//
//	Heap    heapz.Heap with *Element handles (live, one stale, one foreign), Init as start and as op
//	Slice   heapz.Slice, Remove(i)/Fix(i) for i in -1..len
//	Generic heapz.Init/Push/Pop/Remove/Fix on a caller-supplied container
//
// The comparator is part of the start state (and of the canonical key), so that one defect gives
// one signature whatever comparator exposes it first.
package main

import (
	"fmt"
	"sort"
	"strings"
	"time"

	"verif/common"
	"verif/space"
)

// ---------------------------------------------------------------- comparators

type cmpKind int

const (
	cmpLess    cmpKind = iota // a < b
	cmpGreater                // a > b
	cmpHalf                   // a/2 < b/2: a strict weak order in which the distinct values 0 and 1 tie
)

func (k cmpKind) String() string {
	switch k {
	case cmpLess:
		return "less"
	case cmpGreater:
		return "greater"
	}
	return "half-less"
}

func (k cmpKind) fn() func(a, b int) bool {
	switch k {
	case cmpLess:
		return func(a, b int) bool { return a < b }
	case cmpGreater:
		return func(a, b int) bool { return a > b }
	}
	return func(a, b int) bool { return a/2 < b/2 }
}

func comparators(r *common.Run) []cmpKind {
	if r.Thorough() {
		return []cmpKind{cmpLess, cmpGreater, cmpHalf}
	}
	return []cmpKind{cmpLess, cmpGreater}
}

// ---------------------------------------------------------------- alphabets

const numValues = 3 // values 0,1,2: ties everywhere

// allSlices returns every slice over {0,1,2} of length 0..maxLen, shortest first.
func allSlices(maxLen int) [][]int {
	out := [][]int{{}}
	prev := [][]int{{}}
	for l := 1; l <= maxLen; l++ {
		var cur [][]int
		for _, p := range prev {
			for v := 0; v < numValues; v++ {
				s := append(append([]int(nil), p...), v)
				cur = append(cur, s)
			}
		}
		out = append(out, cur...)
		prev = cur
	}
	return out
}

var initOpSlices = allSlices(4) // 1+3+9+27+81 = 121: arguments of the Init operations

// startSlices: the start states. Besides every slice of length <= 4, every arrangement of the
// LONGEST heaps (length = size cap, 729 / 2187 slices): heapify starts its loop at index n/2-1,
// so only n >= 6 makes it sift from index 2 — the short starts never do.
var startSlices = allSlices(4)

func extendStarts(sizeCap int) {
	all := allSlices(sizeCap)
	for _, s := range all {
		if len(s) == sizeCap {
			startSlices = append(startSlices, s)
		}
	}
}

// sizeCap: 6 is the smallest heap in which Remove(i) must sift the displaced last element UP (it
// comes from the other subtree: positions 3/4 hang under 1, the last position 5 under 2), so the
// quick tier already needs 6 (a "Remove sifts down only" mutant survives every cap <= 5).
func sizeCap(r *common.Run) int {
	if r.Thorough() {
		return 7
	}
	return 6
}

// ---------------------------------------------------------------- multiset helpers

func sorted(s []int) []int {
	c := append([]int(nil), s...)
	sort.Ints(c)
	return c
}

func sameMultiset(a, b []int) bool {
	if len(a) != len(b) {
		return false
	}
	x, y := sorted(a), sorted(b)
	for i := range x {
		if x[i] != y[i] {
			return false
		}
	}
	return true
}

// removeOne removes one occurrence of v; false if v is not present.
func removeOne(s []int, v int) ([]int, bool) {
	for i, x := range s {
		if x == v {
			out := append([]int(nil), s[:i]...)
			return append(out, s[i+1:]...), true
		}
	}
	return s, false
}

// precededBy returns a value of rest that strictly precedes v under cmp, if any.
func precededBy(cmp func(a, b int) bool, rest []int, v int) (int, bool) {
	for _, o := range rest {
		if cmp(o, v) {
			return o, true
		}
	}
	return 0, false
}

// heapOrdered checks !cmp(child, parent) for every child position of the implicit binary tree.
func heapOrdered(cmp func(a, b int) bool, s []int) (child int, ok bool) {
	for j := 1; j < len(s); j++ {
		if cmp(s[j], s[(j-1)/2]) {
			return j, false
		}
	}
	return 0, true
}

// sortedUnder checks that no later element strictly precedes its predecessor.
func sortedUnder(cmp func(a, b int) bool, s []int) (pos int, ok bool) {
	for i := 1; i < len(s); i++ {
		if cmp(s[i], s[i-1]) {
			return i, false
		}
	}
	return 0, true
}

func abstractOf(k cmpKind, vals []int) string {
	var sb strings.Builder
	sb.WriteString(k.String())
	sb.WriteByte(':')
	for _, v := range sorted(vals) {
		sb.WriteByte(byte('0' + v))
	}
	return sb.String()
}

func mm(sig, format string, a ...any) *space.Mismatch {
	return &space.Mismatch{Sig: sig, What: fmt.Sprintf(format, a...)}
}

// tag appends the start state to a report (the engine records it only as a number).
func tag(start string, m *space.Mismatch) *space.Mismatch {
	if m != nil && !strings.Contains(m.What, " [start: ") {
		m.What += " [start: " + start + "]"
	}
	return m
}

// ---------------------------------------------------------------- main

func main() {
	r := common.Start("C04", "model_checking")
	if valuesField < 0 {
		common.Infra("heapz.Heap has not exactly one private field of type []*Element[T]: the harness reads the backing order through it")
	}
	extendStarts(sizeCap(r))
	var results []space.Result
	for _, sys := range []space.System{heapSystem(r), sliceSystem(r), genericSystem(r)} {
		res := space.Search(r, sys)
		r.Nontrivial(int64(res.States))
		fmt.Printf("%-8s states=%d transitions=%d depth=%d fix-point=%v cap=%q (t+%.1fs)\n", res.Name, res.States, res.Transitions, res.Depth, res.FixPoint, res.CapHit, time.Since(r.Start).Seconds())
		results = append(results, res)
	}
	space.Summarize(r, results)
	virtualContainers(r)
	deepHeaps(r)
	var cs []string
	for _, k := range comparators(r) {
		cs = append(cs, k.String())
	}
	r.Cov("comparators", cs)
	r.Cov("size_cap", sizeCap(r))
	r.Cov("value_alphabet", []int{0, 1, 2})
	r.SampleL("Heap", map[string]any{"start": "Init([2,0,1], less)", "then": "Push(0), Fix(handle at position 2 after Value=0), Remove(stale), Pop, PopAll"})
	r.SampleL("Slice", map[string]any{"start": "FromSlice([1,1,0], greater)", "then": "Remove(-1), Remove(3), Values[1]=2; Fix(1), Pop"})
	r.Assume(
		fmt.Sprintf("small scope: values {0,1,2}, at most %d elements (growing operations are not offered at the cap), start slices of length <= 4 and every arrangement of length = the size cap, Init arguments of length <= 4, comparators %v", sizeCap(r), cs),
		"equivalent departed handles (owner nil, index -1) are represented by the most recently departed one; one handle of a second one-element heap stands for all foreign handles",
		"live handles are named by their position in Heap's private backing array (read through reflect), which merges states that differ only in the order of the harness table; every departed handle is checked for Index() == -1 at the moment it departs",
		"deep heaps: every heap-ordered arrangement over {0,1,2} of 12 and 13 (thorough also 14, 15) values, one Remove / Fix deep — larger heaps and longer histories on them are outside",
		"generic functions: Pop only on a non-empty container and Remove/Fix only at indices 0..Len()-1 (the property text says nothing about other indices there; they behave like container/heap); zero-value Heap/Slice without a comparator are not constructed heaps and are not exercised",
	)
	r.Finish("states = distinct canonical dumps of comparator + private object graph + handle table (live handles in backing order, stale, foreign); every transition is one real call compared with a multiset/handle-table model that follows the implementation's tie-breaking (the returned element is checked to be minimal and then removed from the model), followed by the battery Len / Index of every handle / backing-set equality / heap order (Slice, container) / Peek / destructive PopAll (sorted permutation); non-trivial = every distinct state")
}
