// C06 — Trie Replace / ReplaceWithMask are total and rewrite exactly the matched regions
// (engine E3, bounded-exhaustive).
//
// Space (verif/triex.Families, the C05 spaces): pattern sets × insertion histories × texts over
// {a,b}, {a,b,c}, the "one long pattern covering several short disjoint ones" shape, the width
// alphabet {a, é, 世, 😀, U+FFFD}, and every text over {a, C3, A9, EF, BF, BD, FF} that is not
// valid UTF-8. Replacement "#" (in no alphabet) and "", mask '*' (and the 3-byte '＊' where
// multi-byte runes are in play).
//
// Oracle (brute force with package strings): occurrences of the distinct non-empty patterns →
// covered bytes → maximal covered regions R1..Rk with their occurrence counts.
//   - no panic, for every text;
//   - valid UTF-8 text: ReplaceWithMask == text with exactly the runes inside regions replaced
//     by the mask (hence rune count preserved);
//   - valid UTF-8 text: Replace(text,"#") == text[0:R1.lo] #^c1 text[R1.hi:R2.lo] #^c2 … with
//     1 <= ci <= occurrences(Ri) — the latitude of the property text; Replace(text,"") == the
//     uncovered bytes in order;
//   - text not valid UTF-8: Replace is judged on bytes like any text (covered bytes removed, all
//     other bytes kept in order); ReplaceWithMask rune by rune, an invalid byte counting as one
//     rune (U+FFFD) whose spelling in the output is not prescribed.
package main

import (
	"fmt"
	"strings"
	"unicode/utf8"

	"verif/common"
	"verif/triex"
)

const (
	xMerged  = iota // cases with a region made of >= 2 occurrences
	xInvalid        // cases whose text is not valid UTF-8
	xRegions        // total number of regions seen
)

func main() {
	r := common.Start("C06", "model_checking")
	b := triex.TierBounds(r.Thorough())
	// a C06 case costs ~3x a C05 case (four rewriting calls, string building in the oracle):
	// one letter less on the {a,b,c} texts, and on the {a,b} texts of the thorough tier
	b.ABCText--
	if r.Thorough() {
		b.ABText--
	}
	fams := triex.Families(b)
	global := triex.NewCollector()
	tot := &triex.Totals{}
	finish := func() {
		global.Flush(r)
		r.Cov("cases_with_region_of_2+_occurrences", tot.Extra[xMerged])
		r.Cov("cases_text_not_valid_utf8", tot.Extra[xInvalid])
		r.Cov("regions_total", tot.Extra[xRegions])
		r.Assume(assumptions...)
		r.Finish(rule)
	}
	triex.Watch(func(reason string, v *triex.Visit, in *string) {
		entry, input := "Insert+BuildFailureLinks", ""
		if in != nil {
			entry, input = "Replace/ReplaceWithMask", *in
		}
		r.Violation(entry+"|no-termination|"+v.Oracle.KeyClass(input),
			fmt.Sprintf("%s on text %q %s", entry, input, reason), v.Case("text", input, nil),
			"func TestReplay(t *testing.T) {\n"+triex.GoSetup(v.Set, v.Hist)+fmt.Sprintf("\tin := %q\n\ttr.Replace(in, \"#\"); tr.ReplaceWithMask(in, '*')\n}", input))
		r.Incomplete("aborted by the watchdog: " + reason)
		finish()
	})
	for i, f := range fams {
		f.Keys = nil
		f.Run(r, i, global, tot, visit)
		sample(r, f)
	}
	finish()
}

var assumptions = []string{
	"small-scope: bounds per family are listed in coverage.sections; outside: longer patterns, larger pattern sets, longer texts",
	"patterns are valid UTF-8; replacement is \"#\" (in no alphabet, so the output parses unambiguously) or \"\"; mask is '*' or '＊'",
	"Replace may emit between 1 and #occurrences copies of the replacement per maximal covered region",
	"text that is not valid UTF-8: Replace is judged byte-wise like any other text; ReplaceWithMask rune by rune with every invalid byte counting as one rune (the bytes that spell an unmasked invalid rune in the output are not prescribed)",
	"the trie is queried after BuildFailureLinks (as in C05); Replace on a trie that was never built is outside",
	"a case is one (family, pattern set, insertion history, text) with Replace(\"#\"), Replace(\"\") and ReplaceWithMask",
}

const rule = "every (pattern set, history, text) of each family is enumerated once (no sampling); non-trivial = the text contains >= 1 occurrence of a non-empty inserted pattern (>= 1 covered region)"

func sample(r *common.Run, f *triex.Family) {
	if len(f.Sets) == 0 || len(f.Texts) == 0 {
		return
	}
	set := f.Sets[len(f.Sets)*2/3]
	ps := make([]string, len(set))
	for i, k := range set {
		ps[i] = f.Pats[k]
	}
	o := triex.NewOracle(ps)
	cov := make([]bool, 4096)
	for ti := len(f.Texts) - 1; ti >= 0; ti-- {
		if regs := o.Regions(f.Texts[ti].S, cov, nil); len(regs) > 0 {
			r.SampleL(f.Name, map[string]any{"patterns": triex.Q(ps), "text": fmt.Sprintf("%q", f.Texts[ti].S), "regions_lo_hi_occurrences": fmt.Sprint(regs)})
			return
		}
	}
}

// kept returns the uncovered bytes of text in order.
func kept(text string, regs []triex.Region) string {
	if len(regs) == 0 {
		return text
	}
	var b strings.Builder
	prev := 0
	for _, rg := range regs {
		b.WriteString(text[prev:rg.Lo])
		prev = rg.Hi
	}
	b.WriteString(text[prev:])
	return b.String()
}

// masked returns text (valid UTF-8) with every rune that starts inside a region replaced by mask.
func masked(text string, cov []bool, mask rune, regs []triex.Region) string {
	if len(regs) == 0 {
		return text
	}
	var b strings.Builder
	for i, c := range text {
		if cov[i] {
			b.WriteRune(mask)
		} else {
			b.WriteRune(c)
		}
	}
	return b.String()
}

// maskedBytes is the expectation for text that is not valid UTF-8: every maximal covered region
// (a union of occurrences of valid patterns, hence valid UTF-8 itself) becomes one mask rune per
// rune of the region, every other byte is kept verbatim.
func maskedBytes(text string, mask rune, regs []triex.Region) string {
	var b strings.Builder
	prev := 0
	for _, rg := range regs {
		b.WriteString(text[prev:rg.Lo])
		for n := utf8.RuneCountInString(text[rg.Lo:rg.Hi]); n > 0; n-- {
			b.WriteRune(mask)
		}
		prev = rg.Hi
	}
	b.WriteString(text[prev:])
	return b.String()
}

// shape describes the set of legal Replace outputs, e.g. `"x" #{1..2} "yz" #{1..1} ""`.
func shape(text string, regs []triex.Region) string {
	var b strings.Builder
	prev := 0
	for _, rg := range regs {
		fmt.Fprintf(&b, "%q #{1..%d} ", text[prev:rg.Lo], rg.Occ)
		prev = rg.Hi
	}
	fmt.Fprintf(&b, "%q", text[prev:])
	return b.String()
}

// parseReplace checks out against text[0:R1.lo] #^c1 text[R1.hi:R2.lo] … with 1 <= ci <= Occ(Ri).
func parseReplace(out, text string, regs []triex.Region) bool {
	pos, prev := 0, 0
	for _, rg := range regs {
		seg := text[prev:rg.Lo]
		if !strings.HasPrefix(out[pos:], seg) {
			return false
		}
		pos += len(seg)
		c := 0
		for pos < len(out) && out[pos] == '#' {
			c++
			pos++
		}
		if c < 1 || c > rg.Occ {
			return false
		}
		prev = rg.Hi
	}
	return out[pos:] == text[prev:]
}

// longTok: a replacement longer than every match (5 bytes, one multi-byte rune), so that the output
// outgrows the input; none of its bytes occurs in a text.
const longTok = "[＃]"

func parseReplaceTok(out, text string, regs []triex.Region, tok string) bool {
	pos, prev := 0, 0
	for _, rg := range regs {
		seg := text[prev:rg.Lo]
		if !strings.HasPrefix(out[pos:], seg) {
			return false
		}
		pos += len(seg)
		c := 0
		for strings.HasPrefix(out[pos:], tok) {
			c++
			pos += len(tok)
		}
		if c < 1 || c > rg.Occ {
			return false
		}
		prev = rg.Hi
	}
	return out[pos:] == text[prev:]
}

func validClass(o *triex.Oracle, t *triex.Text) string {
	if !t.Valid {
		return o.TextClass(t)
	}
	return "valid-utf8"
}

func visit(sh *triex.Shard, v *triex.Visit) {
	o, tr := v.Oracle, v.Trie
	masks := []rune{'*'}
	// the closures handed to Try are created once per trie, not once per text (hot loop)
	var (
		text, out string
		mask      rune
	)
	callHash := func() { out = tr.Replace(text, "#") }
	callEmpty := func() { out = tr.Replace(text, "") }
	callLong := func() { out = tr.Replace(text, longTok) }
	callMask := func() { out = tr.ReplaceWithMask(text, mask) }
	setup := func() string { return "func TestReplay(t *testing.T) {\n" + triex.GoSetup(v.Set, v.Hist) }
	for ti := range v.Fam.Texts {
		t := &v.Fam.Texts[ti]
		text = t.S
		sh.At(&t.S)
		sh.Ev++
		regs := o.Regions(text, sh.Cov, sh.Regs)
		sh.Regs = regs[:0]
		cov := sh.Cov[:len(text)]
		if len(regs) > 0 {
			sh.Nt++
			sh.Extra[xRegions] += int64(len(regs))
			for _, rg := range regs {
				if rg.Occ >= 2 {
					sh.Extra[xMerged]++
					break
				}
			}
		}
		if !t.Valid {
			sh.Extra[xInvalid]++
		}
		// ---- Replace with "#"
		if triex.Try(callHash) {
			sh.Col.Report("Replace|panic|"+validClass(o, t), v.Size(text), func() (string, any, string) {
				site, st := triex.PanicInfo(func() { tr.Replace(text, "#") })
				return fmt.Sprintf("Replace(%q, \"#\") panicked at %s; want %s", text, site, shape(text, regs)),
					v.Case("text", text, map[string]any{"repl": "#", "stack": st, "want_shape": shape(text, regs)}),
					setup() + fmt.Sprintf("\t_ = tr.Replace(%q, \"#\") // panics\n}", text)
			})
		} else {
			// byte-level clauses ("removes exactly the bytes covered by occurrences, keeps all other
			// bytes in order") apply to every text, valid UTF-8 or not
			k := kept(text, regs)
			switch {
			case len(regs) == 0 && out == text:
			case strings.ReplaceAll(out, "#", "") != k:
				sh.Col.Report("Replace|wrong-kept-bytes|"+o.TextClass(t), v.Size(text), func() (string, any, string) {
					return fmt.Sprintf("Replace(%q, \"#\") = %q keeps the bytes %q, want exactly the uncovered bytes %q (legal outputs: %s)", text, out, strings.ReplaceAll(out, "#", ""), k, shape(text, regs)),
						v.Case("text", text, map[string]any{"repl": "#", "got": fmt.Sprintf("%q", out), "want_shape": shape(text, regs)}),
						setup() + fmt.Sprintf("\tgot := tr.Replace(%q, \"#\")\n\tif kept := strings.ReplaceAll(got, \"#\", \"\"); kept != %q {\n\t\tt.Fatalf(\"Replace = %%q keeps %%q, want %%q\", got, kept, %q)\n\t}\n}", text, k, k)
				})
			case !parseReplace(out, text, regs):
				sh.Col.Report("Replace|replacement-misplaced-or-miscounted|"+o.TextClass(t), v.Size(text), func() (string, any, string) {
					return fmt.Sprintf("Replace(%q, \"#\") = %q, want %s (between 1 and #occurrences copies per maximal covered region, none elsewhere)", text, out, shape(text, regs)),
						v.Case("text", text, map[string]any{"repl": "#", "got": fmt.Sprintf("%q", out), "want_shape": shape(text, regs)}),
						setup() + fmt.Sprintf("\tt.Logf(\"Replace = %%q, want %%s\", tr.Replace(%q, \"#\"), %q)\n\tt.Fail()\n}", text, shape(text, regs))
				})
			}
		}

		// ---- Replace with ""
		if triex.Try(callEmpty) {
			sh.Col.Report("Replace|panic|"+validClass(o, t), v.Size(text), func() (string, any, string) {
				site, st := triex.PanicInfo(func() { tr.Replace(text, "") })
				return fmt.Sprintf("Replace(%q, \"\") panicked at %s; want %q", text, site, kept(text, regs)),
					v.Case("text", text, map[string]any{"repl": "", "stack": st}),
					setup() + fmt.Sprintf("\t_ = tr.Replace(%q, \"\") // panics\n}", text)
			})
		} else {
			if k := kept(text, regs); out != k {
				sh.Col.Report("Replace|wrong-kept-bytes|"+o.TextClass(t), v.Size(text), func() (string, any, string) {
					return fmt.Sprintf("Replace(%q, \"\") = %q, want exactly the uncovered bytes %q", text, out, k),
						v.Case("text", text, map[string]any{"repl": "", "got": fmt.Sprintf("%q", out), "want": fmt.Sprintf("%q", k)}),
						setup() + fmt.Sprintf("\tif got := tr.Replace(%q, \"\"); got != %q {\n\t\tt.Fatalf(\"Replace = %%q, want %%q\", got, %q)\n\t}\n}", text, k, k)
				})
			}
		}

		// ---- Replace with a replacement longer than the matches (the output outgrows the input)
		if len(regs) > 0 {
			sh.Ev++
			if triex.Try(callLong) {
				sh.Col.Report("Replace|panic|"+validClass(o, t), v.Size(text), func() (string, any, string) {
					site, st := triex.PanicInfo(func() { tr.Replace(text, longTok) })
					return fmt.Sprintf("Replace(%q, %q) panicked at %s", text, longTok, site),
						v.Case("text", text, map[string]any{"repl": longTok, "stack": st}),
						setup() + fmt.Sprintf("\t_ = tr.Replace(%q, %q) // panics\n}", text, longTok)
				})
			} else if !parseReplaceTok(out, text, regs, longTok) {
				sh.Col.Report("Replace|long-replacement|"+o.TextClass(t), v.Size(text), func() (string, any, string) {
					return fmt.Sprintf("Replace(%q, %q) = %q, want %s with %q for # (between 1 and #occurrences copies per maximal covered region, every other byte kept)", text, longTok, out, shape(text, regs), longTok),
						v.Case("text", text, map[string]any{"repl": longTok, "got": fmt.Sprintf("%q", out), "want_shape": shape(text, regs)}),
						setup() + fmt.Sprintf("\tt.Logf(\"Replace = %%q, want %%s\", tr.Replace(%q, %q), %q)\n\tt.Fail()\n}", text, longTok, shape(text, regs))
				})
			}
		}

		// ---- ReplaceWithMask
		masks = masks[:1]
		if o.Multi || !t.ASCII {
			masks = append(masks, '＊')
		}
		if len(regs) > 0 && len(text) <= 4 {
			// unusual mask runes on the short texts: NUL, and values that are not code points (written
			// as U+FFFD by every encoder): total, rune count preserved, uncovered runes unchanged
			masks = append(masks, 0, utf8.RuneError, -1, 0xD800, 0x110000)
		}
		for _, mask = range masks {
			if triex.Try(callMask) {
				sh.Col.Report("ReplaceWithMask|panic|"+validClass(o, t), v.Size(text), func() (string, any, string) {
					site, st := triex.PanicInfo(func() { tr.ReplaceWithMask(text, mask) })
					w := "no panic"
					if t.Valid {
						w = fmt.Sprintf("%q", masked(text, cov, mask, regs))
					}
					return fmt.Sprintf("ReplaceWithMask(%q, %q) panicked at %s; want %s", text, mask, site, w),
						v.Case("text", text, map[string]any{"mask": string(mask), "stack": st}),
						setup() + fmt.Sprintf("\t_ = tr.ReplaceWithMask(%q, %q) // panics\n}", text, mask)
				})
				continue
			}
			w := ""
			em := mask
			if !utf8.ValidRune(em) {
				em = utf8.RuneError // what a rune that is not a code point is written as
			}
			if t.Valid {
				w = masked(text, cov, em, regs)
			} else {
				w = maskedBytes(text, em, regs)
			}
			// text that is not valid UTF-8 is compared rune by rune (an invalid byte counts as one rune,
			// U+FFFD): "every other rune is unchanged" does not say which bytes spell it
			if out != w && (t.Valid || string([]rune(out)) != string([]rune(w))) {
				kind := "wrong-result"
				if utf8.RuneCountInString(out) != utf8.RuneCountInString(text) {
					kind = "rune-count-changed"
				}
				sh.Col.Report("ReplaceWithMask|"+kind+"|"+o.TextClass(t), v.Size(text), func() (string, any, string) {
					return fmt.Sprintf("ReplaceWithMask(%q, %q) = %q, want %q (exactly the runes inside pattern occurrences masked)", text, mask, out, w),
						v.Case("text", text, map[string]any{"mask": string(mask), "got": fmt.Sprintf("%q", out), "want": fmt.Sprintf("%q", w)}),
						setup() + fmt.Sprintf("\tif got := tr.ReplaceWithMask(%q, %q); got != %q {\n\t\tt.Fatalf(\"ReplaceWithMask = %%q, want %%q\", got, %q)\n\t}\n}", text, mask, w, w)
				})
			}
		}
	}
}
