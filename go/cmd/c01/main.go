// C01 — SyncRing is a linearizable bounded MPMC FIFO queue.
// Engine E1: every interleaving of the atomic steps of small multi-goroutine scenarios on the
// real (instrumented) ringz/sync.go.
package main

import (
	"fmt"
	"strings"
	"time"

	"verif/common"
	"verif/sched"

	"github.com/welllog/golib/ringz"
	"github.com/welllog/golib/vshim/core"
)

type popRes struct {
	V  int
	OK bool
}

type ctxT struct {
	r    *ringz.SyncRing[int]
	cap  int
	init []int
	want string // scenario-specific assertion
}

type st struct {
	cap int
	q   string
}

func qlen(q string) int { return strings.Count(q, ",") }

var fifo = sched.Model{
	Init: func() any { return st{} },
	Step: func(s any, op *core.OpRec) (bool, any) {
		x := s.(st)
		switch op.Name {
		case "init":
			a := op.Arg.([]any)
			return true, st{cap: a[0].(int), q: a[1].(string)}
		case "push", "pushwait":
			if op.Res.(bool) {
				if qlen(x.q) >= x.cap {
					return false, x
				}
				return true, st{x.cap, x.q + fmt.Sprintf("%d,", op.Arg.(int))}
			}
			return qlen(x.q) == x.cap, x
		case "pop", "popwait":
			r := op.Res.(popRes)
			if !r.OK {
				return x.q == "", x
			}
			head := fmt.Sprintf("%d,", r.V)
			if strings.HasPrefix(x.q, head) {
				return true, st{x.cap, x.q[len(head):]}
			}
			return false, x
		case "len":
			return qlen(x.q) == op.Res.(int), x
		case "isempty":
			return (x.q == "") == op.Res.(bool), x
		case "isfull":
			return (qlen(x.q) == x.cap) == op.Res.(bool), x
		}
		panic("unknown op " + op.Name)
	},
	Key: func(s any) string { return s.(st).q },
}

var checker = &sched.LinChecker{M: fifo, Droppable: func(op *core.OpRec) bool {
	switch op.Name {
	case "push":
		return !op.Res.(bool) // a failed Push is allowed whenever another operation overlapped it
	case "pop":
		return !op.Res.(popRes).OK
	case "len", "isempty", "isfull":
		return true // overlapped observers are only range-checked
	}
	return false
}}

type prog []string

func scenario(name string, capa, fill int, rot uint32, want string, progs ...prog) sched.Spec {
	sc := sched.Scenario{
		Name: fmt.Sprintf("%s/cap%d/fill%d/rot%d", name, capa, fill, rot),
		Build: func(x *core.Exec) any {
			rg := ringz.NewSync[int](capa)
			c := &ctxT{r: &rg, cap: rg.Cap(), want: want}
			if rot <= 8 {
				for i := uint32(0); i < rot; i++ {
					rg.Push(-1)
					rg.Pop()
				}
			} else if !common.TeleportSyncRing(&rg, rot) {
				panic("cannot teleport: private fields of SyncRing not found")
			}
			for i := 0; i < fill; i++ {
				if !rg.Push(100 + i) {
					panic("pre-fill failed")
				}
				c.init = append(c.init, 100+i)
			}
			for ti, p := range progs {
				p := p
				x.Spawn(fmt.Sprintf("t%d", ti+1), func(t *core.Thread) {
					for _, o := range p {
						if x.Failed() {
							return
						}
						switch {
						case strings.HasPrefix(o, "push:"):
							var v int
							fmt.Sscanf(o, "push:%d", &v)
							t.Op("push", v, func() any { return rg.Push(v) })
						case strings.HasPrefix(o, "pushwait:"):
							var v int
							fmt.Sscanf(o, "pushwait:%d", &v)
							t.Op("pushwait", v, func() any { return rg.PushWait(v, -1) })
						case strings.HasPrefix(o, "pushwait0:"):
							var v int
							fmt.Sscanf(o, "pushwait0:%d", &v)
							t.Op("push", v, func() any { return rg.PushWait(v, 0) })
						case strings.HasPrefix(o, "pushwaitT:"):
							// positive duration: 10 ms ticker, gives up at the first tick >= 15 ms (abstract time)
							var v int
							fmt.Sscanf(o, "pushwaitT:%d", &v)
							t.Op("push", v, func() any { return rg.PushWait(v, 15*time.Millisecond) })
						case strings.HasPrefix(o, "pushwaitT5:"):
							var v int
							fmt.Sscanf(o, "pushwaitT5:%d", &v)
							t.Op("push", v, func() any { return rg.PushWait(v, 5*time.Millisecond) })
						case o == "popwaitT5":
							t.Op("pop", 5, func() any { v, ok := rg.PopWait(5 * time.Millisecond); return popRes{v, ok} })
						case o == "popwaitT":
							t.Op("pop", 15, func() any { v, ok := rg.PopWait(15 * time.Millisecond); return popRes{v, ok} })
						case o == "pop":
							t.Op("pop", nil, func() any { v, ok := rg.Pop(); return popRes{v, ok} })
						case o == "popwait":
							t.Op("popwait", -1, func() any { v, ok := rg.PopWait(-1); return popRes{v, ok} })
						case o == "popwait0":
							t.Op("pop", 0, func() any { v, ok := rg.PopWait(0); return popRes{v, ok} })
						case o == "len":
							n := t.Op("len", nil, func() any { return rg.Len() }).(int)
							if n < 0 || n > c.cap {
								x.FailNow("Len|out-of-range|in-thread", fmt.Sprintf("Len() returned %d, capacity %d", n, c.cap))
							}
						case o == "isempty":
							t.Op("isempty", nil, func() any { return rg.IsEmpty() })
						case o == "isfull":
							t.Op("isfull", nil, func() any { return rg.IsFull() })
						}
					}
				})
			}
			return c
		},
		Final: func(x *core.Exec, ctx any) {
			c := ctx.(*ctxT)
			x.SeqOp("len", nil, func() any { return c.r.Len() })
			x.SeqOp("isempty", nil, func() any { return c.r.IsEmpty() })
			x.SeqOp("isfull", nil, func() any { return c.r.IsFull() })
			for i := 0; i < 16; i++ {
				r := x.SeqOp("pop", nil, func() any { v, ok := c.r.Pop(); return popRes{v, ok} }).(popRes)
				if !r.OK {
					break
				}
			}
			x.SeqOp("len", nil, func() any { return c.r.Len() })
			x.SeqOp("isempty", nil, func() any { return c.r.IsEmpty() })
		},
		Check: func(x *core.Exec, ctx any) *core.Failure {
			c := ctx.(*ctxT)
			var s strings.Builder
			for _, v := range c.init {
				fmt.Fprintf(&s, "%d,", v)
			}
			h := append([]*core.OpRec{{Thread: 0, Name: "init", Arg: []any{c.cap, s.String()}, Call: -1, Ret: 0}}, x.Hist...)
			ok, relaxed := checker.Check(h)
			if !ok {
				return &core.Failure{Sig: "not-linearizable", What: fmt.Sprintf("history is not linearizable to a FIFO queue of capacity %d (overlapped failed Push/Pop and overlapped Len/IsEmpty/IsFull already removed):\n%s", c.cap, sched.FormatHistory(relaxed))}
			}
			switch c.want {
			case "some-push":
				for _, o := range x.Hist {
					if o.Thread > 0 && o.Name == "push" && o.Res.(bool) {
						return nil
					}
				}
				return &core.Failure{Sig: "no-progress|pushers", What: "only pushers ran on a ring with enough free slots and none of them succeeded:\n" + sched.FormatHistory(x.Hist)}
			case "some-pop":
				for _, o := range x.Hist {
					if o.Thread > 0 && o.Name == "pop" && o.Res.(popRes).OK {
						return nil
					}
				}
				return &core.Failure{Sig: "no-progress|poppers", What: "only poppers ran on a ring with enough stored elements and none of them succeeded:\n" + sched.FormatHistory(x.Hist)}
			}
			return nil
		},
		Probe: func(x *core.Exec, ctx any) *core.Failure {
			c := ctx.(*ctxT)
			if n := c.r.Len(); n < 0 || n > c.cap {
				return &core.Failure{Sig: "Len|out-of-range|frozen-state", What: fmt.Sprintf("Len() = %d at a reachable state (all threads frozen mid-operation), capacity %d", n, c.cap)}
			}
			return nil
		},
	}
	return sched.Spec{Sc: sc, Quick: sched.Unbounded, Thorough: sched.Unbounded}
}

func main() {
	var specs []sched.Spec
	// large rotations need the counter teleport (private field names); without it they are left out
	probe := ringz.NewSync[int](2)
	teleOK := common.TeleportSyncRing(&probe, 1<<32-1)
	teleNote := "large rotations are installed by writing the private counters (validated against honest stepping by check C10)"
	if !teleOK {
		teleNote = "NOT COVERED IN THIS RUN: rotations near 2^32 — the private counter fields of SyncRing were not found, so only rotations 0, 1, cap-1 were explored"
	}
	for _, capa := range []int{2, 4} {
		var rots []uint32
		cands := []uint32{0, 1, uint32(capa - 1)}
		if teleOK {
			cands = append(cands, 1<<32-1, uint32(1<<32-capa))
		}
		for _, rt := range cands {
			dup := false
			for _, o := range rots {
				dup = dup || o == rt
			}
			if !dup {
				rots = append(rots, rt)
			}
		}
		for _, rot := range rots {
			for fill := 0; fill <= capa; fill++ {
				add := func(s sched.Spec) { specs = append(specs, s) }
				add(scenario("push|push|pop", capa, fill, rot, "", prog{"push:1"}, prog{"push:2"}, prog{"pop"}))
				add(scenario("push,push|pop,pop", capa, fill, rot, "", prog{"push:1", "push:2"}, prog{"pop", "pop"}))
				add(scenario("push|pop|push,pop", capa, fill, rot, "", prog{"push:1"}, prog{"pop"}, prog{"push:2", "pop"}))
				add(scenario("push|pop|observer", capa, fill, rot, "", prog{"push:1"}, prog{"pop"}, prog{"len", "isempty", "isfull", "len"}))
				add(scenario("pop|pop|push", capa, fill, rot, "", prog{"pop"}, prog{"pop"}, prog{"push:1"}))
				if capa-fill >= 2 { // two pushers, room for both: at least one succeeds (also on capacity 2)
					add(scenario("push|push", capa, fill, rot, "some-push", prog{"push:1"}, prog{"push:2"}))
				}
				if fill >= 2 {
					add(scenario("pop|pop", capa, fill, rot, "some-pop", prog{"pop"}, prog{"pop"}))
				}
				// an observer against two operations per side: two pushes or two pops can fall between
				// the two counter loads of one Len
				if capa == 2 {
					so := scenario("push,push|pop,pop|len", capa, fill, rot, "", prog{"push:1", "push:2"}, prog{"pop", "pop"}, prog{"len"})
					so.Quick, so.Heavy = 3, true
					add(so)
				}
				if capa-fill >= 3 {
					add(scenario("push|push|push", capa, fill, rot, "some-push", prog{"push:1"}, prog{"push:2"}, prog{"push:3"}))
				}
				if fill >= 3 {
					add(scenario("pop|pop|pop", capa, fill, rot, "some-pop", prog{"pop"}, prog{"pop"}, prog{"pop"}))
				}
				if capa == 2 {
					s := scenario("push,push|push,push|pop,pop", capa, fill, rot, "", prog{"push:1", "push:2"}, prog{"push:3", "push:4"}, prog{"pop", "pop"})
					s.Quick, s.Heavy = 3, true
					add(s)
				}
			}
			if rot == 0 || rot == 1<<32-1 {
				for _, fill := range []int{0, capa / 2, capa} {
					for _, pg := range [][]prog{
						{{"push:1"}, {"push:2"}, {"pop"}, {"pop"}},
						{{"push:1", "pop"}, {"push:2"}, {"pop"}, {"len"}},
					} {
						var names []string
						for _, q := range pg {
							names = append(names, strings.Join(q, ","))
						}
						s4 := scenario("four/"+strings.Join(names, "|"), capa, fill, rot, "", pg...)
						s4.ThoroughOnly, s4.Heavy = true, true
						specs = append(specs, s4)
					}
				}
			}
			// waiting variants: spin-with-yield must terminate, values arrive in order
			specs = append(specs,
				scenario("pushwait,pushwait|popwait,popwait", capa, capa, rot, "", prog{"pushwait:1", "pushwait:2"}, prog{"popwait", "popwait"}),
				scenario("pushwait,pushwait|popwait,popwait", capa, 0, rot, "", prog{"pushwait:1", "pushwait:2"}, prog{"popwait", "popwait"}),
				// the try-once forms alone: PushWait(v, 0) on a full ring / PopWait(0) on an empty one return
				// false at once (nobody will ever make room: blocking here is a livelock)
				scenario("pushwait0-alone-full", capa, capa, rot, "", prog{"pushwait0:1"}),
				scenario("popwait0-alone-empty", capa, 0, rot, "", prog{"popwait0"}),
				scenario("pushwait0|popwait0", capa, capa, rot, "", prog{"pushwait0:1"}, prog{"popwait0"}),
				scenario("pushwait0|popwait0", capa, 0, rot, "", prog{"pushwait0:1"}, prog{"popwait0"}),
			)
			if capa == 2 {
				// contended blocking calls: two blocked producers (consumers) race for each freed slot (value)
				w1 := scenario("pushwait|pushwait|popwait,popwait", capa, capa, rot, "", prog{"pushwait:1"}, prog{"pushwait:2"}, prog{"popwait", "popwait"})
				w2 := scenario("pushwait,pushwait|popwait|popwait", capa, 0, rot, "", prog{"pushwait:1", "pushwait:2"}, prog{"popwait"}, prog{"popwait"})
				w1.Quick, w1.Heavy, w2.Quick, w2.Heavy = 3, true, 3, true
				specs = append(specs, w1, w2)
			}
			if rot == 0 || rot == 1<<32-1 {
				// positive wait durations: the ticker is a daemon virtual thread, time is abstract
				specs = append(specs,
					scenario("timed/pushwaitT|pop", capa, capa, rot, "", prog{"pushwaitT:1"}, prog{"pop"}),
					scenario("timed/popwaitT|push", capa, 0, rot, "", prog{"popwaitT"}, prog{"push:1"}),
					scenario("timed/pushwaitT-alone-full", capa, capa, rot, "", prog{"pushwaitT:1"}),
					scenario("timed/popwaitT-alone-empty", capa, 0, rot, "", prog{"popwaitT"}),
					scenario("timed/pushwaitT|popwaitT", capa, capa, rot, "", prog{"pushwaitT:1"}, prog{"popwaitT"}),
					scenario("timed/pushwaitT|popwaitT", capa, 0, rot, "", prog{"pushwaitT:1"}, prog{"popwaitT"}),
					scenario("timed/popwaitT5-alone", capa, 1, rot, "", prog{"popwaitT5"}),
					scenario("timed/pushwaitT5-alone", capa, capa-1, rot, "", prog{"pushwaitT5:1"}),
					scenario("timed/pushwaitT5|popwaitT5", capa, capa, rot, "", prog{"pushwaitT5:1"}, prog{"popwaitT5"}),
					scenario("timed/pushwaitT5|popwaitT5", capa, 0, rot, "", prog{"pushwaitT5:1"}, prog{"popwaitT5"}),
				)
			}
		}
	}
	sched.Main("C01", specs,
		[]string{
			"small scope: <= 3 goroutines x <= 2 operations, capacities 2 and 4, every fill level, rotations 0, 1, cap-1 and two that put the 32-bit counter wrap inside the concurrent window; positive PushWait/PopWait durations run on abstract time: the 10 ms ticker is a daemon virtual thread that ticks whenever the scheduler lets it (no wall clock)",
			"interleaving at atomic operations is exact for Go's sequentially consistent atomics provided plain accesses are race-free, which the vector-clock detector checks on every explored schedule (probes on every plain field / element access of ringz/sync.go)",
			teleNote,
			"state matching on 128-bit happens-before signatures (collisions assumed away)",
		},
		"states = distinct happens-before signatures; every execution runs the real instrumented ringz/sync.go to completion; its history (tight intervals, Len/IsEmpty/IsFull + drain epilogue appended) is checked for linearizability to a FIFO of capacity Cap() after removing overlapped failed Push/Pop and overlapped observers; 0 <= Len() <= Cap() probed at every new state with all threads frozen; pushers-only / poppers-only scenarios must have a success; non-trivial = distinct (operations, results, precedence) classes")
}
