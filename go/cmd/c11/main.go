// C11 — SyncList is a linearizable unbounded FIFO queue with a sane length.
// Engine E1: every interleaving of the atomic steps of small multi-goroutine scenarios on the
// real (instrumented) listz/sync_list.go.
package main

import (
	"fmt"
	"strings"
	"time"

	"verif/sched"

	"github.com/welllog/golib/listz"
	"github.com/welllog/golib/vshim/core"
)

type popRes struct {
	V  int
	OK bool
}

type ctxT[E any] struct {
	l    *listz.SyncList[E]
	init []int
}

var fifo = sched.Model{
	Init: func() any { return "" },
	Step: func(st any, op *core.OpRec) (bool, any) {
		s := st.(string)
		switch op.Name {
		case "init":
			return true, op.Arg.(string)
		case "push":
			return true, s + fmt.Sprintf("%d,", op.Arg.(int))
		case "pop", "popwait":
			r := op.Res.(popRes)
			if !r.OK {
				return s == "", s
			}
			head := fmt.Sprintf("%d,", r.V)
			if strings.HasPrefix(s, head) {
				return true, s[len(head):]
			}
			return false, s
		case "len":
			return strings.Count(s, ",") == op.Res.(int), s
		}
		panic("unknown op " + op.Name)
	},
	Key: func(st any) string { return st.(string) },
}

var checker = &sched.LinChecker{M: fifo, Droppable: func(op *core.OpRec) bool {
	switch op.Name {
	case "pop":
		return !op.Res.(popRes).OK // a failed Pop is allowed whenever another operation overlapped it
	case "len":
		return true // an overlapped Len is only range-checked
	}
	return false
}}

type prog []string // "push:7", "pop", "len", "popwait"

func scenario(name string, initN int, progs ...prog) sched.Spec {
	return scenarioT[int](name, initN, func(v int) int { return v }, func(v int) int { return v }, progs...)
}

// scenarioT: the same scenarios for any element type. mk builds the element standing for the
// harness value v, un reads the harness value back (a type with one value maps everything to 0: order
// and identity are then unobservable, conservation and the Len clauses are not).
func scenarioT[E any](name string, initN int, mk func(int) E, un func(E) int, progs ...prog) sched.Spec {
	sc := sched.Scenario{
		Name: fmt.Sprintf("%s/init%d", name, initN),
		Build: func(x *core.Exec) any {
			c := &ctxT[E]{l: listz.NewSync[E]()}
			for i := 0; i < initN; i++ {
				c.l.Push(mk(100 + i))
				c.init = append(c.init, un(mk(100+i)))
			}
			for ti, p := range progs {
				p := p
				x.Spawn(fmt.Sprintf("t%d", ti+1), func(t *core.Thread) {
					for _, o := range p {
						if x.Failed() {
							return
						}
						switch {
						case strings.HasPrefix(o, "push:"):
							var v int
							fmt.Sscanf(o, "push:%d", &v)
							t.Op("push", un(mk(v)), func() any { c.l.Push(mk(v)); return nil })
						case o == "pop":
							t.Op("pop", nil, func() any { v, ok := c.l.Pop(); return popRes{un(v), ok} })
						case o == "popwait":
							t.Op("popwait", -1, func() any { v, ok := c.l.PopWait(-1); return popRes{un(v), ok} })
						case o == "popwait0":
							t.Op("pop", 0, func() any { v, ok := c.l.PopWait(0); return popRes{un(v), ok} })
						case o == "popwaitT5":
							// shorter than one ticker period: the deadline is reached at the first tick
							t.Op("pop", 5, func() any { v, ok := c.l.PopWait(5 * time.Millisecond); return popRes{un(v), ok} })
						case o == "popwaitT":
							t.Op("pop", 15, func() any { v, ok := c.l.PopWait(15 * time.Millisecond); return popRes{un(v), ok} })
						case o == "len":
							n := t.Op("len", nil, func() any { return c.l.Len() }).(int)
							if n < 0 {
								x.FailNow("Len|negative|in-thread", fmt.Sprintf("Len() returned %d", n))
							}
						}
					}
				})
			}
			return c
		},
		Final: func(x *core.Exec, ctx any) {
			c := ctx.(*ctxT[E])
			x.SeqOp("len", nil, func() any { return c.l.Len() })
			for i := 0; i < 16; i++ {
				r := x.SeqOp("pop", nil, func() any { v, ok := c.l.Pop(); return popRes{un(v), ok} }).(popRes)
				if !r.OK {
					break
				}
			}
			x.SeqOp("len", nil, func() any { return c.l.Len() })
		},
		Check: func(x *core.Exec, ctx any) *core.Failure {
			c := ctx.(*ctxT[E])
			var s strings.Builder
			for _, v := range c.init {
				fmt.Fprintf(&s, "%d,", v)
			}
			h := append([]*core.OpRec{{Thread: 0, Name: "init", Arg: s.String(), Call: -1, Ret: 0}}, x.Hist...)
			ok, relaxed := checker.Check(h)
			if !ok {
				return &core.Failure{Sig: "not-linearizable", What: "history is not linearizable to an unbounded FIFO queue (overlapped failed Pops and overlapped Len calls already removed):\n" + sched.FormatHistory(relaxed)}
			}
			// a Len that overlaps other calls: whatever instant it reflects, at least the initial values
			// plus the pushes that had returned before it was called, minus the successful pops that had
			// begun before it returned, could be popped then — Len is never below that
			for _, o := range x.Hist {
				if o.Name != "len" || o.Thread == 0 {
					continue
				}
				low := len(c.init)
				for _, q := range x.Hist {
					switch {
					case q.Name == "push" && q.Ret < o.Call:
						low++
					case (q.Name == "pop" || q.Name == "popwait") && q.Call < o.Ret:
						if pr, isPop := q.Res.(popRes); isPop && pr.OK {
							low--
						}
					}
				}
				if n := o.Res.(int); n < low {
					return &core.Failure{Sig: "Len|below-poppable|in-thread", What: fmt.Sprintf("Len() returned %d although at every instant of the call at least %d values could be popped:\n%s", n, low, sched.FormatHistory(x.Hist))}
				}
			}
			return nil
		},
		Probe: func(x *core.Exec, ctx any) *core.Failure {
			if n := ctx.(*ctxT[E]).l.Len(); n < 0 {
				return &core.Failure{Sig: "Len|negative|frozen-state", What: fmt.Sprintf("Len() = %d at a reachable state (all threads frozen mid-operation)", n)}
			}
			return nil
		},
		MutProbe: func(x *core.Exec, ctx any) *core.Failure {
			l := ctx.(*ctxT[E]).l
			n := l.Len()
			c := 0
			for ; c < 32; c++ {
				if _, ok := l.Pop(); !ok {
					break
				}
			}
			if n < c {
				return &core.Failure{Sig: "Len|below-poppable|frozen-state", What: fmt.Sprintf("at a reachable state (all threads frozen mid-operation) Len() = %d but %d values could be popped", n, c)}
			}
			return nil
		},
	}
	return sched.Spec{Sc: sc, Quick: sched.Unbounded, Thorough: sched.Unbounded}
}

func main() {
	var specs []sched.Spec
	for init := 0; init <= 2; init++ {
		specs = append(specs,
			scenario("push|push|pop", init, prog{"push:1"}, prog{"push:2"}, prog{"pop"}),
			scenario("push,push|pop,pop", init, prog{"push:1", "push:2"}, prog{"pop", "pop"}),
			scenario("push|pop|len,len", init, prog{"push:1"}, prog{"pop"}, prog{"len", "len"}),
			scenario("push,push|pop|len,len", init, prog{"push:1", "push:2"}, prog{"pop"}, prog{"len", "len"}),
			scenario("push,pop|push,pop", init, prog{"push:1", "pop"}, prog{"push:2", "pop"}),
			scenario("push|pop|push,pop", init, prog{"push:1"}, prog{"pop"}, prog{"push:2", "pop"}),
			scenario("push|push|push", init, prog{"push:1"}, prog{"push:2"}, prog{"push:3"}),
			scenario("pop|pop|pop", init, prog{"pop"}, prog{"pop"}, prog{"pop"}),
			scenario("push|popwait0", init, prog{"push:1"}, prog{"popwait0"}),
		)
		s := scenario("push,push|push,push|pop,pop", init, prog{"push:1", "push:2"}, prog{"push:3", "push:4"}, prog{"pop", "pop"})
		s.Quick, s.Heavy = 3, true
		specs = append(specs, s)
	}
	specs = append(specs,
		scenario("push|popwait", 0, prog{"push:1"}, prog{"popwait"}),
		scenario("push,push|popwait,popwait", 0, prog{"push:1", "push:2"}, prog{"popwait", "popwait"}),
		scenario("push|push|popwait", 0, prog{"push:1"}, prog{"push:2"}, prog{"popwait"}),
		func() sched.Spec { // two blocked consumers race for each value (the CAS-loss path inside the spin loop)
			w := scenario("popwait|popwait|push,push", 0, prog{"popwait"}, prog{"popwait"}, prog{"push:1", "push:2"})
			w.Quick, w.Heavy = 3, true
			return w
		}(),
	)
	for init := 0; init <= 1; init++ {
		specs = append(specs,
			scenario("timed/popwaitT|push", init, prog{"popwaitT"}, prog{"push:1"}),
			scenario("timed/popwaitT-alone", init, prog{"popwaitT"}),
			scenario("timed/popwaitT5-alone", init, prog{"popwaitT5"}),
			scenario("timed/popwaitT5|push", init, prog{"popwaitT5"}, prog{"push:1"}),
		)
		hs := scenario("timed/popwaitT|popwaitT|push", init, prog{"popwaitT"}, prog{"popwaitT"}, prog{"push:1"})
		hs.Quick, hs.Heavy = 3, true
		specs = append(specs, hs)
	}
	for init := 0; init <= 1; init++ {
		for _, pg := range [][]prog{
			{{"push:1"}, {"push:2"}, {"pop"}, {"pop"}},
			{{"push:1"}, {"pop"}, {"pop"}, {"len"}},
			{{"push:1"}, {"push:2"}, {"push:3"}, {"pop"}},
		} {
			var names []string
			for _, q := range pg {
				names = append(names, strings.Join(q, ","))
			}
			s4 := scenario("four/"+strings.Join(names, "|"), init, pg...)
			s4.ThoroughOnly, s4.Heavy = true, true
			specs = append(specs, s4)
		}
	}
	// element types of size zero (struct{}): a change may treat them on a path of its own (all values are
	// equal, nothing has to be stored). Order is unobservable there; conservation, "Pop fails only if
	// empty or overlapped" and every Len clause are checked as for int.
	zmk, zun := func(int) struct{} { return struct{}{} }, func(struct{}) int { return 0 }
	for init := 0; init <= 1; init++ {
		specs = append(specs,
			scenarioT[struct{}]("zero-size/push|pop|len,len", init, zmk, zun, prog{"push:1"}, prog{"pop"}, prog{"len", "len"}),
			scenarioT[struct{}]("zero-size/push,push|pop,pop", init, zmk, zun, prog{"push:1", "push:2"}, prog{"pop", "pop"}),
			scenarioT[struct{}]("zero-size/push|push|pop", init, zmk, zun, prog{"push:1"}, prog{"push:2"}, prog{"pop"}),
			scenarioT[struct{}]("zero-size/push,pop|push,pop", init, zmk, zun, prog{"push:1", "pop"}, prog{"push:2", "pop"}),
			scenarioT[struct{}]("zero-size/pop|pop|len", init, zmk, zun, prog{"pop"}, prog{"pop"}, prog{"len"}),
		)
	}
	sched.Main("C11", specs,
		[]string{
			"element types: int (distinct values) in every scenario; struct{} (size zero) in five 2-3 goroutine scenarios",
			"small scope: <= 3 goroutines x <= 2 operations, initial content 0..2; positive PopWait durations run on abstract time (the ticker is a daemon virtual thread, no wall clock)",
			"interleaving at atomic operations is exact for Go's sequentially consistent atomics provided plain accesses are race-free, which the vector-clock detector checks on every explored schedule",
			"spinning pushers are scheduled fairly (Musuvathi-Qadeer fair yield rule)",
			"state matching on 128-bit happens-before signatures (collisions assumed away)",
		},
		"states = distinct happens-before signatures (thread-local progress + every synchronisation order + call/return precedence); every execution runs the real instrumented listz/sync_list.go to completion, its history (tight call/return intervals, drain epilogue appended) is checked for linearizability to an unbounded FIFO after removing overlapped failed Pops / overlapped Len calls; Len() >= 0 is probed at every new state, Len() >= number of poppable values by a destructive probe on a re-execution of every new state; non-trivial = distinct (operations, results, precedence) classes")
}
