package main

import (
	"fmt"
	"reflect"

	"verif/common"
	"verif/space"

	"github.com/welllog/golib/listz"
)

type snode = listz.SNode[Val]

// sInst is one SList and its slice model. vals is the expected sequence; nodes[i] is the node the
// harness knows to be at position i (nil = not known yet, learned from the Next chain after the
// operation). stale is the most recently removed node, the only non-fresh node ever handed to a
// *Node insertion.
type sInst struct {
	cap      int
	l        *listz.SList[Val]
	vals     []Val
	nodes    []*snode
	stale    *snode
	staleVal Val
	next     Val

	last, class string
	nontriv     bool
}

func newSInst(start, cap int) *sInst {
	x := &sInst{cap: cap, last: "(start)"}
	if start == 0 {
		var l listz.SList[Val]
		x.l = &l
		x.class = "zero-value"
	} else {
		x.l = listz.NewSingly[Val]()
		x.class = "NewSingly"
	}
	return x
}

func (x *sInst) fresh() Val { x.next++; return x.next }

func (x *sInst) Ops() []space.Op {
	n := len(x.vals)
	grow := n < x.cap
	var ops []space.Op
	add := func(name string, args ...int) { ops = append(ops, space.Op{Name: name, Args: args}) }
	if grow {
		add("PushBack")
		add("PushFront")
	}
	add("RemoveFront")
	for i := -1; i <= n+1; i++ {
		add("Get", i)
	}
	for i := -1; i <= n+1; i++ {
		add("Remove", i)
	}
	if grow {
		for i := -1; i <= n+1; i++ {
			add("InsertAt", i)
		}
	}
	for i := -1; i <= n+1; i++ {
		for j := -1; j <= n+1; j++ {
			add("Swap", i, j)
		}
	}
	if grow {
		ks := []int{0}
		if x.stale != nil {
			ks = append(ks, 1)
		}
		for _, k := range ks {
			add("PushFrontNode", k)
			add("PushBackNode", k)
			for i := -1; i <= n+1; i++ {
				add("InsertNodeAt", k, i)
			}
		}
	}
	return ops
}

func (x *sInst) mis(kind, format string, a ...any) *space.Mismatch {
	return &space.Mismatch{Sig: fmt.Sprintf("SList.%s|%s|%s", x.last, kind, x.class), What: fmt.Sprintf(format, a...)}
}

// posClass names the position class of an index for signatures.
func posClass(i, n int) string {
	switch {
	case i < 0 || i >= n:
		return "out-of-range"
	case n == 1:
		return "only-element"
	case i == 0:
		return "first"
	case i == n-1:
		return "last"
	}
	return "middle"
}

func insClass(i, n int) string {
	switch {
	case i < 0 || i > n:
		return "out-of-range"
	case n == 0:
		return "empty-list"
	case i == 0:
		return "first"
	case i == n:
		return "append"
	}
	return "middle"
}

func clamp(i, n int) int { // n > 0
	if i < 0 {
		return 0
	}
	if i >= n {
		return n - 1
	}
	return i
}

// chain walks Front/Next, bounded.
func (x *sInst) chain() []*snode {
	var out []*snode
	for e := x.l.Front(); e != nil && len(out) <= x.cap+3; e = e.Next() {
		out = append(out, e)
	}
	return out
}

func (x *sInst) modelInsert(i int, v Val, n *snode) {
	x.vals = insertAt(x.vals, i, v)
	ns := make([]*snode, 0, len(x.nodes)+1)
	ns = append(ns, x.nodes[:i]...)
	ns = append(ns, n)
	x.nodes = append(ns, x.nodes[i:]...)
}

func (x *sInst) modelRemove(i int) {
	x.vals = append(append([]Val{}, x.vals[:i]...), x.vals[i+1:]...)
	x.nodes = append(append([]*snode{}, x.nodes[:i]...), x.nodes[i+1:]...)
}

// isAt says whether e is acceptable as "the node at position i": right value, and the right
// identity when the harness already knows the node there.
func (x *sInst) isAt(e *snode, i int) bool {
	return e != nil && e.Value == x.vals[i] && (x.nodes[i] == nil || x.nodes[i] == e)
}

func (x *sInst) Apply(op space.Op) *space.Mismatch {
	x.last, x.class, x.nontriv = op.Name, "-", false
	n := len(x.vals)
	before := append([]Val{}, x.vals...)
	var mm *space.Mismatch
	switch op.Name {
	case "PushBack":
		v := x.fresh()
		x.l.PushBack(v)
		x.modelInsert(n, v, nil)
	case "PushFront":
		v := x.fresh()
		x.l.PushFront(v)
		x.modelInsert(0, v, nil)
	case "RemoveFront":
		e := x.l.RemoveFront()
		if n == 0 {
			x.class = "empty-list"
			if e != nil {
				mm = x.mis("wrong-result", "RemoveFront on an empty list returned a node")
			}
			break
		}
		x.class = posClass(0, n)
		if !x.isAt(e, 0) {
			mm = x.mis("wrong-result", "RemoveFront returned %s, want the first node (%v)", showS(e), x.vals[0])
			break
		}
		x.stale, x.staleVal = e, x.vals[0]
		x.modelRemove(0)
	case "Get":
		i := op.Args[0]
		x.class = posClass(i, n)
		e := x.l.Get(i)
		if i >= 0 && i < n {
			if !x.isAt(e, i) {
				mm = x.mis("wrong-result", "Get(%d) returned %s on %v, want the node holding %v", i, showS(e), x.vals, x.vals[i])
			} else {
				x.nodes[i] = e
			}
			break
		}
		x.nontriv = true
		// out of range: rejected (nil) or clamped (first / last node)
		if e != nil && !(n > 0 && x.isAt(e, clamp(i, n))) {
			mm = x.mis("wrong-result", "Get(%d) on %v returned %s: neither rejected (nil) nor clamped", i, x.vals, showS(e))
		}
	case "Remove":
		i := op.Args[0]
		x.class = posClass(i, n)
		e := x.l.Remove(i)
		if i >= 0 && i < n {
			if !x.isAt(e, i) {
				mm = x.mis("wrong-result", "Remove(%d) returned %s on %v, want the node holding %v", i, showS(e), x.vals, x.vals[i])
				break
			}
			x.stale, x.staleVal = e, x.vals[i]
			x.modelRemove(i)
			break
		}
		x.nontriv = true
		// out of range: rejected (nil, list unchanged — verified by Check) or clamped
		if e != nil {
			if n == 0 || !x.isAt(e, clamp(i, n)) {
				mm = x.mis("wrong-result", "Remove(%d) on %v returned %s: neither rejected (nil) nor clamped", i, x.vals, showS(e))
				break
			}
			c := clamp(i, n)
			x.stale, x.staleVal = e, x.vals[c]
			x.modelRemove(c)
		}
	case "InsertAt", "InsertNodeAt", "PushFrontNode", "PushBackNode":
		var e *snode // nil: the list allocates the node itself
		var v Val
		k := 0
		if op.Name != "InsertAt" {
			k = op.Args[0]
			if k == 0 {
				v = x.fresh()
				e = &snode{Value: v}
			} else {
				e, v = x.stale, x.staleVal
			}
		} else {
			v = x.fresh()
		}
		var i int
		switch op.Name {
		case "InsertAt":
			i = op.Args[0]
			x.l.InsertAt(i, v)
		case "InsertNodeAt":
			i = op.Args[1]
			x.l.InsertNodeAt(i, e)
		case "PushFrontNode":
			i = 0
			x.l.PushFrontNode(e)
		case "PushBackNode":
			i = n
			x.l.PushBackNode(e)
		}
		x.class = insClass(i, n)
		if op.Name != "InsertAt" {
			if k == 0 {
				x.class += ",fresh-node"
			} else {
				x.class += ",removed-node"
			}
		}
		at := i
		if i < 0 || i > n {
			x.nontriv = true
			// out of range: rejected (length unchanged) or clamped to the front / the back
			if len(x.chain()) == n {
				break
			}
			if i < 0 {
				at = 0
			} else {
				at = n
			}
		}
		x.modelInsert(at, v, e)
		if k == 1 {
			x.stale = nil
		}
	case "Swap":
		i, j := op.Args[0], op.Args[1]
		x.l.Swap(i, j)
		in := func(k int) bool { return k >= 0 && k < n }
		if in(i) && in(j) {
			x.class = "in-range"
			if i == j {
				x.class = "i==j"
			}
			x.vals[i], x.vals[j] = x.vals[j], x.vals[i]
			if i != j {
				x.nodes[i], x.nodes[j] = nil, nil // swapped by value or by node: not asserted
			}
			break
		}
		x.class = "out-of-range"
		x.nontriv = true
		if n == 0 {
			break
		}
		// out of range: rejected (unchanged) or clamped
		var got []Val
		for _, e := range x.chain() {
			got = append(got, e.Value)
		}
		if ci, cj := clamp(i, n), clamp(j, n); ci != cj && !eqVals(got, x.vals) {
			x.vals[ci], x.vals[cj] = x.vals[cj], x.vals[ci]
			x.nodes[ci], x.nodes[cj] = nil, nil
		}
	default:
		common.Infra("C13 harness: unknown op %v", op)
	}
	if !eqVals(before, x.vals) {
		x.nontriv = true
	}
	if mm != nil {
		return mm
	}
	// learn the identities of nodes the list allocated itself
	ch := x.chain()
	for i := range x.nodes {
		if x.nodes[i] == nil && i < len(ch) {
			known := ch[i] == x.stale
			for _, m := range x.nodes {
				known = known || m == ch[i]
			}
			if !known {
				x.nodes[i] = ch[i]
			}
		}
	}
	return nil
}

func showS(e *snode) string {
	if e == nil {
		return "nil"
	}
	return fmt.Sprintf("a node holding %v", e.Value)
}

type sTable struct {
	Nodes []*snode
	Stale *snode
}

func (x *sInst) Roots() []any {
	t := &sTable{Stale: x.stale}
	if len(x.nodes) > 0 { // nil and empty slices dump differently: normalise
		t.Nodes = x.nodes
	}
	return []any{x.l, t}
}

func (x *sInst) Abstract() string {
	var st []Val
	if x.stale != nil {
		st = []Val{x.staleVal}
	}
	return pattern(x.vals, st)
}

func (x *sInst) Check() *space.Mismatch {
	countNontrivial(x.nontriv)
	n := len(x.vals)
	ctx := fmt.Sprintf("after %s (model %v)", x.last, x.vals)
	if g := x.l.Len(); g != n {
		return x.mis("wrong-len", "%s: Len = %d, model %d", ctx, g, n)
	}
	ch := x.chain()
	got := make([]Val, len(ch))
	for i, e := range ch {
		got[i] = e.Value
	}
	if !eqVals(got, x.vals) {
		return x.mis("wrong-sequence", "%s: Front/Next chain %v", ctx, got)
	}
	for i, e := range ch {
		if x.nodes[i] != e {
			return x.mis("handle-identity", "%s: the node at position %d is not the node the harness put / found there", ctx, i)
		}
	}
	if (x.l.Front() == nil) != (n == 0) || (x.l.Back() == nil) != (n == 0) {
		return x.mis("wrong-ends", "%s: Front nil = %v, Back nil = %v with %d elements", ctx, x.l.Front() == nil, x.l.Back() == nil, n)
	}
	if n > 0 {
		if b := x.l.Back(); b != ch[n-1] {
			return x.mis("wrong-ends", "%s: Back() (holding %v) is not the last node of the Next chain", ctx, b.Value)
		}
		if x.l.Front() != ch[0] {
			return x.mis("wrong-ends", "%s: Front() changed between two calls", ctx)
		}
	}
	// Get and All walk the same chain that was just found correct (and Len is right): a difference
	// is the query's own and is attributed to it, not to the last operation.
	for i := 0; i < n; i++ {
		if e := x.l.Get(i); e != ch[i] {
			return misQ("SList.Get", "inconsistent-with-next-chain", posClass(i, n), "%s: Get(%d) = %s, the Next chain has %v there", ctx, i, showS(e), x.vals[i])
		}
	}
	x.l.Get(-1) // must not panic (the engine reports a panic)
	x.l.Get(n)
	var all []Val
	for v := range x.l.All() {
		all = append(all, v)
		if len(all) > n+2 {
			break
		}
	}
	if !eqVals(all, x.vals) {
		return misQ("SList.All", "wrong-iterator", "full", "%s: All yields %v", ctx, all)
	}
	seq := x.l.All()
	for range seq {
	}
	all = all[:0]
	for v := range seq {
		all = append(all, v)
		if len(all) > n+2 {
			break
		}
	}
	if !eqVals(all, x.vals) {
		return misQ("SList.All", "wrong-iterator", "second-walk", "%s: the iterator returned by All, walked a second time, yields %v", ctx, all)
	}
	var first []Val
	x.l.All()(func(v Val) bool { first = append(first, v); return false })
	if len(first) > 1 {
		return misQ("SList.All", "continues-after-stop", "stopped", "%s: All called yield %d times although the first call returned false", ctx, len(first))
	}
	if n > 0 && (len(first) != 1 || first[0] != x.vals[0]) || n == 0 && len(first) != 0 {
		return misQ("SList.All", "wrong-iterator", "stopped", "%s: All stopped after one element yields %v", ctx, first)
	}
	if x.stale != nil && x.stale.Value != x.staleVal {
		return x.mis("removed-node-value", "%s: removed node holds %v, want %v", ctx, x.stale.Value, x.staleVal)
	}
	return nil
}

func slistSearch(r *common.Run, cap int) space.Result {
	sys := space.System{
		Name:   "SList",
		Starts: 2,
		New:    func(s int) space.Instance { return newSInst(s, cap) },
		Canon:  &space.Canonizer{RenameType: reflect.TypeOf(Val(0))},
	}
	res := space.Search(r, sys)
	r.SampleL("SList ops", map[string]any{"cap": cap, "example": "PushBack, PushBack, Remove[1] (last index), PushBackNode[1] (re-insert the removed node), Swap[0 2] (one index out of range), InsertAt[-1]"})
	return res
}
