package main

import (
	"container/list"
	"fmt"
	"reflect"

	"verif/common"
	"verif/space"

	"github.com/welllog/golib/listz"
)

type dnode = listz.DNode[Val]

// dInst is two DLists L, M and, in lock-step, two container/list lists cl, cm.
//
// Handle table: e2n / n2e pair every DList node the harness holds with the container/list element
// that stands for it. A handle is the pointer golib returned when the node was created
// (PushFront, InsertBefore, ...), the pointer the harness itself handed to a *Node insertion, or —
// for the copies made by PushBackDList/PushFrontDList, which return nothing in either library —
// the pointer found by Front/Next at the position where container/list has the copy.
type dInst struct {
	cap    int
	L, M   *listz.DList[Val]
	cl, cm *list.List
	e2n    map[*list.Element]*dnode
	n2e    map[*dnode]*list.Element
	stale  *dnode // most recently removed node (nil: none)
	staleE *list.Element
	next   Val

	// description of the last operation, used only for signatures / messages / counting
	last, class string
	nontriv     bool
	start       string
}

func newDInst(start, cap int) *dInst {
	x := &dInst{cap: cap, e2n: map[*list.Element]*dnode{}, n2e: map[*dnode]*list.Element{}, last: "(start)"}
	// start 0: both zero values, 1: L constructor / M zero, 2: L zero / M constructor, 3: both constructor
	if start&1 != 0 {
		x.L, x.cl = listz.NewDoubly[Val](), list.New()
		x.start = "L=NewDoubly"
	} else {
		var l listz.DList[Val]
		var c list.List
		x.L, x.cl = &l, &c
		x.start = "L=zero-value"
	}
	if start&2 != 0 {
		x.M, x.cm = listz.NewDoubly[Val](), list.New()
		x.start += ",M=NewDoubly"
	} else {
		var l listz.DList[Val]
		var c list.List
		x.M, x.cm = &l, &c
		x.start += ",M=zero-value"
	}
	x.class = x.start
	return x
}

func (x *dInst) fresh() Val { x.next++; return x.next }

func elems(c *list.List) []*list.Element {
	var out []*list.Element
	for e := c.Front(); e != nil; e = e.Next() {
		out = append(out, e)
	}
	return out
}

func ids(c *list.List) []Val {
	var out []Val
	for e := c.Front(); e != nil; e = e.Next() {
		out = append(out, e.Value.(Val))
	}
	return out
}

// walkF / walkB traverse the real list through its public API, bounded so that a corrupted ring
// cannot hang the harness.
func walkF(l *listz.DList[Val], max int) []*dnode {
	var out []*dnode
	for e := l.Front(); e != nil && len(out) <= max; e = e.Next() {
		out = append(out, e)
	}
	return out
}

func walkB(l *listz.DList[Val], max int) []*dnode {
	var out []*dnode
	for e := l.Back(); e != nil && len(out) <= max; e = e.Prev() {
		out = append(out, e)
	}
	return out
}

func nodeVals(ns []*dnode) []Val {
	out := make([]Val, len(ns))
	for i, n := range ns {
		out[i] = n.Value
	}
	return out
}

// Handle encoding in Op.Args: h >= 0 node of L at (oracle) position h; h == -1 the removed node;
// h <= -2 node of M at position -2-h (foreign for operations on L).
func (x *dInst) handles() []int {
	var hs []int
	for i := 0; i < x.cl.Len(); i++ {
		hs = append(hs, i)
	}
	if x.stale != nil {
		hs = append(hs, -1)
	}
	for i := 0; i < x.cm.Len(); i++ {
		hs = append(hs, -2-i)
	}
	return hs
}

func (x *dInst) resolve(h int) (*dnode, *list.Element, string) {
	switch {
	case h >= 0:
		e := elems(x.cl)[h]
		return x.e2n[e], e, "member"
	case h == -1:
		return x.stale, x.staleE, "removed"
	default:
		e := elems(x.cm)[-2-h]
		return x.e2n[e], e, "foreign"
	}
}

func (x *dInst) Ops() []space.Op {
	total := x.cl.Len() + x.cm.Len()
	grow := total < x.cap
	hs := x.handles()
	var ops []space.Op
	add := func(name string, args ...int) { ops = append(ops, space.Op{Name: name, Args: args}) }
	if grow {
		add("PushBack")
		add("PushFront")
		add("M.PushBack")
		add("M.PushFront")
	}
	for _, h := range hs {
		add("Remove", h)
	}
	if x.cm.Len() > 0 {
		add("M.RemoveFront")
	}
	// insertions relative to a mark that is not in L do not grow the model: offered at the cap too
	for _, h := range hs {
		if h < 0 || grow {
			add("InsertBefore", h)
			add("InsertAfter", h)
		}
	}
	for _, h := range hs {
		add("MoveToFront", h)
		add("MoveToBack", h)
	}
	for _, e := range hs {
		for _, m := range hs {
			add("MoveBefore", e, m)
			add("MoveAfter", e, m)
		}
	}
	for o := 0; o <= 1; o++ { // 0: other = L itself, 1: other = M
		n := x.cl.Len()
		if o == 1 {
			n = x.cm.Len()
		}
		if total+n <= x.cap {
			add("PushBackDList", o)
			add("PushFrontDList", o)
		}
	}
	// node variants: k = 0 a fresh node, k = 1 the removed node; never a linked node
	ks := []int{0}
	if x.stale != nil {
		ks = append(ks, 1)
	}
	for _, k := range ks {
		if grow {
			add("PushFrontNode", k)
			add("PushBackNode", k)
		}
		for _, h := range hs {
			if h < 0 || grow {
				add("InsertNodeBefore", k, h)
				add("InsertNodeAfter", k, h)
			}
		}
	}
	add("Init")
	return ops
}

func (x *dInst) bind(n *dnode, e *list.Element) {
	x.e2n[e] = n
	x.n2e[n] = e
}

func (x *dInst) unbind(n *dnode, e *list.Element) {
	delete(x.e2n, e)
	delete(x.n2e, n)
}

func (x *dInst) mis(kind, format string, a ...any) *space.Mismatch {
	return &space.Mismatch{Sig: fmt.Sprintf("DList.%s|%s|%s", x.last, kind, x.class), What: fmt.Sprintf(format, a...)}
}

// misQ is a mismatch attributed to a read-only query instead of the last operation.
func misQ(query, kind, class, format string, a ...any) *space.Mismatch {
	return &space.Mismatch{Sig: query + "|" + kind + "|" + class, What: fmt.Sprintf(format, a...)}
}

// created compares the node returned by a value insertion with container/list's element.
func (x *dInst) created(n *dnode, e *list.Element, v Val) *space.Mismatch {
	if (n == nil) != (e == nil) {
		return x.mis("wrong-result", "returned nil = %v, container/list returned nil = %v", n == nil, e == nil)
	}
	if n == nil {
		return nil
	}
	if n.Value != v {
		return x.mis("wrong-result", "returned node holds %v, want the inserted value %v", n.Value, v)
	}
	if _, dup := x.n2e[n]; dup || n == x.stale {
		return x.mis("wrong-result", "returned node is a node that already existed")
	}
	x.bind(n, e)
	return nil
}

func insertAt(s []Val, i int, v Val) []Val {
	out := make([]Val, 0, len(s)+1)
	out = append(out, s[:i]...)
	out = append(out, v)
	return append(out, s[i:]...)
}

func (x *dInst) Apply(op space.Op) *space.Mismatch {
	x.last, x.class, x.nontriv = op.Name, "", false
	beforeL, beforeM := ids(x.cl), ids(x.cm)
	var mm *space.Mismatch
	switch op.Name {
	case "PushBack", "PushFront", "M.PushBack", "M.PushFront":
		v := x.fresh()
		l, c := x.L, x.cl
		if op.Name[0] == 'M' {
			l, c = x.M, x.cm
		}
		if op.Name == "PushBack" || op.Name == "M.PushBack" {
			mm = x.created(l.PushBack(v), c.PushBack(v), v)
		} else {
			mm = x.created(l.PushFront(v), c.PushFront(v), v)
		}
	case "Remove":
		n, e, kind := x.resolve(op.Args[0])
		x.class = kind
		got := x.L.Remove(n)
		want := x.cl.Remove(e).(Val)
		if kind == "member" {
			x.unbind(n, e)
			x.stale, x.staleE = n, e
		}
		if got != want {
			mm = x.mis("wrong-result", "Remove returned %v, container/list %v", got, want)
		}
	case "M.RemoveFront":
		e := x.cm.Front()
		n := x.e2n[e]
		x.class = "member"
		got := x.M.Remove(n)
		want := x.cm.Remove(e).(Val)
		x.unbind(n, e)
		x.stale, x.staleE = n, e
		if got != want {
			mm = x.mis("wrong-result", "Remove returned %v, container/list %v", got, want)
		}
	case "InsertBefore", "InsertAfter":
		n, e, kind := x.resolve(op.Args[0])
		x.class = "mark:" + kind
		v := x.fresh()
		if op.Name == "InsertBefore" {
			mm = x.created(x.L.InsertBefore(v, n), x.cl.InsertBefore(v, e), v)
		} else {
			mm = x.created(x.L.InsertAfter(v, n), x.cl.InsertAfter(v, e), v)
		}
	case "MoveToFront", "MoveToBack":
		n, e, kind := x.resolve(op.Args[0])
		x.class = kind
		if op.Name == "MoveToFront" {
			x.L.MoveToFront(n)
			x.cl.MoveToFront(e)
		} else {
			x.L.MoveToBack(n)
			x.cl.MoveToBack(e)
		}
	case "MoveBefore", "MoveAfter":
		n, e, k1 := x.resolve(op.Args[0])
		m, em, k2 := x.resolve(op.Args[1])
		x.class = "e:" + k1 + ",mark:" + k2
		if op.Args[0] == op.Args[1] {
			x.class = "e==mark:" + k1
		}
		if op.Name == "MoveBefore" {
			x.L.MoveBefore(n, m)
			x.cl.MoveBefore(e, em)
		} else {
			x.L.MoveAfter(n, m)
			x.cl.MoveAfter(e, em)
		}
	case "PushBackDList", "PushFrontDList":
		other, cother := x.L, x.cl
		x.class = "other=self"
		if op.Args[0] == 1 {
			other, cother = x.M, x.cm
			x.class = "other=M"
		}
		if op.Name == "PushBackDList" {
			x.L.PushBackDList(other)
			x.cl.PushBackList(cother)
		} else {
			x.L.PushFrontDList(other)
			x.cl.PushFrontList(cother)
		}
	case "PushFrontNode", "PushBackNode", "InsertNodeBefore", "InsertNodeAfter":
		// container/list has no counterpart: the expected sequence is computed on the slice of ids,
		// then the same effect is produced on cl with the value operation so that the lock-step
		// continues (and the two are cross-checked: a disagreement is a harness bug, not a finding).
		var n *dnode
		var v Val
		if op.Args[0] == 0 {
			v = x.fresh()
			n = &dnode{Value: v}
			x.class = "fresh-node"
		} else {
			n, v = x.stale, x.staleE.Value.(Val)
			x.class = "removed-node"
		}
		want := beforeL
		var e *list.Element
		switch op.Name {
		case "PushFrontNode":
			want = insertAt(beforeL, 0, v)
			x.L.PushFrontNode(n)
			e = x.cl.PushFront(v)
		case "PushBackNode":
			want = insertAt(beforeL, len(beforeL), v)
			x.L.PushBackNode(n)
			e = x.cl.PushBack(v)
		default:
			m, em, kind := x.resolve(op.Args[1])
			x.class += ",mark:" + kind
			if op.Args[1] >= 0 {
				if op.Name == "InsertNodeBefore" {
					want = insertAt(beforeL, op.Args[1], v)
				} else {
					want = insertAt(beforeL, op.Args[1]+1, v)
				}
			}
			if op.Name == "InsertNodeBefore" {
				x.L.InsertNodeBefore(n, m)
				e = x.cl.InsertBefore(v, em)
			} else {
				x.L.InsertNodeAfter(n, m)
				e = x.cl.InsertAfter(v, em)
			}
		}
		if e != nil {
			x.bind(n, e)
			if op.Args[0] == 1 {
				x.stale, x.staleE = nil, nil
			}
		}
		if got := ids(x.cl); !eqVals(got, want) {
			common.Infra("C13 harness: container/list emulation of %v gives %v, slice model %v", op, got, want)
		}
	case "Init":
		for _, e := range elems(x.cl) {
			if n := x.e2n[e]; n != nil {
				x.unbind(n, e)
			}
		}
		ret := x.L.Init()
		x.cl.Init()
		if ret != x.L {
			mm = x.mis("wrong-result", "Init did not return its receiver")
		}
	default:
		common.Infra("C13 harness: unknown op %v", op)
	}
	if x.class == "" {
		x.class = "-"
	}
	x.nontriv = !eqVals(beforeL, ids(x.cl)) || !eqVals(beforeM, ids(x.cm))
	for _, a := range op.Args {
		if a < 0 {
			x.nontriv = true
		}
	}
	if mm != nil {
		return mm
	}
	x.learn(x.L, x.cl)
	x.learn(x.M, x.cm)
	return nil
}

// learn gives handles to the copies made by Push*DList: the element of container/list that has no
// node yet is paired with the node Front/Next finds at the same position. Anything inconsistent is
// left unpaired and reported by Check.
func (x *dInst) learn(l *listz.DList[Val], c *list.List) {
	var ns []*dnode
	i := 0
	for e := c.Front(); e != nil; e, i = e.Next(), i+1 {
		if x.e2n[e] != nil {
			continue
		}
		if ns == nil {
			ns = walkF(l, c.Len())
		}
		if i < len(ns) {
			if _, taken := x.n2e[ns[i]]; !taken && ns[i] != x.stale {
				x.bind(ns[i], e)
			}
		}
	}
}

type dTable struct {
	L, M  []*dnode
	Stale *dnode
}

// Roots: both lists plus the handle table as node pointers (in oracle order), so that the key
// tells which handles exist and which node each of them denotes.
func (x *dInst) Roots() []any {
	t := dTable{Stale: x.stale}
	for _, e := range elems(x.cl) {
		t.L = append(t.L, x.e2n[e])
	}
	for _, e := range elems(x.cm) {
		t.M = append(t.M, x.e2n[e])
	}
	return []any{x.L, x.M, &t}
}

func (x *dInst) Abstract() string {
	var st []Val
	if x.staleE != nil {
		st = []Val{x.staleE.Value.(Val)}
	}
	return pattern(ids(x.cl), ids(x.cm), st)
}

func (x *dInst) Check() *space.Mismatch {
	countNontrivial(x.nontriv)
	if mm := x.checkList("L", x.L, x.cl); mm != nil {
		return mm
	}
	if mm := x.checkList("M", x.M, x.cm); mm != nil {
		return mm
	}
	if x.stale != nil {
		if x.stale.Next() != nil || x.stale.Prev() != nil {
			return x.mis("removed-node-linked", "removed node: Next() nil = %v, Prev() nil = %v; container/list: both nil", x.stale.Next() == nil, x.stale.Prev() == nil)
		}
		if want := x.staleE.Value.(Val); x.stale.Value != want {
			return x.mis("removed-node-value", "removed node holds %v, want %v", x.stale.Value, want)
		}
	}
	return nil
}

func (x *dInst) checkList(name string, l *listz.DList[Val], c *list.List) *space.Mismatch {
	want := ids(c)
	es := elems(c)
	ctx := fmt.Sprintf("list %s after %s (container/list L=%v M=%v)", name, x.last, ids(x.cl), ids(x.cm))
	if g := l.Len(); g != c.Len() {
		return x.mis("wrong-len", "%s: Len = %d, container/list %d", ctx, g, c.Len())
	}
	if (l.Front() == nil) != (c.Front() == nil) || (l.Back() == nil) != (c.Back() == nil) {
		return x.mis("wrong-sequence", "%s: Front nil = %v / Back nil = %v, container/list %v / %v", ctx, l.Front() == nil, l.Back() == nil, c.Front() == nil, c.Back() == nil)
	}
	fw := walkF(l, len(want)+2)
	if got := nodeVals(fw); !eqVals(got, want) {
		return x.mis("wrong-sequence", "%s: Front/Next traversal %v, container/list %v", ctx, got, want)
	}
	bw := walkB(l, len(want)+2)
	rev := make([]Val, len(bw))
	for i, n := range bw {
		rev[len(bw)-1-i] = n.Value
	}
	if !eqVals(rev, want) {
		return x.mis("wrong-reverse-sequence", "%s: Back/Prev traversal (reversed) %v, container/list %v", ctx, rev, want)
	}
	// All: complete, and stopped after the first element. The forward traversal and Len already
	// agree with container/list here, so a difference is All's own and is attributed to it.
	var all []Val
	for v := range l.All() {
		all = append(all, v)
		if len(all) > len(want)+2 {
			break
		}
	}
	if !eqVals(all, want) {
		return misQ("DList.All", "wrong-iterator", "full", "%s: All yields %v, container/list %v", ctx, all, want)
	}
	// one iterator value walked twice ("calling the iterator again walks the sequence again")
	seq := l.All()
	for range seq {
	}
	all = all[:0]
	for v := range seq {
		all = append(all, v)
		if len(all) > len(want)+2 {
			break
		}
	}
	if !eqVals(all, want) {
		return misQ("DList.All", "wrong-iterator", "second-walk", "%s: the iterator returned by All, walked a second time, yields %v, container/list %v", ctx, all, want)
	}
	var first []Val
	l.All()(func(v Val) bool { first = append(first, v); return false }) // explicit call: no runtime check in the way
	if len(first) > 1 {
		return misQ("DList.All", "continues-after-stop", "stopped", "%s: All called yield %d times although the first call returned false", ctx, len(first))
	}
	if len(want) > 0 && (len(first) != 1 || first[0] != want[0]) || len(want) == 0 && len(first) != 0 {
		return misQ("DList.All", "wrong-iterator", "stopped", "%s: All stopped after one element yields %v, container/list %v", ctx, first, want)
	}
	// handles: every element of container/list has its node, the traversal meets exactly these
	// nodes, and Next/Prev/Value of every handle agree with the element's
	for i, e := range es {
		n := x.e2n[e]
		if n == nil {
			return x.mis("handle-identity", "%s: the node at position %d is a node the harness already holds for another element (or none)", ctx, i)
		}
		if fw[i] != n {
			return x.mis("handle-identity", "%s: Front/Next reaches another node at position %d than the handle container/list has there", ctx, i)
		}
		if bw[len(bw)-1-i] != n {
			return x.mis("handle-identity", "%s: Back/Prev reaches another node at position %d than the handle container/list has there", ctx, i)
		}
		if n.Value != e.Value.(Val) {
			return x.mis("handle-value", "%s: handle at position %d holds %v, container/list %v", ctx, i, n.Value, e.Value)
		}
		var wn, wp *dnode
		if e.Next() != nil {
			wn = x.e2n[e.Next()]
		}
		if e.Prev() != nil {
			wp = x.e2n[e.Prev()]
		}
		if n.Next() != wn || n.Prev() != wp {
			return x.mis("handle-links", "%s: Next()/Prev() of the handle at position %d differ from container/list's element", ctx, i)
		}
	}
	if len(es) > 0 && (l.Front() != x.e2n[es[0]] || l.Back() != x.e2n[es[len(es)-1]]) {
		return x.mis("handle-identity", "%s: Front()/Back() are not the handles container/list has at the ends", ctx)
	}
	return nil
}

func dlistSearch(r *common.Run, cap int) space.Result {
	sys := space.System{
		Name:   "DList",
		Starts: 4,
		New:    func(s int) space.Instance { return newDInst(s, cap) },
		Canon:  &space.Canonizer{RenameType: reflect.TypeOf(Val(0))},
	}
	res := space.Search(r, sys)
	r.SampleL("DList ops", map[string]any{"cap": cap, "example": "PushBack, PushBack, Remove[0], MoveAfter[0 -1] (mark = removed node), PushBackDList[0] (itself), InsertNodeBefore[1 0] (re-insert the removed node)"})
	return res
}
