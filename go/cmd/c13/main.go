// C13 — listz.DList behaves exactly like container/list; listz.SList keeps sequence semantics.
// Engine E2: explicit-state BFS to the fix-point on the real objects (verif/space), reflective
// canonical state, element values renamed by first appearance.
//
//	dlist.go  system 1: two DLists in lock-step with two container/list lists (differential oracle)
//	slist.go  system 2: SList against a slice model with the reject-or-clamp latitude for
//	          out-of-range indices
package main

import (
	"fmt"
	"sync/atomic"

	"verif/common"
	"verif/space"
)

// Val is the element type. It is a named type so that space.Canonizer.RenameType can rename the
// values in order of first appearance (both list types are generic over `T any` and cannot look at
// a value); every operation that creates a value uses a fresh id, never the zero value.
type Val int

// nontrivial counts transitions (not replayed prefixes: it is incremented from Check, which the
// engine calls exactly once per transition) whose operation changed a model sequence or was given
// a removed / foreign handle or an out-of-range index.
var nontrivial int64

func countNontrivial(b bool) {
	if b {
		atomic.AddInt64(&nontrivial, 1)
	}
}

func main() {
	r := common.Start("C13", "model_checking")
	// Bounds. The design asks for a cap of 4 (thorough 5); the searches are cheap enough to go one
	// step further on both tiers (measured on 16 cores: DList cap 5 = 3 s, cap 6 = 19 s, cap 7 =
	// 160 s; SList is a few hundred transitions at any of these caps).
	capD, capS := 5, 6
	if r.Thorough() {
		capD, capS = 6, 8
	}
	var results []space.Result
	results = append(results, dlistSearch(r, capD))
	results = append(results, slistSearch(r, capS))
	space.Summarize(r, results)
	r.Nontrivial(atomic.LoadInt64(&nontrivial))
	r.Cov("dlist_size_cap_total_elements", capD)
	r.Cov("slist_size_cap", capS)
	r.Assume(
		fmt.Sprintf("small scope: DList — two lists L and M holding at most %d elements together; SList — at most %d elements, indices -1..len+1; element values are pairwise distinct fresh ids except for the copies made by PushBackDList/PushFrontDList", capD, capS),
		"handles offered to DList operations: every node of L (the handle returned when the node was created, or the one found by Front/Next for copies), the most recently removed node, every node of M (foreign); older removed nodes are forgotten (all removed nodes have the same private shape: no owner, no links)",
		"nodes handed to the *Node insertions (DList and SList) are never currently linked: they are fresh or the most recently removed node (soundness register, C13)",
		"DList.Init: the handles of the nodes that were in the list when Init was called are discarded — container/list leaves such elements half-linked (owner pointer kept), so 'like container/list' and 'operations on nodes no longer in the list are no-ops' disagree there and nothing is claimed",
		"SList out-of-range indices (i < 0 or i >= len; for InsertAt/InsertNodeAt i < 0 or i > len): the doc comments do not say whether the call is rejected or clamped, so both outcomes are accepted (rejected = nil result / list unchanged; clamped = the operation applied to the first resp. last position); a panic is never accepted; in-range behaviour is exact",
		"SList.Swap is required to exchange the two values at the positions; whether it does so by swapping values or nodes is not asserted (node identities at the two positions are re-learned)",
		"the Next() of a node removed from an SList is not asserted (only the private state key sees it); for DList removed nodes Next()/Prev() must be nil as in container/list",
	)
	r.Finish("states = distinct canonical dumps of the private object graphs (DList: both lists with sentinel ring, owner pointers and len, plus the harness handle table; SList: head/tail/len chain plus handle table; element values renamed by first appearance); every transition is one real method call whose results are compared with container/list (DList) or the slice model (SList), followed by the query battery (Len, Front/Next and Back/Prev traversals, All, Next/Prev/Value of every held handle; SList: Len, Front, Back, Get, Next chain, All); non-trivial = the operation changed a model sequence or was given a removed / foreign handle or an out-of-range index")
}

// pattern renders id sequences with ids renamed by first appearance (abstract value for the
// vacuity report, independent of which concrete fresh ids a path happened to use).
func pattern(seqs ...[]Val) string {
	ren := map[Val]int{}
	s := ""
	for _, q := range seqs {
		s += "["
		for i, v := range q {
			id, ok := ren[v]
			if !ok {
				id = len(ren)
				ren[v] = id
			}
			if i > 0 {
				s += " "
			}
			s += fmt.Sprint(id)
		}
		s += "]"
	}
	return s
}

func eqVals(a, b []Val) bool {
	if len(a) != len(b) {
		return false
	}
	for i := range a {
		if a[i] != b[i] {
			return false
		}
	}
	return true
}
