// mutgen lists and applies small syntactic mutations (mutation testing of the CHECKS: a mutant
// that golib's own tests do not notice should be noticed by the property check of its file).
//
//	mutgen -list file.go            prints one line per mutant: id<TAB>line<TAB>description
//	mutgen -apply id file.go > out  prints the mutated file
package main

import (
	"bytes"
	"flag"
	"fmt"
	"go/ast"
	"go/parser"
	"go/printer"
	"go/token"
	"os"
	"strconv"
)

type mut struct {
	line  int
	desc  string
	apply func()
	undo  func()
}

func main() {
	list := flag.Bool("list", false, "")
	apply := flag.Int("apply", -1, "")
	flag.Parse()
	path := flag.Arg(0)
	fset := token.NewFileSet()
	f, err := parser.ParseFile(fset, path, nil, parser.ParseComments)
	if err != nil {
		fmt.Fprintln(os.Stderr, err)
		os.Exit(2)
	}
	var muts []mut
	add := func(pos token.Pos, desc string, ap, un func()) {
		muts = append(muts, mut{fset.Position(pos).Line, desc, ap, un})
	}
	rel := map[token.Token][]token.Token{
		token.LSS: {token.LEQ, token.GTR}, token.LEQ: {token.LSS, token.GEQ}, token.GTR: {token.GEQ, token.LSS}, token.GEQ: {token.GTR, token.LEQ},
		token.EQL: {token.NEQ}, token.NEQ: {token.EQL},
		token.LAND: {token.LOR}, token.LOR: {token.LAND},
		token.ADD: {token.SUB}, token.SUB: {token.ADD}, token.MUL: {token.QUO}, token.SHL: {token.SHR}, token.SHR: {token.SHL},
		token.AND: {token.OR}, token.OR: {token.AND},
	}
	ast.Inspect(f, func(n ast.Node) bool {
		switch x := n.(type) {
		case *ast.BinaryExpr:
			for _, t := range rel[x.Op] {
				x, old, t := x, x.Op, t
				add(x.OpPos, fmt.Sprintf("%s -> %s", old, t), func() { x.Op = t }, func() { x.Op = old })
			}
		case *ast.BasicLit:
			if x.Kind == token.INT {
				if v, err := strconv.ParseInt(x.Value, 0, 64); err == nil && v < 1<<20 {
					x, old := x, x.Value
					add(x.Pos(), fmt.Sprintf("%s -> %d", old, v+1), func() { x.Value = strconv.FormatInt(v+1, 10) }, func() { x.Value = old })
					if v > 0 {
						add(x.Pos(), fmt.Sprintf("%s -> %d", old, v-1), func() { x.Value = strconv.FormatInt(v-1, 10) }, func() { x.Value = old })
					}
				}
			}
		case *ast.IncDecStmt:
			x, old := x, x.Tok
			nt := token.DEC
			if old == token.DEC {
				nt = token.INC
			}
			add(x.TokPos, fmt.Sprintf("%s -> %s", old, nt), func() { x.Tok = nt }, func() { x.Tok = old })
		case *ast.UnaryExpr:
			if x.Op == token.NOT {
				x := x
				add(x.OpPos, "drop !", func() { x.Op = token.ADD; x.X = &ast.ParenExpr{X: x.X} }, nil)
			}
		case *ast.Ident:
			if x.Name == "true" || x.Name == "false" {
				x, old := x, x.Name
				nv := map[string]string{"true": "false", "false": "true"}[old]
				add(x.Pos(), old+" -> "+nv, func() { x.Name = nv }, func() { x.Name = old })
			}
		case *ast.BranchStmt:
			if x.Label == nil && (x.Tok == token.BREAK || x.Tok == token.CONTINUE) {
				x, old := x, x.Tok
				nt := map[token.Token]token.Token{token.BREAK: token.CONTINUE, token.CONTINUE: token.BREAK}[old]
				add(x.Pos(), fmt.Sprintf("%s -> %s", old, nt), func() { x.Tok = nt }, func() { x.Tok = old })
			}
		case *ast.BlockStmt:
			// delete one plain statement (assignment / expression statement / inc-dec) of a block
			for i, st := range x.List {
				switch st.(type) {
				case *ast.AssignStmt, *ast.ExprStmt, *ast.IncDecStmt:
					if as, ok := st.(*ast.AssignStmt); ok && as.Tok == token.DEFINE {
						continue // would leave undefined names
					}
					x, i, st := x, i, st
					add(st.Pos(), "delete statement", func() { x.List[i] = &ast.EmptyStmt{Semicolon: st.Pos(), Implicit: false} }, func() { x.List[i] = st })
				}
			}
		}
		return true
	})
	if *list {
		for i, m := range muts {
			fmt.Printf("%d\t%d\t%s\n", i, m.line, m.desc)
		}
		return
	}
	if *apply < 0 || *apply >= len(muts) {
		os.Exit(2)
	}
	muts[*apply].apply()
	var buf bytes.Buffer
	if err := printer.Fprint(&buf, fset, f); err != nil {
		os.Exit(2)
	}
	os.Stdout.Write(buf.Bytes())
}
