package main

import (
	"fmt"

	"verif/common"

	"github.com/welllog/golib/slicez"
)

// The FlexSlice search runs on element type int. Whether an argument that is a piece of the
// receiver's own backing array is handled right depends on ADDRESS arithmetic, and that depends on
// the element size: with 1-byte elements neighbouring elements are one address apart, with larger
// ones there is slack an off-by-one can hide in. This family runs Append / Prepend with every piece
// buf[a:b] of the receiver's own array (stored part and spare capacity) as the argument, for every
// len <= cap <= 6, on element types of 1, 2, 8, 16 and 24 bytes and a zero-size type, against the
// definition "the argument is read before anything is written".
func selfAliasSizes(r *common.Run) {
	n := int64(0)
	n += selfAlias(r, "uint8", func(i int) uint8 { return uint8(i) })
	n += selfAlias(r, "uint16", func(i int) uint16 { return uint16(i) })
	n += selfAlias(r, "int", func(i int) int { return i })
	n += selfAlias(r, "string", func(i int) string { return fmt.Sprint(i) })
	n += selfAlias(r, "[3]int", func(i int) [3]int { return [3]int{i, -i, i} })
	n += selfAlias(r, "struct{}", func(i int) struct{} { return struct{}{} })
	r.Section(map[string]any{"family": "FlexSlice Append/Prepend with a piece of the receiver's own array as argument, element sizes 1,2,8,16,24,0 bytes", "cases": n})
}

func selfAlias[T comparable](r *common.Run, typ string, mk func(int) T) int64 {
	var cases int64
	const maxCap = 6
	for c := 1; c <= maxCap; c++ {
		for l := 0; l <= c; l++ {
			for a := 0; a <= c; a++ {
				for b := a; b <= c; b++ {
					for _, prepend := range []bool{false, true} {
						cases++
						buf := make([]T, c)
						for i := range buf {
							buf[i] = mk(i + 1)
						}
						arg := buf[a:b]
						want := make([]T, 0, l+b-a)
						if prepend {
							want = append(append(want, arg...), buf[:l]...)
						} else {
							want = append(append(want, buf[:l]...), arg...)
						}
						f := slicez.FlexSlice[T]{Values: buf[:l]}
						name := "Append"
						_, stack, p := common.Catch(func() {
							if prepend {
								name = "Prepend"
								f.Prepend(arg...)
							} else {
								f.Append(arg...)
							}
						})
						r.Eval(1)
						if l > 0 && b > a {
							r.Nontrivial(1)
						}
						cs := map[string]any{"element_type": typ, "len": l, "cap": c, "argument": fmt.Sprintf("array[%d:%d]", a, b), "op": name}
						if p {
							r.Violation("FlexSlice|"+name+"|self-alias|panic", fmt.Sprintf("FlexSlice[%s] of len %d cap %d: %s(array[%d:%d]...) panicked at %s", typ, l, c, name, a, b, common.PanicSite(stack)), cs, "")
							continue
						}
						ok := len(f.Values) == len(want)
						for i := 0; ok && i < len(want); i++ {
							ok = f.Values[i] == want[i]
						}
						if !ok {
							r.Violation("FlexSlice|"+name+"|self-alias|wrong-content", fmt.Sprintf("FlexSlice[%s] with Values = array[:%d] (array = %v): %s(array[%d:%d]...) left %v, want %v (the argument as it was at the call)", typ, l, buf[:0:0], name, a, b, f.Values, want), cs, "")
						}
					}
				}
			}
		}
	}
	return cases
}
