package main

import (
	"math"
	"errors"
	"fmt"
	"sort"
	"strconv"
	"strings"
	"sync"

	"verif/common"

	"github.com/welllog/golib/slicez"
)

// ---------------------------------------------------------------- helpers

func genSlices(k, maxLen int) [][]int {
	out := [][]int{nil, {}}
	for l := 1; l <= maxLen; l++ {
		common.Seqs(k, l, func(idx []int) { out = append(out, append([]int(nil), idx...)) })
	}
	return out
}

// clone keeps nil-ness and gives exact capacity.
func clone(s []int) []int {
	if s == nil {
		return nil
	}
	c := make([]int, len(s))
	copy(c, s)
	return c
}

func eq(a, b []int) bool {
	if len(a) != len(b) {
		return false
	}
	for i := range a {
		if a[i] != b[i] {
			return false
		}
	}
	return true
}

func sameMultiset(a, b []int) bool {
	if len(a) != len(b) {
		return false
	}
	x, y := append([]int(nil), a...), append([]int(nil), b...)
	sort.Ints(x)
	sort.Ints(y)
	return eq(x, y)
}

func lit(s []int) string {
	if s == nil {
		return "[]int(nil)"
	}
	p := make([]string, len(s))
	for i, v := range s {
		p[i] = strconv.Itoa(v)
	}
	return "[]int{" + strings.Join(p, ", ") + "}"
}

func has(s []int, v int) bool {
	for _, x := range s {
		if x == v {
			return true
		}
	}
	return false
}

// ---------------------------------------------------------------- definitions (independent of golib)

func diffDef(s1, s2 []int) []int {
	var out []int
	for _, v := range s1 {
		if !has(s2, v) {
			out = append(out, v)
		}
	}
	return out
}

func intersectDef(s1, s2 []int) []int {
	var out []int
	for _, v := range s1 {
		if has(s2, v) {
			out = append(out, v)
		}
	}
	return out
}

func uniqueByDef(s []int, key func(int) int) []int {
	var out []int
	for i, v := range s {
		first := true
		for _, w := range s[:i] {
			if key(w) == key(v) {
				first = false
				break
			}
		}
		if first {
			out = append(out, v)
		}
	}
	return out
}

func filterDef(s []int, p func(int) bool) []int {
	var out []int
	for _, v := range s {
		if p(v) {
			out = append(out, v)
		}
	}
	return out
}

// subDef: the elements at positions i with start <= i and (end negative or beyond the slice: no upper
// bound; else i < end). A negative start, start > len and start >= end fall out of the predicate.
func subDef(s []int, start, end int) []int {
	var out []int
	for i, v := range s {
		if i >= start && (end < 0 || i < end) {
			out = append(out, v)
		}
	}
	return out
}

// copyDefs: positions i >= start with fewer than length elements before them (negative length: all).
// For start < 0 (undocumented) two readings are accepted.
func copyDefs(s []int, start, length int) (clampStart, window []int) {
	st := start
	if st < 0 {
		st = 0
	}
	for i, v := range s {
		if i >= st && (length < 0 || i-st < length) {
			clampStart = append(clampStart, v)
		}
		// window reading for a negative start: positions start..start+length-1 intersected with the slice
		if i >= start && (length < 0 || (start >= 0 && i-start < length) || (start < 0 && length > -(start+1) && i <= length+start-1+0)) {
			window = append(window, v)
		}
	}
	return
}

func ident(v int) int   { return v }
func mod2(v int) int    { return v % 2 }
func times10(v int) int { return v*10 + 1 }

type predT struct {
	name string
	fn   func(int) bool
}

var preds = []predT{
	{"v==0", func(v int) bool { return v == 0 }},
	{"v>=1", func(v int) bool { return v >= 1 }},
	{"v%2==0", func(v int) bool { return v%2 == 0 }},
	{"false", func(int) bool { return false }},
	{"true", func(int) bool { return true }},
}

// ---------------------------------------------------------------- dst layouts

type layout int

const (
	dNil layout = iota
	dCap0
	dCap1
	dLarge
	dStale // a reused destination that still holds the previous result (non-zero length)
	dS1
	dS2
)

var layoutName = [...]string{"nil", "fresh-cap0", "fresh-cap1", "fresh-cap16", "reused-with-stale-content", "s1[:0]", "s2[:0]"}
var layoutExpr = [...]string{"[]int(nil)", "make([]int, 0)", "make([]int, 0, 1)", "make([]int, 0, 16)", "append(make([]int, 0, 8), 7, 8, 9)", "s1[:0]", "s2[:0]"}

func mkDst(l layout, s1, s2 []int) []int {
	switch l {
	case dNil:
		return nil
	case dCap0:
		return make([]int, 0)
	case dCap1:
		return make([]int, 0, 1)
	case dLarge:
		return make([]int, 0, 16)
	case dStale:
		return append(make([]int, 0, 8), 7, 8, 9)
	case dS1:
		return s1[:0]
	default:
		return s2[:0]
	}
}

// ---------------------------------------------------------------- per-shard context

const (
	fDiff = iota
	fIntersect
	fUnique
	fUniqueByKey
	fFilter
	fDiffIP
	fIntersectIP
	fUniqueIP
	fUniqueByKeyIP
	fFilterIP
	fEqual
	fIndex
	fSubSlice
	fCopy
	fRemove
	fChunk
	fChunkProcess
	fValues
	fCount
)

var fName = [fCount]string{"Diff", "Intersect", "Unique", "UniqueByKey", "Filter", "DiffInPlaceFirst", "IntersectInPlaceFirst",
	"UniqueInPlace", "UniqueByKeyInPlace", "FilterInPlace", "Equal", "Index/IndexFunc/Contains/ContainsFunc", "SubSlice", "Copy", "Remove",
	"Chunk", "ChunkProcess", "Values"}

type ctx struct {
	r      *common.Run
	n      [fCount]int64
	nt     int64
	alphaK int
	npred  int
}

var (
	totMu  sync.Mutex
	totals [fCount]int64
)

func (c *ctx) flush() {
	var ev int64
	totMu.Lock()
	for i, v := range c.n {
		totals[i] += v
		ev += v
	}
	totMu.Unlock()
	c.r.Eval(ev)
	c.r.Nontrivial(c.nt)
}

func properSub(want, s1 []int) bool { return len(want) > 0 && len(want) < len(s1) }

// setOp runs one non-in-place operation with one dst layout. alias: s2 is the same slice as s1.
//
// Signature class: "dst-not-aliased" for the four fresh layouts, "dst=s1[:0]" / "dst=s2[:0]" for the
// aliasing ones — but a failure with an aliasing dst on operands that already fail with a fresh dst
// (baseFailed) is not an aliasing defect and is counted under the not-aliased signature.
func (c *ctx) setOp(f int, lay layout, o1, o2 []int, binary, alias bool, extra string, want []int, call func(dst, s1, s2 []int) []int, callExpr string, baseFailed bool) (failed bool) {
	c.n[f]++
	s1 := clone(o1)
	s2 := clone(o2)
	if alias {
		s2 = s1
	}
	dst := mkDst(lay, s1, s2)
	var got []int
	_, st, p := common.Catch(func() { got = call(dst, s1, s2) })
	class := "dst-not-aliased"
	if (lay == dS1 || lay == dS2) && !baseFailed {
		class = "dst=" + layoutName[lay]
	}
	if alias {
		class += ",s2-is-s1"
	}
	cs := func() map[string]any {
		m := map[string]any{"s1": lit(o1), "dst": layoutName[lay]}
		if binary {
			m["s2"] = lit(o2)
			if alias {
				m["s2"] = "the same slice as s1"
			}
		}
		if extra != "" {
			m["fn"] = extra
		}
		return m
	}
	goTest := func() string {
		s2e := lit(o2)
		if alias {
			s2e = "s1"
		}
		return fmt.Sprintf("func TestReplay(t *testing.T) { s1 := %s; s2 := %s; _ = s2; got := %s; if !reflect.DeepEqual(append([]int{}, got...), append([]int{}, %s...)) { t.Fatalf(\"got %%v\", got) } }",
			lit(o1), s2e, strings.ReplaceAll(callExpr, "DST", layoutExpr[lay]), lit(want))
	}
	if p {
		m := cs()
		m["stack"] = st
		c.r.Violation(fName[f]+"|panic|"+class, fmt.Sprintf("%s panicked at %s", fName[f], common.PanicSite(st)), m, goTest())
		return true
	}
	if !eq(got, want) {
		failed = true
		c.r.Violation(fName[f]+"|wrong-result|"+class, fmt.Sprintf("%s returned %v, want %v", fName[f], got, want), cs(), goTest())
	}
	if lay != dS1 && !(alias && lay == dS2) && !eq(s1, o1) {
		failed = true
		c.r.Violation(fName[f]+"|input-modified|"+class, fmt.Sprintf("%s changed s1 (not aliased by dst) from %v to %v", fName[f], o1, s1), cs(), "")
	}
	if binary && !alias && lay != dS2 && !eq(s2, o2) {
		failed = true
		c.r.Violation(fName[f]+"|input-modified|"+class, fmt.Sprintf("%s changed s2 (not aliased by dst) from %v to %v", fName[f], o2, s2), cs(), "")
	}
	return failed
}

// inPlace runs one in-place variant.
func (c *ctx) inPlace(f int, o1, o2 []int, binary, alias bool, extra string, want []int, call func(s1, s2 []int) []int, callExpr string) {
	c.n[f]++
	s1 := clone(o1)
	s2 := clone(o2)
	if alias {
		s2 = s1
	}
	var got []int
	_, st, p := common.Catch(func() { got = call(s1, s2) })
	class := "distinct-operands"
	if alias {
		class = "s2-is-s1"
	}
	cs := func() map[string]any {
		m := map[string]any{"s1": lit(o1)}
		if binary {
			m["s2"] = lit(o2)
			if alias {
				m["s2"] = "the same slice as s1"
			}
		}
		if extra != "" {
			m["fn"] = extra
		}
		return m
	}
	goTest := func() string {
		s2e := lit(o2)
		if alias {
			s2e = "s1"
		}
		return fmt.Sprintf("func TestReplay(t *testing.T) { s1 := %s; s2 := %s; _ = s2; got := %s; t.Logf(\"returned %%v (want a permutation of %s), s1 afterwards %%v (want a permutation of %s)\", got, s1) }",
			lit(o1), s2e, callExpr, lit(want), lit(o1))
	}
	if p {
		m := cs()
		m["stack"] = st
		c.r.Violation(fName[f]+"|panic|"+class, fmt.Sprintf("%s panicked at %s", fName[f], common.PanicSite(st)), m, goTest())
		return
	}
	if !sameMultiset(got, want) {
		c.r.Violation(fName[f]+"|wrong-multiset|"+class, fmt.Sprintf("%s returned %v, want a permutation of %v", fName[f], got, want), cs(), goTest())
	}
	if !sameMultiset(s1, o1) {
		c.r.Violation(fName[f]+"|argument-not-a-permutation|"+class, fmt.Sprintf("%s left the argument as %v, which is not a permutation of the original %v", fName[f], s1, o1), cs(), goTest())
	}
	if binary && !alias && !eq(s2, o2) {
		c.r.Violation(fName[f]+"|input-modified|"+class, fmt.Sprintf("%s changed s2 from %v to %v", fName[f], o2, s2), cs(), "")
	}
}

// ---------------------------------------------------------------- families

func (c *ctx) binaryOps(o1 []int, S2 [][]int) {
	run := func(o2 []int, alias bool) {
		eff := o2
		if alias {
			eff = o1
		}
		wd, wi := diffDef(o1, eff), intersectDef(o1, eff)
		var bd, bi bool // some fresh-dst layout failed on these operands
		for lay := dNil; lay <= dS2; lay++ {
			if lay == dS1 && len(o1) == 0 { // s1[:0] of nil / empty is the nil / fresh-cap0 layout
				continue
			}
			if lay == dS2 && (len(eff) == 0 || alias) {
				continue
			}
			if c.setOp(fDiff, lay, o1, o2, true, alias, "", wd, slicez.Diff[int], "slicez.Diff(DST, s1, s2)", bd) && lay < dS1 {
				bd = true
			}
			if c.setOp(fIntersect, lay, o1, o2, true, alias, "", wi, slicez.Intersect[int], "slicez.Intersect(DST, s1, s2)", bi) && lay < dS1 {
				bi = true
			}
			if properSub(wd, o1) {
				c.nt++
			}
			if properSub(wi, o1) {
				c.nt++
			}
		}
		c.inPlace(fDiffIP, o1, o2, true, alias, "", wd, slicez.DiffInPlaceFirst[int], "slicez.DiffInPlaceFirst(s1, s2)")
		c.inPlace(fIntersectIP, o1, o2, true, alias, "", wi, slicez.IntersectInPlaceFirst[int], "slicez.IntersectInPlaceFirst(s1, s2)")
		if properSub(wd, o1) {
			c.nt++
		}
		if properSub(wi, o1) {
			c.nt++
		}
	}
	for _, o2 := range S2 {
		run(o2, false)
	}
	if len(o1) > 0 {
		run(nil, true)
	}
	// s2 is a proper piece of s1 (shares its array): the membership set is s2's content at the call
	for i := 0; i < len(o1); i++ {
		for j := i + 1; j <= len(o1); j++ {
			if i == 0 && j == len(o1) {
				continue
			}
			c.pieceOps(o1, i, j)
		}
	}
}

func (c *ctx) pieceOps(o1 []int, i, j int) {
	piece := clone(o1[i:j])
	wd, wi := diffDef(o1, piece), intersectDef(o1, piece)
	type op struct {
		f       int
		inPlace bool
		want    []int
		call    func(s1, s2 []int) []int
		expr    string
	}
	ops := []op{
		{fDiffIP, true, wd, slicez.DiffInPlaceFirst[int], "slicez.DiffInPlaceFirst(s1, s1[%d:%d])"},
		{fIntersectIP, true, wi, slicez.IntersectInPlaceFirst[int], "slicez.IntersectInPlaceFirst(s1, s1[%d:%d])"},
		{fDiff, false, wd, func(s1, s2 []int) []int { return slicez.Diff(s1[:0], s1, s2) }, "slicez.Diff(s1[:0], s1, s1[%d:%d])"},
		{fIntersect, false, wi, func(s1, s2 []int) []int { return slicez.Intersect(s1[:0], s1, s2) }, "slicez.Intersect(s1[:0], s1, s1[%d:%d])"},
		{fDiff, false, wd, func(s1, s2 []int) []int { return slicez.Diff(nil, s1, s2) }, "slicez.Diff(nil, s1, s1[%d:%d])"},
		{fIntersect, false, wi, func(s1, s2 []int) []int { return slicez.Intersect(nil, s1, s2) }, "slicez.Intersect(nil, s1, s1[%d:%d])"},
	}
	for _, o := range ops {
		c.n[o.f]++
		c.nt++
		s1 := clone(o1)
		var got []int
		_, st, p := common.Catch(func() { got = o.call(s1, s1[i:j]) })
		expr := fmt.Sprintf(o.expr, i, j)
		cs := map[string]any{"s1": lit(o1), "call": expr}
		gt := fmt.Sprintf("func TestReplay(t *testing.T) { s1 := %s; got := %s; t.Logf(\"returned %%v, want %s\", got) }", lit(o1), expr, lit(o.want))
		switch {
		case p:
			cs["stack"] = st
			c.r.Violation(fName[o.f]+"|panic|s2-is-a-piece-of-s1", fmt.Sprintf("%s panicked at %s", expr, common.PanicSite(st)), cs, gt)
		case o.inPlace:
			if !sameMultiset(got, o.want) {
				c.r.Violation(fName[o.f]+"|wrong-multiset|s2-is-a-piece-of-s1", fmt.Sprintf("%s with s1 = %s returned %v, want a permutation of %v", expr, lit(o1), got, o.want), cs, gt)
			}
			if !sameMultiset(s1, o1) {
				c.r.Violation(fName[o.f]+"|argument-not-a-permutation|s2-is-a-piece-of-s1", fmt.Sprintf("%s left s1 = %s as %v", expr, lit(o1), s1), cs, gt)
			}
		default:
			if !eq(got, o.want) {
				c.r.Violation(fName[o.f]+"|wrong-result|s2-is-a-piece-of-s1", fmt.Sprintf("%s with s1 = %s returned %v, want %v", expr, lit(o1), got, o.want), cs, gt)
			}
		}
	}
}

func (c *ctx) unaryOps(o1 []int) {
	wu := uniqueByDef(o1, ident)
	wk := uniqueByDef(o1, mod2)
	var bu, bk bool
	bf := make([]bool, len(preds))
	for lay := dNil; lay <= dS1; lay++ {
		if lay == dS1 && len(o1) == 0 {
			continue
		}
		if c.setOp(fUnique, lay, o1, nil, false, false, "", wu, func(dst, s, _ []int) []int { return slicez.Unique(dst, s) }, "slicez.Unique(DST, s1)", bu) {
			bu = true
		}
		if c.setOp(fUniqueByKey, lay, o1, nil, false, false, "key=v%2", wk, func(dst, s, _ []int) []int { return slicez.UniqueByKey(dst, s, mod2) },
			"slicez.UniqueByKey(DST, s1, func(v int) int { return v % 2 })", bk) {
			bk = true
		}
		if properSub(wu, o1) {
			c.nt++
		}
		if properSub(wk, o1) {
			c.nt++
		}
		for pi, pr := range preds[:c.npred] {
			wf := filterDef(o1, pr.fn)
			if c.setOp(fFilter, lay, o1, nil, false, false, "predicate "+pr.name, wf, func(dst, s, _ []int) []int { return slicez.Filter(dst, s, pr.fn) },
				"slicez.Filter(DST, s1, func(v int) bool { return "+pr.name+" })", bf[pi]) {
				bf[pi] = true
			}
			if properSub(wf, o1) {
				c.nt++
			}
		}
	}
	c.inPlace(fUniqueIP, o1, nil, false, false, "", wu, func(s, _ []int) []int { return slicez.UniqueInPlace(s) }, "slicez.UniqueInPlace(s1)")
	c.inPlace(fUniqueByKeyIP, o1, nil, false, false, "key=v%2", wk, func(s, _ []int) []int { return slicez.UniqueByKeyInPlace(s, mod2) },
		"slicez.UniqueByKeyInPlace(s1, func(v int) int { return v % 2 })")
	if properSub(wu, o1) {
		c.nt++
	}
	if properSub(wk, o1) {
		c.nt++
	}
	for _, pr := range preds[:c.npred] {
		wf := filterDef(o1, pr.fn)
		c.inPlace(fFilterIP, o1, nil, false, false, "predicate "+pr.name, wf, func(s, _ []int) []int { return slicez.FilterInPlace(s, pr.fn) },
			"slicez.FilterInPlace(s1, func(v int) bool { return "+pr.name+" })")
		if properSub(wf, o1) {
			c.nt++
		}
	}
}

func (c *ctx) equalOne(a, b []int) {
	c.n[fEqual]++
	x, y := clone(a), clone(b)
	var got bool
	_, st, p := common.Catch(func() { got = slicez.Equal(x, y) })
	cs := map[string]any{"s1": lit(a), "s2": lit(b)}
	class := "different-length"
	if len(a) == len(b) {
		class = "same-length"
		c.nt++
	}
	if p {
		cs["stack"] = st
		c.r.Violation("Equal|panic|"+class, "Equal panicked", cs, "")
		return
	}
	if want := eq(a, b); got != want {
		c.r.Violation("Equal|wrong-result|"+class, fmt.Sprintf("Equal(%s, %s) = %v, want %v", lit(a), lit(b), got, want), cs,
			fmt.Sprintf("func TestReplay(t *testing.T) { if slicez.Equal(%s, %s) != %v { t.Fatal(\"wrong\") } }", lit(a), lit(b), want))
	}
	if !eq(x, a) || !eq(y, b) {
		c.r.Violation("Equal|input-modified|"+class, "Equal changed an operand", cs, "")
	}
}

func (c *ctx) equalOps(o1 []int, S2 [][]int, maxL2 int) {
	for _, o2 := range S2 {
		c.equalOne(o1, o2)
		if len(o1) > maxL2 { // the reversed pair is not produced by another shard
			c.equalOne(o2, o1)
		}
	}
	if len(o1) > maxL2 { // equal and nearly equal operands longer than any s2
		c.equalOne(o1, o1)
		for i := range o1 {
			m := clone(o1)
			m[i] = (m[i] + 1) % c.alphaK
			c.equalOne(o1, m)
		}
	}
}

// argValues: the small range around the slice plus the extremes of int ("oversized" arguments:
// arithmetic on them must not wrap around).
func argValues(lo, hi int) []int {
	var out []int
	for v := lo; v <= hi; v++ {
		out = append(out, v)
	}
	return append(out, math.MaxInt, math.MaxInt-1, math.MaxInt-2, math.MaxInt/2+1, math.MaxInt32, math.MinInt, math.MinInt+1)
}

func argClass(name string, v, n int) string {
	switch {
	case v < 0:
		return name + "<0"
	case v > n:
		return name + ">len"
	default:
		return name + "-in-0..len"
	}
}

func (c *ctx) indexOps(o1 []int) {
	n := len(o1)
	for v := -1; v <= c.alphaK; v++ {
		want := -1
		for i, x := range o1 {
			if x == v {
				want = i
				break
			}
		}
		class := "absent"
		if want >= 0 {
			class = "present"
		}
		s := clone(o1)
		var gi, gf int
		var gc, gcf bool
		_, st, p := common.Catch(func() {
			gi = slicez.Index(s, v)
			gf = slicez.IndexFunc(s, func(x int) bool { return x == v })
			gc = slicez.Contains(s, v)
			gcf = slicez.ContainsFunc(s, func(x int) bool { return x == v })
		})
		c.n[fIndex] += 4
		if want >= 0 {
			c.nt += 4
		}
		cs := map[string]any{"s": lit(o1), "v": v}
		if p {
			cs["stack"] = st
			c.r.Violation("Index|panic|"+class, "Index/IndexFunc/Contains/ContainsFunc panicked at "+common.PanicSite(st), cs, "")
			continue
		}
		if gi != want {
			c.r.Violation("Index|wrong-result|"+class, fmt.Sprintf("Index(%s, %d) = %d, want %d", lit(o1), v, gi, want), cs, "")
		}
		if gf != want {
			c.r.Violation("IndexFunc|wrong-result|"+class, fmt.Sprintf("IndexFunc(%s, ==%d) = %d, want %d", lit(o1), v, gf, want), cs, "")
		}
		if gc != (want >= 0) {
			c.r.Violation("Contains|wrong-result|"+class, fmt.Sprintf("Contains(%s, %d) = %v", lit(o1), v, gc), cs, "")
		}
		if gcf != (want >= 0) {
			c.r.Violation("ContainsFunc|wrong-result|"+class, fmt.Sprintf("ContainsFunc(%s, ==%d) = %v", lit(o1), v, gcf), cs, "")
		}
		if !eq(s, o1) {
			c.r.Violation("Index|input-modified|"+class, "an Index-family function changed its operand", cs, "")
		}
	}
	for _, a := range argValues(-2, n+2) {
		for _, b := range argValues(-2, n+2) {
			outside := a < 0 || a > n || b < 0 || b > n
			// ---- SubSlice(s, start=a, end=b)
			{
				c.n[fSubSlice]++
				if outside {
					c.nt++
				}
				s := clone(o1)
				var got []int
				_, st, p := common.Catch(func() { got = slicez.SubSlice(s, a, b) })
				class := argClass("start", a, n) + "," + argClass("end", b, n)
				cs := map[string]any{"s": lit(o1), "start": a, "end": b}
				want := subDef(o1, a, b)
				gt := fmt.Sprintf("func TestReplay(t *testing.T) { got := slicez.SubSlice(%s, %d, %d); if !reflect.DeepEqual(append([]int{}, got...), append([]int{}, %s...)) { t.Fatalf(\"got %%v\", got) } }", lit(o1), a, b, lit(want))
				if p {
					cs["stack"] = st
					c.r.Violation("SubSlice|panic|"+class, "SubSlice panicked at "+common.PanicSite(st), cs, gt)
				} else {
					if !eq(got, want) {
						c.r.Violation("SubSlice|wrong-result|"+class, fmt.Sprintf("SubSlice(%s, %d, %d) = %v, want %v", lit(o1), a, b, got, want), cs, gt)
					}
					if !eq(s, o1) {
						c.r.Violation("SubSlice|input-modified|"+class, "SubSlice changed its operand", cs, "")
					}
				}
			}
			// ---- Copy(s, start=a, length=b)
			{
				c.n[fCopy]++
				if outside {
					c.nt++
				}
				s := clone(o1)
				var got []int
				_, st, p := common.Catch(func() { got = slicez.Copy(s, a, b) })
				lc := "length-in-0..len"
				if b < 0 {
					lc = "length<0"
				} else if b > n {
					lc = "length>len"
				}
				class := argClass("start", a, n) + "," + lc
				cs := map[string]any{"s": lit(o1), "start": a, "length": b}
				w1, w2 := copyDefs(o1, a, b)
				gt := fmt.Sprintf("func TestReplay(t *testing.T) { got := slicez.Copy(%s, %d, %d); if !reflect.DeepEqual(append([]int{}, got...), append([]int{}, %s...)) { t.Fatalf(\"got %%v\", got) } }", lit(o1), a, b, lit(w1))
				if p {
					cs["stack"] = st
					c.r.Violation("Copy|panic|"+class, "Copy panicked at "+common.PanicSite(st), cs, gt)
				} else {
					if !eq(got, w1) && !eq(got, w2) {
						c.r.Violation("Copy|wrong-result|"+class, fmt.Sprintf("Copy(%s, %d, %d) = %v, want %v", lit(o1), a, b, got, w1), cs, gt)
					}
					if !eq(s, o1) {
						c.r.Violation("Copy|input-modified|"+class, "Copy changed its operand", cs, "")
					}
					// fresh memory: writes to the operand are invisible in the result and vice versa
					snap := clone(got)
					for i := range s {
						s[i] += 100
					}
					if !eq(got, snap) {
						c.r.Violation("Copy|not-fresh", fmt.Sprintf("after writing to s the result of Copy(%s, %d, %d) changed from %v to %v", lit(o1), a, b, snap, got), cs, "")
					}
					copy(s, o1)
					full := got[:cap(got)]
					for i := range full {
						full[i] = -5
					}
					if !eq(s, o1) {
						c.r.Violation("Copy|not-fresh", fmt.Sprintf("writing to the result of Copy(%s, %d, %d) (up to its capacity) changed s to %v", lit(o1), a, b, s), cs, "")
					}
				}
			}
		}
		// ---- Remove(s, index=a)
		{
			c.n[fRemove]++
			if a < 0 || a >= n {
				c.nt++
			}
			s := clone(o1)
			var got []int
			var gv int
			var ok bool
			_, st, p := common.Catch(func() { got, gv, ok = slicez.Remove(s, a) })
			class := "index-in-range"
			if a < 0 {
				class = "index<0"
			} else if a >= n {
				class = "index>=len"
			}
			cs := map[string]any{"s": lit(o1), "index": a}
			gt := fmt.Sprintf("func TestReplay(t *testing.T) { got, v, ok := slicez.Remove(%s, %d); t.Log(got, v, ok) }", lit(o1), a)
			if p {
				cs["stack"] = st
				c.r.Violation("Remove|panic|"+class, "Remove panicked at "+common.PanicSite(st), cs, gt)
				continue
			}
			if a >= 0 && a < n {
				var want []int
				for i, v := range o1 {
					if i != a {
						want = append(want, v)
					}
				}
				if !ok || gv != o1[a] || !eq(got, want) {
					c.r.Violation("Remove|wrong-result|"+class, fmt.Sprintf("Remove(%s, %d) = %v, %d, %v; want %v, %d, true", lit(o1), a, got, gv, ok, want, o1[a]), cs, gt)
				}
			} else {
				if ok || !eq(got, o1) {
					c.r.Violation("Remove|wrong-result|"+class, fmt.Sprintf("Remove(%s, %d) = %v, %d, %v; want the unchanged slice and false", lit(o1), a, got, gv, ok), cs, gt)
				} // the value returned with ok == false is not specified
				if !eq(s, o1) {
					c.r.Violation("Remove|input-modified|"+class, fmt.Sprintf("a refused Remove(%s, %d) changed the slice to %v", lit(o1), a, s), cs, gt)
				}
			}
		}
	}
}

// checkPieces verifies a (prefix of a) chunk sequence. complete: the whole input must be covered.
func checkPieces(s []int, size int, pieces [][]int, complete bool) (kind, what string) {
	pos := 0
	for i, p := range pieces {
		if pos+len(p) > len(s) || !eq(p, s[pos:pos+len(p)]) {
			return "not-consecutive", fmt.Sprintf("piece %d = %v is not the input at offset %d", i, p, pos)
		}
		if size >= 1 {
			if len(p) > size {
				return "piece-size", fmt.Sprintf("piece %d has %d elements, chunk size is %d", i, len(p), size)
			}
			if len(p) == 0 && len(s) > 0 {
				return "empty-piece", fmt.Sprintf("piece %d is empty", i)
			}
			if len(p) < size && pos+len(p) != len(s) {
				return "piece-size", fmt.Sprintf("piece %d has %d elements but is not the last piece (chunk size %d)", i, len(p), size)
			}
		}
		pos += len(p)
	}
	if complete && pos != len(s) {
		return "incomplete", fmt.Sprintf("the pieces cover %d of %d elements", pos, len(s))
	}
	return "", ""
}

var errInjected = errors.New("injected")

func (c *ctx) chunkOps(o1 []int) {
	n := len(o1)
	for _, size := range argValues(-1, n+2) {
		class := "size>=1"
		if size < 1 {
			class = "size<=0"
		}
		cs := func() map[string]any { return map[string]any{"s": lit(o1), "chunkSize": size} }
		expPieces := 0
		if size >= 1 {
			expPieces = n / size
			if n%size != 0 {
				expPieces++
			}
		}
		// ---- Chunk
		{
			c.n[fChunk]++
			if expPieces >= 2 || size < 1 {
				c.nt++
			}
			s := clone(o1)
			var got [][]int
			_, st, p := common.Catch(func() { got = slicez.Chunk(s, size) })
			gt := fmt.Sprintf("func TestReplay(t *testing.T) { t.Log(slicez.Chunk(%s, %d)) }", lit(o1), size)
			if p {
				m := cs()
				m["stack"] = st
				c.r.Violation("Chunk|panic|"+class, "Chunk panicked at "+common.PanicSite(st), m, gt)
			} else {
				if k, w := checkPieces(o1, size, got, true); k != "" {
					c.r.Violation("Chunk|"+k+"|"+class, fmt.Sprintf("Chunk(%s, %d) = %v: %s", lit(o1), size, got, w), cs(), gt)
				}
				if !eq(s, o1) {
					c.r.Violation("Chunk|input-modified|"+class, "Chunk changed its operand", cs(), "")
				}
			}
		}
		// ---- ChunkProcess with an error injected at callback index k (k = -1: none)
		maxK := expPieces - 1
		if size < 1 {
			maxK = n - 1 // the number of pieces is not specified for size <= 0; at most n non-empty ones
		}
		for k := -1; k <= maxK; k++ {
			c.n[fChunkProcess]++
			if expPieces >= 2 || size < 1 || k >= 0 {
				c.nt++
			}
			s := clone(o1)
			var seen [][]int
			hit := false
			var err error
			_, st, p := common.Catch(func() {
				err = slicez.ChunkProcess(s, size, func(piece []int) error {
					seen = append(seen, clone(piece))
					if len(seen)-1 == k {
						hit = true
						return errInjected
					}
					return nil
				})
			})
			m := cs()
			m["error_at_callback"] = k
			ec := class + ",no-error"
			if k >= 0 {
				ec = class + ",error-injected"
			}
			if p {
				m["stack"] = st
				c.r.Violation("ChunkProcess|panic|"+ec, "ChunkProcess panicked at "+common.PanicSite(st), m, "")
				continue
			}
			if kd, w := checkPieces(o1, size, seen, !hit); kd != "" {
				c.r.Violation("ChunkProcess|"+kd+"|"+ec, fmt.Sprintf("ChunkProcess(%s, %d) handed out %v: %s", lit(o1), size, seen, w), m, "")
			}
			if hit && !errors.Is(err, errInjected) {
				c.r.Violation("ChunkProcess|error-not-propagated|"+ec, fmt.Sprintf("callback %d returned an error, ChunkProcess returned %v", k, err), m, "")
			}
			if !hit && err != nil {
				c.r.Violation("ChunkProcess|spurious-error|"+ec, fmt.Sprintf("no callback failed, ChunkProcess returned %v", err), m, "")
			}
		}
	}
}

func (c *ctx) valuesOne(ss [][]int, class string) {
	c.n[fValues] += 2
	var want, wantT []int
	in := make([][]int, len(ss))
	lits := make([]string, len(ss))
	for i, s := range ss {
		in[i] = clone(s)
		lits[i] = lit(s)
		for _, v := range s {
			want = append(want, v)
			wantT = append(wantT, times10(v))
		}
	}
	if len(want) > 0 {
		c.nt += 2
	}
	cs := map[string]any{"ss": lits}
	var got, gotT []int
	_, st, p := common.Catch(func() { got = slicez.Values(ident, in...); gotT = slicez.Values(times10, in...) })
	if p {
		cs["stack"] = st
		c.r.Violation("Values|panic|"+class, "Values panicked at "+common.PanicSite(st), cs, "")
		return
	}
	if !eq(got, want) || !eq(gotT, wantT) {
		c.r.Violation("Values|wrong-result|"+class, fmt.Sprintf("Values(identity, %v) = %v, Values(v*10+1, …) = %v; want %v and %v", lits, got, gotT, want, wantT), cs, "")
		return
	}
	for i := range in {
		if !eq(in[i], ss[i]) {
			c.r.Violation("Values|input-modified|"+class, "Values changed an operand", cs, "")
		}
	}
	snap := clone(got)
	for i := range in {
		for j := range in[i] {
			in[i][j] += 100
		}
	}
	if !eq(got, snap) {
		c.r.Violation("Values|not-fresh", fmt.Sprintf("after writing to the operands the result changed from %v to %v", snap, got), cs, "")
	}
	for i := range in {
		copy(in[i], ss[i])
	}
	full := got[:cap(got)]
	for i := range full {
		full[i] = -5
	}
	for i := range in {
		if !eq(in[i], ss[i]) {
			c.r.Violation("Values|not-fresh", fmt.Sprintf("writing to the result changed operand %d to %v", i, in[i]), cs, "")
		}
	}
}

func (c *ctx) valuesOps(o1 []int, S2 [][]int) {
	c.valuesOne([][]int{o1}, "one-slice")
	for _, o2 := range S2 {
		c.valuesOne([][]int{o1, o2}, "two-slices")
		c.valuesOne([][]int{o2, o1, o2}, "three-slices")
	}
}

// ---------------------------------------------------------------- driver

func pureFunctions(r *common.Run) {
	k, l1, l2, npred := 3, 5, 3, 3
	if r.Thorough() {
		k, l1, l2, npred = 4, 6, 4, 5
	}
	S1 := genSlices(k, l1)
	S2 := genSlices(k, l2)
	r.Parallel(len(S1), func(i int) {
		if r.Expired() {
			return
		}
		c := &ctx{r: r, alphaK: k, npred: npred}
		o1 := S1[i]
		c.binaryOps(o1, S2)
		c.unaryOps(o1)
		c.equalOps(o1, S2, l2)
		c.indexOps(o1)
		c.chunkOps(o1)
		c.valuesOps(o1, S2)
		c.flush()
	})
	// long inputs: 6..17 distinct values with ONE value repeated at every later position — whatever
	// number of distinct values an implementation switches strategies at (linear scan -> set), the
	// repeated value sits on either side of the switch; second operands: none, the even values, the
	// first half, everything
	{
		var longs [][]int
		for d := 6; d <= 17; d++ {
			for j := 0; j < d; j++ {
				for p := j; p < d; p++ {
					in := make([]int, 0, d+1)
					for v := 1; v <= d; v++ {
						in = append(in, v)
						if v-1 == p {
							in = append(in, j+1)
						}
					}
					longs = append(longs, in)
				}
			}
		}
		r.Parallel(len(longs), func(i int) {
			if r.Expired() {
				return
			}
			c := &ctx{r: r, alphaK: k, npred: npred}
			o1 := longs[i]
			d := len(o1) - 1
			var evens, half, all []int
			for v := 1; v <= d; v++ {
				all = append(all, v)
				if v%2 == 0 {
					evens = append(evens, v)
				}
				if v <= d/2 {
					half = append(half, v)
				}
			}
			c.binaryOps(o1, [][]int{nil, evens, half, all})
			c.unaryOps(o1)
			c.flush()
		})
		r.Cov("long_inputs", map[string]any{"inputs": len(longs), "shape": "1..d with one value repeated at every later position, d = 6..17"})
	}
	// histories: the caller keeps ONE s2 buffer and overwrites it in place between calls; every
	// call must answer for the content the buffer has at the time of the call
	{
		var ev int64
		var mu sync.Mutex
		r.Parallel(len(S1), func(i int) {
			o1 := S1[i]
			if len(o1) == 0 {
				return
			}
			var n int64
			buf := make([]int, 0, 8)
			for _, a := range S2 {
				for _, b := range S2 {
					if len(a) == 0 || len(a) != len(b) || eq(a, b) {
						continue
					}
					buf = append(buf[:0], a...)
					slicez.Diff(nil, clone(o1), buf)
					slicez.Intersect(nil, clone(o1), buf)
					copy(buf, b) // same backing array, same length, other content
					type tc struct {
						name string
						got  []int
						want []int
					}
					s1a, s1b := clone(o1), clone(o1)
					cases := []tc{
						{"Diff", slicez.Diff(nil, clone(o1), buf), diffDef(o1, b)},
						{"Intersect", slicez.Intersect(nil, clone(o1), buf), intersectDef(o1, b)},
						{"DiffInPlaceFirst", slicez.DiffInPlaceFirst(s1a, buf), diffDef(o1, b)},
						{"IntersectInPlaceFirst", slicez.IntersectInPlaceFirst(s1b, buf), intersectDef(o1, b)},
					}
					for _, c := range cases {
						n++
						ok := eq(c.got, c.want)
						if strings.HasSuffix(c.name, "InPlaceFirst") {
							ok = sameMultiset(c.got, c.want)
						}
						if !ok {
							r.Violation(c.name+"|wrong-result|s2-buffer-overwritten-in-place-between-calls",
								fmt.Sprintf("%s(s1=%s, s2=%s) = %v, want %v; the s2 buffer held %s during the previous call", c.name, lit(o1), lit(b), c.got, c.want, lit(a)),
								map[string]any{"s1": lit(o1), "s2_before": lit(a), "s2_now": lit(b)}, "")
						}
					}
				}
			}
			mu.Lock()
			ev += n
			mu.Unlock()
		})
		r.Eval(ev)
		r.Nontrivial(ev)
		r.Section(map[string]any{"part": "set operations with a reused s2 buffer", "calls": ev})
	}
	// structured family: longer inputs with pairwise distinct elements for the chunk arithmetic and
	// the index clamping (duplicates cannot hide a misplaced piece here)
	maxN := 16
	if r.Thorough() {
		maxN = 40
	}
	r.Parallel(maxN-l1, func(i int) {
		n := l1 + 1 + i
		s := make([]int, n)
		for j := range s {
			s[j] = j + 1
		}
		c := &ctx{r: r, alphaK: k, npred: npred}
		c.chunkOps(s)
		c.indexOps(s)
		c.flush()
	})
	{
		c := &ctx{r: r}
		c.valuesOne(nil, "no-slice")
		c.flush()
	}
	if r.Expired() {
		r.Incomplete("pure-function enumeration cut by the deadline")
	}
	per := map[string]any{}
	for i, v := range totals {
		per[fName[i]] = v
	}
	r.Section(map[string]any{"part": "pure functions (E3)", "alphabet": k, "s1_max_len": l1, "s2_max_len": l2, "s1_values": len(S1), "s2_values": len(S2),
		"dst_layouts": layoutName[:], "filter_predicates": npred, "distinct_element_family_max_len": maxN, "calls_per_function": per})
	r.SampleL("set operations", map[string]any{"call": "Diff(s1[:0], s1, s2)", "s1": "[]int{0, 1, 0, 2, 1}", "s2": "[]int{1}", "want": "[0 0 2]"})
	r.SampleL("set operations", map[string]any{"call": "IntersectInPlaceFirst(s1, s1)", "s1": "[]int{2, 0, 2}", "want": "a permutation of [2 0 2]; s1 a permutation of itself"})
	r.SampleL("clamping", map[string]any{"call": "SubSlice(s, -2, 7)", "s": "[]int{0, 1, 2, 0, 1}", "want": "[0 1 2 0 1]"})
	r.SampleL("clamping", map[string]any{"call": "Copy(s, -1, 2)", "s": "[]int{0, 1, 2}", "want": "[0 1] (start clamped) or [0] (window intersected)"})
	r.SampleL("chunks", map[string]any{"call": "ChunkProcess(s, 2, cb) with an error at callback 1", "s": "[]int{1, 2, 3, 4, 5}", "want": "callbacks see [1 2], [3 4]; the injected error is returned"})
}
