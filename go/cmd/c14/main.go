// C14 — slicez set operations, in-place variants, Chunk/SubSlice/Copy/Remove/Index/Equal/Values
// match their definitions (engine E3, bounded-exhaustive inputs, file pure.go) and FlexSlice behaves
// as a sequence across growth and shrink thresholds (engine E2, explicit-state search on the real
// object, file flex.go).
//
// What the oracles demand is exactly the property text:
//   - Diff/Intersect/Unique/UniqueByKey/Filter: the returned slice is element-for-element the
//     selection written directly from the definition (linear scans, no maps), for every dst layout,
//     including dst = s1[:0] and dst = s2[:0]; nil-ness of results is never compared; an input that is
//     not aliased by dst must keep its content (an aliased one is unspecified afterwards).
//   - InPlace variants: returned multiset == multiset of the definition result, and the argument
//     slice is afterwards a permutation of its original content.
//   - Chunk/ChunkProcess: pieces are consecutive, concatenate to the input, every piece but the last
//     has exactly chunkSize elements, the last 1..chunkSize; for chunkSize <= 0 only "concatenation
//     equals the input" and "no panic" are demanded.
//   - SubSlice/Copy/Remove/Index/Equal: the documented clamping rules, written as position
//     predicates; Copy with a negative start (undocumented) may either clamp the start to 0 or
//     intersect the window [start,start+length) with the slice; never a panic.
//   - Copy/Values: fresh memory (mutating either side is invisible on the other).
package main

import (
	"verif/common"
)

func main() {
	r := common.Start("C14", "model_checking")
	pureFunctions(r)
	flexSearch(r)
	selfAliasSizes(r)
	r.Assume(
		"small-scope (pure functions): element alphabet {0,1,2} with s1 up to 5 and s2 up to 3 elements (thorough: {0,1,2,3}, 6 and 4); element type int only",
		"dst layouts: nil, fresh len 0 with cap 0 / 1 / 16, s1[:0], s2[:0], and s2 being the very same slice as s1; partially overlapping operands are not enumerated",
		"FlexSlice: element type int in the search (1-, 2-, 8-, 16-, 24- and 0-byte element types in the self-aliasing family), every inserted value fresh and distinct (FlexSlice is generic over T any and cannot inspect values), states merged on (len, cap, contents renamed by first appearance); the content of the spare capacity is not part of the key because no FlexSlice method reads it and any value leaking from it differs from every expected value",
		"FlexSlice.SubSlice is explored as a transition (the search continues on the returned FlexSlice); what later operations on the result do to the receiver that shares its memory is unspecified and not checked",
		"capacities produced by append depend on the Go runtime's growth policy (go_version is recorded); only contents, lengths and return values are compared with the model, never capacities")
	r.Finish("every input of each family is enumerated once (no sampling); non-trivial = set operation / filter / unique cases whose definition result is a non-empty proper sub-sequence of s1, Equal pairs of equal length, Index-family cases with the value present, SubSlice/Copy/Remove cases with at least one argument outside [0,len], Chunk cases with >= 2 pieces or chunkSize <= 0, Values cases with >= 1 element, FlexSlice transitions that change the capacity or move elements (Prepend onto a non-empty slice, Remove not at the end, SubSlice with start > 0)")
}
