package main

import (
	"fmt"
	"reflect"
	"unsafe"
	"strconv"
	"strings"
	"sync"

	"verif/common"

	"github.com/welllog/golib/slicez"
)

// Explicit-state search (engine E2) on the real slicez.FlexSlice[int].
//
// A state is the shortest operation sequence reaching it from a root; the successor of a state is
// obtained by replaying that sequence on a fresh object and applying one more operation (no cloning
// of live objects). States are merged on canon = (len, cap, contents renamed by first appearance),
// read from the exported field Values. Every operation is applied to a plain []int model as well and
// every return value, Len, the whole content and Get(i) for i in -1..len+1 are compared after every
// transition. Inserted values are fresh, pairwise distinct and non-zero.

const (
	opAppend = iota
	opPrepend
	opPop
	opShift
	opRemove
	opSub
	opAppendSelf  // Append(f.Values[a:b]...): the argument shares the receiver's array
	opPrependSelf // Prepend(f.Values[a:b]...)
)

type fop struct {
	kind byte
	a, b int
}

func (o fop) String() string {
	switch o.kind {
	case opAppend:
		return fmt.Sprintf("Append(%d fresh values%s)", o.a, spareStr(o.b))
	case opPrepend:
		return fmt.Sprintf("Prepend(%d fresh values%s)", o.a, spareStr(o.b))
	case opAppendSelf:
		return fmt.Sprintf("Append(f.Values[%d:%d]...)", o.a, o.b)
	case opPrependSelf:
		return fmt.Sprintf("Prepend(f.Values[%d:%d]...)", o.a, o.b)
	case opPop:
		return "Pop()"
	case opShift:
		return "Shift()"
	case opRemove:
		return fmt.Sprintf("Remove(%d)", o.a)
	default:
		return fmt.Sprintf("SubSlice(%d, %d)", o.a, o.b)
	}
}

func spareStr(b int) string {
	switch b {
	case 0:
		return ""
	case 1:
		return " in a slice with 1 spare element"
	default:
		return " in a slice with room for the whole result"
	}
}

// root of a search: the zero value, or a FlexSlice constructed around make([]int, l, c) (the field
// is exported, the unit tests construct FlexSlices the same way).
type rootT struct {
	zero bool
	l, c int
}

func (s rootT) String() string {
	if s.zero {
		return "FlexSlice[int]{}"
	}
	return fmt.Sprintf("FlexSlice[int]{Values: make([]int, %d, %d) filled with 1..%d}", s.l, s.c, s.l)
}

func buildRoot(s rootT) (*slicez.FlexSlice[int], []int, int) {
	if s.zero {
		return &slicez.FlexSlice[int]{}, nil, 1
	}
	buf := make([]int, s.c)
	for j := range buf {
		if j < s.l {
			buf[j] = j + 1
		} else {
			buf[j] = -(1000 + j) // stale marker in the spare capacity; never a legal content value
		}
	}
	return &slicez.FlexSlice[int]{Values: buf[:s.l]}, clone(buf[:s.l]), s.l + 1
}

type fstats struct {
	transitions, queries, replays, nontrivial int64
	prependInCap, prependRealloc              int64
	shrinkThreshold, capDecreased, subShrunk  int64
	appendRealloc                             int64
	maxCap                                    int
}

func (a *fstats) add(b *fstats) {
	a.transitions += b.transitions
	a.queries += b.queries
	a.replays += b.replays
	a.nontrivial += b.nontrivial
	a.prependInCap += b.prependInCap
	a.prependRealloc += b.prependRealloc
	a.shrinkThreshold += b.shrinkThreshold
	a.capDecreased += b.capDecreased
	a.subShrunk += b.subShrunk
	a.appendRealloc += b.appendRealloc
	if b.maxCap > a.maxCap {
		a.maxCap = b.maxCap
	}
}

func fresh(next *int, k int) []int {
	vs := make([]int, k)
	for i := range vs {
		vs[i] = *next
		*next++
	}
	return vs
}

// applyOp applies o to the real object and to the model and compares the return values.
// st may be nil (replay of an already validated prefix).
func applyOp(f *slicez.FlexSlice[int], m *[]int, next *int, o fop, st *fstats) (kind, what string) {
	n, cp := len(f.Values), cap(f.Values)
	switch o.kind {
	case opAppend, opPrepend:
		vs := fresh(next, o.a)
		spare := 0
		switch o.b {
		case 1:
			spare = 1
		case 2:
			spare = n + o.a + 1
		}
		arg := append(make([]int, 0, o.a+spare), vs...)
		name := "Append"
		if o.kind == opPrepend {
			name = "Prepend"
		}
		_, stack, p := common.Catch(func() {
			if o.kind == opAppend {
				f.Append(arg...)
			} else {
				f.Prepend(arg...)
			}
		})
		if p {
			return name + "|panic", name + " panicked at " + common.PanicSite(stack)
		}
		arg = arg[:cap(arg)]
		for i := range arg { // the caller's argument slice (all of its array) is the caller's: later writes must not show
			arg[i] = -7
		}
		if o.kind == opAppend {
			*m = append(*m, vs...)
		} else {
			*m = append(append(make([]int, 0, len(vs)+len(*m)), vs...), *m...)
		}
		if st != nil {
			if o.kind == opPrepend {
				if cp >= n+o.a {
					st.prependInCap++
				} else {
					st.prependRealloc++
				}
				if n > 0 && o.a > 0 {
					st.nontrivial++
				} else if cap(f.Values) != cp {
					st.nontrivial++
				}
			} else if cap(f.Values) != cp {
				st.appendRealloc++
				st.nontrivial++
			}
		}
	case opAppendSelf, opPrependSelf:
		name := "Append(aliasing argument)"
		if o.kind == opPrependSelf {
			name = "Prepend(aliasing argument)"
		}
		// read through the array, not the model: positions at or behind len hold whatever is there
		part := clone(f.Values[:cap(f.Values)][o.a:o.b])
		_, stack, p := common.Catch(func() {
			arg := f.Values[:cap(f.Values)][o.a:o.b]
			if o.kind == opAppendSelf {
				f.Append(arg...)
			} else {
				f.Prepend(arg...)
			}
		})
		if p {
			return name + "|panic", name + " panicked at " + common.PanicSite(stack)
		}
		if o.kind == opAppendSelf {
			*m = append(clone(*m), part...)
		} else {
			*m = append(part, *m...)
		}
		if st != nil {
			st.nontrivial++
			if o.kind == opPrependSelf {
				if cp >= n+len(part) {
					st.prependInCap++
				} else {
					st.prependRealloc++
				}
			}
		}
	case opPop, opShift, opRemove:
		var gv int
		var ok bool
		name := "Remove"
		idx := o.a
		_, stack, p := common.Catch(func() {
			switch o.kind {
			case opPop:
				gv, ok = f.Pop()
			case opShift:
				gv, ok = f.Shift()
			default:
				gv, ok = f.Remove(o.a)
			}
		})
		if o.kind == opPop {
			name, idx = "Pop", n-1
		} else if o.kind == opShift {
			name, idx = "Shift", 0
		}
		if p {
			return name + "|panic", name + " panicked at " + common.PanicSite(stack)
		}
		wv, wok := 0, false
		if idx >= 0 && idx < len(*m) {
			wv, wok = (*m)[idx], true
			nm := make([]int, 0, len(*m)-1)
			nm = append(nm, (*m)[:idx]...)
			nm = append(nm, (*m)[idx+1:]...)
			*m = nm
		}
		if ok != wok || (ok && gv != wv) {
			return name + "|wrong-return", fmt.Sprintf("%s returned (%d, %v), the sequence model says (%d, %v)", o, gv, ok, wv, wok)
		}
		if st != nil && wok {
			if cp > 8 && n-1 <= cp/4 {
				st.shrinkThreshold++
			}
			if cap(f.Values) < cp {
				st.capDecreased++
			}
			if cap(f.Values) != cp || idx < n-1 {
				st.nontrivial++
			}
		}
	case opSub:
		before := clone(f.Values)
		var nf slicez.FlexSlice[int]
		_, stack, p := common.Catch(func() { nf = f.SubSlice(o.a, o.b) })
		if p {
			return "SubSlice|panic", "SubSlice panicked at " + common.PanicSite(stack)
		}
		want := subDef(*m, o.a, o.b)
		if !eq(nf.Values, want) {
			return "SubSlice|wrong-result", fmt.Sprintf("%s on %v returned %v, want %v", o, *m, nf.Values, want)
		}
		if !eq(f.Values, before) {
			return "SubSlice|receiver-changed", fmt.Sprintf("%s changed the receiver from %v to %v", o, before, f.Values)
		}
		if nf.Len() != len(want) {
			return "SubSlice|wrong-len", fmt.Sprintf("%s: Len() of the result = %d, want %d", o, nf.Len(), len(want))
		}
		if st != nil {
			if from := max(o.a, 0); len(want) > 0 && cap(nf.Values) != cp-from {
				st.subShrunk++ // the result does not share the receiver's array: shrink re-allocated it
			}
			if o.a > 0 && len(want) > 0 {
				st.nontrivial++
			}
		}
		*f = nf
		*m = want
	}
	if st != nil && cap(f.Values) > st.maxCap {
		st.maxCap = cap(f.Values)
	}
	return "", ""
}

// battery: every read-only query against the model.
func battery(f *slicez.FlexSlice[int], m []int, st *fstats) (kind, what string) {
	if !eq(f.Values, m) {
		return "content", fmt.Sprintf("content is %v, the sequence model says %v", f.Values, m)
	}
	if f.Len() != len(m) {
		return "Len", fmt.Sprintf("Len() = %d, want %d", f.Len(), len(m))
	}
	for i := -1; i <= len(m)+1; i++ {
		var gv int
		var ok bool
		_, stack, p := common.Catch(func() { gv, ok = f.Get(i) })
		st.queries++
		if p {
			return "Get|panic", fmt.Sprintf("Get(%d) on %v panicked at %s", i, m, common.PanicSite(stack))
		}
		wv, wok := 0, false
		if i >= 0 && i < len(m) {
			wv, wok = m[i], true
		}
		if ok != wok || (ok && gv != wv) { // the value returned with ok == false is not specified
			return "Get|wrong-return", fmt.Sprintf("Get(%d) on %v = (%d, %v), want (%d, %v)", i, m, gv, ok, wv, wok)
		}
	}
	return "", ""
}

func canon(f *slicez.FlexSlice[int]) string {
	var b strings.Builder
	b.WriteString(strconv.Itoa(len(f.Values)))
	b.WriteByte('/')
	b.WriteString(strconv.Itoa(cap(f.Values)))
	b.WriteByte('/')
	names := map[int]int{}
	for _, v := range f.Values {
		id, ok := names[v]
		if !ok {
			id = len(names)
			names[v] = id
		}
		b.WriteString(strconv.Itoa(id))
		b.WriteByte(',')
	}
	hiddenState(f, names, &b)
	return b.String()
}

// hiddenState appends every field of FlexSlice other than Values to the canonical key. The unchanged
// type has none, but a change that adds private state (a reserve in front of the elements, a cached
// offset) must not have states merged that differ in it: merged states have to have the same futures.
// Slices of the element type contribute len, cap, their contents over the whole capacity (renamed
// like the elements) and — found by writing a sentinel through Values — which of their positions
// share memory with which position of Values' array. Scalars contribute their value, anything else
// whether it is nil.
func hiddenState(f *slicez.FlexSlice[int], names map[int]int, b *strings.Builder) {
	rv := reflect.ValueOf(f).Elem()
	if rv.NumField() == 1 {
		return
	}
	const sentinel = -987654321
	full := f.Values[:cap(f.Values)]
	for i := 0; i < rv.NumField(); i++ {
		ft := rv.Type().Field(i)
		if ft.Name == "Values" {
			continue
		}
		fv := rv.Field(i)
		fv = reflect.NewAt(fv.Type(), unsafe.Pointer(fv.UnsafeAddr())).Elem()
		b.WriteByte('|')
		b.WriteString(ft.Name)
		b.WriteByte('=')
		switch {
		case fv.Type() == reflect.TypeOf([]int(nil)):
			h := fv.Interface().([]int)
			fmt.Fprintf(b, "%d/%d/", len(h), cap(h))
			hf := h[:cap(h)]
			for _, v := range hf {
				id, ok := names[v]
				if !ok {
					id = len(names)
					names[v] = id
				}
				fmt.Fprintf(b, "%d,", id)
			}
			// aliasing: position j of Values' array is position k of the hidden slice's array
			for j := range full {
				old := full[j]
				full[j] = sentinel
				for k := range hf {
					if hf[k] == sentinel {
						fmt.Fprintf(b, "a%d@%d,", j, k)
						break
					}
				}
				full[j] = old
			}
		case fv.CanInt():
			fmt.Fprintf(b, "%d", fv.Int())
		case fv.CanUint():
			fmt.Fprintf(b, "%d", fv.Uint())
		case fv.Kind() == reflect.Bool:
			fmt.Fprintf(b, "%v", fv.Bool())
		case fv.Kind() == reflect.Pointer || fv.Kind() == reflect.Map || fv.Kind() == reflect.Slice || fv.Kind() == reflect.Func || fv.Kind() == reflect.Interface || fv.Kind() == reflect.Chan:
			fmt.Fprintf(b, "nil:%v", fv.IsNil())
			if fv.Kind() == reflect.Slice || fv.Kind() == reflect.Map {
				fmt.Fprintf(b, "/%d", fv.Len())
			}
		default:
			b.WriteString("?")
		}
	}
}

type fstate struct {
	parent int // -1: a root
	op     fop
	root   rootT
	ln, cp int
	depth  int
}

func alphabet(n, cp, sizeCap int) []fop {
	var ops []fop
	for k := 0; k <= 3; k++ {
		if n+k <= sizeCap {
			ops = append(ops, fop{kind: opAppend, a: k})
		}
	}
	for k := 0; k <= 3; k++ {
		if n+k <= sizeCap {
			ops = append(ops, fop{kind: opPrepend, a: k})
		}
	}
	for k := 0; k <= 2; k++ { // the argument slice has spare capacity of its own
		for sp := 1; sp <= 2; sp++ {
			if n+k <= sizeCap {
				ops = append(ops, fop{kind: opAppend, a: k, b: sp}, fop{kind: opPrepend, a: k, b: sp})
			}
		}
	}
	// the argument lies in the receiver's own array BEHIND its length (what a SubSlice of a longer
	// FlexSlice leaves there): legal to re-slice, and about to be overwritten by an in-place shift
	for k := 1; k <= 2; k++ {
		if n >= 1 && cp-n >= k && n+k <= sizeCap {
			ops = append(ops, fop{kind: opPrependSelf, a: n, b: n + k}, fop{kind: opAppendSelf, a: n, b: n + k})
		}
	}
	for a := 0; a < n; a++ { // the argument is a piece of the receiver itself
		for b := a + 1; b <= n && b <= a+2; b++ {
			if n+b-a <= sizeCap {
				ops = append(ops, fop{kind: opAppendSelf, a: a, b: b}, fop{kind: opPrependSelf, a: a, b: b})
			}
		}
	}
	ops = append(ops, fop{kind: opPop}, fop{kind: opShift})
	for i := -1; i <= n+1; i++ {
		ops = append(ops, fop{kind: opRemove, a: i})
	}
	for a := -1; a <= n+1; a++ {
		for b := -1; b <= n+1; b++ {
			ops = append(ops, fop{kind: opSub, a: a, b: b})
		}
	}
	return ops
}

func goTestFor(root rootT, path []fop) string {
	var b strings.Builder
	b.WriteString("func TestReplay(t *testing.T) { next := 1; fresh := func(k int) []int { v := make([]int, k); for i := range v { v[i] = next; next++ }; return v }; _ = fresh; ")
	if root.zero {
		b.WriteString("f := slicez.FlexSlice[int]{}; ")
	} else {
		fmt.Fprintf(&b, "f := slicez.FlexSlice[int]{Values: append(make([]int, 0, %d), fresh(%d)...)}; ", root.c, root.l)
	}
	for _, o := range path {
		switch o.kind {
		case opAppend:
			fmt.Fprintf(&b, "f.Append(fresh(%d)...); ", o.a)
		case opPrepend:
			fmt.Fprintf(&b, "f.Prepend(fresh(%d)...); ", o.a)
		case opAppendSelf:
			fmt.Fprintf(&b, "f.Append(f.Values[%d:%d]...); ", o.a, o.b)
		case opPrependSelf:
			fmt.Fprintf(&b, "f.Prepend(f.Values[%d:%d]...); ", o.a, o.b)
		case opPop:
			b.WriteString("t.Log(f.Pop()); ")
		case opShift:
			b.WriteString("t.Log(f.Shift()); ")
		case opRemove:
			fmt.Fprintf(&b, "t.Log(f.Remove(%d)); ", o.a)
		case opSub:
			fmt.Fprintf(&b, "f = f.SubSlice(%d, %d); ", o.a, o.b)
		}
	}
	b.WriteString("t.Log(f.Values, cap(f.Values)) }")
	return b.String()
}

type searchResult struct {
	states, roots, depth int
	fixpoint             bool
	st                   fstats
	lenCap               map[[2]int]bool
}

// searcher keeps the state table across phases, so that a later phase (more roots) never expands a
// state that an earlier phase has expanded already (no input is executed twice).
type searcher struct {
	r        *common.Run
	sizeCap  int
	depthCap int
	states   []fstate
	seen     map[string]int
}

// search runs the breadth-first search from the given roots (those not seen yet) to its fix-point.
func (s *searcher) search(label string, roots []rootT) searchResult {
	r, sizeCap := s.r, s.sizeCap
	res := searchResult{lenCap: map[[2]int]bool{}}
	first := len(s.states)
	var frontier []int
	for _, rt := range roots {
		f, _, _ := buildRoot(rt)
		k := canon(f)
		if _, ok := s.seen[k]; ok {
			continue
		}
		s.seen[k] = len(s.states)
		frontier = append(frontier, len(s.states))
		s.states = append(s.states, fstate{parent: -1, root: rt, ln: len(f.Values), cp: cap(f.Values)})
		res.lenCap[[2]int{len(f.Values), cap(f.Values)}] = true
	}
	res.roots = len(frontier)
	states := func(i int) *fstate { return &s.states[i] }
	pathOf := func(i int) (rootT, []fop) {
		var rev []fop
		for states(i).parent >= 0 {
			rev = append(rev, states(i).op)
			i = states(i).parent
		}
		for a, b := 0, len(rev)-1; a < b; a, b = a+1, b-1 {
			rev[a], rev[b] = rev[b], rev[a]
		}
		return states(i).root, rev
	}
	type succ struct {
		key    string
		op     fop
		ln, cp int
	}
	var mu sync.Mutex
	depth := 0
	res.fixpoint = true
	for len(frontier) > 0 {
		if depth >= s.depthCap {
			res.fixpoint = false
			r.Incomplete(fmt.Sprintf("FlexSlice search %s stopped at the depth cap %d with %d states in the frontier", label, s.depthCap, len(frontier)))
			break
		}
		if r.Expired() {
			res.fixpoint = false
			r.Incomplete(fmt.Sprintf("FlexSlice search %s cut by the deadline at depth %d", label, depth))
			break
		}
		out := make([][]succ, len(frontier))
		r.Parallel(len(frontier), func(fi int) {
			si := frontier[fi]
			root, path := pathOf(si)
			var st fstats
			report := func(o fop, kind, what string) {
				full := append(append([]fop(nil), path...), o)
				names := make([]string, len(full))
				for i, x := range full {
					names[i] = x.String()
				}
				// one defect = one signature: the kind of root is part of the case, not of the signature
				// (search A runs first, so a defect reachable from the zero value is recorded with such a path)
				r.Violation("FlexSlice."+kind, fmt.Sprintf("after %d operations: %s", len(full), what),
					map[string]any{"root": root.String(), "operations": names, "size_cap": sizeCap}, goTestFor(root, full))
			}
			for _, o := range alphabet(states(si).ln, states(si).cp, sizeCap) {
				f, m, next := buildRoot(root)
				diverged := false
				for _, p := range path {
					if k, w := applyOp(f, &m, &next, p, nil); k != "" {
						report(p, "replay-diverged", "the replay of a validated path failed ("+k+": "+w+")")
						diverged = true
						break
					}
				}
				st.replays++
				if diverged {
					continue
				}
				st.transitions++
				if k, w := applyOp(f, &m, &next, o, &st); k != "" {
					report(o, k, w)
					continue
				}
				key := canon(f) // before the query battery
				if k, w := battery(f, m, &st); k != "" {
					if strings.HasPrefix(k, "Get|") { // the query itself is the entry point
						report(o, k, w)
					} else {
						report(o, opName(o)+"|"+k+"-afterwards", w)
					}
					continue
				}
				if o.kind == opAppendSelf || o.kind == opPrependSelf {
					continue // checked as a transition; its successor (content with repeated values) is not expanded
				}
				out[fi] = append(out[fi], succ{key, o, len(f.Values), cap(f.Values)})
			}
			mu.Lock()
			res.st.add(&st)
			mu.Unlock()
		})
		var nextFrontier []int
		for fi, ss := range out {
			for _, sc := range ss {
				if _, ok := s.seen[sc.key]; ok {
					continue
				}
				s.seen[sc.key] = len(s.states)
				nextFrontier = append(nextFrontier, len(s.states))
				s.states = append(s.states, fstate{parent: frontier[fi], op: sc.op, ln: sc.ln, cp: sc.cp, depth: depth + 1})
				res.lenCap[[2]int{sc.ln, sc.cp}] = true
			}
		}
		frontier = nextFrontier
		if len(frontier) > 0 {
			depth++
		}
	}
	res.states = len(s.states) - first
	res.depth = depth
	return res
}

func opName(o fop) string {
	return [...]string{"Append", "Prepend", "Pop", "Shift", "Remove", "SubSlice", "Append(aliasing argument)", "Prepend(aliasing argument)"}[o.kind]
}

func flexSearch(r *common.Run) {
	sizeCap := 20
	if r.Thorough() {
		sizeCap = 48
	}
	const depthCap = 10000
	// search A: from the zero value only
	se := &searcher{r: r, sizeCap: sizeCap, depthCap: depthCap, seen: map[string]int{}}
	a := se.search("A (zero value)", []rootT{{zero: true}})
	// search B: every constructed (len, cap) with cap <= 2*sizeCap+8 that search A did not reach, so
	// that every capacity around the shrink threshold and both Prepend paths are crossed for every length
	var roots []rootT
	maxC := 2*sizeCap + 8
	for c := 1; c <= maxC; c++ {
		for l := 0; l <= c && l <= sizeCap; l++ {
			roots = append(roots, rootT{l: l, c: c})
		}
	}
	b := se.search("B (constructed len/cap roots)", roots)

	tot := a.st
	tot.add(&b.st)
	r.Eval(tot.transitions + tot.queries)
	r.Nontrivial(tot.nontrivial)
	r.Cov("flex_states", a.states+b.states)
	r.Cov("flex_transitions", tot.transitions)
	r.Cov("flex_queries", tot.queries)
	r.Cov("traces_validated_against_impl", tot.replays)
	r.Cov("flex_fixpoint", a.fixpoint && b.fixpoint)
	sec := func(label string, s searchResult) map[string]any {
		return map[string]any{"part": "FlexSlice explicit-state search (E2) " + label, "size_cap": sizeCap, "roots": s.roots, "states": s.states,
			"transitions": s.st.transitions, "get_queries": s.st.queries, "replayed_paths": s.st.replays, "bfs_depth": s.depth,
			"terminated_by":          map[bool]string{true: "fix-point (frontier empty)", false: "depth cap / deadline"}[s.fixpoint],
			"distinct_len_cap_pairs": len(s.lenCap), "max_capacity_seen": s.st.maxCap,
			"prepend_within_capacity": s.st.prependInCap, "prepend_reallocating": s.st.prependRealloc, "append_reallocating": s.st.appendRealloc,
			"removals_at_shrink_threshold": s.st.shrinkThreshold, "removals_with_capacity_decrease": s.st.capDecreased,
			"subslices_reallocated_by_shrink": s.st.subShrunk}
	}
	r.Section(sec("A: root = zero value", a))
	r.Section(sec("B: additional roots = every make([]int, l, c), l <= size cap, c <= 2*size cap + 8, not reached in A", b))
	r.SampleL("FlexSlice", map[string]any{"root": "FlexSlice[int]{}", "operations": []string{"Append(3 fresh values)", "Append(3 fresh values)", "Append(3 fresh values)", "SubSlice(0, 2)", "Prepend(1 fresh values)"}})
	r.SampleL("FlexSlice", map[string]any{"root": "FlexSlice[int]{Values: make([]int, 3, 9)}", "operations": []string{"Shift()", "Prepend(2 fresh values)"}})
}
