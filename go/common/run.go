// Package common holds what every check shares: tier/seed/replay handling, counters,
// violation and known-finding bookkeeping, evidence and replay files.
package common

import (
	"bufio"
	"crypto/sha256"
	"encoding/hex"
	"encoding/json"
	"flag"
	"fmt"
	"os"
	"path/filepath"
	"runtime"
	"runtime/debug"
	"sort"
	"strconv"
	"strings"
	"sync"
	"sync/atomic"
	"time"
)

// Root is /verif unless VERIF_ROOT says otherwise (background runs from a snapshot).
func Root() string {
	if r := os.Getenv("VERIF_ROOT"); r != "" {
		return r
	}
	return "/verif"
}

type Finding struct {
	Status    string `json:"status"` // "known" | "fixed"
	Property  string `json:"property"`
	Signature string `json:"signature,omitempty"`
	Commit    string `json:"commit,omitempty"`
	What      string `json:"what"`
}

type Violation struct {
	Property  string `json:"property"`
	Signature string `json:"signature"`
	What      string `json:"what"`
	Case      any    `json:"case"`
	GoTest    string `json:"go_test,omitempty"`
	Count     int64  `json:"count"` // how many cases hit this signature in this run
}

type Run struct {
	ID, Tier, Level string
	Seed            int64
	Start           time.Time
	Deadline        time.Time
	ReplaySig       string
	ReplayFile      string
	Workers         int
	ShardIdx        int
	ShardCnt        int

	evals, nontrivial int64
	mu                sync.Mutex
	samples           []any
	maxSamples        int
	viol              map[string]*Violation
	violOrder         []string
	knownHit          map[string]*Violation
	known             map[string]Finding
	incomplete        []string
	assumptions       []string
	cov               map[string]any
	sections          []map[string]any
}

// Start parses the common command line: -tier quick|thorough, -replay file, -budget seconds.
func Start(id string, level string) *Run {
	tier := flag.String("tier", "", "quick|thorough")
	replay := flag.String("replay", "", "replay file")
	budget := flag.Int("budget", 0, "soft deadline in seconds (0 = tier default)")
	workers := flag.Int("workers", 0, "parallel workers (0 = NumCPU)")
	flag.Parse()
	r := &Run{ID: id, Level: level, Start: time.Now(), maxSamples: 6,
		viol: map[string]*Violation{}, knownHit: map[string]*Violation{}, known: map[string]Finding{}, cov: map[string]any{}}
	r.Tier = *tier
	if r.Tier == "" {
		r.Tier = os.Getenv("VERIF_TIER")
	}
	if r.Tier != "thorough" {
		r.Tier = "quick"
	}
	if s := os.Getenv("VERIF_SEED"); s != "" {
		r.Seed, _ = strconv.ParseInt(s, 10, 64)
	}
	b := *budget
	if b == 0 {
		if r.Tier == "quick" {
			b = 100
		} else {
			b = 900
		}
	}
	r.Deadline = r.Start.Add(time.Duration(b) * time.Second)
	r.Workers = *workers
	if r.Workers <= 0 {
		r.Workers = runtime.NumCPU()
	}
	r.loadKnown()
	r.initShard()
	r.watchOverrun()
	if *replay != "" {
		r.ReplayFile = *replay
		data, err := os.ReadFile(*replay)
		if err != nil {
			Infra("cannot read replay file: %v", err)
		}
		var v Violation
		if err := json.Unmarshal(data, &v); err != nil {
			Infra("bad replay file: %v", err)
		}
		r.ReplaySig = v.Signature
		fmt.Printf("replaying %s: signature %q\n", *replay, v.Signature)
	}
	return r
}

// Infra reports that the check itself could not run (exit 2, never a violation).
func Infra(format string, a ...any) {
	fmt.Fprintf(os.Stderr, "CHECK-ERROR: "+format+"\n", a...)
	os.Exit(2)
}

func (r *Run) loadKnown() {
	f, err := os.Open(filepath.Join(Root(), "known_findings.jsonl"))
	if err != nil {
		return
	}
	defer f.Close()
	sc := bufio.NewScanner(f)
	sc.Buffer(make([]byte, 1<<20), 1<<20)
	for sc.Scan() {
		line := strings.TrimSpace(sc.Text())
		if line == "" || strings.HasPrefix(line, "#") {
			continue
		}
		var k Finding
		if err := json.Unmarshal([]byte(line), &k); err != nil {
			Infra("known_findings.jsonl: %v", err)
		}
		if k.Status == "known" && k.Property == r.ID {
			r.known[k.Signature] = k
		}
	}
}

// KnownSignatures lists the signatures recorded as known findings for this property.
func (r *Run) KnownSignatures() []string {
	var out []string
	for k := range r.known {
		out = append(out, k)
	}
	return out
}

func (r *Run) Thorough() bool { return r.Tier == "thorough" }
func (r *Run) Expired() bool  { return time.Now().After(r.Deadline) }

// Eval counts executed cases; Nontrivial counts those that are non-trivial by the rule the
// check states (enumerations never repeat an input, so the count is a count of distinct cases).
func (r *Run) Eval(n int64)       { atomic.AddInt64(&r.evals, n) }
func (r *Run) Nontrivial(n int64) { atomic.AddInt64(&r.nontrivial, n) }
func (r *Run) Evals() int64       { return atomic.LoadInt64(&r.evals) }

func (r *Run) Sample(v any) {
	r.mu.Lock()
	if len(r.samples) < r.maxSamples {
		r.samples = append(r.samples, v)
	}
	r.mu.Unlock()
}

// SampleN keeps up to n samples under one label (so that every section contributes some).
func (r *Run) SampleL(label string, v any) {
	r.mu.Lock()
	n := 0
	for _, s := range r.samples {
		if m, ok := s.(map[string]any); ok && m["section"] == label {
			n++
		}
	}
	if n < 2 {
		r.samples = append(r.samples, map[string]any{"section": label, "case": v})
	}
	r.mu.Unlock()
}

func (r *Run) Incomplete(why string) {
	r.mu.Lock()
	r.incomplete = append(r.incomplete, why)
	r.mu.Unlock()
}
func (r *Run) Assume(s ...string) {
	r.mu.Lock()
	r.assumptions = append(r.assumptions, s...)
	r.mu.Unlock()
}
func (r *Run) Cov(k string, v any) { r.mu.Lock(); r.cov[k] = v; r.mu.Unlock() }
func (r *Run) Section(m map[string]any) {
	r.mu.Lock()
	r.sections = append(r.sections, m)
	r.mu.Unlock()
}

// Violation records a failing case. sig identifies the class of failure (entry point | kind |
// input class); cases with the same signature are counted, the first one is kept as replay.
func (r *Run) Violation(sig, what string, c any, goTest string) {
	r.mu.Lock()
	defer r.mu.Unlock()
	if r.ReplaySig != "" {
		if sig == r.ReplaySig {
			fmt.Printf("REPRODUCED property=%s signature=%q\n  %s\n  case=%s\n", r.ID, sig, what, jsonStr(c))
			fmt.Printf("VIOLATION property=%s replay=%s\n", r.ID, r.ReplayFile)
			os.Exit(1)
		}
		return
	}
	if _, ok := r.known[sig]; ok {
		if v := r.knownHit[sig]; v != nil {
			v.Count++
		} else {
			r.knownHit[sig] = &Violation{Property: r.ID, Signature: sig, What: what, Case: c, Count: 1}
		}
		return
	}
	if v := r.viol[sig]; v != nil {
		v.Count++
		return
	}
	if len(r.viol) >= 40 {
		return
	}
	r.viol[sig] = &Violation{Property: r.ID, Signature: sig, What: what, Case: c, GoTest: goTest, Count: 1}
	r.violOrder = append(r.violOrder, sig)
}

func (r *Run) NumViolations() int { r.mu.Lock(); defer r.mu.Unlock(); return len(r.viol) }

func jsonStr(v any) string {
	b, err := json.Marshal(v)
	if err != nil {
		return fmt.Sprintf("%#v", v)
	}
	return string(b)
}

// Finish writes the evidence file, prints KNOWN-FINDING / VIOLATION lines and exits.
func (r *Run) Finish(rule string) {
	if OverlapDiverged > 0 {
		r.Incomplete(fmt.Sprintf("overlap enumeration: %d executions could not follow their recorded schedule prefix — the library keeps state between calls that changes which environment calls a later call makes; those executions were continued without the prefix (their checks ran), so not every interleaving was covered", OverlapDiverged))
	}
	if n := atomic.LoadInt64(&OverlapBlocked); n > 0 {
		r.Incomplete(fmt.Sprintf("overlap enumeration: in %d executions a call waited inside the library for something (a lock) held by another call that was parked at one of its environment calls; the one-at-a-time discipline cannot run that, those executions were finished uncontrolled and not judged, and the overlap families were abandoned", n))
	}
	r.mu.Lock() // never released: a watchdog may finish the run while workers still report
	if r.ReplaySig != "" {
		fmt.Printf("NOT-REPRODUCED property=%s signature=%q (evaluations=%d)\n", r.ID, r.ReplaySig, r.evals)
		os.Exit(0)
	}
	root := Root()
	if o := os.Getenv("VERIF_OUT"); o != "" {
		root = o // seeded-fault runs write evidence and replays elsewhere
	}
	cov := map[string]any{}
	for k, v := range r.cov {
		cov[k] = v
	}
	if _, ok := cov["evaluations"]; !ok {
		cov["evaluations"] = r.evals
	}
	if _, ok := cov["distinct_nontrivial"]; !ok {
		cov["distinct_nontrivial"] = r.nontrivial
	}
	cov["rule"] = rule
	if len(r.samples) == 0 {
		r.samples = append(r.samples, "no sample recorded")
	}
	cov["samples"] = r.samples
	cov["exhaustive"] = len(r.incomplete) == 0
	if len(r.incomplete) > 0 {
		cov["caps_hit"] = r.incomplete
	}
	if len(r.sections) > 0 {
		cov["sections"] = r.sections
	}
	cov["go_version"] = runtime.Version()
	cov["repo_head"] = os.Getenv("VERIF_REPO_HEAD")
	cov["repo_dirty"] = os.Getenv("VERIF_REPO_DIRTY")
	var kn []string
	for s := range r.knownHit {
		kn = append(kn, s)
	}
	sort.Strings(kn)
	cov["known_findings_hit"] = kn
	ev := map[string]any{
		"property_id": r.ID, "tier": r.Tier, "seed": r.Seed, "level": r.Level,
		"coverage": cov, "assumptions": r.assumptions, "wall_s": time.Since(r.Start).Seconds(),
		"violations": len(r.viol),
	}
	if ev["assumptions"] == nil {
		ev["assumptions"] = []string{}
	}
	os.MkdirAll(filepath.Join(root, "evidence"), 0o755)
	data, _ := json.MarshalIndent(ev, "", " ")
	if err := os.WriteFile(filepath.Join(root, "evidence", r.ID+".json"), append(data, '\n'), 0o644); err != nil {
		Infra("cannot write evidence: %v", err)
	}
	fmt.Printf("%s %s: evaluations=%d nontrivial=%d exhaustive=%v wall=%.1fs\n", r.ID, r.Tier, cov["evaluations"], cov["distinct_nontrivial"], cov["exhaustive"], time.Since(r.Start).Seconds())
	for _, s := range kn {
		v := r.knownHit[s]
		fmt.Printf("KNOWN-FINDING: property=%s %s — %s (cases=%d)\n", r.ID, s, v.What, v.Count)
	}
	if len(r.viol) == 0 {
		os.Exit(0)
	}
	os.MkdirAll(filepath.Join(root, "replays"), 0o755)
	for _, s := range r.violOrder {
		v := r.viol[s]
		h := sha256.Sum256([]byte(r.ID + "|" + s))
		p := filepath.Join(root, "replays", r.ID+"-"+hex.EncodeToString(h[:6])+".json")
		data, _ := json.MarshalIndent(v, "", " ")
		os.WriteFile(p, append(data, '\n'), 0o644)
		fmt.Printf("  violation %q: %s\n  case=%s (cases with this signature: %d)\n", s, v.What, trunc(jsonStr(v.Case), 600), v.Count)
		fmt.Printf("VIOLATION property=%s replay=%s\n", r.ID, p)
	}
	os.Exit(1)
}

func trunc(s string, n int) string {
	if len(s) > n {
		return s[:n] + "…"
	}
	return s
}

// Catch runs f and reports a panic instead of propagating it.
func Catch(f func()) (val any, stack string, panicked bool) {
	defer func() {
		if p := recover(); p != nil {
			val, stack, panicked = p, string(debug.Stack()), true
		}
	}()
	f()
	return
}

// PanicSite extracts the first golib frame of a panic stack (function name), used in signatures.
func PanicSite(stack string) string {
	for _, ln := range strings.Split(stack, "\n") {
		if strings.HasPrefix(ln, "github.com/welllog/golib/") {
			s := strings.TrimPrefix(ln, "github.com/welllog/golib/")
			if i := strings.LastIndex(s, "("); i > 0 {
				s = s[:i]
			}
			s = strings.ReplaceAll(s, "[...]", "")
			return s
		}
	}
	return "?"
}

// Parallel runs fn(i) for i in [0,n) on r.Workers goroutines.
func (r *Run) Parallel(n int, fn func(i int)) {
	var next int64 = -1
	var wg sync.WaitGroup
	w := r.Workers
	if w > n {
		w = n
	}
	for k := 0; k < w; k++ {
		wg.Add(1)
		go func() {
			defer wg.Done()
			for {
				i := int(atomic.AddInt64(&next, 1))
				if i >= n {
					return
				}
				if r.ShardCnt > 0 && i%r.ShardCnt != r.ShardIdx {
					continue
				}
				fn(i)
			}
		}()
	}
	wg.Wait()
}
