package common

import (
	"sync/atomic"
	"time"
)


// Overlap enumerates EVERY interleaving of a few calls into the library that overlap in time, at
// the granularity of the environment calls they make (reads and writes on caller-supplied
// streams, callbacks, answers of a caller-supplied random source): each body runs on its own
// goroutine, calls y() at each such point, and exactly one body runs at any moment (hand-off
// through channels, so the harness itself adds no data race and every execution is
// deterministic). The library code between two points runs atomically — what is decided is that
// two overlapping calls do not interfere through state that lives across an environment call
// (package-level scratch, pooled or cached buffers, fields of a shared object).
//
// mk builds a fresh set of bodies for one execution and returns them with a check that is run
// after all bodies have finished (a panic inside a body is handed to check through panics[i]).
// Stateless depth-first search over choice sequences: an execution replays a prefix, then always
// continues the running body (choice 0); alternatives are explored while the number of
// switches away from a body that could have continued stays <= bound (bound < 0: no bound).
// OverlapDiverged counts executions that could not follow their recorded prefix (see overlapRun).
var OverlapDiverged int64

type OverlapExec struct {
	Schedule     []int // body index chosen at every point
	Panics       []any
	Uncontrolled bool // a body blocked inside the library; the rest of the execution ran freely
}

// OverlapBlocked counts executions in which the body that was given the baton neither reached its
// next environment call nor finished within OverlapBlockTimeout: it waits inside the library for
// something (a lock) that a body parked at an environment call holds. Real overlapping calls would
// simply wait for each other; the one-at-a-time discipline cannot run that, so all bodies are let
// go (environment calls no longer park), the execution finishes uncontrolled and is NOT judged,
// and the enumeration of this family is reported as incomplete — never as a violation.
var OverlapBlocked int64
var OverlapBlockTimeout = 5 * time.Second

func Overlap(bound int, mk func() (bodies []func(y func()), check func(x *OverlapExec))) (execs int) {
	if atomic.LoadInt64(&OverlapBlocked) >= 3 {
		return 0 // the coroutine discipline does not fit this library (see overlapRun): family abandoned
	}
	var explore func(prefix []int)
	explore = func(prefix []int) {
		x, pts := overlapRun(prefix, mk)
		execs++
		if x.Uncontrolled {
			return
		}
		for i := len(prefix); i < len(pts); i++ {
			p := pts[i]
			cost := 0
			for j := 0; j < i; j++ {
				if pts[j].preempt {
					cost++
				}
			}
			for alt := 1; alt < len(p.enabled); alt++ {
				c := cost
				if p.runningEnabled {
					c++
				}
				if bound >= 0 && c > bound {
					continue
				}
				np := make([]int, i+1)
				for j := 0; j < i; j++ {
					np[j] = pts[j].choice
				}
				np[i] = alt
				explore(np)
			}
		}
	}
	explore(nil)
	return execs
}

type overlapPoint struct {
	enabled        []int
	choice         int
	runningEnabled bool
	preempt        bool
}

func overlapRun(prefix []int, mk func() ([]func(y func()), func(x *OverlapExec))) (*OverlapExec, []overlapPoint) {
	bodies, check := mk()
	n := len(bodies)
	resume := make([]chan struct{}, n)
	type ev struct {
		id   int
		done bool
	}
	events := make(chan ev)
	x := &OverlapExec{Panics: make([]any, n)}
	finished := make([]bool, n)
	var free int32
	for i := range bodies {
		resume[i] = make(chan struct{})
		go func(i int) {
			<-resume[i]
			defer func() {
				if p := recover(); p != nil {
					x.Panics[i] = p
				}
				events <- ev{i, true}
			}()
			bodies[i](func() {
				if atomic.LoadInt32(&free) != 0 {
					return
				}
				events <- ev{i, false}
				<-resume[i]
			})
		}(i)
	}
	var pts []overlapPoint
	running := -1
	left := n
	for left > 0 {
		var en []int
		if running >= 0 && !finished[running] {
			en = append(en, running)
		}
		for i := 0; i < n; i++ {
			if !finished[i] && i != running {
				en = append(en, i)
			} else if i == running && finished[i] {
				continue
			}
		}
		p := overlapPoint{enabled: en, runningEnabled: running >= 0 && !finished[running]}
		k := len(pts)
		if k < len(prefix) {
			p.choice = prefix[k]
			if p.choice >= len(en) {
				// The bodies are deterministic functions of the schedule as long as the library keeps
				// nothing between executions. A library that does (a pool refilled every n-th call, a
				// cache) makes a later execution take other environment calls than the one the prefix
				// was recorded from: the execution is then continued without the prefix (its checks
				// still run), and the caller reports the enumeration as incomplete.
				OverlapDiverged++
				p.choice = 0
				prefix = prefix[:k]
			}
		}
		p.preempt = p.runningEnabled && p.choice != 0
		pts = append(pts, p)
		running = en[p.choice]
		x.Schedule = append(x.Schedule, running)
		resume[running] <- struct{}{}
		var e ev
		select {
		case e = <-events:
		case <-time.After(OverlapBlockTimeout):
			atomic.AddInt64(&OverlapBlocked, 1)
			x.Uncontrolled = true
			atomic.StoreInt32(&free, 1)
			for i := 0; i < n; i++ {
				if !finished[i] && i != running {
					resume[i] <- struct{}{} // parked at its start or at an environment call
				}
			}
			for left > 0 {
				e = <-events
				if e.done {
					finished[e.id] = true
					left--
				} else {
					resume[e.id] <- struct{}{} // had passed the flag test before it was set
				}
			}
			// no check: the bodies ran concurrently for a while and the harness's scripted
			// environment is not built for that — this execution is not judged at all
			return x, pts
		}
		if e.done {
			finished[e.id] = true
			left--
		}
	}
	check(x)
	return x, pts
}
