package common

import (
	"reflect"
	"sync"
	"unsafe"
)

// TeleportSyncRing puts a *ringz.SyncRing[T] (passed as pointer, freshly initialised) into the
// private state that k push/pop pairs would leave: both position counters = k and every slot's
// sequence number set to the next position that maps to it. It returns false — and changes
// nothing — when the private representation is not of the expected shape.
//
// The representation is DISCOVERED, not named: on a scratch ring of the same type (Init(4)), the
// counter that a Push advances is the tail, the one a Pop advances the head, and the per-slot
// sequence numbers are the uint32 values (a field of the slot struct, or a []uint32 next to the
// slots) that read 0,1,2,3 after Init. Renaming or reordering private fields, or splitting the
// slot array, therefore does not disable the 2^32 families. The harnesses still bind the result to
// the code by comparing teleport(k) with k honest push/pop pairs for small k.
func TeleportSyncRing(ring any, k uint32) bool {
	pv := reflect.ValueOf(ring)
	if pv.Kind() != reflect.Pointer || pv.Elem().Kind() != reflect.Struct {
		return false
	}
	lay := ringLayoutOf(pv.Type())
	if lay == nil {
		return false
	}
	v := pv.Elem()
	seqs := v.Field(lay.seqSlice)
	n := seqs.Len()
	if n == 0 || n&(n-1) != 0 {
		return false
	}
	m := uint32(n - 1)
	setU32(v.Field(lay.head), k)
	setU32(v.Field(lay.tail), k)
	for i := 0; i < n; i++ {
		e := seqs.Index(i)
		if lay.seqField >= 0 {
			e = e.Field(lay.seqField)
		}
		setU32(e, k+((uint32(i)-k)&m))
	}
	return true
}

func setU32(f reflect.Value, x uint32) { *(*uint32)(unsafe.Pointer(f.UnsafeAddr())) = x }

type ringLayout struct {
	head, tail int // indices of the uint32 counters
	seqSlice   int // index of the slice that holds the sequence numbers
	seqField   int // field of the slot struct, or -1 when the slice is a []uint32
}

var (
	ringLayouts  = map[reflect.Type]*ringLayout{}
	ringLayoutMu sync.Mutex
)

func ringLayoutOf(ptr reflect.Type) (lay *ringLayout) {
	ringLayoutMu.Lock()
	defer ringLayoutMu.Unlock()
	if l, ok := ringLayouts[ptr]; ok {
		return l
	}
	defer func() {
		if recover() != nil {
			lay = nil
		}
		ringLayouts[ptr] = lay
	}()
	scratch := reflect.New(ptr.Elem())
	initM, push, pop := scratch.MethodByName("Init"), scratch.MethodByName("Push"), scratch.MethodByName("Pop")
	if !initM.IsValid() || !push.IsValid() || !pop.IsValid() || push.Type().NumIn() != 1 {
		return nil
	}
	initM.Call([]reflect.Value{reflect.ValueOf(4)})
	v := scratch.Elem()
	var u32 []int
	for i := 0; i < v.NumField(); i++ {
		if v.Field(i).Kind() == reflect.Uint32 {
			u32 = append(u32, i)
		}
	}
	snap := func() []uint64 {
		out := make([]uint64, len(u32))
		for j, i := range u32 {
			out[j] = v.Field(i).Uint()
		}
		return out
	}
	changed := func(a, b []uint64) int {
		idx := -1
		for j := range a {
			if a[j] != b[j] {
				if idx >= 0 || b[j] != a[j]+1 {
					return -1
				}
				idx = u32[j]
			}
		}
		return idx
	}
	l := &ringLayout{seqSlice: -1, seqField: -1}
	// sequence numbers: read 0,1,2,3 on a fresh ring of capacity 4
	for i := 0; i < v.NumField() && l.seqSlice < 0; i++ {
		f := v.Field(i)
		if f.Kind() != reflect.Slice || f.Len() != 4 {
			continue
		}
		switch f.Type().Elem().Kind() {
		case reflect.Uint32:
			if f.Index(0).Uint() == 0 && f.Index(1).Uint() == 1 && f.Index(2).Uint() == 2 && f.Index(3).Uint() == 3 {
				l.seqSlice = i
			}
		case reflect.Struct:
			for q := 0; q < f.Type().Elem().NumField(); q++ {
				if f.Type().Elem().Field(q).Type.Kind() != reflect.Uint32 {
					continue
				}
				if f.Index(0).Field(q).Uint() == 0 && f.Index(1).Field(q).Uint() == 1 && f.Index(2).Field(q).Uint() == 2 && f.Index(3).Field(q).Uint() == 3 {
					l.seqSlice, l.seqField = i, q
				}
			}
		}
	}
	if l.seqSlice < 0 {
		return nil
	}
	s0 := snap()
	push.Call([]reflect.Value{reflect.Zero(push.Type().In(0))})
	s1 := snap()
	pop.Call(nil)
	s2 := snap()
	l.tail, l.head = changed(s0, s1), changed(s1, s2)
	if l.tail < 0 || l.head < 0 || l.tail == l.head {
		return nil
	}
	return l
}
