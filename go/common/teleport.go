package common

import (
	"reflect"
	"unsafe"
)

// TeleportSyncRing puts a fresh *ringz.SyncRing[T] (passed as pointer) into the private state
// that k push/pop pairs would leave: head = tail = k and every slot's sequence number set to the
// next position that maps to it. Returns false if the private fields are not found.
func TeleportSyncRing(ring any, k uint32) bool {
	v := reflect.ValueOf(ring).Elem()
	head, tail, values, mask := v.FieldByName("head"), v.FieldByName("tail"), v.FieldByName("values"), v.FieldByName("mask")
	if !head.IsValid() || !tail.IsValid() || !values.IsValid() || !mask.IsValid() || head.Kind() != reflect.Uint32 || tail.Kind() != reflect.Uint32 || values.Kind() != reflect.Slice {
		return false
	}
	m := uint32(mask.Uint())
	for i := 0; i < values.Len(); i++ {
		pos := values.Index(i).FieldByName("pos")
		if !pos.IsValid() || pos.Kind() != reflect.Uint32 {
			return false
		}
	}
	*(*uint32)(unsafe.Pointer(head.UnsafeAddr())) = k
	*(*uint32)(unsafe.Pointer(tail.UnsafeAddr())) = k
	for i := 0; i < values.Len(); i++ {
		pos := values.Index(i).FieldByName("pos")
		*(*uint32)(unsafe.Pointer(pos.UnsafeAddr())) = k + ((uint32(i) - k) & m)
	}
	return true
}
