package common

import (
	"fmt"
	"os"
	"runtime"
	"strings"
	"time"
)

// Every harness polls its soft deadline (100 s quick, 900 s thorough) and finishes soon after it;
// the slowest run on the unchanged tree takes a third of it. A run that is still going
// OverrunGrace after the deadline is not slow, it is stuck: some call has not returned. The
// overrun watchdog then looks at all goroutines (twice, 20 s apart). A goroutine that sits in the
// same call INTO THE LIBRARY both times is reported as a violation ("does-not-return|<library entry
// point>": every property says the operations return); if no goroutine is inside the library the
// harness itself is at fault and the run is closed as incomplete (exit 0, exhaustive=false).
// Either way the check ends with evidence instead of hanging until somebody kills it.
var OverrunGrace = 10 * time.Minute

func (r *Run) watchOverrun() {
	if s, err := time.ParseDuration(os.Getenv("VERIF_OVERRUN_GRACE")); err == nil && s > 0 {
		OverrunGrace = s // selftest only: shows the watchdog at work without the 10 minutes
	}
	go func() {
		time.Sleep(time.Until(r.Deadline.Add(OverrunGrace)))
		a := libraryCalls()
		time.Sleep(20 * time.Second)
		b := libraryCalls()
		var entry, where string
		for id, ca := range a {
			if cb, ok := b[id]; ok && ca.chain == cb.chain && (entry == "" || ca.entry < entry) {
				entry, where = ca.entry, ca.inner
			}
		}
		if entry != "" {
			r.Violation("does-not-return|"+entry,
				fmt.Sprintf("%s after the soft deadline the run is still inside one call of %s (innermost library frame: %s, same goroutine and same call chain in two stack samples 20 s apart); a call takes micro- to milliseconds", OverrunGrace, entry, where),
				map[string]any{"library_entry_point": entry, "innermost_library_frame": where}, "")
			r.Incomplete("the run was abandoned: a library call does not return")
		} else {
			fmt.Fprintf(os.Stderr, "%s: overrun, but no goroutine is inside the library — the harness did not finish\n", r.ID)
			r.Incomplete(fmt.Sprintf("the run was abandoned %s after its soft deadline (no goroutine was inside a library call)", OverrunGrace))
		}
		r.Finish("run abandoned by the overrun watchdog")
	}()
}

type libCall struct {
	entry string // outermost library function on the stack (the call the harness made)
	inner string // innermost library function
	chain string // function names from the entry point outwards to the goroutine's root
}


// libraryCalls maps goroutine id -> the library call it is inside of, from a full stack dump.
func libraryCalls() map[string]libCall {
	buf := make([]byte, 1<<20)
	for {
		n := runtime.Stack(buf, true)
		if n < len(buf) {
			buf = buf[:n]
			break
		}
		buf = make([]byte, 2*len(buf))
	}
	out := map[string]libCall{}
	for _, g := range strings.Split(string(buf), "\n\n") {
		lines := strings.Split(g, "\n")
		if len(lines) < 2 || !strings.HasPrefix(lines[0], "goroutine ") {
			continue
		}
		id := strings.Fields(lines[0])[1]
		var fns []string
		for _, l := range lines[1:] {
			if strings.HasPrefix(l, "\t") || strings.HasPrefix(l, "created by ") {
				continue
			}
			if i := strings.LastIndex(l, "("); i > 0 {
				fns = append(fns, l[:i])
			}
		}
		first, last := -1, -1
		for i, f := range fns {
			if isLibraryFrame(f) {
				if first < 0 {
					first = i
				}
				last = i
			}
		}
		if first < 0 {
			continue
		}
		out[id] = libCall{entry: fns[last], inner: fns[first], chain: strings.Join(fns[last:], " < ")}
	}
	return out
}

func isLibraryFrame(fn string) bool {
	const p = "github.com/welllog/golib/"
	return strings.HasPrefix(fn, p) && !strings.HasPrefix(fn, p+"vshim/")
}
