package common

// Strings calls fn for every concatenation of at most maxLen symbols of alpha (shortest first
// within a first symbol; the empty string first). fn must not retain buf.
func Strings(alpha []string, maxLen int, fn func(s string)) {
	for l := 0; l <= maxLen; l++ {
		StringsOfLen(alpha, l, fn)
	}
}

func StringsOfLen(alpha []string, l int, fn func(s string)) {
	idx := make([]int, l)
	buf := make([]byte, 0, 64)
	for {
		buf = buf[:0]
		for _, i := range idx {
			buf = append(buf, alpha[i]...)
		}
		fn(string(buf))
		k := l - 1
		for k >= 0 {
			idx[k]++
			if idx[k] < len(alpha) {
				break
			}
			idx[k] = 0
			k--
		}
		if k < 0 {
			return
		}
	}
}

// AllStrings returns the list instead of calling back.
func AllStrings(alpha []string, maxLen int) []string {
	var out []string
	Strings(alpha, maxLen, func(s string) { out = append(out, s) })
	return out
}

// Seqs enumerates all sequences over {0..k-1} of exactly length l.
func Seqs(k, l int, fn func(idx []int)) {
	idx := make([]int, l)
	for {
		fn(idx)
		p := l - 1
		for p >= 0 {
			idx[p]++
			if idx[p] < k {
				break
			}
			idx[p] = 0
			p--
		}
		if p < 0 {
			return
		}
	}
}

// Subsets enumerates all subsets of {0..n-1} of size between lo and hi as index slices.
func Subsets(n, lo, hi int, fn func(idx []int)) {
	var rec func(start int, cur []int)
	rec = func(start int, cur []int) {
		if len(cur) >= lo {
			fn(cur)
		}
		if len(cur) == hi {
			return
		}
		for i := start; i < n; i++ {
			rec(i+1, append(cur, i))
		}
	}
	rec(0, nil)
}

// Perms enumerates all permutations of {0..n-1} (lexicographic, identity first).
func Perms(n int, fn func(p []int)) {
	p := make([]int, n)
	used := make([]bool, n)
	var rec func(k int)
	rec = func(k int) {
		if k == n {
			fn(p)
			return
		}
		for i := 0; i < n; i++ {
			if !used[i] {
				used[i] = true
				p[k] = i
				rec(k + 1)
				used[i] = false
			}
		}
	}
	rec(0)
}
