package common

import (
	"context"
	"encoding/json"
	"fmt"
	"os"
	"os/exec"
	"path/filepath"
	"sort"
	"strconv"
	"strings"
	"sync"
	"time"
)

// Process sharding: a harness whose instrumentation needs process-global state (the map-order
// environment of C18) runs its enumeration in n single-threaded child processes. Each child
// executes only the Parallel items i with i % n == shard, writes its own evidence and replay
// files into a scratch directory, and the parent merges them.

func (r *Run) initShard() {
	s := os.Getenv("VERIF_SHARD")
	if s == "" {
		return
	}
	parts := strings.Split(s, "/")
	r.ShardIdx, _ = strconv.Atoi(parts[0])
	r.ShardCnt, _ = strconv.Atoi(parts[1])
	r.Workers = 1
	r.known = map[string]Finding{} // the parent does the known-finding matching
}

// IsShard reports whether this process is a child shard.
func (r *Run) IsShard() bool { return r.ShardCnt > 0 }

// Sharded returns false in a child (the caller then does the work). In the parent it runs n
// children, merges their results into r and returns true (the caller then only calls Finish).
func (r *Run) Sharded(n int) bool {
	if r.IsShard() || r.ReplaySig != "" {
		return false
	}
	tmp, err := os.MkdirTemp("/dev/shm", "verif-shards-")
	if err != nil {
		tmp, err = os.MkdirTemp("", "verif-shards-")
		if err != nil {
			Infra("%v", err)
		}
	}
	defer os.RemoveAll(tmp)
	type res struct {
		code int
		out  string
	}
	results := make([]res, n)
	var wg sync.WaitGroup
	budget := int(r.Deadline.Sub(r.Start).Seconds())
	for i := 0; i < n; i++ {
		wg.Add(1)
		go func(i int) {
			defer wg.Done()
			dir := filepath.Join(tmp, strconv.Itoa(i))
			os.MkdirAll(dir, 0o755)
			cmd := exec.Command(os.Args[0], "-tier", r.Tier, "-budget", strconv.Itoa(budget))
			cmd.Env = append(os.Environ(), fmt.Sprintf("VERIF_SHARD=%d/%d", i, n), "VERIF_OUT="+dir, "GOMAXPROCS=2")
			out, err := cmd.CombinedOutput()
			results[i].out = string(out)
			if err != nil {
				if ee, ok := err.(*exec.ExitError); ok {
					results[i].code = ee.ExitCode()
				} else {
					results[i].code = 2
				}
			}
		}(i)
	}
	wg.Wait()
	sums := map[string]float64{}
	var sections []map[string]any
	for i := 0; i < n; i++ {
		if results[i].code != 0 && results[i].code != 1 {
			Infra("shard %d failed (exit %d):\n%s", i, results[i].code, tailStr(results[i].out, 3000))
		}
		dir := filepath.Join(tmp, strconv.Itoa(i))
		data, err := os.ReadFile(filepath.Join(dir, "evidence", r.ID+".json"))
		if err != nil {
			Infra("shard %d wrote no evidence: %v\n%s", i, err, tailStr(results[i].out, 2000))
		}
		var ev struct {
			Coverage map[string]any `json:"coverage"`
		}
		if err := json.Unmarshal(data, &ev); err != nil {
			Infra("shard %d: %v", i, err)
		}
		for k, v := range ev.Coverage {
			switch k {
			case "evaluations":
				r.Eval(int64(v.(float64)))
			case "distinct_nontrivial":
				r.Nontrivial(int64(v.(float64)))
			case "caps_hit":
				for _, c := range v.([]any) {
					r.Incomplete(fmt.Sprintf("shard %d: %v", i, c))
				}
			case "samples":
				if i == 0 {
					for _, s := range v.([]any) {
						r.Sample(s)
					}
				}
			case "sections":
				for j, s := range v.([]any) {
					m := s.(map[string]any)
					if j >= len(sections) {
						sections = append(sections, m)
						continue
					}
					for kk, vv := range m {
						if f, ok := vv.(float64); ok {
							if g, ok := sections[j][kk].(float64); ok {
								sections[j][kk] = f + g
							}
						}
					}
				}
			default:
				if f, ok := v.(float64); ok && strings.HasSuffix(k, "_sum") {
					sums[k] += f
				}
			}
		}
		reps, _ := filepath.Glob(filepath.Join(dir, "replays", "*.json"))
		sort.Strings(reps)
		for _, p := range reps {
			d, err := os.ReadFile(p)
			if err != nil {
				continue
			}
			var v Violation
			if json.Unmarshal(d, &v) == nil {
				for c := int64(0); c < max64(v.Count, 1); c++ {
					r.Violation(v.Signature, v.What, v.Case, v.GoTest)
					if c > 2 {
						break
					}
				}
			}
		}
	}
	for k, v := range sums {
		r.Cov(k, int64(v))
	}
	for _, s := range sections {
		r.Section(s)
	}
	r.Cov("process_shards", n)
	return true
}

func max64(a, b int64) int64 {
	if a > b {
		return a
	}
	return b
}

func tailStr(s string, n int) string {
	if len(s) > n {
		return s[len(s)-n:]
	}
	return s
}

// ColdStart: "first call of the process" probes. Lazily built tables and caches make the very
// first use of an entry point special; a harness that has already exercised the library cannot
// see that. Each named probe runs in a fresh child process (this binary re-executed) whose first
// and only library calls are the probe's. probe returns "" if the result is right.
// In the child, ColdStart runs the requested probe and exits; call it right after Start.
func (r *Run) ColdStart(probes map[string]func() string) {
	if name := os.Getenv("VERIF_COLD"); name != "" {
		p := probes[name]
		if p == nil {
			fmt.Println("unknown probe " + name)
			os.Exit(4)
		}
		var why string
		_, st, panicked := Catch(func() { why = p() })
		if panicked {
			why = "panicked at " + PanicSite(st)
		}
		if why != "" {
			fmt.Println(why)
			os.Exit(3)
		}
		os.Exit(0)
	}
	if r.IsShard() || r.ReplaySig != "" {
		return
	}
	names := make([]string, 0, len(probes))
	for n := range probes {
		names = append(names, n)
	}
	sort.Strings(names)
	type res struct {
		code int
		out  string
	}
	results := make([]res, len(names))
	var wg sync.WaitGroup
	sem := make(chan struct{}, r.Workers)
	for i, n := range names {
		wg.Add(1)
		sem <- struct{}{}
		go func(i int, n string) {
			defer wg.Done()
			defer func() { <-sem }()
			// a probe takes milliseconds; a child that is still running after five minutes does not
			// return (a lock that was never released), which is what gets reported
			for attempt := 0; attempt < 2; attempt++ {
				ctx, cancel := context.WithTimeout(context.Background(), 5*time.Minute)
				cmd := exec.CommandContext(ctx, os.Args[0], "-tier", r.Tier)
				cmd.Env = append(os.Environ(), "VERIF_COLD="+n)
				out, err := cmd.CombinedOutput()
				hung := ctx.Err() != nil
				cancel()
				results[i].out = strings.TrimSpace(string(out))
				results[i].code = 0
				if err != nil {
					if ee, ok := err.(*exec.ExitError); ok {
						results[i].code = ee.ExitCode()
					} else {
						results[i].code = 2
					}
				}
				if hung {
					results[i].code = 5
					continue // once more before it is believed
				}
				break
			}
		}(i, n)
	}
	wg.Wait()
	for i, n := range names {
		r.Eval(1)
		r.Nontrivial(1)
		switch results[i].code {
		case 0:
		case 3:
			r.Violation(n+"|wrong-as-first-call-of-the-process", fmt.Sprintf("in a fresh process whose first library call is %s: %s", n, tailStr(results[i].out, 600)), map[string]any{"first_call": n}, "")
		case 5:
			r.Violation(n+"|does-not-return", fmt.Sprintf("a fresh process whose first library calls are the probe %s did not finish within 5 minutes (twice)", n), map[string]any{"first_call": n}, "")
		default:
			if !strings.Contains(results[i].out, "CHECK-ERROR") && (strings.Contains(results[i].out, "fatal error:") || strings.Contains(results[i].out, "panic:")) {
				// the Go runtime ended the child (an unrecoverable error such as unlocking an unlocked mutex)
				r.Violation(n+"|terminates-the-process", fmt.Sprintf("a fresh process running the probe %s was terminated by the Go runtime: %s", n, tailStr(results[i].out, 400)), map[string]any{"first_call": n}, "")
				continue
			}
			Infra("cold-start probe %s could not run (exit %d): %s", n, results[i].code, tailStr(results[i].out, 1500))
		}
	}
	r.Section(map[string]any{"family": "first call of a fresh process", "probes": names})
}
