package freerun

import (
	"sync"
	"sync/atomic"
	"testing"
	"time"

	"github.com/welllog/golib/listz"
)

func TestC11(t *testing.T) {
	l := listz.NewSync[int]()
	var wg sync.WaitGroup
	var pushed, popped int64
	const perG = 20000
	for g := 0; g < 4; g++ {
		wg.Add(2)
		go func(g int) {
			defer wg.Done()
			for i := 0; i < perG; i++ {
				l.Push(g*perG + i + 1)
				atomic.AddInt64(&pushed, 1)
			}
		}(g)
		go func() {
			defer wg.Done()
			for i := 0; i < perG; i++ {
				var ok bool
				switch {
				case i%500 == 3:
					_, ok = l.PopWait(time.Millisecond)
				case i%7 == 0:
					_, ok = l.PopWait(0)
				default:
					_, ok = l.Pop()
				}
				if ok {
					atomic.AddInt64(&popped, 1)
				}
				if i%64 == 0 {
					if n := l.Len(); n < 0 {
						t.Errorf("Len() = %d", n)
					}
				}
			}
		}()
	}
	wg.Wait()
	if n := l.Len(); int64(n) != pushed-popped {
		t.Errorf("Len() = %d at quiescence, pushed %d popped %d", n, pushed, popped)
	}
	rest := 0
	for {
		if _, ok := l.Pop(); !ok {
			break
		}
		rest++
	}
	if pushed != popped+int64(rest) {
		t.Errorf("pushed %d, popped %d + %d left", pushed, popped, rest)
	}
}
