// Package freerun holds the supplementary free-running pass of the concurrency properties: the
// same kinds of operations as the E1 scenarios, executed by real goroutines on the
// UNINSTRUMENTED golib code under Go's race detector (`go test -race`). It is sampling and
// decides nothing by itself; it exists because a cooperative scheduler's hand-offs are
// happens-before edges that blind the race detector, so E1 finds races with its own vector
// clocks over the accesses the instrumenter can name, and this pass covers accesses it cannot
// (runtime map internals, memory reached through callbacks). Run by check.sh on the thorough tier.
package freerun
