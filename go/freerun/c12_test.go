package freerun

import (
	"sync"
	"testing"

	"github.com/welllog/golib/mapz"
)

func TestC12(t *testing.T) {
	s := mapz.NewSafeKV[string, int](4)
	keys := []string{"a", "b", "c"}
	var wg sync.WaitGroup
	const perG = 4000
	for g := 0; g < 8; g++ {
		wg.Add(1)
		go func(g int) {
			defer wg.Done()
			for i := 0; i < perG; i++ {
				k := keys[(i+g)%len(keys)]
				switch (i*7 + g) % 17 {
				case 0:
					s.Set(k, i)
				case 1:
					s.SetNx(k, i)
				case 2:
					s.SetX(k, i)
				case 3:
					s.Delete(k)
				case 4:
					s.Delete(keys...)
				case 5:
					s.Get(k)
				case 6:
					s.Has(k)
				case 7:
					s.Contains(k)
				case 8:
					s.Len()
				case 9:
					if ks := s.Keys(); len(ks) > len(keys) {
						t.Errorf("Keys() returned %d keys", len(ks))
					}
				case 10:
					s.Values()
				case 11:
					s.Range(func(string, int) bool { return true })
				case 12:
					for range s.All() {
					}
				case 13:
					m := map[string]int{"a": -1, "b": -1}
					s.GetWithMap(m)
				case 14:
					s.GetWithLock(k, func(int) {})
				case 15:
					if i%50 == 0 {
						s.Clear()
					}
				case 16:
					s.Map(func(m mapz.KV[string, int]) { m[k] = i; delete(m, "zz") })
				}
			}
		}(g)
	}
	wg.Wait()
}
