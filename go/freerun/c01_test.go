package freerun

import (
	"sync"
	"sync/atomic"
	"testing"
	"time"

	"github.com/welllog/golib/ringz"
)

func TestC01(t *testing.T) {
	for _, capa := range []int{2, 4, 64} {
		r := ringz.NewSync[int](capa)
		var wg sync.WaitGroup
		var pushed, popped int64
		const perG = 20000
		for g := 0; g < 4; g++ {
			wg.Add(2)
			go func(g int) {
				defer wg.Done()
				for i := 0; i < perG; i++ {
					switch i % 3 {
					case 0:
						if r.Push(g*perG + i + 1) {
							atomic.AddInt64(&pushed, 1)
						}
					case 1:
						if r.PushWait(g*perG+i+1, 0) {
							atomic.AddInt64(&pushed, 1)
						}
					default:
						if i%300 == 2 {
							if r.PushWait(g*perG+i+1, time.Millisecond) {
								atomic.AddInt64(&pushed, 1)
							}
						} else if r.Push(g*perG + i + 1) {
							atomic.AddInt64(&pushed, 1)
						}
					}
				}
			}(g)
			go func() {
				defer wg.Done()
				for i := 0; i < perG; i++ {
					if i%300 == 7 {
						if _, ok := r.PopWait(time.Millisecond); ok {
							atomic.AddInt64(&popped, 1)
						}
					} else if _, ok := r.Pop(); ok {
						atomic.AddInt64(&popped, 1)
					}
					if i%64 == 0 {
						if n := r.Len(); n < 0 || n > r.Cap() {
							t.Errorf("Len() = %d outside [0,%d]", n, r.Cap())
						}
						r.IsEmpty()
						r.IsFull()
					}
				}
			}()
		}
		wg.Wait()
		rest := 0
		for {
			if _, ok := r.Pop(); !ok {
				break
			}
			rest++
		}
		if pushed != popped+int64(rest) {
			t.Errorf("cap %d: pushed %d, popped %d + %d left", capa, pushed, popped, rest)
		}
	}
}
