package freerun

import (
	"io"
	"os"
	"sync"
	"sync/atomic"
	"testing"

	"github.com/welllog/golib/goz"
)

func TestC19(t *testing.T) {
	// the default panic handler prints: keep the test log readable
	old := os.Stdout
	if f, err := os.OpenFile(os.DevNull, os.O_WRONLY, 0); err == nil {
		os.Stdout = f
		defer func() { os.Stdout = old; f.Close() }()
	}
	_ = io.Discard
	for _, limit := range []int{1, 2, 3} {
		for _, handler := range []bool{true, false} {
			l := goz.NewLimiter(limit)
			var mu sync.Mutex
			handled := 0
			if handler {
				l.SetPanicHandler(func(any) { mu.Lock(); handled++; mu.Unlock() })
			}
			var inside, done, maxIn int64
			const n = 400
			for i := 0; i < n; i++ {
				i := i
				l.Go(func() {
					v := atomic.AddInt64(&inside, 1)
					for {
						m := atomic.LoadInt64(&maxIn)
						if v <= m || atomic.CompareAndSwapInt64(&maxIn, m, v) {
							break
						}
					}
					atomic.AddInt64(&inside, -1)
					atomic.AddInt64(&done, 1)
					if i%5 == 0 {
						panic("boom")
					}
				})
			}
			l.Wait()
			if done != n {
				t.Errorf("limit %d: %d of %d functions completed when Wait returned", limit, done, n)
			}
			if maxIn > int64(limit) {
				t.Errorf("limit %d: %d functions ran concurrently", limit, maxIn)
			}
			if handler {
				mu.Lock()
				if handled != n/5 {
					t.Errorf("handler saw %d panics, want %d", handled, n/5)
				}
				mu.Unlock()
			}
		}
	}
}
