// Package space is engine E2: explicit-state breadth-first search over operation sequences on
// real golib objects. States are de-duplicated on a reflective canonical dump of the private
// object graph (Canon); every transition is executed on the real code and compared with a
// reference model by the harness.
package space

import (
	"crypto/sha256"
	"fmt"
	"reflect"
	"sort"
	"strconv"
	"strings"
)

// Canonizer turns object graphs into canonical strings: pointers are numbered in discovery
// order (isomorphic heaps get equal keys), unexported fields are read through reflect.
type Canonizer struct {
	SkipTypes  map[reflect.Type]bool // e.g. *rand.Rand: contributes only nil / non-nil
	SkipFields map[string]bool       // "TypeName.field": not dumped at all (state the property cannot observe AND that cannot influence futures)
	RenameType reflect.Type          // values of this type are renamed in order of first appearance (symmetry by parametricity)
	WithCap    bool                  // include slice capacities
	Verbose    bool                  // keep the full dump instead of a hash (debugging / structural invariants)
}

type walker struct {
	c      *Canonizer
	sb     strings.Builder
	ptrs   map[uintptr]int
	rename map[string]int
}

// Dump returns the canonical text of the roots.
func (c *Canonizer) Dump(roots ...any) string {
	w := &walker{c: c, ptrs: map[uintptr]int{}, rename: map[string]int{}}
	for i, r := range roots {
		if i > 0 {
			w.sb.WriteByte('|')
		}
		w.walk(reflect.ValueOf(r), 0)
	}
	return w.sb.String()
}

// Key returns a 16-byte digest of Dump.
func (c *Canonizer) Key(roots ...any) [16]byte {
	h := sha256.Sum256([]byte(c.Dump(roots...)))
	var k [16]byte
	copy(k[:], h[:16])
	return k
}

func (w *walker) walk(v reflect.Value, depth int) {
	if depth > 10000 {
		w.sb.WriteString("<deep>")
		return
	}
	if !v.IsValid() {
		w.sb.WriteString("<nil>")
		return
	}
	t := v.Type()
	if w.c.SkipTypes[t] {
		switch v.Kind() {
		case reflect.Ptr, reflect.Map, reflect.Slice, reflect.Interface, reflect.Func, reflect.Chan:
			if v.IsNil() {
				w.sb.WriteString("skip:nil")
			} else {
				w.sb.WriteString("skip:set")
			}
		default:
			w.sb.WriteString("skip")
		}
		return
	}
	if w.c.RenameType != nil && t == w.c.RenameType {
		if v.IsZero() {
			w.sb.WriteString("vz") // the zero value is what golib writes into cleared slots: never renamed
			return
		}
		s := fmt.Sprint(scalar(v))
		id, ok := w.rename[s]
		if !ok {
			id = len(w.rename)
			w.rename[s] = id
		}
		w.sb.WriteString("v" + strconv.Itoa(id))
		return
	}
	switch v.Kind() {
	case reflect.Bool:
		w.sb.WriteString(strconv.FormatBool(v.Bool()))
	case reflect.Int, reflect.Int8, reflect.Int16, reflect.Int32, reflect.Int64:
		w.sb.WriteString(strconv.FormatInt(v.Int(), 10))
	case reflect.Uint, reflect.Uint8, reflect.Uint16, reflect.Uint32, reflect.Uint64, reflect.Uintptr:
		w.sb.WriteString(strconv.FormatUint(v.Uint(), 10))
	case reflect.Float32, reflect.Float64:
		w.sb.WriteString(strconv.FormatFloat(v.Float(), 'g', -1, 64))
	case reflect.String:
		w.sb.WriteString(strconv.Quote(v.String()))
	case reflect.Ptr:
		if v.IsNil() {
			w.sb.WriteString("nil")
			return
		}
		p := v.Pointer()
		if id, ok := w.ptrs[p]; ok {
			w.sb.WriteString("#" + strconv.Itoa(id))
			return
		}
		id := len(w.ptrs)
		w.ptrs[p] = id
		w.sb.WriteString("&" + strconv.Itoa(id) + "{")
		w.walk(v.Elem(), depth+1)
		w.sb.WriteString("}")
	case reflect.Struct:
		w.sb.WriteString("{")
		for i := 0; i < v.NumField(); i++ {
			f := t.Field(i)
			if w.c.SkipFields[t.Name()+"."+f.Name] || w.c.SkipFields[baseName(t.Name())+"."+f.Name] {
				continue
			}
			if i > 0 {
				w.sb.WriteByte(',')
			}
			w.sb.WriteString(f.Name + ":")
			w.walk(v.Field(i), depth+1)
		}
		w.sb.WriteString("}")
	case reflect.Slice:
		if v.IsNil() {
			w.sb.WriteString("[]nil")
			if w.c.WithCap {
				w.sb.WriteString("c0")
			}
			return
		}
		w.sb.WriteString("[" + strconv.Itoa(v.Len()))
		if w.c.WithCap {
			w.sb.WriteString("c" + strconv.Itoa(v.Cap()))
		}
		w.sb.WriteByte(':')
		for i := 0; i < v.Len(); i++ {
			if i > 0 {
				w.sb.WriteByte(',')
			}
			w.walk(v.Index(i), depth+1)
		}
		w.sb.WriteString("]")
	case reflect.Array:
		w.sb.WriteString("[")
		for i := 0; i < v.Len(); i++ {
			if i > 0 {
				w.sb.WriteByte(',')
			}
			w.walk(v.Index(i), depth+1)
		}
		w.sb.WriteString("]")
	case reflect.Map:
		if v.IsNil() {
			w.sb.WriteString("map:nil")
			return
		}
		type kv struct{ k, v string }
		var ents []kv
		it := v.MapRange()
		for it.Next() {
			// keys are dumped with a private walker so that ordering does not depend on pointer numbering
			kw := &walker{c: w.c, ptrs: map[uintptr]int{}, rename: w.rename}
			kw.walk(it.Key(), depth+1)
			ents = append(ents, kv{kw.sb.String(), ""})
		}
		sort.Slice(ents, func(i, j int) bool { return ents[i].k < ents[j].k })
		// second pass in sorted key order so pointer numbering is deterministic
		keys := v.MapKeys()
		ks := make(map[string]reflect.Value, len(keys))
		for _, k := range keys {
			kw := &walker{c: w.c, ptrs: map[uintptr]int{}, rename: w.rename}
			kw.walk(k, depth+1)
			ks[kw.sb.String()] = k
		}
		w.sb.WriteString("map{")
		for i, e := range ents {
			if i > 0 {
				w.sb.WriteByte(',')
			}
			w.sb.WriteString(e.k + "=>")
			w.walk(v.MapIndex(ks[e.k]), depth+1)
		}
		w.sb.WriteString("}")
	case reflect.Interface:
		if v.IsNil() {
			w.sb.WriteString("iface:nil")
			return
		}
		w.sb.WriteString("iface(" + v.Elem().Type().String() + ")")
		w.walk(v.Elem(), depth+1)
	case reflect.Func, reflect.Chan, reflect.UnsafePointer:
		if v.IsNil() || (v.Kind() == reflect.UnsafePointer && v.Pointer() == 0) {
			w.sb.WriteString(v.Kind().String() + ":nil")
		} else {
			w.sb.WriteString(v.Kind().String() + ":set")
		}
	default:
		w.sb.WriteString("?" + v.Kind().String())
	}
}

func baseName(n string) string {
	if i := strings.IndexByte(n, '['); i >= 0 {
		return n[:i]
	}
	return n
}

func scalar(v reflect.Value) any {
	switch v.Kind() {
	case reflect.Int, reflect.Int8, reflect.Int16, reflect.Int32, reflect.Int64:
		return v.Int()
	case reflect.Uint, reflect.Uint8, reflect.Uint16, reflect.Uint32, reflect.Uint64, reflect.Uintptr:
		return v.Uint()
	case reflect.String:
		return v.String()
	case reflect.Bool:
		return v.Bool()
	}
	return v.String()
}
