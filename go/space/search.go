package space

import (
	"fmt"
	"sort"
	"sync"
	"sync/atomic"

	"verif/common"
)

// Op is one operation of the alphabet; it must be plain data (it is replayed on fresh objects
// and written into replay files).
type Op struct {
	Name string `json:"op"`
	Args []int  `json:"args,omitempty"`
}

func (o Op) String() string { return fmt.Sprintf("%s%v", o.Name, o.Args) }

// Mismatch is what an oracle returns when implementation and model disagree.
type Mismatch struct {
	Sig  string // "<EntryPoint>|<kind>|<class>"
	What string
}

func (m *Mismatch) Error() string { return m.Sig + ": " + m.What }

// Instance is one live pair (real object, reference model).
type Instance interface {
	// Ops lists the operations offered in the current state, simplest first. Size caps are
	// enforced here (growing operations are not offered at the cap), which makes the space finite.
	Ops() []Op
	// Apply executes op on the real object and on the model and compares the results.
	Apply(op Op) *Mismatch
	// Roots returns what Canon must dump: the object(s) under test plus the harness handle table.
	Roots() []any
	// Check runs the read-only query battery against the model. It is called after the key was
	// taken and may be destructive (the instance is discarded afterwards).
	Check() *Mismatch
	// Abstract returns the abstract value (for the vacuity report); may return "".
	Abstract() string
}

type System struct {
	Name      string
	Starts    int
	New       func(start int) Instance
	Canon     *Canonizer
	MaxDepth  int // 0 = run to the fix-point
	MaxStates int // safety cap (0 = 5e6)
}

type Result struct {
	Name        string `json:"system"`
	States      int    `json:"states"`
	Transitions int64  `json:"transitions"`
	Paths       int64  `json:"paths_replayed"`
	Depth       int    `json:"max_depth"`
	FixPoint    bool   `json:"fix_point_reached"`
	Abstract    int    `json:"distinct_abstract_values"`
	CapHit      string `json:"cap_hit,omitempty"`
}

type node struct {
	start int
	path  []Op
}

type succ struct {
	key [16]byte
	abs string
	op  Op
	ok  bool
}

// Search runs the BFS and reports violations through r. Frontier states of one level are
// expanded in parallel; the merge is done in frontier order so the first path kept for a state
// is deterministic.
func Search(r *common.Run, sys System) Result {
	res := Result{Name: sys.Name}
	seen := map[[16]byte]struct{}{}
	abstract := map[string]struct{}{}
	maxStates := sys.MaxStates
	if maxStates == 0 {
		maxStates = 5_000_000
	}
	var frontier []node
	for s := 0; s < sys.Starts; s++ {
		var inst Instance
		var key [16]byte
		var mm *Mismatch
		land := takeOff(r, sys, s, nil, nil, "start-state")
		_, st, p := common.Catch(func() {
			inst = sys.New(s)
			key = sys.Canon.Key(inst.Roots()...)
			abstract[inst.Abstract()] = struct{}{}
			mm = inst.Check()
		})
		land()
		res.Paths++
		if p {
			report(r, sys, s, nil, nil, &Mismatch{Sig: common.PanicSite(st) + "|panic|start-state", What: "panic while building / checking the start state"}, st)
			continue
		}
		if mm != nil {
			report(r, sys, s, nil, nil, mm, "")
		}
		if _, dup := seen[key]; !dup {
			seen[key] = struct{}{}
			frontier = append(frontier, node{s, nil})
		}
	}
	var sampleOnce sync.Once
	depth := 0
	for len(frontier) > 0 {
		if sys.MaxDepth > 0 && depth >= sys.MaxDepth {
			res.CapHit = fmt.Sprintf("depth cap %d (frontier %d states unexpanded)", sys.MaxDepth, len(frontier))
			break
		}
		if r.Expired() {
			res.CapHit = fmt.Sprintf("deadline at depth %d (frontier %d states unexpanded)", depth, len(frontier))
			r.Incomplete(sys.Name + ": " + res.CapHit)
			break
		}
		if len(seen) > maxStates {
			res.CapHit = fmt.Sprintf("state cap %d", maxStates)
			r.Incomplete(sys.Name + ": " + res.CapHit)
			break
		}
		depth++
		out := make([][]succ, len(frontier))
		var trans, paths int64
		r.Parallel(len(frontier), func(i int) {
			nd := frontier[i]
			// ops offered in this state
			var ops []Op
			_, _, p := common.Catch(func() {
				inst := sys.New(nd.start)
				for _, o := range nd.path {
					inst.Apply(o)
				}
				ops = inst.Ops()
			})
			if p {
				return // already reported when the state was first reached
			}
			ss := make([]succ, len(ops))
			for j, op := range ops {
				var inst Instance
				var mm *Mismatch
				var key [16]byte
				var abs string
				stage := "replay"
				op := op
				land := takeOff(r, sys, nd.start, nd.path, &op, "transition")
				_, st, p := common.Catch(func() {
					inst = sys.New(nd.start)
					for _, o := range nd.path {
						inst.Apply(o)
					}
					stage = "apply"
					mm = inst.Apply(op)
					stage = "canon"
					key = sys.Canon.Key(inst.Roots()...)
					abs = inst.Abstract()
					if mm == nil {
						stage = "check"
						mm = inst.Check()
					}
				})
				land()
				atomic.AddInt64(&trans, 1)
				atomic.AddInt64(&paths, 1)
				if p {
					report(r, sys, nd.start, nd.path, &op, &Mismatch{Sig: common.PanicSite(st) + "|panic|" + stage, What: "panic during " + stage + " of " + op.String()}, st)
					continue
				}
				if mm != nil {
					report(r, sys, nd.start, nd.path, &op, mm, "")
					continue // do not explore beyond a state whose oracle already failed
				}
				ss[j] = succ{key: key, abs: abs, op: op, ok: true} // the path is built only for new states (merge)
			}
			out[i] = ss
		})
		res.Transitions += trans
		res.Paths += paths
		r.Eval(trans)
		var next []node
		for i, ss := range out {
			for _, s := range ss {
				if !s.ok {
					continue
				}
				abstract[s.abs] = struct{}{}
				if _, dup := seen[s.key]; dup {
					continue
				}
				seen[s.key] = struct{}{}
				np := make([]Op, len(frontier[i].path)+1)
				copy(np, frontier[i].path)
				np[len(np)-1] = s.op
				next = append(next, node{frontier[i].start, np})
				if len(np) >= 3 {
					sampleOnce.Do(func() { r.SampleL(sys.Name, map[string]any{"start": frontier[i].start, "path": fmt.Sprint(np)}) })
				}
			}
		}
		frontier = next
		res.Depth = depth
	}
	res.States = len(seen)
	res.Abstract = len(abstract)
	res.FixPoint = len(frontier) == 0
	return res
}

func report(r *common.Run, sys System, start int, path []Op, op *Op, mm *Mismatch, stack string) {
	c := map[string]any{"system": sys.Name, "start": start, "path": path}
	if op != nil {
		c["op"] = *op
	}
	if stack != "" {
		c["stack"] = stack
	}
	var steps []string
	for _, o := range path {
		steps = append(steps, o.String())
	}
	if op != nil {
		steps = append(steps, op.String())
	}
	c["sequence"] = steps
	r.Violation(sys.Name+"|"+mm.Sig, mm.What, c, "")
}

// Summarize writes the per-system results into the evidence.
func Summarize(r *common.Run, results []Result) {
	var states int
	var trans, paths int64
	fix := true
	sort.SliceStable(results, func(i, j int) bool { return results[i].Name < results[j].Name })
	for _, x := range results {
		states += x.States
		trans += x.Transitions
		paths += x.Paths
		fix = fix && x.FixPoint
		r.Section(map[string]any{"system": x.Name, "states": x.States, "transitions": x.Transitions, "paths_replayed": x.Paths,
			"max_depth": x.Depth, "fix_point_reached": x.FixPoint, "distinct_abstract_values": x.Abstract, "cap_hit": x.CapHit})
	}
	r.Cov("states", states)
	r.Cov("transitions", trans)
	r.Cov("traces_validated_against_impl", paths)
	r.Cov("all_fix_points_reached", fix)
}
