package space

import (
	"fmt"
	"sync"
	"time"

	"verif/common"
)

// A transition of the search is one call into the library and takes micro- to milliseconds. One
// that is still running after StuckAfter does not return (a loop over a structure the previous
// operations corrupted, a lock never released): the search cannot go on — the goroutine cannot be
// stopped — so the transition is reported as a violation and the run is finished at once.
var StuckAfter = 4 * time.Minute

type flight struct {
	since time.Time
	sys   System
	start int
	path  []Op
	op    *Op
	stage string
}

var wd struct {
	mu      sync.Mutex
	flights map[int64]*flight
	next    int64
	started bool
}

func takeOff(r *common.Run, sys System, start int, path []Op, op *Op, stage string) (land func()) {
	wd.mu.Lock()
	if wd.flights == nil {
		wd.flights = map[int64]*flight{}
	}
	id := wd.next
	wd.next++
	wd.flights[id] = &flight{time.Now(), sys, start, path, op, stage}
	if !wd.started {
		wd.started = true
		go monitor(r)
	}
	wd.mu.Unlock()
	return func() {
		wd.mu.Lock()
		delete(wd.flights, id)
		wd.mu.Unlock()
	}
}

func monitor(r *common.Run) {
	for {
		time.Sleep(5 * time.Second)
		wd.mu.Lock()
		var stuck *flight
		for _, f := range wd.flights {
			if time.Since(f.since) > StuckAfter && (stuck == nil || f.since.Before(stuck.since)) {
				stuck = f
			}
		}
		wd.mu.Unlock()
		if stuck != nil {
			what := "the start state"
			if stuck.op != nil {
				what = stuck.op.String()
			}
			report(r, stuck.sys, stuck.start, stuck.path, stuck.op, &Mismatch{Sig: "no-termination|" + stuck.stage,
				What: fmt.Sprintf("%s (with the checks that follow it) has not returned after %s; a transition takes milliseconds", what, StuckAfter)}, "")
			r.Incomplete("the search was abandoned: a transition does not return")
			r.Finish("run abandoned by the no-termination watchdog")
		}
	}
}
