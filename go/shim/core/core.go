// Package core is the runtime of engine E1: a cooperative scheduler that owns every
// synchronisation step of the instrumented golib code. It is overlaid into golib's module at
// github.com/welllog/golib/vshim/core so that both the rewritten golib files and the harness
// can import it. Exactly one goroutine of an execution runs at any time.
package core

import (
	"fmt"
	"runtime"
	"runtime/debug"
	"sort"
	"strings"
	"unsafe"
)

// Controlled is set once, before any shim object is used, by harness processes that run under
// the scheduler. When false every shim is a transparent pass-through to the real primitive
// (free-running -race pass, golib's own tests through the overlay).
var Controlled bool

// X is the current execution (nil between executions).
var X *Exec

type Kind uint8

const (
	KLoad Kind = iota
	KStore
	KRMW
	KCASFail
	KLock
	KUnlock
	KRLock
	KRUnlock
	KSend
	KRecv
	KWGAdd
	KWGWait
	KYield
	KSpawn
	KStart
	KOnce
	KClose
	KPause
	KSelect
)

var kindNames = [...]string{"load", "store", "rmw", "casfail", "lock", "unlock", "rlock", "runlock", "send", "recv", "wgadd", "wgwait", "yield", "spawn", "start", "once", "close", "pause", "select"}

func (k Kind) String() string { return kindNames[k] }

func (k Kind) writeLike() bool {
	switch k {
	case KLoad, KCASFail, KRLock, KWGWait, KYield, KStart, KPause:
		return false
	}
	return true
}

const MaxThreads = 16

type VC [MaxThreads]int32

func (a *VC) join(b *VC) {
	for i := range a {
		if b[i] > a[i] {
			a[i] = b[i]
		}
	}
}

// H is a 128-bit hash value (two independent 64-bit chains).
type H [2]uint64

func mix64(h, v, m uint64) uint64 {
	h ^= v + 0x9e3779b97f4a7c15 + (h << 6) + (h >> 2)
	h *= m
	h ^= h >> 29
	return h
}

func (h H) Mix(vals ...uint64) H {
	for _, v := range vals {
		h[0] = mix64(h[0], v, 0xbf58476d1ce4e5b9)
		h[1] = mix64(h[1], v^0x5555555555555555, 0x94d049bb133111eb)
	}
	return h
}
func (h H) MixH(o H) H { return h.Mix(o[0], o[1]) }
func (h *H) Add(o H)   { h[0] += o[0]; h[1] += o[1] }

func HashString(s string) uint64 {
	var h uint64 = 14695981039346656037
	for i := 0; i < len(s); i++ {
		h ^= uint64(s[i])
		h *= 1099511628211
	}
	return h
}

// OpRec is one harness-level operation (an API call) with its tight interval.
type OpRec struct {
	Thread  int    `json:"thread"`
	Name    string `json:"op"`
	Arg     any    `json:"arg,omitempty"`
	Res     any    `json:"res"`
	Call    int64  `json:"call"`
	Ret     int64  `json:"ret"`
	Steps   int    `json:"steps"` // scheduling points inside the call
	emitted bool
}

type Failure struct {
	Sig  string
	What string
}

type Thread struct {
	ID      int
	Name    string
	x       *Exec
	wake    chan struct{}
	exited  chan struct{}
	fn      func(t *Thread)
	done    bool
	parked  bool
	exiting bool
	Daemon  bool // timers / tickers: the execution is complete when every other thread has finished

	pendKind    Kind
	pendObj     unsafe.Pointer
	pendEnabled func() bool

	waitFor map[int]int // fair yield: thread id -> its step count when we yielded
	steps   int
	yields  int // yields since the last write-like event of any thread
	wepoch  int
	sig     H
	vc      VC
	cur     *OpRec
}

type syncLoc struct {
	w   H
	r   H
	vc  VC // release clock (last write / unlock / accumulated for wg)
	rvc VC // RWMutex: joined clocks of RUnlocks
}

type memLoc struct {
	wT  int // thread of last plain write (-1 none)
	wC  int32
	wPC uintptr
	rC  [MaxThreads]int32 // plain reads
	rPC [MaxThreads]uintptr
	awC [MaxThreads]int32 // atomic writes
	arC [MaxThreads]int32 // atomic reads
}

// PointInfo describes one scheduling decision to the strategy.
type PointInfo struct {
	Enabled    []int // thread ids, canonical order: running thread first if it may continue, then ascending
	CurEnabled bool  // choosing another thread than Enabled[0] costs a preemption
	Key        H     // state signature (happens-before signature + scheduler state)
	Step       int
	Choice     int // > 0: not a thread choice but an environment choice among Choice alternatives (Enabled = 1..Choice)
}

type Exec struct {
	Threads  []*Thread
	cur      *Thread
	Strategy func(p *PointInfo) int // returns an index into p.Enabled, or -1 to abandon the execution
	OnState  func(x *Exec)          // optional read-only probe, called in sequential mode at every decision

	ev        int64
	steps     int
	MaxSteps  int
	wepoch    int
	locs      map[unsafe.Pointer]*syncLoc
	mem       map[unsafe.Pointer]*memLoc
	ret       H // accumulated returns (history precedence)
	RaceCheck bool

	aborting    bool
	Pruned      bool
	Fail        *Failure
	ctrl        chan struct{}
	Hist        []*OpRec
	Trace       []string // only when Tracing
	Tracing     bool
	ctrlVC      VC
	enabledBuf  []int
	inStep      int
	daemonsOnly bool
	Clock       int64 // abstract time in nanoseconds (vtime); advanced by ticker / timer threads only
}

func NewExec() *Exec {
	x := &Exec{MaxSteps: 4000, locs: map[unsafe.Pointer]*syncLoc{}, mem: map[unsafe.Pointer]*memLoc{}, ctrl: make(chan struct{}, 1), RaceCheck: true}
	x.ctrlVC[0] = 1
	return x
}

// Spawn registers a virtual thread (before Run, or from a running thread through Go).
func (x *Exec) Spawn(name string, fn func(t *Thread)) *Thread {
	if len(x.Threads)+1 >= MaxThreads {
		panic("core: too many threads")
	}
	t := &Thread{ID: len(x.Threads) + 1, Name: name, x: x, wake: make(chan struct{}, 1), exited: make(chan struct{}), fn: fn, pendKind: KStart}
	t.sig = H{uint64(t.ID), uint64(t.ID) * 7919}
	if x.cur != nil {
		t.vc = x.cur.vc
	} else {
		t.vc = x.ctrlVC
	}
	t.vc[t.ID] = 1
	x.Threads = append(x.Threads, t)
	go t.main()
	return t
}

func (t *Thread) main() {
	defer close(t.exited)
	<-t.wake
	x := t.x
	if x.aborting {
		return
	}
	defer func() {
		if p := recover(); p != nil {
			if !x.aborting {
				st := string(debug.Stack())
				x.fail("panic|"+panicSite(st)+panicClass(p), fmt.Sprintf("thread %s panicked: %v", t.Name, p)+"\n"+trimStack(st))
				t.done = true
				x.abortFrom()
			}
			return
		}
	}()
	t.stepped(KStart, nil)
	t.fn(t)
	t.finishOp()
	t.done = true
	if x.aborting {
		return
	}
	next := x.pick(t)
	if x.aborting {
		x.wakeCtrl()
		return
	}
	if next == nil {
		x.cur = nil
		x.wakeCtrl()
		return
	}
	x.cur = next
	next.wake <- struct{}{}
}

func (x *Exec) complete() bool {
	for _, u := range x.Threads {
		if !u.done && !u.Daemon {
			return false
		}
	}
	return true
}

func (x *Exec) wakeCtrl() {
	select {
	case x.ctrl <- struct{}{}:
	default:
	}
}

// Run starts the threads and returns when all have finished or the execution was abandoned.
func (x *Exec) Run() {
	X = x
	if len(x.Threads) == 0 {
		return
	}
	first := x.pick(nil)
	if first != nil && !x.aborting {
		x.cur = first
		first.wake <- struct{}{}
		<-x.ctrl
	}
	x.cur = nil
	// release whatever is still parked, one at a time
	x.aborting = x.aborting || x.Fail != nil || x.Pruned
	for i := 0; i < len(x.Threads); i++ { // Threads may grow while we iterate? not after abort
		t := x.Threads[i]
		if !t.isExited() {
			x.aborting = true
			select {
			case t.wake <- struct{}{}:
			default:
			}
			<-t.exited
		}
	}
	for _, t := range x.Threads {
		x.ctrlVC.join(&t.vc)
	}
	x.aborting = x.Fail != nil || x.Pruned
}

// GoDaemon starts a virtual thread that does not keep the execution alive (timers, tickers).
func GoDaemon(f func()) {
	x := X
	if !Controlled || x == nil {
		go f()
		return
	}
	if x.aborting {
		return
	}
	n := len(x.Threads)
	Go(f)
	if len(x.Threads) > n {
		x.Threads[len(x.Threads)-1].Daemon = true
	}
}

func (t *Thread) isExited() bool {
	select {
	case <-t.exited:
		return true
	default:
		return false
	}
}

func (x *Exec) fail(sig, what string) {
	if x.Fail == nil {
		x.Fail = &Failure{Sig: sig, What: what}
	}
}

// FailNow lets harness code (inside a thread or probe) report a violation.
func (x *Exec) FailNow(sig, what string) { x.fail(sig, what) }

// abortFrom is called by the running goroutine to abandon the execution.
func (x *Exec) abortFrom() {
	x.aborting = true
	x.wakeCtrl()
}

func (t *Thread) exitNow() {
	t.exiting = true
	runtime.Goexit()
}

// Sequential reports whether the caller runs outside the scheduler (setup, epilogue, probe) or
// while the execution is being torn down.
func Sequential() bool {
	x := X
	return x == nil || x.cur == nil || x.aborting
}

// Point is called by a shim before a synchronisation operation. It returns when the calling
// thread has been chosen to execute that operation. en == nil means always enabled.
func Point(k Kind, obj unsafe.Pointer, en func() bool) {
	x := X
	if x == nil || x.cur == nil {
		return
	}
	t := x.cur
	if x.aborting {
		if t.exiting {
			return
		}
		t.exitNow()
	}
	if x.inStep > 0 {
		return // part of the step already granted (see InStep)
	}
	t.pendKind, t.pendObj, t.pendEnabled = k, obj, en
	next := x.pick(t)
	if x.aborting {
		x.wakeCtrl()
		t.exitNow()
	}
	if next == nil {
		if x.complete() {
			// a daemon reached a scheduling point after the last regular thread finished
			x.aborting = true
			x.daemonsOnly = true
			x.wakeCtrl()
			t.exitNow()
		}
		// t itself is unfinished and nothing is enabled
		x.fail("deadlock", "deadlock: no thread can make progress\n"+x.describeThreads())
		x.abortFrom()
		t.exitNow()
	}
	if next != t {
		x.cur = next
		t.parked = true
		next.wake <- struct{}{}
		<-t.wake
		t.parked = false
		if x.aborting {
			t.exitNow()
		}
	}
	t.stepped(k, obj)
}

func (t *Thread) stepped(k Kind, obj unsafe.Pointer) {
	x := t.x
	t.steps++
	x.steps++
	t.pendEnabled = nil
	if x.steps > x.MaxSteps {
		x.fail("horizon", fmt.Sprintf("execution exceeded %d steps", x.MaxSteps))
		x.abortFrom()
		t.exitNow()
	}
	if t.cur != nil {
		t.cur.Steps++
		if !t.cur.emitted {
			t.emitCall()
		}
	}
	if x.Tracing {
		x.Trace = append(x.Trace, fmt.Sprintf("T%d %s", t.ID, k))
	}
}

// pick computes the enabled set, asks the strategy and returns the chosen thread (nil if none).
func (x *Exec) pick(cur *Thread) *Thread {
	// pass 1: blocked by their pending operation?
	var blocked [MaxThreads]bool
	for _, u := range x.Threads {
		if u.done {
			continue
		}
		if u.pendEnabled != nil && !u.pendEnabled() {
			blocked[u.ID] = true
		}
	}
	en := x.enabledBuf[:0]
	curOK := false
	anyUnfinished := false
	for _, u := range x.Threads {
		if !u.done && !u.Daemon {
			anyUnfinished = true
		}
	}
	if !anyUnfinished {
		x.enabledBuf = en
		return nil // only daemons (if anything) are left: the execution is complete
	}
	for _, u := range x.Threads {
		if u.done {
			continue
		}
		if blocked[u.ID] {
			continue
		}
		if len(u.waitFor) > 0 {
			for id, at := range u.waitFor {
				v := x.Threads[id-1]
				if v.done || v.steps > at || blocked[id] {
					delete(u.waitFor, id)
				}
			}
			if len(u.waitFor) > 0 {
				continue
			}
		}
		if u == cur {
			curOK = true
			continue
		}
		en = append(en, u.ID)
	}
	if curOK {
		en = append(en, 0)
		copy(en[1:], en[:len(en)-1])
		en[0] = cur.ID
	}
	x.enabledBuf = en
	if len(en) == 0 {
		if anyUnfinished && cur != nil && cur.done {
			x.fail("deadlock", "deadlock: no thread can make progress\n"+x.describeThreads())
			x.aborting = true
		} else if anyUnfinished && cur == nil {
			x.fail("deadlock", "deadlock at start")
			x.aborting = true
		}
		return nil
	}
	// livelock: every enabled thread has completed two spin iterations since the last write
	live := true
	for _, id := range en {
		u := x.Threads[id-1]
		if u.wepoch != x.wepoch || u.yields < 2 {
			live = false
			break
		}
	}
	if live {
		x.fail("livelock", "livelock: every runnable thread is spinning (two complete yield iterations each) and nobody is left who could change the state\n"+x.describeThreads())
		x.aborting = true
		return nil
	}
	if x.OnState != nil {
		save := x.cur
		x.cur = nil
		x.OnState(x)
		x.cur = save
		if x.Fail != nil {
			x.aborting = true
			return nil
		}
	}
	p := PointInfo{Enabled: en, CurEnabled: curOK, Step: x.steps}
	p.Key = x.stateKey(cur)
	idx := 0
	if x.Strategy != nil {
		idx = x.Strategy(&p)
	}
	if idx < 0 {
		x.Pruned = true
		x.aborting = true
		return nil
	}
	return x.Threads[en[idx]-1]
}

func (x *Exec) stateKey(cur *Thread) H {
	var h H
	for _, u := range x.Threads {
		h = h.MixH(u.sig)
		var fl uint64
		if u.done {
			fl = 1
		}
		y := 0
		if u.wepoch == x.wepoch {
			y = u.yields
		}
		fl |= uint64(y) << 1
		if len(u.waitFor) > 0 {
			var m uint64
			for id := range u.waitFor {
				m |= 1 << uint(id)
			}
			fl |= m << 8
		}
		h = h.Mix(fl)
	}
	c := 0
	if cur != nil && !cur.done {
		c = cur.ID
	}
	return h.Mix(uint64(c), uint64(len(x.Threads)))
}

func (x *Exec) describeThreads() string {
	var sb strings.Builder
	for _, u := range x.Threads {
		st := "runnable"
		switch {
		case u.done:
			st = "finished"
		case u.pendEnabled != nil && !u.pendEnabled():
			st = "blocked in " + u.pendKind.String()
		case len(u.waitFor) > 0:
			st = "yielded"
		}
		op := ""
		if u.cur != nil {
			op = fmt.Sprintf(" in %s(%v)", u.cur.Name, u.cur.Arg)
		}
		fmt.Fprintf(&sb, "  T%d %s: %s%s, next step %s, yields since last write %d\n", u.ID, u.Name, st, op, u.pendKind, u.yields)
	}
	return sb.String()
}

func (x *Exec) loc(p unsafe.Pointer) *syncLoc {
	l := x.locs[p]
	if l == nil {
		l = &syncLoc{}
		// a location first touched inside the execution was initialised by the controller
		l.vc = VC{}
		x.locs[p] = l
	}
	return l
}

// Done records the effect of the step the running thread has just executed: happens-before
// signature and vector clocks. arg is the non-pointer argument of a write (0 if none).
func Done(k Kind, obj unsafe.Pointer, arg uint64) {
	x := X
	if x == nil || x.cur == nil || x.aborting {
		return
	}
	t := x.cur
	l := x.loc(obj)
	switch k {
	case KLoad, KCASFail:
		t.sig = t.sig.Mix(uint64(k)).MixH(l.w)
		l.r.Add(t.sig.Mix(0xabc))
		t.vc.join(&l.vc)
		x.raceAtomic(t, obj, false)
	case KStore:
		t.sig = t.sig.Mix(uint64(k), arg).MixH(l.w).MixH(l.r)
		l.w, l.r = t.sig, H{}
		l.vc = t.vc
		x.raceAtomic(t, obj, true)
		t.vc[t.ID]++ // accesses after the release must not be covered by it
	case KRMW:
		t.sig = t.sig.Mix(uint64(k), arg).MixH(l.w).MixH(l.r)
		l.w, l.r = t.sig, H{}
		t.vc.join(&l.vc)
		l.vc = t.vc
		x.raceAtomic(t, obj, true)
		t.vc[t.ID]++
	case KLock:
		t.sig = t.sig.Mix(uint64(k), arg).MixH(l.w).MixH(l.r)
		l.w, l.r = t.sig, H{}
		t.vc.join(&l.vc)
		t.vc.join(&l.rvc)
	case KUnlock:
		t.sig = t.sig.Mix(uint64(k)).MixH(l.w).MixH(l.r)
		l.w, l.r = t.sig, H{}
		l.vc = t.vc
		t.vc[t.ID]++
	case KRLock:
		t.sig = t.sig.Mix(uint64(k)).MixH(l.w)
		l.r.Add(t.sig.Mix(0xabc))
		t.vc.join(&l.vc)
	case KRUnlock:
		// commutes with other readers' steps but is ordered before the next Lock
		t.sig = t.sig.Mix(uint64(k)).MixH(l.w)
		l.r.Add(t.sig.Mix(0xdef))
		l.rvc.join(&t.vc)
		t.vc[t.ID]++
	case KSend, KRecv, KClose, KWGAdd, KOnce, KSpawn:
		t.sig = t.sig.Mix(uint64(k), arg).MixH(l.w).MixH(l.r)
		l.w, l.r = t.sig, H{}
		// clocks for channels / waitgroups are handled by the shim through Acquire / Release
	case KWGWait:
		t.sig = t.sig.Mix(uint64(k)).MixH(l.w)
		l.r.Add(t.sig.Mix(0xabc))
	case KYield:
		t.sig = t.sig.Mix(uint64(k))
	}
	if k.writeLike() {
		x.wepoch++
	}
}

// Release / Acquire let shims move vector clocks along their own synchronisation edges.
func Release(dst *VC, joinInto bool) {
	x := X
	if x == nil || x.cur == nil || x.aborting {
		return
	}
	t := x.cur
	if joinInto {
		dst.join(&t.vc)
	} else {
		*dst = t.vc
	}
	t.vc[t.ID]++
}

func Acquire(src *VC) {
	x := X
	if x == nil || x.cur == nil || x.aborting {
		return
	}
	x.cur.vc.join(src)
}

// Yield implements runtime.Gosched under the fair rule of Musuvathi & Qadeer (PLDI 2008): the
// yielding thread is not scheduled again before every thread that was enabled at the yield has
// taken a step (or finished or blocked).
func Yield() {
	x := X
	if x == nil || x.cur == nil {
		return
	}
	Point(KYield, nil, nil)
	if x.aborting {
		return
	}
	t := x.cur
	if t.wepoch != x.wepoch {
		t.wepoch, t.yields = x.wepoch, 0
	}
	t.yields++
	t.sig = t.sig.Mix(uint64(KYield))
	var blocked [MaxThreads]bool
	for _, u := range x.Threads {
		if !u.done && u.pendEnabled != nil && !u.pendEnabled() {
			blocked[u.ID] = true
		}
	}
	for _, u := range x.Threads {
		if u == t || u.done || blocked[u.ID] || len(u.waitFor) > 0 {
			continue
		}
		if t.waitFor == nil {
			t.waitFor = map[int]int{}
		}
		t.waitFor[u.ID] = u.steps
	}
}

// Pause is a plain scheduling point for harness callbacks (other threads may run here); unlike
// Yield it is not a spin-loop iteration and takes no part in fairness or livelock detection.
func Pause() {
	x := X
	if x == nil || x.cur == nil {
		return
	}
	Point(KPause, nil, nil)
	if x.aborting {
		return
	}
	x.cur.sig = x.cur.sig.Mix(uint64(KPause))
}

// WaitFor blocks the calling harness thread until pred holds (pred must only read state that
// changes through shim operations, so that the state signature sees every change).
func WaitFor(pred func() bool) {
	x := X
	if x == nil || x.cur == nil {
		return
	}
	Point(KPause, nil, pred)
	if x.aborting {
		return
	}
	x.cur.sig = x.cur.sig.Mix(uint64(KPause), 1)
}

// Go runs f as a new virtual thread (rewritten `go` statements).
func Go(f func()) {
	x := X
	if !Controlled || x == nil {
		go f()
		return
	}
	if x.cur == nil {
		if x.aborting {
			return
		}
		// sequential phase of an execution: register; it starts when Run is called
		x.Spawn(fmt.Sprintf("go#%d", len(x.Threads)+1), func(*Thread) { f() })
		return
	}
	if x.aborting {
		return
	}
	Point(KSpawn, nil, nil)
	if x.aborting {
		return
	}
	parent := x.cur
	child := x.Spawn(fmt.Sprintf("go#%d", len(x.Threads)+1), func(t *Thread) {
		defer func() {
			if p := recover(); p != nil && !x.aborting {
				st := string(debug.Stack())
				x.fail("escaped-panic|"+panicSite(st)+panicClass(p), fmt.Sprintf("a panic escaped from a goroutine started by golib (the process would terminate): %v\n%s", p, trimStack(st)))
				t.done = true
				x.abortFrom()
				t.exitNow()
			}
		}()
		f()
	})
	parent.vc[parent.ID]++
	child.sig = child.sig.MixH(parent.sig)
	parent.sig = parent.sig.Mix(uint64(KSpawn), uint64(child.ID))
	x.wepoch++
}

// ---------------------------------------------------------------- harness-level operations

// Op runs one API call of a virtual thread and records it with a tight interval: the call is
// stamped when the thread is chosen for the call's first step, the return right after its last.
func (t *Thread) Op(name string, arg any, fn func() any) any {
	x := t.x
	t.finishOp()
	rec := &OpRec{Thread: t.ID, Name: name, Arg: arg}
	t.cur = rec
	res := fn()
	if x.aborting {
		return res
	}
	if !rec.emitted {
		t.emitCall()
	}
	rec.Res = res
	x.ev++
	rec.Ret = x.ev
	t.sig = t.sig.Mix(0x7e7, HashString(fmt.Sprint(res)))
	x.ret.Add(t.sig.Mix(0x1234))
	x.Hist = append(x.Hist, rec)
	t.cur = nil
	return res
}

func (t *Thread) finishOp() {}

func (t *Thread) emitCall() {
	x := t.x
	rec := t.cur
	rec.emitted = true
	x.ev++
	rec.Call = x.ev
	t.sig = t.sig.Mix(0xca11, HashString(rec.Name), HashString(fmt.Sprint(rec.Arg))).MixH(x.ret)
}

// SeqOp records an operation executed by the controller after all threads have finished.
func (x *Exec) SeqOp(name string, arg any, fn func() any) any {
	rec := &OpRec{Thread: 0, Name: name, Arg: arg, emitted: true}
	x.ev++
	rec.Call = x.ev
	rec.Res = fn()
	x.ev++
	rec.Ret = x.ev
	x.Hist = append(x.Hist, rec)
	return rec.Res
}

func (x *Exec) Steps() int { return x.steps }

// ---------------------------------------------------------------- data-race detection

// Access is the plain-access probe inserted by the instrumenter.
func Access(p unsafe.Pointer, write bool) {
	x := X
	if x == nil || x.aborting || !x.RaceCheck {
		return
	}
	var tid int
	var vc *VC
	if x.cur == nil {
		// controller (setup / epilogue): ordered before every spawn and after every finished thread
		return
	}
	t := x.cur
	tid, vc = t.ID, &t.vc
	m := x.mem[p]
	if m == nil {
		m = &memLoc{wT: -1}
		x.mem[p] = m
	}
	var pcs [1]uintptr
	runtime.Callers(3, pcs[:])
	if m.wT >= 0 && m.wT != tid && m.wC > vc[m.wT] {
		x.race(p, "write", m.wPC, m.wT, kindOf(write), pcs[0], tid)
	}
	for u := 1; u < MaxThreads; u++ {
		if u == tid {
			continue
		}
		if m.awC[u] > vc[u] {
			x.race(p, "atomic write", 0, u, kindOf(write), pcs[0], tid)
		}
		if write {
			if m.rC[u] > vc[u] {
				x.race(p, "read", m.rPC[u], u, "write", pcs[0], tid)
			}
			if m.arC[u] > vc[u] {
				x.race(p, "atomic read", 0, u, "write", pcs[0], tid)
			}
		}
	}
	if write {
		m.wT, m.wC, m.wPC = tid, vc[tid], pcs[0]
	} else {
		m.rC[tid], m.rPC[tid] = vc[tid], pcs[0]
	}
}

func kindOf(w bool) string {
	if w {
		return "write"
	}
	return "read"
}

func (x *Exec) raceAtomic(t *Thread, p unsafe.Pointer, write bool) {
	if !x.RaceCheck {
		return
	}
	m := x.mem[p]
	if m == nil {
		if len(x.mem) == 0 {
			return
		}
		m = &memLoc{wT: -1}
		x.mem[p] = m
	}
	tid := t.ID
	if m.wT >= 0 && m.wT != tid && m.wC > t.vc[m.wT] {
		x.race(p, "write", m.wPC, m.wT, "atomic "+kindOf(write), 0, tid)
	}
	if write {
		for u := 1; u < MaxThreads; u++ {
			if u != tid && m.rC[u] > t.vc[u] {
				x.race(p, "read", m.rPC[u], u, "atomic write", 0, tid)
			}
		}
		m.awC[tid] = t.vc[tid]
	} else {
		m.arC[tid] = t.vc[tid]
	}
}

func (x *Exec) race(p unsafe.Pointer, k1 string, pc1 uintptr, t1 int, k2 string, pc2 uintptr, t2 int) {
	s1, s2 := site(pc1), site(pc2)
	fs := []string{s1.fn + ":" + k1, s2.fn + ":" + k2}
	sort.Strings(fs)
	x.fail("data-race|"+fs[0]+"|"+fs[1],
		fmt.Sprintf("data race: %s by T%d at %s and %s by T%d at %s are not ordered by happens-before", k1, t1, s1.pos, k2, t2, s2.pos))
}

type siteT struct{ fn, pos string }

func site(pc uintptr) siteT {
	if pc == 0 {
		return siteT{"atomic-op", "(atomic operation)"}
	}
	fr, _ := runtime.CallersFrames([]uintptr{pc}).Next()
	fn := fr.Function
	if i := strings.LastIndex(fn, "/"); i >= 0 {
		fn = fn[i+1:]
	}
	fn = strings.ReplaceAll(fn, "[...]", "")
	file := fr.File
	if i := strings.LastIndex(file, "/"); i >= 0 {
		file = file[i+1:]
	}
	return siteT{fn, fmt.Sprintf("%s (%s:%d)", fn, file, fr.Line)}
}

// R / W wrap a plain memory access (expression-level probes keep Go's evaluation order).
// A variable of size zero occupies no memory: its address may coincide with the next field's (a
// struct{} value in front of an atomic pointer) and an access to it touches nothing, so it is no event.
func R[T any](p *T) *T {
	if unsafe.Sizeof(*p) != 0 {
		Access(unsafe.Pointer(p), false)
	}
	return p
}
func W[T any](p *T) *T {
	if unsafe.Sizeof(*p) != 0 {
		Access(unsafe.Pointer(p), true)
	}
	return p
}

// RM / WM probe the content of a map.
func RM[M ~map[K]V, K comparable, V any](m M) M {
	Access(mapPtr(m), false)
	return m
}
func WM[M ~map[K]V, K comparable, V any](m M) M {
	Access(mapPtr(m), true)
	return m
}

func mapPtr[M ~map[K]V, K comparable, V any](m M) unsafe.Pointer {
	return *(*unsafe.Pointer)(unsafe.Pointer(&m))
}

func panicSite(stack string) string {
	for _, ln := range strings.Split(stack, "\n") {
		if strings.HasPrefix(ln, "github.com/welllog/golib/") && !strings.Contains(ln, "/vshim/") {
			s := strings.TrimPrefix(ln, "github.com/welllog/golib/")
			if i := strings.LastIndex(s, "("); i > 0 {
				s = s[:i]
			}
			return strings.ReplaceAll(s, "[...]", "")
		}
	}
	return "harness"
}

// panicClass adds the fixed misuse messages of package sync to a signature, so that a recorded
// finding about one of them does not cover any other panic at the same site.
func panicClass(p any) string {
	if s, ok := p.(string); ok && strings.HasPrefix(s, "sync: ") {
		return "|" + s
	}
	return ""
}

func trimStack(s string) string {
	lines := strings.Split(s, "\n")
	if len(lines) > 24 {
		lines = lines[:24]
	}
	return strings.Join(lines, "\n")
}

// Exiting reports that the execution is being torn down: shim operations must not touch state.
func Exiting() bool {
	x := X
	return x != nil && x.aborting
}

// Choose asks the strategy for an environment answer in 0..n-1 on behalf of the running thread
// (e.g. which of several ready select cases fires). All answers are explored; picking another
// answer than 0 costs no preemption.
func Choose(n int) int {
	x := X
	if n <= 1 || x == nil || x.cur == nil || x.aborting || x.Strategy == nil {
		return 0
	}
	t := x.cur
	en := make([]int, n)
	for i := range en {
		en[i] = i + 1
	}
	p := PointInfo{Enabled: en, CurEnabled: false, Step: x.steps, Choice: n}
	p.Key = x.stateKey(t).Mix(0xc401ce, uint64(n))
	idx := x.Strategy(&p)
	if idx < 0 {
		x.Pruned = true
		x.aborting = true
		x.wakeCtrl()
		t.exitNow()
	}
	t.sig = t.sig.Mix(0xc401ce, uint64(idx))
	return idx
}

// InStep runs f as part of the step the running thread has just been granted: scheduling points
// inside f do not yield (the select shim performs its chosen send / receive this way), while
// their effects (signature, clocks) are recorded as usual.
func InStep(f func()) {
	x := X
	if x == nil || x.cur == nil {
		f()
		return
	}
	x.inStep++
	f()
	x.inStep--
}

// Sequentially runs f as the controller would (shim operations pass through, nothing is
// recorded). Used by probes evaluated at a frozen state.
func (x *Exec) Sequentially(f func()) {
	save := x.cur
	x.cur = nil
	f()
	x.cur = save
}

// FinalKey is the signature of a finished execution.
func (x *Exec) FinalKey() H { return x.stateKey(nil) }

// ThreadName returns the name of thread id.
func (x *Exec) ThreadName(id int) string {
	if id == 0 {
		return "main"
	}
	return x.Threads[id-1].Name
}

// Failed reports whether the execution has been abandoned (threads must stop working).
func (x *Exec) Failed() bool { return x.aborting }
