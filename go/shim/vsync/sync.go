// Package vsync has the API of sync (Mutex, RWMutex, WaitGroup, Once, Locker). Under the
// scheduler Lock/Unlock/Wait/... are scheduling points whose enabledness the scheduler computes
// from the state kept here, so nothing ever blocks inside the Go runtime. Zero values behave
// like the originals, misuse fails like the originals (unlock of unlocked mutex, negative
// WaitGroup counter).
package vsync

import (
	"sync"
	"unsafe"

	"github.com/welllog/golib/vshim/core"
)

type Locker = sync.Locker

type Mutex struct {
	real   sync.Mutex
	locked bool
}

func (m *Mutex) Lock() {
	if !core.Controlled {
		m.real.Lock()
		return
	}
	core.Point(core.KLock, unsafe.Pointer(m), func() bool { return !m.locked })
	if core.Exiting() {
		return
	}
	if m.locked {
		panic("vsync: Lock of a locked Mutex in a sequential phase (would block forever)")
	}
	m.locked = true
	core.Done(core.KLock, unsafe.Pointer(m), 0)
}

func (m *Mutex) TryLock() bool {
	if !core.Controlled {
		return m.real.TryLock()
	}
	core.Point(core.KLock, unsafe.Pointer(m), nil)
	if core.Exiting() {
		return false
	}
	if m.locked {
		core.Done(core.KCASFail, unsafe.Pointer(m), 0)
		return false
	}
	m.locked = true
	core.Done(core.KLock, unsafe.Pointer(m), 0)
	return true
}

func (m *Mutex) Unlock() {
	if !core.Controlled {
		m.real.Unlock()
		return
	}
	core.Point(core.KUnlock, unsafe.Pointer(m), nil)
	if core.Exiting() {
		return
	}
	if !m.locked {
		panic("sync: unlock of unlocked mutex")
	}
	m.locked = false
	core.Done(core.KUnlock, unsafe.Pointer(m), 0)
}

type RWMutex struct {
	real    sync.RWMutex
	writer  bool // a writer holds the lock
	pending bool // a writer has announced itself and waits for the readers to leave
	readers int
}

// Lock follows the documented behaviour of sync.RWMutex: writers exclude each other from the moment
// they call Lock; a writer that finds readers announces itself (one step) and from then on NEW
// readers block until it has acquired and released the lock; it acquires when the readers that
// were inside have left (second step). With no readers inside, announcing and acquiring are one
// atomic step, as in the original (a single atomic add on readerCount).
func (m *RWMutex) Lock() {
	if !core.Controlled {
		m.real.Lock()
		return
	}
	core.Point(core.KLock, unsafe.Pointer(m), func() bool { return !m.writer && !m.pending })
	if core.Exiting() {
		return
	}
	if m.writer || m.pending {
		panic("vsync: Lock of a held RWMutex in a sequential phase (would block forever)")
	}
	if m.readers == 0 {
		m.writer = true
		core.Done(core.KLock, unsafe.Pointer(m), 0)
		return
	}
	m.pending = true
	core.Done(core.KLock, unsafe.Pointer(m), 1)
	core.Point(core.KLock, unsafe.Pointer(m), func() bool { return m.readers == 0 })
	if core.Exiting() {
		return
	}
	if m.readers != 0 {
		panic("vsync: Lock of a read-locked RWMutex in a sequential phase (would block forever)")
	}
	m.pending = false
	m.writer = true
	core.Done(core.KLock, unsafe.Pointer(m), 2)
}

// TryLock / TryRLock never block and never announce.
func (m *RWMutex) TryLock() bool {
	if !core.Controlled {
		return m.real.TryLock()
	}
	core.Point(core.KLock, unsafe.Pointer(m), nil)
	if core.Exiting() {
		return false
	}
	ok := !m.writer && !m.pending && m.readers == 0
	if ok {
		m.writer = true
	}
	core.Done(core.KLock, unsafe.Pointer(m), 3)
	return ok
}

func (m *RWMutex) TryRLock() bool {
	if !core.Controlled {
		return m.real.TryRLock()
	}
	core.Point(core.KRLock, unsafe.Pointer(m), nil)
	if core.Exiting() {
		return false
	}
	ok := !m.writer && !m.pending
	if ok {
		m.readers++
	}
	core.Done(core.KRLock, unsafe.Pointer(m), 3)
	return ok
}

func (m *RWMutex) Unlock() {
	if !core.Controlled {
		m.real.Unlock()
		return
	}
	core.Point(core.KUnlock, unsafe.Pointer(m), nil)
	if core.Exiting() {
		return
	}
	if !m.writer {
		panic("sync: Unlock of unlocked RWMutex")
	}
	m.writer = false
	core.Done(core.KUnlock, unsafe.Pointer(m), 0)
}

func (m *RWMutex) RLock() {
	if !core.Controlled {
		m.real.RLock()
		return
	}
	core.Point(core.KRLock, unsafe.Pointer(m), func() bool { return !m.writer && !m.pending })
	if core.Exiting() {
		return
	}
	if m.writer || m.pending {
		panic("vsync: RLock of a write-locked RWMutex in a sequential phase (would block forever)")
	}
	m.readers++
	core.Done(core.KRLock, unsafe.Pointer(m), 0)
}

func (m *RWMutex) RUnlock() {
	if !core.Controlled {
		m.real.RUnlock()
		return
	}
	core.Point(core.KRUnlock, unsafe.Pointer(m), nil)
	if core.Exiting() {
		return
	}
	if m.readers <= 0 {
		panic("sync: RUnlock of unlocked RWMutex")
	}
	m.readers--
	core.Done(core.KRUnlock, unsafe.Pointer(m), 0)
}

func (m *RWMutex) RLocker() Locker { return (*rlocker)(m) }

type rlocker RWMutex

func (r *rlocker) Lock()   { (*RWMutex)(r).RLock() }
func (r *rlocker) Unlock() { (*RWMutex)(r).RUnlock() }

// WaitGroup models the original's state word: a counter and the number of registered waiters. A
// Wait that finds a non-zero counter registers (one step) and is released when an Add brings the
// counter to zero; its wake-up is a SEPARATE step, and like the original it panics there if the
// group has been reused in between ("WaitGroup is reused before previous Wait has returned").
// Add panics like the original on a negative counter and on a first Add racing with a waiter.
type WaitGroup struct {
	real    sync.WaitGroup
	n       int
	waiters int
	gen     int // incremented when the registered waiters are released
	vc      core.VC
}

func (w *WaitGroup) Add(delta int) {
	if !core.Controlled {
		w.real.Add(delta)
		return
	}
	core.Point(core.KWGAdd, unsafe.Pointer(w), nil)
	if core.Exiting() {
		return
	}
	w.n += delta
	if w.n < 0 {
		panic("sync: negative WaitGroup counter")
	}
	if w.waiters != 0 && delta > 0 && w.n == delta {
		panic("sync: WaitGroup misuse: Add called concurrently with Wait")
	}
	if w.n == 0 && w.waiters > 0 {
		w.waiters = 0
		w.gen++
	}
	core.Release(&w.vc, true)
	core.Done(core.KWGAdd, unsafe.Pointer(w), uint64(int64(delta)))
}

func (w *WaitGroup) Done() { w.Add(-1) }

func (w *WaitGroup) Wait() {
	if !core.Controlled {
		w.real.Wait()
		return
	}
	core.Point(core.KWGWait, unsafe.Pointer(w), nil)
	if core.Exiting() {
		return
	}
	if w.n == 0 {
		core.Acquire(&w.vc)
		core.Done(core.KWGWait, unsafe.Pointer(w), 0)
		return
	}
	if core.Sequential() {
		panic("vsync: WaitGroup.Wait with a non-zero counter in a sequential phase (would block forever)")
	}
	w.waiters++
	my := w.gen
	core.Done(core.KWGWait, unsafe.Pointer(w), 1)
	core.Point(core.KWGWait, unsafe.Pointer(w), func() bool { return w.gen != my })
	if core.Exiting() {
		return
	}
	if w.n != 0 || w.waiters != 0 {
		panic("sync: WaitGroup is reused before previous Wait has returned")
	}
	core.Acquire(&w.vc)
	core.Done(core.KWGWait, unsafe.Pointer(w), 2)
}

type Once struct {
	real sync.Once
	done bool
	m    Mutex
}

func (o *Once) Do(f func()) {
	if !core.Controlled {
		o.real.Do(f)
		return
	}
	o.m.Lock()
	defer o.m.Unlock()
	if !o.done {
		defer func() { o.done = true }()
		f()
	}
}

// Pool: Get hands out the most recently Put object (the case in which sharing bugs show; the
// original may also drop objects at any time, which only means fewer objects are shared), else
// New(). Get and Put are scheduling points; Put(x) happens before the Get that returns x.
type Pool struct {
	New func() any

	real  sync.Pool
	items []poolItem
	exec  *core.Exec // the execution the items belong to: objects never survive into the next execution
}

func (p *Pool) fresh() {
	if p.exec != core.X {
		p.exec, p.items = core.X, nil
	}
}

type poolItem struct {
	v  any
	vc core.VC
}

func (p *Pool) Get() any {
	if !core.Controlled {
		if p.real.New == nil {
			p.real.New = p.New
		}
		return p.real.Get()
	}
	core.Point(core.KOnce, unsafe.Pointer(p), nil)
	if core.Exiting() {
		return nil
	}
	p.fresh()
	if n := len(p.items); n > 0 {
		it := p.items[n-1]
		p.items = p.items[:n-1]
		core.Acquire(&it.vc)
		core.Done(core.KOnce, unsafe.Pointer(p), 1)
		return it.v
	}
	core.Done(core.KOnce, unsafe.Pointer(p), 2)
	if p.New != nil {
		return p.New()
	}
	return nil
}

func (p *Pool) Put(x any) {
	if !core.Controlled {
		p.real.Put(x)
		return
	}
	core.Point(core.KOnce, unsafe.Pointer(p), nil)
	if core.Exiting() || x == nil {
		return
	}
	p.fresh()
	it := poolItem{v: x}
	core.Release(&it.vc, false)
	p.items = append(p.items, it)
	core.Done(core.KOnce, unsafe.Pointer(p), 3)
}

// OnceFunc / OnceValue as in the original, built on the scheduler-owned Once.
func OnceFunc(f func()) func() {
	var o Once
	return func() { o.Do(f) }
}

func OnceValue[T any](f func() T) func() T {
	var o Once
	var v T
	return func() T {
		o.Do(func() { v = f() })
		return v
	}
}

// Map: the API of sync.Map over a plain map; every method is one atomic step.
type Map struct {
	real sync.Map
	m    map[any]any
	keys []any // insertion order: Range is deterministic
	vc   core.VC
}

func (m *Map) step(arg uint64, f func()) {
	core.Point(core.KOnce, unsafe.Pointer(m), nil)
	if core.Exiting() {
		return
	}
	if m.m == nil {
		m.m = map[any]any{}
	}
	core.Acquire(&m.vc)
	f()
	core.Release(&m.vc, true)
	core.Done(core.KOnce, unsafe.Pointer(m), arg)
}

func (m *Map) Load(key any) (value any, ok bool) {
	if !core.Controlled {
		return m.real.Load(key)
	}
	m.step(1, func() { value, ok = m.m[key] })
	return
}

func (m *Map) Store(key, value any) {
	if !core.Controlled {
		m.real.Store(key, value)
		return
	}
	m.step(2, func() { m.put(key, value) })
}

func (m *Map) put(key, value any) {
	if _, ok := m.m[key]; !ok {
		m.keys = append(m.keys, key)
	}
	m.m[key] = value
}

func (m *Map) del(key any) {
	if _, ok := m.m[key]; ok {
		delete(m.m, key)
		for i, k := range m.keys {
			if k == key {
				m.keys = append(m.keys[:i:i], m.keys[i+1:]...)
				break
			}
		}
	}
}

func (m *Map) LoadOrStore(key, value any) (actual any, loaded bool) {
	if !core.Controlled {
		return m.real.LoadOrStore(key, value)
	}
	m.step(3, func() {
		if actual, loaded = m.m[key]; !loaded {
			m.put(key, value)
			actual = value
		}
	})
	return
}

func (m *Map) LoadAndDelete(key any) (value any, loaded bool) {
	if !core.Controlled {
		return m.real.LoadAndDelete(key)
	}
	m.step(4, func() {
		value, loaded = m.m[key]
		m.del(key)
	})
	return
}

func (m *Map) Delete(key any) { m.LoadAndDelete(key) }

func (m *Map) Swap(key, value any) (previous any, loaded bool) {
	if !core.Controlled {
		return m.real.Swap(key, value)
	}
	m.step(5, func() {
		previous, loaded = m.m[key]
		m.put(key, value)
	})
	return
}

func (m *Map) CompareAndSwap(key, old, new any) (swapped bool) {
	if !core.Controlled {
		return m.real.CompareAndSwap(key, old, new)
	}
	m.step(6, func() {
		if v, ok := m.m[key]; ok && v == old {
			m.m[key] = new
			swapped = true
		}
	})
	return
}

func (m *Map) CompareAndDelete(key, old any) (deleted bool) {
	if !core.Controlled {
		return m.real.CompareAndDelete(key, old)
	}
	m.step(7, func() {
		if v, ok := m.m[key]; ok && v == old {
			m.del(key)
			deleted = true
		}
	})
	return
}

// Range visits the keys present when each is reached (one step per visited key, like the
// original it is not a snapshot).
func (m *Map) Range(f func(key, value any) bool) {
	if !core.Controlled {
		m.real.Range(f)
		return
	}
	var keys []any
	m.step(8, func() { keys = append(keys, m.keys...) })
	for _, k := range keys {
		v, ok := m.Load(k)
		if ok && !f(k, v) {
			return
		}
	}
}

func (m *Map) Clear() {
	if !core.Controlled {
		m.real.Range(func(k, _ any) bool { m.real.Delete(k); return true })
		return
	}
	m.step(9, func() { m.m, m.keys = map[any]any{}, nil })
}

// Cond: Wait releases L, blocks until a Signal / Broadcast issued after it started waiting, and
// re-acquires L. Signal wakes the longest waiter.
type Cond struct {
	L Locker

	waiting []*condWaiter
}

type condWaiter struct{ woken bool }

func NewCond(l Locker) *Cond { return &Cond{L: l} }

func (c *Cond) Wait() {
	if !core.Controlled {
		panic("vsync.Cond is only available under the scheduler")
	}
	w := &condWaiter{}
	c.waiting = append(c.waiting, w)
	c.L.Unlock()
	core.Point(core.KWGWait, unsafe.Pointer(c), func() bool { return w.woken })
	if core.Exiting() {
		return
	}
	core.Done(core.KWGWait, unsafe.Pointer(c), 0)
	c.L.Lock()
}

func (c *Cond) Signal() {
	core.Point(core.KWGAdd, unsafe.Pointer(c), nil)
	if core.Exiting() {
		return
	}
	if len(c.waiting) > 0 {
		c.waiting[0].woken = true
		c.waiting = c.waiting[1:]
	}
	core.Done(core.KWGAdd, unsafe.Pointer(c), 1)
}

func (c *Cond) Broadcast() {
	core.Point(core.KWGAdd, unsafe.Pointer(c), nil)
	if core.Exiting() {
		return
	}
	for _, w := range c.waiting {
		w.woken = true
	}
	c.waiting = nil
	core.Done(core.KWGAdd, unsafe.Pointer(c), 2)
}
