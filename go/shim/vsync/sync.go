// Package vsync has the API of sync (Mutex, RWMutex, WaitGroup, Once, Locker). Under the
// scheduler Lock/Unlock/Wait/... are scheduling points whose enabledness the scheduler computes
// from the state kept here, so nothing ever blocks inside the Go runtime. Zero values behave
// like the originals, misuse fails like the originals (unlock of unlocked mutex, negative
// WaitGroup counter).
package vsync

import (
	"sync"
	"unsafe"

	"github.com/welllog/golib/vshim/core"
)

type Locker = sync.Locker

type Mutex struct {
	real   sync.Mutex
	locked bool
}

func (m *Mutex) Lock() {
	if !core.Controlled {
		m.real.Lock()
		return
	}
	core.Point(core.KLock, unsafe.Pointer(m), func() bool { return !m.locked })
	if core.Exiting() {
		return
	}
	if m.locked {
		panic("vsync: Lock of a locked Mutex in a sequential phase (would block forever)")
	}
	m.locked = true
	core.Done(core.KLock, unsafe.Pointer(m), 0)
}

func (m *Mutex) TryLock() bool {
	if !core.Controlled {
		return m.real.TryLock()
	}
	core.Point(core.KLock, unsafe.Pointer(m), nil)
	if core.Exiting() {
		return false
	}
	if m.locked {
		core.Done(core.KCASFail, unsafe.Pointer(m), 0)
		return false
	}
	m.locked = true
	core.Done(core.KLock, unsafe.Pointer(m), 0)
	return true
}

func (m *Mutex) Unlock() {
	if !core.Controlled {
		m.real.Unlock()
		return
	}
	core.Point(core.KUnlock, unsafe.Pointer(m), nil)
	if core.Exiting() {
		return
	}
	if !m.locked {
		panic("sync: unlock of unlocked mutex")
	}
	m.locked = false
	core.Done(core.KUnlock, unsafe.Pointer(m), 0)
}

type RWMutex struct {
	real    sync.RWMutex
	writer  bool
	readers int
}

func (m *RWMutex) Lock() {
	if !core.Controlled {
		m.real.Lock()
		return
	}
	core.Point(core.KLock, unsafe.Pointer(m), func() bool { return !m.writer && m.readers == 0 })
	if core.Exiting() {
		return
	}
	if m.writer || m.readers != 0 {
		panic("vsync: Lock of a held RWMutex in a sequential phase (would block forever)")
	}
	m.writer = true
	core.Done(core.KLock, unsafe.Pointer(m), 0)
}

func (m *RWMutex) Unlock() {
	if !core.Controlled {
		m.real.Unlock()
		return
	}
	core.Point(core.KUnlock, unsafe.Pointer(m), nil)
	if core.Exiting() {
		return
	}
	if !m.writer {
		panic("sync: Unlock of unlocked RWMutex")
	}
	m.writer = false
	core.Done(core.KUnlock, unsafe.Pointer(m), 0)
}

func (m *RWMutex) RLock() {
	if !core.Controlled {
		m.real.RLock()
		return
	}
	core.Point(core.KRLock, unsafe.Pointer(m), func() bool { return !m.writer })
	if core.Exiting() {
		return
	}
	if m.writer {
		panic("vsync: RLock of a write-locked RWMutex in a sequential phase (would block forever)")
	}
	m.readers++
	core.Done(core.KRLock, unsafe.Pointer(m), 0)
}

func (m *RWMutex) RUnlock() {
	if !core.Controlled {
		m.real.RUnlock()
		return
	}
	core.Point(core.KRUnlock, unsafe.Pointer(m), nil)
	if core.Exiting() {
		return
	}
	if m.readers <= 0 {
		panic("sync: RUnlock of unlocked RWMutex")
	}
	m.readers--
	core.Done(core.KRUnlock, unsafe.Pointer(m), 0)
}

func (m *RWMutex) RLocker() Locker { return (*rlocker)(m) }

type rlocker RWMutex

func (r *rlocker) Lock()   { (*RWMutex)(r).RLock() }
func (r *rlocker) Unlock() { (*RWMutex)(r).RUnlock() }

type WaitGroup struct {
	real sync.WaitGroup
	n    int
	vc   core.VC
}

func (w *WaitGroup) Add(delta int) {
	if !core.Controlled {
		w.real.Add(delta)
		return
	}
	core.Point(core.KWGAdd, unsafe.Pointer(w), nil)
	if core.Exiting() {
		return
	}
	w.n += delta
	if w.n < 0 {
		panic("sync: negative WaitGroup counter")
	}
	core.Release(&w.vc, true)
	core.Done(core.KWGAdd, unsafe.Pointer(w), uint64(int64(delta)))
}

func (w *WaitGroup) Done() { w.Add(-1) }

func (w *WaitGroup) Wait() {
	if !core.Controlled {
		w.real.Wait()
		return
	}
	core.Point(core.KWGWait, unsafe.Pointer(w), func() bool { return w.n == 0 })
	if core.Exiting() {
		return
	}
	if w.n != 0 {
		panic("vsync: WaitGroup.Wait with a non-zero counter in a sequential phase (would block forever)")
	}
	core.Acquire(&w.vc)
	core.Done(core.KWGWait, unsafe.Pointer(w), 0)
}

type Once struct {
	real sync.Once
	done bool
	m    Mutex
}

func (o *Once) Do(f func()) {
	if !core.Controlled {
		o.real.Do(f)
		return
	}
	o.m.Lock()
	defer o.m.Unlock()
	if !o.done {
		defer func() { o.done = true }()
		f()
	}
}
