package vsync

import (
	"testing"

	"github.com/welllog/golib/vshim/core"
)

func mustPanic(t *testing.T, name string, f func()) {
	t.Helper()
	defer func() {
		if recover() == nil {
			t.Fatalf("%s: expected a panic like the original primitive", name)
		}
	}()
	f()
}

// Shim fidelity: zero values work, misuse fails where the originals fail (controlled mode,
// sequential phase — the mode in which harness set-up code runs).
func TestFidelityControlled(t *testing.T) {
	core.Controlled = true
	defer func() { core.Controlled = false }()
	var m Mutex
	m.Lock()
	m.Unlock()
	mustPanic(t, "unlock of unlocked mutex", func() { m.Unlock() })
	var rw RWMutex
	rw.RLock()
	rw.RLock()
	rw.RUnlock()
	rw.RUnlock()
	mustPanic(t, "RUnlock of unlocked RWMutex", func() { rw.RUnlock() })
	rw.Lock()
	rw.Unlock()
	mustPanic(t, "Unlock of unlocked RWMutex", func() { rw.Unlock() })
	var wg WaitGroup
	wg.Add(1)
	wg.Done()
	wg.Wait()
	mustPanic(t, "negative WaitGroup counter", func() { wg.Done() })
	var o Once
	n := 0
	o.Do(func() { n++ })
	o.Do(func() { n++ })
	if n != 1 {
		t.Fatalf("Once ran %d times", n)
	}
}

func TestPassThrough(t *testing.T) {
	var m Mutex
	m.Lock()
	if m.TryLock() {
		t.Fatal("TryLock succeeded on a locked mutex")
	}
	m.Unlock()
	var wg WaitGroup
	wg.Add(2)
	go wg.Done()
	go wg.Done()
	wg.Wait()
}
