// Package vmap turns Go's randomised map iteration order into an environment answer the
// explorer owns: `for k, v := range m` is rewritten to `for k, v := range vmap.Range(m)`.
package vmap

import (
	"fmt"
	"iter"
	"sort"
)

// Choose, when set, picks the iteration order for one range loop over n keys (already sorted
// ascending): it returns a permutation of 0..n-1 (nil = ascending). call counts range loops.
var Choose func(call int, n int) []int

var calls int

// Reset restarts the call counter (start of one execution).
func Reset() { calls = 0 }

// Calls returns the number of range loops executed since Reset.
func Calls() int { return calls }

func less(a, b any) bool {
	switch x := a.(type) {
	case int:
		return x < b.(int)
	case string:
		return x < b.(string)
	case uint32:
		return x < b.(uint32)
	case int64:
		return x < b.(int64)
	}
	return fmt.Sprint(a) < fmt.Sprint(b)
}

// Range iterates over m like the range statement does (entries deleted before they are
// reached are skipped, entries inserted during the loop are not produced), in the chosen order.
func Range[M ~map[K]V, K comparable, V any](m M) iter.Seq2[K, V] {
	if Choose == nil {
		return func(yield func(K, V) bool) {
			for k, v := range m {
				if !yield(k, v) {
					return
				}
			}
		}
	}
	return func(yield func(K, V) bool) {
		keys := make([]K, 0, len(m))
		for k := range m {
			keys = append(keys, k)
		}
		sort.Slice(keys, func(i, j int) bool { return less(keys[i], keys[j]) })
		call := calls
		calls++
		perm := Choose(call, len(keys))
		for i := range keys {
			k := keys[i]
			if perm != nil {
				k = keys[perm[i]]
			}
			v, ok := m[k]
			if !ok {
				continue
			}
			if !yield(k, v) {
				return
			}
		}
	}
}
