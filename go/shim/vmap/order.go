// Package vmap turns Go's randomised map iteration order into an environment answer the
// explorer owns: `for k, v := range m` in instrumented files is rewritten to
// `for k, v := range vmap.Range(m)`. The process-wide Env chooses the
// order of every range loop; without one the runtime's own order is used.
package vmap

import (
	"fmt"
	"iter"
	"sort"
)

// Env is the map-order environment of one goroutine.
type Env struct {
	// Choose picks the iteration order for range loop number `call` (0-based since Reset) over n
	// keys sorted ascending: it returns a permutation of 0..n-1, or nil for ascending order.
	Choose func(call int, n int) []int
	Calls  int   // range loops executed since Reset
	Sizes  []int // number of keys of each of them
}

func (e *Env) Reset() { e.Calls = 0; e.Sizes = e.Sizes[:0] }

// Global is the environment of this process (nil = the runtime's own order). Harnesses that
// use it run their enumeration single-threaded (one process per shard).
var Global *Env

func current() *Env { return Global }

func less(a, b any) bool {
	switch x := a.(type) {
	case int:
		return x < b.(int)
	case string:
		return x < b.(string)
	case uint32:
		return x < b.(uint32)
	case int64:
		return x < b.(int64)
	}
	return fmt.Sprint(a) < fmt.Sprint(b)
}

// Range iterates over m like the range statement does (entries deleted before they are
// reached are skipped, entries inserted during the loop are not produced), in the chosen order.
func Range[M ~map[K]V, K comparable, V any](m M) iter.Seq2[K, V] {
	e := current()
	if e == nil {
		return func(yield func(K, V) bool) {
			for k, v := range m {
				if !yield(k, v) {
					return
				}
			}
		}
	}
	return func(yield func(K, V) bool) {
		keys := make([]K, 0, len(m))
		vals := map[int]V{} // values of keys that are not equal to themselves (NaN): they cannot be looked up again
		for k, v := range m {
			if k != k {
				vals[len(keys)] = v
			}
			keys = append(keys, k)
		}
		idx := make([]int, len(keys))
		for i := range idx {
			idx[i] = i
		}
		sort.SliceStable(idx, func(i, j int) bool { return less(keys[idx[i]], keys[idx[j]]) })
		call := e.Calls
		e.Calls++
		e.Sizes = append(e.Sizes, len(keys))
		var perm []int
		if e.Choose != nil {
			perm = e.Choose(call, len(keys))
		}
		for i := range idx {
			j := idx[i]
			if perm != nil {
				j = idx[perm[i]]
			}
			k := keys[j]
			v, ok := m[k]
			if k != k {
				v, ok = vals[j], len(m) > 0 // such an entry only disappears when the whole map is cleared
			}
			if !ok {
				continue
			}
			if !yield(k, v) {
				return
			}
		}
	}
}
