// Package vruntime redirects runtime.Gosched to the scheduler's fair yield.
package vruntime

import (
	"runtime"

	"github.com/welllog/golib/vshim/core"
)

func Gosched() {
	if !core.Controlled {
		runtime.Gosched()
		return
	}
	core.Yield()
}
