package vchan

import (
	"testing"

	"github.com/welllog/golib/vshim/core"
)

func TestChanControlledSequential(t *testing.T) {
	core.Controlled = true
	defer func() { core.Controlled = false }()
	c := Make[int](2)
	c.Send(1)
	c.Send(2)
	if c.Len() != 2 || c.Cap() != 2 {
		t.Fatal("len/cap")
	}
	if v := c.Recv(); v != 1 {
		t.Fatalf("got %d", v)
	}
	if v, ok := c.Recv2(); v != 2 || !ok {
		t.Fatalf("got %d %v", v, ok)
	}
	c.Close()
	if _, ok := c.Recv2(); ok {
		t.Fatal("receive from closed empty channel reported ok")
	}
	func() {
		defer func() {
			if recover() == nil {
				t.Fatal("send on closed channel must panic")
			}
		}()
		c.Send(3)
	}()
}

func TestChanPassThrough(t *testing.T) {
	c := Make[int](1)
	go c.Send(7)
	if v := c.Recv(); v != 7 {
		t.Fatal(v)
	}
}
