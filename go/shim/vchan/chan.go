// Package vchan models buffered channels stored in struct fields of instrumented files.
// Send and Recv are blocking scheduling points (enabled iff the buffer is not full / not empty).
package vchan

import (
	"unsafe"

	"github.com/welllog/golib/vshim/core"
)

type Chan[T any] struct {
	real   chan T
	buf    []T
	clk    []core.VC // clock travelling with each buffered message
	cap    int
	closed bool
	sent   int
	recvd  int
	slot   []core.VC // clock of the receive that freed slot i (k-th receive happens before the (k+cap)-th send completes)
}

func Make[T any](n int) *Chan[T] {
	if !core.Controlled {
		return &Chan[T]{real: make(chan T, n), cap: n}
	}
	if n <= 0 {
		panic("vchan: unbuffered channels are not modelled")
	}
	return &Chan[T]{cap: n, slot: make([]core.VC, n)}
}

func (c *Chan[T]) Send(v T) {
	if !core.Controlled {
		c.real <- v
		return
	}
	if c == nil {
		core.Point(core.KSend, nil, func() bool { return false })
		return
	}
	core.Point(core.KSend, unsafe.Pointer(c), func() bool { return c.closed || len(c.buf) < c.cap })
	if core.Exiting() {
		return
	}
	if c.closed {
		panic("send on closed channel")
	}
	if len(c.buf) >= c.cap {
		panic("vchan: send on a full channel in a sequential phase (would block forever)")
	}
	core.Acquire(&c.slot[c.sent%c.cap])
	var vc core.VC
	core.Release(&vc, false)
	c.buf = append(c.buf, v)
	c.clk = append(c.clk, vc)
	c.sent++
	core.Done(core.KSend, unsafe.Pointer(c), 0)
}

func (c *Chan[T]) Recv() T {
	v, _ := c.Recv2()
	return v
}

func (c *Chan[T]) Recv2() (T, bool) {
	var zero T
	if !core.Controlled {
		v, ok := <-c.real
		return v, ok
	}
	if c == nil {
		core.Point(core.KRecv, nil, func() bool { return false })
		return zero, false
	}
	core.Point(core.KRecv, unsafe.Pointer(c), func() bool { return c.closed || len(c.buf) > 0 })
	if core.Exiting() {
		return zero, false
	}
	if len(c.buf) == 0 {
		if c.closed {
			core.Done(core.KRecv, unsafe.Pointer(c), 0)
			return zero, false
		}
		panic("vchan: receive from an empty channel in a sequential phase (would block forever)")
	}
	v := c.buf[0]
	core.Acquire(&c.clk[0])
	c.buf = c.buf[1:]
	c.clk = c.clk[1:]
	core.Release(&c.slot[c.recvd%c.cap], false)
	c.recvd++
	core.Done(core.KRecv, unsafe.Pointer(c), 0)
	return v, true
}

func (c *Chan[T]) Close() {
	if !core.Controlled {
		close(c.real)
		return
	}
	core.Point(core.KClose, unsafe.Pointer(c), nil)
	if core.Exiting() {
		return
	}
	if c.closed {
		panic("close of closed channel")
	}
	c.closed = true
	core.Done(core.KClose, unsafe.Pointer(c), 0)
}

func (c *Chan[T]) Len() int {
	if !core.Controlled {
		return len(c.real)
	}
	if c == nil {
		return 0
	}
	return len(c.buf)
}

func (c *Chan[T]) Cap() int {
	if c == nil {
		return 0
	}
	return c.cap
}
